"""Conversions between the implementation's metadata objects and the tagged JSON of the Lean line protocol."""
import re
from inspect import isclass

from json_to_models.dynamic_typing import (
    DDict, DList, DOptional, DTuple, DUnion, ModelMeta, ModelPtr, Null, StringLiteral, StringSerializable, Unknown,
)
from json_to_models.dynamic_typing import (
    BooleanString, FloatString, IntString, IsoDateString, IsoDatetimeString, IsoTimeString,
    StringSerializableRegistry,
)
from json_to_models.dynamic_typing.base import NoneType, UnknownType

SER_CLASSES = {c.__name__: c for c in
               (IntString, FloatString, BooleanString, IsoDateString, IsoTimeString, IsoDatetimeString)}
_ATOMS = {int: "int", float: "float", bool: "bool", str: "str"}
_ATOMS_REV = {v: k for k, v in _ATOMS.items()}


def enc_json(v):
    """Python value (as produced by json.load) -> tagged value"""
    if v is None:
        return ["n"]
    t = type(v)
    if t is bool:
        return ["b", v]
    if t is int:
        return ["i", str(v)]
    if t is float:
        return ["f"]
    if t is str:
        return ["s", v]
    if t is list:
        return ["a", [enc_json(x) for x in v]]
    if isinstance(v, dict):
        return ["o", [[k, enc_json(x)] for k, x in v.items()]]
    raise TypeError(f"not a JSON value: {t}")


def enc_ty(t):
    """implementation metadata -> tagged type"""
    if isclass(t):
        if t in _ATOMS:
            return _ATOMS[t]
        if issubclass(t, StringSerializable):
            return ["ser", t.__name__]
        raise TypeError(f"unexpected class {t}")
    if isinstance(t, dict):
        return ["obj", [[k, enc_ty(v)] for k, v in t.items()]]
    if isinstance(t, UnknownType):
        return "unknown"
    if isinstance(t, NoneType):
        return "null"
    if isinstance(t, StringLiteral):
        return ["lit", bool(t.overflowed), sorted(t.literals)]
    if isinstance(t, ModelPtr):
        return ["ptr", t.type.index]
    if isinstance(t, ModelMeta):
        return ["model", t.index]
    cls = type(t)
    if cls is DList:
        return ["list", enc_ty(t.type)]
    if cls is DDict:
        return ["dict", enc_ty(t.type)]
    if cls is DOptional:
        return ["opt", enc_ty(t.type)]
    if cls is DUnion:
        return ["union", [enc_ty(x) for x in t.types]]
    if cls is DTuple:
        return ["tuple", [enc_ty(x) for x in t.types]]
    raise TypeError(f"unexpected metadata {t!r}")


class RawUnion(DUnion):
    """A DUnion whose member list is set verbatim (no constructor normalisation) — to build arbitrary IR terms."""

    def __init__(self, *types):
        super(DUnion, self).__init__(*types)


def dec_ty(j, ser_classes=None):
    """tagged type -> fresh implementation metadata (ModelPtr is not supported here)"""
    sc = ser_classes or SER_CLASSES
    if isinstance(j, str):
        if j in _ATOMS_REV:
            return _ATOMS_REV[j]
        if j == "null":
            return Null
        if j == "unknown":
            return Unknown
        raise ValueError(j)
    tag = j[0]
    if tag == "ser":
        return sc[j[1]]
    if tag == "lit":
        if j[1]:
            lit = StringLiteral(set())
            lit._overflow = True
            lit._literals = frozenset()
            return lit
        return StringLiteral(set(j[2]))
    if tag == "list":
        return DList(dec_ty(j[1], sc))
    if tag == "dict":
        return DDict(dec_ty(j[1], sc))
    if tag == "opt":
        return DOptional(dec_ty(j[1], sc))
    if tag == "union":
        u = DUnion()
        u.types = [dec_ty(x, sc) for x in j[1]]
        return u
    if tag == "tuple":
        return DTuple(*[dec_ty(x, sc) for x in j[1]])
    if tag == "obj":
        return {k: dec_ty(v, sc) for k, v in j[1]}
    raise ValueError(j)


def reg_cfg(registry: StringSerializableRegistry):
    return {
        "types": [c.__name__ for c in registry.types],
        "replaces": sorted([a.__name__, b.__name__] for a, b in registry.replaces),
        "actual": [[c.__name__, c.actual_type.__name__] for c in registry.types],
    }


def regex_name(p):
    """the model treats a pattern as an opaque name into the match table; a compiled pattern is named with its flags"""
    return p if isinstance(p, str) else "%s\u27e8flags=%d\u27e9" % (p.pattern, p.flags)


def gen_cfg(registry, dict_fields=(), dict_regex=()):
    return {
        "maxLit": StringLiteral.MAX_LITERALS,
        "maxLen": StringLiteral.MAX_STRING_LENGTH,
        "reg": reg_cfg(registry),
        "dictFields": list(dict_fields),
        "dictRegex": [regex_name(p) for p in dict_regex],
    }


def walk_strings(v, values, keys):
    if isinstance(v, str):
        values.add(v)
    elif isinstance(v, list):
        for x in v:
            walk_strings(x, values, keys)
    elif isinstance(v, dict):
        for k, x in v.items():
            keys.add(k)
            walk_strings(x, values, keys)


def ty_keys(j, keys):
    """collect field names of a tagged type"""
    if isinstance(j, list):
        if j[0] == "obj":
            for k, v in j[1]:
                keys.add(k)
                ty_keys(v, keys)
        elif j[0] in ("list", "dict", "opt"):
            ty_keys(j[1], keys)
        elif j[0] in ("union", "tuple"):
            for x in j[1]:
                ty_keys(x, keys)


def accepts(cls, s):
    try:
        cls.to_internal_value(s)
    except ValueError:
        return False
    return True


def oracles(registry, values=(), keys=(), dict_regex=(), extra_classes=()):
    """oracle tables recorded from the third-party behaviour the implementation composes"""
    acc = []
    for cls in list(registry.types) + list(extra_classes):
        for s in values:
            acc.append([cls.__name__, s, accepts(cls, s)])
    rex = []
    for p in dict_regex:
        c = re.compile(p)          # a compiled pattern is returned as it is
        for k in keys:
            rex.append([regex_name(p), k, c.match(k) is not None])
    nonprint = sorted({ord(ch) for k in keys for ch in k if ord(ch) > 127 and not ch.isprintable()})
    ser_str = [[c.__name__, str(c)] for c in list(registry.types) + list(SER_CLASSES.values())]
    seen = set()
    ser_str = [p for p in ser_str if not (p[0] in seen or seen.add(p[0]))]
    return {"acc": acc, "re": rex, "nonprint": nonprint, "serStr": ser_str}
