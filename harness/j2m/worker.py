"""Fresh-process worker: reads a JSON list of library-pipeline cases on stdin, writes the outputs as JSON.
Used to observe the real code under different PYTHONHASHSEED values / in fresh processes."""
import json
import os
import sys


def cmps_from(enc):
    from json_to_models.registry import ModelFieldsEquals, ModelFieldsNumberMatch, ModelFieldsPercentMatch
    from .stages import TableCmp
    out = []
    for c in enc:
        if c[0] == "exact":
            out.append(ModelFieldsEquals())
        elif c[0] == "percent":
            out.append(ModelFieldsPercentMatch(c[1] / c[2]))
        elif c[0] == "number":
            out.append(ModelFieldsNumberMatch(c[1]))
        elif c[0] == "table":
            out.append(TableCmp(c[1]))
    return out


def run_case(case):
    from . import stages
    registry = stages.make_registry(tuple(case.get("kinds", ("IntString", "FloatString", "BooleanString"))),
                                    datetime=case.get("datetime", False))
    inputs = [tuple(x) for x in case["inputs"]]
    try:
        reg, _ = stages.build_registry(inputs, registry, cmps_from(case["cmps"]), case.get("dictFields", ()),
                                       case.get("dictRegex", ()))
        return {"text": stages.render_impl(reg, case["job"])}
    except Exception as e:  # noqa
        return {"err": type(e).__name__ + ": " + str(e)[:200]}


def main():
    cases = json.load(sys.stdin)
    out = [run_case(c) for c in cases]
    json.dump(out, sys.stdout)


def run_in_fresh_process(cases, hashseed=None, repo=None, timeout=600):
    import subprocess
    env = dict(os.environ)
    if hashseed is not None:
        env["PYTHONHASHSEED"] = str(hashseed)
    here = os.path.dirname(os.path.dirname(os.path.abspath(__file__)))
    env["PYTHONPATH"] = here + os.pathsep + (repo or os.environ.get("J2M_REPO", "/repo"))
    p = subprocess.run([sys.executable, "-m", "j2m.worker"], input=json.dumps(cases).encode("utf-8"), env=env,
                       stdout=subprocess.PIPE, stderr=subprocess.PIPE, timeout=timeout)
    if p.returncode != 0:
        raise RuntimeError("worker failed: " + p.stderr.decode("utf-8", "replace")[-1500:])
    return json.loads(p.stdout.decode("utf-8"))


if __name__ == "__main__":
    main()
