"""Fresh-process worker: reads a JSON list of library-pipeline cases on stdin, writes the outputs as JSON.
Used to observe the real code under different PYTHONHASHSEED values / in fresh processes."""
import json
import os
import sys


def cmps_from(enc):
    from json_to_models.registry import ModelFieldsEquals, ModelFieldsNumberMatch, ModelFieldsPercentMatch
    from .stages import TableCmp
    out = []
    for c in enc:
        if c[0] == "exact":
            out.append(ModelFieldsEquals())
        elif c[0] == "percent":
            out.append(ModelFieldsPercentMatch(c[1] / c[2]))
        elif c[0] == "number":
            out.append(ModelFieldsNumberMatch(c[1]))
        elif c[0] == "table":
            out.append(TableCmp(c[1]))
    return out


def run_case(case):
    from . import stages
    registry = None if case.get("defaultRegistry") else \
        stages.make_registry(tuple(case.get("kinds", ("IntString", "FloatString", "BooleanString"))),
                             datetime=case.get("datetime", False))
    inputs = [tuple(x) for x in case["inputs"]]
    try:
        reg, _ = stages.build_registry(inputs, registry, cmps_from(case["cmps"]), case.get("dictFields", ()),
                                       case.get("dictRegex", ()))
        return {"text": stages.render_impl(reg, case["job"])}
    except Exception as e:  # noqa
        return {"err": type(e).__name__ + ": " + str(e)[:200]}


def run_case_phased(case, barrier):
    """the same pipeline as run_case; the threads of a batch meet once between inference and rendering, so that the
    rendering phases (the part that reads process-wide state) overlap — one of the schedules a user's threads can take"""
    from . import stages
    reg = None
    err = None
    try:
        registry = None if case.get("defaultRegistry") else \
            stages.make_registry(tuple(case.get("kinds", ("IntString", "FloatString", "BooleanString"))),
                                 datetime=case.get("datetime", False))
        reg, _ = stages.build_registry([tuple(x) for x in case["inputs"]], registry, cmps_from(case["cmps"]),
                                       case.get("dictFields", ()), case.get("dictRegex", ()))
    except Exception as e:  # noqa
        err = {"err": type(e).__name__ + ": " + str(e)[:200]}
    try:
        barrier.wait(timeout=120)
    except Exception:  # noqa
        pass
    if err:
        return err
    try:
        return {"text": stages.render_impl(reg, case["job"])}
    except Exception as e:  # noqa
        return {"err": type(e).__name__ + ": " + str(e)[:200]}


def run_threads(batches):
    """each batch: a list of cases run concurrently, one thread per case, under a minimal switch interval;
    also each case alone in a fresh worker thread. Returns per batch: {"concurrent": [...], "worker": [...]}"""
    import threading
    sys.setswitchinterval(1e-6)
    out = []
    for cases in batches:
        res = [None] * len(cases)
        barrier = threading.Barrier(len(cases))

        def work(i):
            barrier.wait()
            res[i] = run_case(cases[i])

        ts = [threading.Thread(target=work, args=(i,)) for i in range(len(cases))]
        for t in ts:
            t.start()
        for t in ts:
            t.join()
        res2 = [None] * len(cases)
        barrier2 = threading.Barrier(len(cases))

        def work2(i):
            res2[i] = run_case_phased(cases[i], barrier2)

        ts = [threading.Thread(target=work2, args=(i,)) for i in range(len(cases))]
        for t in ts:
            t.start()
        for t in ts:
            t.join()
        solo = []
        for c in cases[:2]:
            box = []
            t = threading.Thread(target=lambda: box.append(run_case(c)))
            t.start()
            t.join()
            solo.append(box[0] if box else {"err": "thread died"})
        out.append({"concurrent": res, "phased": res2, "worker": solo})
    return out


def run_history(history):
    """a list of calls executed in this one process, in order; each call is a case, optionally sharing the
    registry built by an earlier call (`reuse`: index of that call)"""
    from . import stages
    regs = []
    out = []
    for call in history:
        try:
            if call.get("reuse") is not None and regs[call["reuse"]] is not None:
                reg = regs[call["reuse"]]
            else:
                registry = None if call.get("defaultRegistry") else \
                    stages.make_registry(tuple(call.get("kinds", ("IntString", "FloatString", "BooleanString"))),
                                         datetime=call.get("datetime", False))
                reg, _ = stages.build_registry([tuple(x) for x in call["inputs"]], registry, cmps_from(call["cmps"]),
                                               call.get("dictFields", ()), call.get("dictRegex", ()))
            regs.append(reg)
            out.append({"text": stages.render_impl(reg, call["job"])})
        except Exception as e:  # noqa
            if len(regs) < len(out) + 1:
                regs.append(None)
            out.append({"err": type(e).__name__})
    return out


def main():
    mode = sys.argv[1] if len(sys.argv) > 1 else "cases"
    data = json.load(sys.stdin)
    if mode == "threads":
        out = run_threads(data)
    elif mode == "history":
        out = run_history(data)
    else:
        out = [run_case(c) for c in data]
    json.dump(out, sys.stdout)


def run_in_fresh_process(cases, hashseed=None, repo=None, timeout=600, mode="cases"):
    import subprocess
    env = dict(os.environ)
    if hashseed is not None:
        env["PYTHONHASHSEED"] = str(hashseed)
    here = os.path.dirname(os.path.dirname(os.path.abspath(__file__)))
    env["PYTHONPATH"] = here + os.pathsep + (repo or os.environ.get("J2M_REPO", "/repo"))
    p = subprocess.run([sys.executable, "-m", "j2m.worker", mode], input=json.dumps(cases).encode("utf-8"), env=env,
                       stdout=subprocess.PIPE, stderr=subprocess.PIPE, timeout=timeout)
    if p.returncode != 0:
        raise RuntimeError("worker failed: " + p.stderr.decode("utf-8", "replace")[-1500:])
    return json.loads(p.stdout.decode("utf-8"))


if __name__ == "__main__":
    main()
