"""Independent Python reading of C08's normal form on tagged types and on annotation source text."""
import ast


def nf_violations(t, path="$", out=None):
    out = [] if out is None else out
    if isinstance(t, str):
        return out
    tag = t[0]
    if tag == "lit":
        if t[1]:
            out.append(f"{path}: overflowed literal survives")
        elif not t[2]:
            out.append(f"{path}: empty literal survives")
    elif tag in ("list", "dict"):
        nf_violations(t[1], path + "/" + tag, out)
    elif tag == "opt":
        if isinstance(t[1], list) and t[1][0] == "opt":
            out.append(f"{path}: Optional nested in Optional")
        nf_violations(t[1], path + "/opt", out)
    elif tag == "union":
        ms = t[1]
        if len(ms) == 0:
            out.append(f"{path}: empty union")
        if len(ms) == 1:
            out.append(f"{path}: union of a single member")
        tags = [m if isinstance(m, str) else m[0] for m in ms]
        if "union" in tags:
            out.append(f"{path}: union not flat")
        if "null" in tags or "opt" in tags:
            out.append(f"{path}: null/Optional inside a union")
        if "int" in tags and "float" in tags:
            out.append(f"{path}: int next to float")
        if "str" in tags and ("lit" in tags or "ser" in tags):
            out.append(f"{path}: str next to literal/pseudo-type")
        canon = [repr(m) for m in ms]
        if len(set(canon)) != len(canon):
            out.append(f"{path}: duplicate union members")
        for m in ms:
            nf_violations(m, path + "/union", out)
    elif tag == "tuple":
        for m in t[1]:
            nf_violations(m, path + "/tuple", out)
    elif tag == "obj":
        for k, v in t[1]:
            nf_violations(v, path + "." + k, out)
    return out


def annotation_violations(text):
    """scan the annotations of emitted source for the textual symptoms of a non-normal type"""
    out = []
    tree = ast.parse(text)

    def name_of(n):
        if isinstance(n, ast.Name):
            return n.id
        if isinstance(n, ast.Attribute):
            return n.attr
        return None

    def members(sl):
        return list(sl.elts) if isinstance(sl, ast.Tuple) else [sl]

    def walk(n, where):
        if isinstance(n, ast.Subscript):
            nm = name_of(n.value)
            ms = members(n.slice)
            if nm == "Union":
                if len(ms) < 2:
                    out.append(f"{where}: Union of {len(ms)}")
                names = [name_of(m) if not isinstance(m, ast.Subscript) else name_of(m.value) for m in ms]
                consts = [m.value for m in ms if isinstance(m, ast.Constant)]
                if None in consts or "Optional" in names:
                    out.append(f"{where}: None/Optional inside Union")
                if "Union" in names:
                    out.append(f"{where}: nested Union")
                if "int" in names and "float" in names:
                    out.append(f"{where}: int next to float")
                if "str" in names and ("Literal" in names or any(x and x.endswith("String") for x in names)):
                    out.append(f"{where}: str next to Literal/pseudo-type")
                dumped = [ast.dump(m) for m in ms]
                if len(set(dumped)) != len(dumped):
                    out.append(f"{where}: duplicate Union members")
            if nm == "Optional" and len(ms) == 1 and isinstance(ms[0], ast.Subscript) and name_of(ms[0].value) == "Optional":
                out.append(f"{where}: Optional[Optional[...]]")
            if nm == "Literal":
                if not ms or (isinstance(n.slice, ast.Tuple) and not n.slice.elts):
                    out.append(f"{where}: empty Literal")
                return
            for m in ms:
                walk(m, where)

    for node in ast.walk(tree):
        if isinstance(node, ast.AnnAssign):
            walk(node.annotation, getattr(node.target, "id", "?"))
    return out
