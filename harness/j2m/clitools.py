"""Running the real command line: in fresh subprocesses (the process boundary the properties name) and in-process."""
import datetime as _dt
import io
import json
import os
import subprocess
import sys
import tempfile
from concurrent.futures import ThreadPoolExecutor


def run_cli(argv, cwd, repo=None, hashseed=None, timeout=120):
    """`python -m json_to_models <argv>` in `cwd`; returns (exit status, stdout text, stderr tail)"""
    env = dict(os.environ)
    env["PYTHONPATH"] = repo or os.environ.get("J2M_REPO", "/repo")
    env["PYTHONIOENCODING"] = "utf-8"
    env.pop("TRAVIS", None)
    env.pop("FORCE_COVERAGE", None)
    if hashseed is not None:
        env["PYTHONHASHSEED"] = str(hashseed)
    p = subprocess.run([sys.executable, "-m", "json_to_models", *argv], cwd=cwd, env=env, stdout=subprocess.PIPE,
                       stderr=subprocess.PIPE, timeout=timeout)
    return p.returncode, p.stdout.decode("utf-8", "replace"), p.stderr.decode("utf-8", "replace")[-600:]


def run_many(jobs, workers=16):
    """jobs: list of (argv, cwd) -> list of results, in parallel"""
    with ThreadPoolExecutor(max_workers=workers) as ex:
        return list(ex.map(lambda j: run_cli(*j), jobs))


def strip_header(text):
    """text after the 4-line header (r\"\"\" / generated / command / \"\"\") — only meaningful when the header is well formed"""
    lines = text.split("\n")
    return "\n".join(lines[4:]) if len(lines) >= 4 and lines[0] == 'r"""' else None


def write_files(d, files):
    for name, content in files.items():
        path = os.path.join(d, name)
        os.makedirs(os.path.dirname(path), exist_ok=True)
        with open(path, "w", encoding="utf-8") as f:
            if isinstance(content, str):
                f.write(content)
            else:
                json.dump(content, f, ensure_ascii=False)


def version_string_impl(argv, ctime):
    """`Cli.version_string` with patched sys.argv and clock"""
    import json_to_models.cli as cli

    class FakeNow:
        def ctime(self):
            return ctime

    class FakeDatetime:
        @staticmethod
        def now():
            return FakeNow()

    old_argv, old_dt = sys.argv, cli.datetime
    sys.argv, cli.datetime = list(argv), FakeDatetime
    try:
        return cli.Cli().version_string
    finally:
        sys.argv, cli.datetime = old_argv, old_dt


_SEQ_DRIVER = r'''
import json, sys
from json_to_models.cli import Cli
argvs = json.load(sys.stdin)
def strip(text):
    lines = text.split("\n")
    return "\n".join(lines[4:]) if len(lines) >= 4 and lines[0] == 'r"""' else text
def run(cli, argv):
    try:
        cli.parse_args(argv)
        return {"ok": strip(cli.run())}
    except SystemExit as e:
        return {"err": "SystemExit"}
    except Exception as e:
        return {"err": type(e).__name__}
one = Cli()
reused = [run(one, a) for a in argvs]
fresh = [run(Cli(), a) for a in argvs]
json.dump({"reused": reused, "fresh_last": fresh[-1], "fresh_all": fresh}, sys.stdout)
'''


_REWRITE_DRIVER = r'''
import json, sys
from json_to_models.cli import Cli
steps = json.load(sys.stdin)
def strip(text):
    lines = text.split("\n")
    return "\n".join(lines[4:]) if len(lines) >= 4 and lines[0] == 'r"""' else text
out = []
for st in steps:
    if "write" in st:
        for name, content in st["write"].items():
            with open(name, "w", encoding="utf-8") as f:
                f.write(content)
        continue
    try:
        cli = Cli()
        cli.parse_args(st["argv"])
        out.append({"ok": strip(cli.run())})
    except SystemExit:
        out.append({"err": "SystemExit"})
    except Exception as e:
        out.append({"err": type(e).__name__})
json.dump(out, sys.stdout)
'''


def run_cli_rewrites(steps, cwd, repo=None, timeout=120):
    """several command lines in ONE process (a fresh `Cli` object each), the input files being rewritten between them:
    steps are {"write": {name: text}} or {"argv": [...]}; returns the code after the header of every argv step"""
    env = dict(os.environ)
    env["PYTHONPATH"] = repo or os.environ.get("J2M_REPO", "/repo")
    env["PYTHONIOENCODING"] = "utf-8"
    p = subprocess.run([sys.executable, "-c", _REWRITE_DRIVER], input=json.dumps(steps).encode("utf-8"), cwd=cwd, env=env,
                       stdout=subprocess.PIPE, stderr=subprocess.PIPE, timeout=timeout)
    if p.returncode != 0:
        raise RuntimeError("rewrite driver failed: " + p.stderr.decode("utf-8", "replace")[-800:])
    return json.loads(p.stdout.decode("utf-8"))


def run_cli_sequence(argvs, cwd, repo=None, timeout=120):
    """ONE `Cli` object handling several command lines one after the other in one process (parse_args + run each), and a
    fresh `Cli` object for each command line in the same process; code after the header"""
    env = dict(os.environ)
    env["PYTHONPATH"] = repo or os.environ.get("J2M_REPO", "/repo")
    env["PYTHONIOENCODING"] = "utf-8"
    p = subprocess.run([sys.executable, "-c", _SEQ_DRIVER], input=json.dumps(argvs).encode("utf-8"), cwd=cwd, env=env,
                       stdout=subprocess.PIPE, stderr=subprocess.PIPE, timeout=timeout)
    if p.returncode != 0:
        raise RuntimeError("sequence driver failed: " + p.stderr.decode("utf-8", "replace")[-800:])
    return json.loads(p.stdout.decode("utf-8"))
