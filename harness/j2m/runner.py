"""`./check <ID> [quick|thorough]` and `./check --replay <file>` — see DESIGN.md §7."""
import fcntl
import hashlib
import importlib
import json
import os
import re
import subprocess
import sys
import tempfile
import time
import traceback

VERIF = os.path.dirname(os.path.dirname(os.path.dirname(os.path.abspath(__file__))))
LEAN_DIR = os.path.join(VERIF, "lean")
ALLOWED_AXIOMS = {"propext", "Classical.choice", "Quot.sound"}
FORBIDDEN = re.compile(r"\b(sorry|admit|native_decide|bv_decide|implemented_by)\b|^\s*axiom\s|\bunsafe\s|maxHeartbeats\s+0")

TRUSTED_BASE = [
    "T1 Lean 4.33 kernel; axioms of each listed theorem within {propext, Classical.choice, Quot.sound} (audited by #print axioms on this run)",
    "T2 the theorem statements as renderings of the property text (DESIGN.md §8)",
    "T3 correspondence check: agreement of the hand-written Lean model with the Python implementation on the explored inputs (sampling; distribution printed in this file)",
    "T4 oracle facts about third-party functions (inflection, unidecode, re, int/float/dateutil parsers), recorded per run",
    "T5 CPython/typing/pydantic/attrs/dataclasses/Jinja2 behaviour beyond the emitted subset; validated per explored program by the falsifier audit",
    "T6 the model is a model: no line of Python is itself verified; FileLoaders, globbing, custom generators are not modelled",
]


class Ctx:
    def __init__(self, pid, tier, seed, repo):
        self.pid = pid
        self.tier = tier
        self.seed = seed
        self.repo = repo
        self.t0 = time.time()
        self.stats = {}
        self.samples = []
        self.focus = []           # inputs of disagreeing correspondence cases, for the falsifier
        self.evaluations = 0
        self.distinct = set()
        self.notes = []

    def n(self, quick, thorough):
        return thorough if self.tier == "thorough" else quick

    def rng(self, *tags):
        from . import gen
        return gen.rng_for(self.seed, self.pid, *tags)

    def count(self, key, k=1):
        self.stats[key] = self.stats.get(key, 0) + k

    def case(self, fingerprint, nontrivial=True):
        """count one explored case; `fingerprint` identifies distinct cases"""
        self.evaluations += 1
        if nontrivial:
            self.distinct.add(hashlib.sha1(repr(fingerprint).encode("utf-8", "surrogatepass")).hexdigest())

    def sample(self, obj, limit=4):
        if len(self.samples) < limit:
            self.samples.append(obj)


def lake_build(targets=()):
    """`lake build` under a file lock (checks may run concurrently)"""
    os.makedirs(os.path.join(LEAN_DIR, ".lake"), exist_ok=True)
    with open(os.path.join(LEAN_DIR, ".lake", "j2m-check.lock"), "w") as lk:
        fcntl.flock(lk, fcntl.LOCK_EX)
        p = subprocess.run(["lake", "build", *targets], cwd=LEAN_DIR, stdout=subprocess.PIPE, stderr=subprocess.STDOUT,
                           timeout=3000)
    return p.returncode == 0, p.stdout.decode("utf-8", "replace")


def module_closure(modules):
    """the J2M modules reachable through `import` from the given ones (what a property's theorems depend on)"""
    seen, todo = set(), list(modules)
    while todo:
        m = todo.pop()
        if m in seen or not m.startswith("J2M"):
            continue
        path = os.path.join(LEAN_DIR, *m.split(".")) + ".lean"
        if not os.path.exists(path):
            continue
        seen.add(m)
        for line in open(path, encoding="utf-8"):
            mm = re.match(r"\s*import\s+(\S+)", line)
            if mm:
                todo.append(mm.group(1))
    return sorted(seen)


def scan_sources(modules):
    """textual scan of the modules a property depends on (and the driver) for forbidden constructs (comments discarded)"""
    bad = []
    paths = [os.path.join(LEAN_DIR, *m.split(".")) + ".lean" for m in module_closure(list(modules) + ["J2M.Codec"])]
    paths.append(os.path.join(LEAN_DIR, "Main.lean"))
    for path in paths:
        if True:
            if not os.path.exists(path):
                continue
            text = open(path, encoding="utf-8").read()
            text = re.sub(r"/-.*?-/", lambda m: "\n" * m.group(0).count("\n"), text, flags=re.S)
            for i, line in enumerate(text.split("\n"), 1):
                line = line.split("--", 1)[0]
                if FORBIDDEN.search(line):
                    bad.append(f"{os.path.relpath(path, LEAN_DIR)}:{i}: {line.strip()[:120]}")
    return bad


def audit_axioms(theorems, imports):
    """#print axioms for every listed theorem; returns {name: axioms list | error string}"""
    if not theorems:
        return {}
    src = "\n".join(f"import {m}" for m in imports) + "\n" + "\n".join(f"#print axioms {t}" for t in theorems) + "\n"
    with tempfile.TemporaryDirectory(prefix="j2m-audit-") as d:
        path = os.path.join(d, "Audit.lean")
        with open(path, "w") as f:
            f.write(src)
        p = subprocess.run(["lake", "env", "lean", path], cwd=LEAN_DIR, stdout=subprocess.PIPE, stderr=subprocess.STDOUT,
                           timeout=1800)
    out = p.stdout.decode("utf-8", "replace")
    res = {}
    for t in theorems:
        m = re.search(r"'" + re.escape(t) + r"' depends on axioms: \[([^\]]*)\]", out, flags=re.S)
        if m:
            res[t] = [a.strip() for a in m.group(1).replace("\n", " ").split(",") if a.strip()]
        elif re.search(r"'" + re.escape(t) + r"' does not depend on any axioms", out):
            res[t] = []
        else:
            res[t] = "missing: " + out[-400:].strip()
    return res


def load_obligations(pid):
    data = json.load(open(os.path.join(LEAN_DIR, "obligations.json")))
    return data.get(pid, {"imports": [], "theorems": []})


def load_known(pid):
    path = os.path.join(VERIF, "known_findings.json")
    if not os.path.exists(path):
        return []
    return [e for e in json.load(open(path))["findings"] if e["property"] == pid]


def write_replay(pid, seed, payload):
    d = os.path.join(VERIF, "replays")
    os.makedirs(d, exist_ok=True)
    path = os.path.join(d, f"{pid}-{seed}.json")
    payload = dict(payload)
    payload["property"] = pid
    payload["seed"] = seed
    payload["rerun"] = f"./check --replay {os.path.relpath(path, VERIF)}"
    with open(path, "w", encoding="utf-8") as f:
        json.dump(payload, f, ensure_ascii=True, indent=1, default=repr)
    return os.path.relpath(path, VERIF)


def run_check(pid, tier, seed, repo):
    from . import extract, stages
    ctx = Ctx(pid, tier, seed, repo)
    prop = importlib.import_module(f"j2m.props.{pid}")
    ob = load_obligations(pid)
    failures = []          # broken obligations / correspondence (strings)
    # 1. regenerate Extracted.lean, 2. build + audit
    consts, changed = extract.regenerate(repo)
    ctx.consts = consts
    # the driver's modules and this property's theorem modules (module targets: other properties' files are not needed)
    ok, log = lake_build(["+J2M.Codec"] + ["+" + m for m in ob["imports"]])
    lean_failed = []
    if not ok:
        lean_failed.append("lake build failed: " + log[-1500:])
    bad = scan_sources(ob["imports"])
    ctx.stats["lean_modules_scanned"] = len(module_closure(list(ob["imports"]) + ["J2M.Codec"]))
    if bad:
        lean_failed.append("forbidden constructs: " + "; ".join(bad[:5]))
    ax = audit_axioms(ob["theorems"], ob["imports"]) if ok else {t: "not built" for t in ob["theorems"]}
    discharged = 0
    for t, a in ax.items():
        if isinstance(a, list) and set(a) <= ALLOWED_AXIOMS:
            discharged += 1
        else:
            lean_failed.append(f"theorem {t}: {a}")
    if tier == "thorough" and ok and ob["imports"]:
        p = subprocess.run(["lake", "env", "leanchecker", *ob["imports"]], cwd=LEAN_DIR, stdout=subprocess.PIPE,
                           stderr=subprocess.STDOUT, timeout=3000)
        ctx.stats["leanchecker_rc"] = p.returncode
        if p.returncode != 0:
            lean_failed.append("leanchecker: " + p.stdout.decode("utf-8", "replace")[-800:])
    failures.extend(lean_failed)
    # 3. correspondence
    batch = stages.Batch()
    disagreements = []
    try:
        prop.correspondence(ctx, batch)
        disagreements = batch.run()
    except Exception as e:  # noqa
        failures.append("correspondence could not run: " + "".join(traceback.format_exception_only(type(e), e))[-800:])
        traceback.print_exc()
    ctx.stats["correspondence_requests"] = len(batch.requests)
    ctx.stats["correspondence_skipped_cost"] = batch.skipped_cost
    ops = {}
    for r in batch.requests:
        ops[r["op"]] = ops.get(r["op"], 0) + 1
    ctx.stats["correspondence_ops"] = ops
    try:
        ctx.stats["correspondence_distribution"] = batch.distribution()
    except Exception:  # noqa
        pass
    for d in disagreements[:50]:
        ctx.focus.append(d.get("meta"))
    if disagreements:
        d0 = disagreements[0]
        failures.append(f"correspondence: {len(disagreements)} disagreement(s) between model and implementation; first on op "
                        f"{d0['request']['op']}")
    # 3b. site inventory (DESIGN §4.5) for the properties that lean on it
    site_kinds = getattr(prop, "SITE_KINDS", None)
    if site_kinds:
        from . import sites
        new, gone = sites.compare(repo, site_kinds)
        ctx.stats["site_inventory"] = {"kinds": sorted(site_kinds), "new": new[:10], "gone": gone[:10]}
        if new or gone:
            failures.append(f"site inventory: {len(new)} new site(s) the model does not account for, {len(gone)} listed site(s) gone; "
                            f"first: {(new or gone)[0]}")
    # 4/5. falsifier (audit always; focused on disagreeing inputs first)
    hits = []
    try:
        for h in prop.falsify(ctx):
            hits.append(h)
            if len(hits) >= 20:
                break
    except Exception as e:  # noqa
        failures.append("falsifier could not run: " + "".join(traceback.format_exception_only(type(e), e))[-800:])
        traceback.print_exc()
    known = load_known(pid)
    new_hits = []
    known_seen = {}
    for h in hits:
        k = next((e for e in known if e.get("status") == "known" and e["id"] == h.get("kind")), None)
        if k is not None:
            known_seen.setdefault(k["id"], (k, h))
        else:
            new_hits.append(h)
    for kid, (k, h) in sorted(known_seen.items()):
        print(f"KNOWN-FINDING: property={pid} {k['id']}: {k['what_fails']}")
    # 6. verdict + evidence
    rc = 0
    if new_hits:
        h = new_hits[0]
        path = write_replay(pid, seed, {"kind": "falsifier", "hit": h, "other_hits": new_hits[1:5],
                                        "broken": failures})
        print(f"VIOLATION property={pid} replay={path}")
        rc = 1
    elif failures:
        payload = {"kind": "no-failing-input-found", "broken": failures}
        if disagreements:
            d0 = disagreements[0]
            payload["first_disagreement"] = {"request": d0["request"], "impl": d0["impl"], "model": d0["model"],
                                             "meta": d0.get("meta")}
        path = write_replay(pid, seed, payload)
        print(f"VIOLATION property={pid} replay={path} no-failing-input-found")
        rc = 1
    if rc == 0:
        stale = os.path.join(VERIF, "replays", f"{pid}-{seed}.json")
        if os.path.exists(stale):
            os.remove(stale)
    wall = time.time() - ctx.t0
    ev = {
        "property_id": pid, "tier": tier, "seed": seed, "level": "proof",
        "coverage": {
            "obligations": max(1, len(ob["theorems"])),
            "discharged": discharged,
            "checker_cmd": "cd lean && lake build && lake env lean <Audit: #print axioms per theorem>"
                           + (" && lake env leanchecker " + " ".join(ob["imports"]) if tier == "thorough" else ""),
            "trusted_base": TRUSTED_BASE,
            "theorems": ax,
            "evaluations": ctx.evaluations,
            "distinct_nontrivial": len(ctx.distinct),
            "rule": getattr(prop, "RULE", ""),
            "samples": ctx.samples or [{"note": "no sample recorded"}],
            "disagreements_checked": len(batch.requests),
            "disagreements": len(disagreements),
            "falsifier_hits": len(hits),
            "known_findings_seen": sorted(known_seen),
            "stats": ctx.stats,
            "extracted_changed": changed,
            "explanation": getattr(prop, "EXPLANATION", ""),
        },
        "assumptions": getattr(prop, "ASSUMPTIONS", []),
        "wall_s": round(wall, 2),
        "violations": len(new_hits) + (1 if (failures and not new_hits) else 0),
    }
    os.makedirs(os.path.join(VERIF, "evidence"), exist_ok=True)
    with open(os.path.join(VERIF, "evidence", f"{pid}.json"), "w", encoding="utf-8") as f:
        json.dump(ev, f, ensure_ascii=True, indent=1, default=repr)
    print(f"{pid} {tier} seed={seed}: obligations {discharged}/{len(ob['theorems'])}, correspondence "
          f"{len(batch.requests)} requests / {len(disagreements)} disagreements, falsifier {ctx.evaluations} cases / "
          f"{len(hits)} hits ({len(known_seen)} known), {wall:.1f}s -> exit {rc}")
    return rc


def run_replay(path, repo):
    data = json.load(open(path if os.path.isabs(path) else os.path.join(VERIF, path), encoding="utf-8"))
    pid = data["property"]
    prop = importlib.import_module(f"j2m.props.{pid}")
    ctx = Ctx(pid, "quick", data.get("seed", 0), repo)
    if data.get("kind") != "falsifier":
        print(f"replay of a broken obligation/correspondence: re-run `./check {pid} quick`; recorded: {data.get('broken')}")
        return 1
    h = prop.replay(ctx, data["hit"])
    if h:
        print(f"VIOLATION property={pid} replay={path}")
        print(json.dumps(h, ensure_ascii=False, default=repr)[:2000])
        return 1
    print(f"replay {path}: the recorded input no longer violates {pid}")
    return 0


def main(argv):
    repo = os.environ.get("J2M_REPO", "/repo")
    sys.path.insert(0, repo)
    os.environ["PYTHONPATH"] = repo + os.pathsep + os.environ.get("PYTHONPATH", "")
    if len(argv) >= 2 and argv[0] == "--replay":
        return run_replay(argv[1], repo)
    if not argv:
        print(__doc__)
        return 2
    pid = argv[0]
    tier = argv[1] if len(argv) > 1 else os.environ.get("VERIF_TIER", "quick")
    seed = int(os.environ.get("VERIF_SEED", "0"))
    try:
        return run_check(pid, tier, seed, repo)
    except subprocess.TimeoutExpired as e:
        print(f"machinery timeout: {e}")
        return 2
