"""Correspondence stages: run the implementation and the Lean model on the same requests and diff."""
import copy

from json_to_models.dynamic_typing import DUnion, StringSerializableRegistry, get_hash_string, register_datetime_classes
from json_to_models.dynamic_typing import BooleanString, FloatString, IntString
from json_to_models.generator import MetadataGenerator

from . import conv, lean


def make_registry(kinds=("IntString", "FloatString", "BooleanString"), datetime=False):
    r = StringSerializableRegistry()
    for k in kinds:
        cls = conv.SER_CLASSES[k]
        if cls is FloatString and IntString in r.types:
            r.add(replace_types=(IntString,), cls=cls)
        else:
            r.add(cls=cls)
    if datetime:
        register_datetime_classes(r)
    return r


def err_class(e):
    n = type(e).__name__
    return {"RecursionError": "RecursionError"}.get(n, n)


def impl_call(fn):
    try:
        return {"ok": fn()}
    except Exception as e:  # noqa
        return {"err": err_class(e)}


class Batch:
    """collects (request, implementation answer) pairs; `run` asks the model and returns disagreements"""

    def __init__(self):
        self.requests = []
        self.impl = []
        self.meta = []

    def add(self, request, impl_answer, meta=None):
        self.requests.append(request)
        self.impl.append(impl_answer)
        self.meta.append(meta)

    def run(self):
        answers = lean.run_batch(self.requests)
        dis = []
        for req, a, b, m in zip(self.requests, self.impl, answers, self.meta):
            proj = (m or {}).get("project")
            if proj and "ok" in b:
                b = {"ok": partition(b["ok"]) if proj == "partition" else sorted(b["ok"])}
            if a != b:
                dis.append({"request": req, "impl": a, "model": b, "meta": m})
        return dis


def stage_generate(batch, samples, registry, dict_fields=(), dict_regex=()):
    values, keys = set(), set()
    for s in samples:
        conv.walk_strings(s, values, keys)
    cfg = conv.gen_cfg(registry, dict_fields, dict_regex)
    orc = conv.oracles(registry, values, keys, dict_regex)
    gen = MetadataGenerator(registry, dict_keys_regex=list(dict_regex), dict_keys_fields=list(dict_fields))
    ans = impl_call(lambda: conv.enc_ty(gen.generate(*copy.deepcopy(samples))))
    req = {"op": "generate", "cfg": cfg, "orc": orc, "in": [conv.enc_json(s) for s in samples]}
    batch.add(req, ans, {"samples": samples})
    return ans


def stage_detect(batch, value, registry, convert_dict=True, dict_fields=(), dict_regex=()):
    values, keys = set(), set()
    conv.walk_strings(value, values, keys)
    cfg = conv.gen_cfg(registry, dict_fields, dict_regex)
    orc = conv.oracles(registry, values, keys, dict_regex)
    gen = MetadataGenerator(registry, dict_keys_regex=list(dict_regex), dict_keys_fields=list(dict_fields))
    ans = impl_call(lambda: conv.enc_ty(gen._detect_type(copy.deepcopy(value), convert_dict)))
    batch.add({"op": "detect", "cfg": cfg, "orc": orc, "in": conv.enc_json(value), "convertDict": convert_dict}, ans,
              {"value": value})
    return ans


def _keys_orc(registry, tys):
    keys = set()
    for t in tys:
        conv.ty_keys(t, keys)
    return conv.oracles(registry, (), keys)


def stage_mkunion(batch, tys, registry):
    cfg = conv.gen_cfg(registry)
    ans = impl_call(lambda: [conv.enc_ty(x) for x in DUnion(*[conv.dec_ty(t) for t in tys]).types])
    batch.add({"op": "mkunion", "cfg": cfg, "in": tys}, ans, {"tys": tys})
    return ans


def partition(hs):
    first = {}
    return [first.setdefault(h, i) for i, h in enumerate(hs)]


def stage_hash(batch, tys):
    """compared projection: the partition induced by equal hash strings"""
    ans = impl_call(lambda: partition([get_hash_string(conv.dec_ty(t)) for t in tys]))
    batch.add({"op": "hash", "in": tys}, ans, {"tys": tys, "project": "partition"})
    return ans


def stage_pyeq(batch, a, b, registry):
    ans = impl_call(lambda: bool(conv.dec_ty(a) == conv.dec_ty(b)))
    batch.add({"op": "pyeq", "a": a, "b": b, "orc": _keys_orc(registry, [a, b])}, ans, {"a": a, "b": b})
    return ans


def stage_mergefs(batch, sets, registry):
    gen = MetadataGenerator(registry)
    ans = impl_call(lambda: conv.enc_ty(gen.merge_field_sets([conv.dec_ty(["obj", s]) for s in sets]))[1])
    batch.add({"op": "mergefs", "cfg": conv.gen_cfg(registry), "orc": _keys_orc(registry, [["obj", s] for s in sets]),
               "in": sets}, ans, {"sets": sets})
    return ans


def stage_optimize(batch, ty, registry, times=1):
    gen = MetadataGenerator(registry)

    def run():
        t = conv.dec_ty(ty)
        for _ in range(times):
            t = gen.optimize_type(t)
        return conv.enc_ty(t)

    ans = impl_call(run)
    batch.add({"op": "optimize", "cfg": conv.gen_cfg(registry), "orc": _keys_orc(registry, [ty]), "in": ty,
               "times": times}, ans, {"ty": ty, "times": times})
    return ans


def stage_resolve(batch, registry, kinds):
    ans = impl_call(lambda: sorted(c.__name__ for c in registry.resolve(*[conv.SER_CLASSES[k] for k in kinds])))
    batch.add({"op": "resolve", "reg": conv.reg_cfg(registry), "in": list(kinds)}, ans,
              {"kinds": kinds, "project": "sorted"})
    return ans
