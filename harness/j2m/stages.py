"""Correspondence stages: run the implementation and the Lean model on the same requests and diff."""
import copy

from json_to_models.dynamic_typing import DUnion, StringSerializableRegistry, get_hash_string, register_datetime_classes
from json_to_models.dynamic_typing import BooleanString, FloatString, IntString
from json_to_models.generator import MetadataGenerator

from . import conv, lean


def make_registry(kinds=("IntString", "FloatString", "BooleanString"), datetime=False):
    r = StringSerializableRegistry()
    for k in kinds:
        cls = conv.SER_CLASSES[k]
        if cls is FloatString and IntString in r.types:
            r.add(replace_types=(IntString,), cls=cls)
        else:
            r.add(cls=cls)
    if datetime:
        register_datetime_classes(r)
    return r


def err_class(e):
    n = type(e).__name__
    return {"RecursionError": "RecursionError"}.get(n, n)


def impl_call(fn):
    try:
        return {"ok": fn()}
    except TooCostly:
        raise
    except Exception as e:  # noqa
        return {"err": err_class(e)}


class Batch:
    """collects (request, implementation answer) pairs; `run` asks the model and returns disagreements"""

    def __init__(self):
        self.requests = []
        self.impl = []
        self.meta = []
        self.skipped_cost = 0

    def add(self, request, impl_answer, meta=None):
        self.requests.append(request)
        self.impl.append(impl_answer)
        self.meta.append(meta)

    TAGS = {"ser", "lit", "list", "dict", "opt", "union", "tuple", "obj", "ptr"}
    ATOMS = {"int", "float", "bool", "str", "null", "unknown"}

    def distribution(self):
        """what the explored cases look like: IR constructors in the implementation's answers, error classes, sizes"""
        tags, errs, sizes = {}, {}, []

        def walk(x):
            if isinstance(x, list):
                if x and isinstance(x[0], str) and x[0] in self.TAGS:
                    tags[x[0]] = tags.get(x[0], 0) + 1
                for y in x:
                    walk(y)
            elif isinstance(x, dict):
                for y in x.values():
                    walk(y)
            elif isinstance(x, str) and x in self.ATOMS:
                tags[x] = tags.get(x, 0) + 1

        for a in self.impl:
            if "err" in a:
                errs[a["err"]] = errs.get(a["err"], 0) + 1
            else:
                walk(a["ok"])
        import json as _json
        for r in self.requests[:2000]:
            sizes.append(len(_json.dumps(r.get("in", ""))))
        sizes.sort()
        return {"ir_constructors_in_answers": tags, "error_classes": errs,
                "request_input_bytes": {"min": sizes[0], "median": sizes[len(sizes) // 2], "max": sizes[-1]} if sizes else {}}

    def run(self):
        answers = lean.run_batch(self.requests)
        dis = []
        for req, a, b, m in zip(self.requests, self.impl, answers, self.meta):
            proj = (m or {}).get("project")
            if proj and "ok" in b:
                if proj == "partition":
                    b = {"ok": partition(b["ok"])}
                elif proj == "sorted":
                    b = {"ok": sorted(b["ok"])}
                elif proj == "header-text":
                    b = {"ok": b["ok"]["text"]}
                elif proj == "header-value":
                    v = b["ok"]["value"]         # CPython reads source with universal newlines
                    b = {"ok": v.replace("\r\n", "\n").replace("\r", "\n") if isinstance(v, str) else v}
                elif proj == "paths":
                    # the implementation joins the tokens without separator ("OLS"); the model with dots ("O.L.S")
                    b = {"ok": [[k, q.replace(".", "")] for k, q in b["ok"]]}
                elif proj == "regcfg":
                    b = {"ok": {"types": b["ok"]["types"], "replaces": sorted(b["ok"]["replaces"])}}
                elif proj == "closure":
                    b = {"ok": [[x - 1 for x in g] for g in b["ok"]]}
                elif proj == "strtype":
                    if "ok" in a and a["ok"].get("int") == "skip":
                        b["ok"]["int"] = "skip"
                elif proj == "render":
                    b = {"ok": b["ok"]["render"]}
                elif proj == "pipeline":
                    b = {"ok": proj_pipeline(b["ok"])}
                    parts = m.get("parts")
                    if parts and "ok" in a:
                        a = {"ok": {k: v for k, v in a["ok"].items() if k in parts}}
                        b = {"ok": {k: v for k, v in b["ok"].items() if k in parts}}
            if a != b:
                dis.append({"request": req, "impl": a, "model": b, "meta": m})
        return dis


def stage_generate(batch, samples, registry, dict_fields=(), dict_regex=()):
    values, keys = set(), set()
    for s in samples:
        conv.walk_strings(s, values, keys)
    cfg = conv.gen_cfg(registry, dict_fields, dict_regex)
    orc = conv.oracles(registry, values, keys, dict_regex)
    gen = MetadataGenerator(registry, dict_keys_regex=list(dict_regex), dict_keys_fields=list(dict_fields))
    ans = impl_call(lambda: conv.enc_ty(gen.generate(*copy.deepcopy(samples))))
    req = {"op": "generate", "cfg": cfg, "orc": orc, "in": [conv.enc_json(s) for s in samples]}
    batch.add(req, ans, {"samples": samples})
    return ans


def stage_detect(batch, value, registry, convert_dict=True, dict_fields=(), dict_regex=()):
    values, keys = set(), set()
    conv.walk_strings(value, values, keys)
    cfg = conv.gen_cfg(registry, dict_fields, dict_regex)
    orc = conv.oracles(registry, values, keys, dict_regex)
    gen = MetadataGenerator(registry, dict_keys_regex=list(dict_regex), dict_keys_fields=list(dict_fields))
    ans = impl_call(lambda: conv.enc_ty(gen._detect_type(copy.deepcopy(value), convert_dict)))
    batch.add({"op": "detect", "cfg": cfg, "orc": orc, "in": conv.enc_json(value), "convertDict": convert_dict}, ans,
              {"value": value})
    return ans


def _keys_orc(registry, tys):
    keys = set()
    for t in tys:
        conv.ty_keys(t, keys)
    return conv.oracles(registry, (), keys)


def stage_mkunion(batch, tys, registry):
    cfg = conv.gen_cfg(registry)
    ans = impl_call(lambda: [conv.enc_ty(x) for x in DUnion(*[conv.dec_ty(t) for t in tys]).types])
    batch.add({"op": "mkunion", "cfg": cfg, "in": tys}, ans, {"tys": tys})
    return ans


def partition(hs):
    first = {}
    return [first.setdefault(h, i) for i, h in enumerate(hs)]


def stage_hash(batch, tys):
    """compared projection: the partition induced by equal hash strings"""
    ans = impl_call(lambda: partition([get_hash_string(conv.dec_ty(t)) for t in tys]))
    batch.add({"op": "hash", "in": tys}, ans, {"tys": tys, "project": "partition"})
    return ans


def stage_pyeq(batch, a, b, registry):
    ans = impl_call(lambda: bool(conv.dec_ty(a) == conv.dec_ty(b)))
    batch.add({"op": "pyeq", "a": a, "b": b, "orc": _keys_orc(registry, [a, b])}, ans, {"a": a, "b": b})
    return ans


def stage_mergefs(batch, sets, registry):
    gen = MetadataGenerator(registry)
    ans = impl_call(lambda: conv.enc_ty(gen.merge_field_sets([conv.dec_ty(["obj", s]) for s in sets]))[1])
    batch.add({"op": "mergefs", "cfg": conv.gen_cfg(registry), "orc": _keys_orc(registry, [["obj", s] for s in sets]),
               "in": sets}, ans, {"sets": sets})
    return ans


def stage_optimize(batch, ty, registry, times=1):
    gen = MetadataGenerator(registry)

    def run():
        t = conv.dec_ty(ty)
        for _ in range(times):
            t = gen.optimize_type(t)
        return conv.enc_ty(t)

    ans = impl_call(run)
    batch.add({"op": "optimize", "cfg": conv.gen_cfg(registry), "orc": _keys_orc(registry, [ty]), "in": ty,
               "times": times}, ans, {"ty": ty, "times": times})
    return ans


def stage_resolve(batch, registry, kinds):
    ans = impl_call(lambda: sorted(c.__name__ for c in registry.resolve(*[conv.SER_CLASSES[k] for k in kinds])))
    batch.add({"op": "resolve", "reg": conv.reg_cfg(registry), "in": list(kinds)}, ans,
              {"kinds": kinds, "project": "sorted"})
    return ans


# ------------------------------------------------------------------------------------------ registry / layout
import inflection  # noqa: E402

from json_to_models.models.structure import compose_models, compose_models_flat  # noqa: E402
from json_to_models.registry import (ModelCmp, ModelFieldsEquals, ModelFieldsNumberMatch,  # noqa: E402
                                     ModelFieldsPercentMatch, ModelRegistry)


class TableCmp(ModelCmp):
    """symmetric table on the first key of each model (C05's table-driven comparator)"""

    def __init__(self, edges):
        self.edges = {tuple(e) for e in edges} | {tuple(reversed(e)) for e in edges}

    def cmp(self, fields_a, fields_b):
        raise NotImplementedError


def enc_cmps(cmps):
    """`ModelRegistry(*cmps)`: an empty list means the library defaults"""
    return [enc_cmp(c) for c in (cmps or ModelRegistry.DEFAULT_MODELS_CMP)]


def enc_cmp(c):
    if isinstance(c, TableCmp):
        return ["table", sorted(list(e) for e in c.edges)]
    if isinstance(c, ModelFieldsEquals):
        return ["exact"]
    if isinstance(c, ModelFieldsPercentMatch):
        # the threshold as the decimal fraction it denotes (0.8 -> 4/5): correctly rounded float division compared
        # with the correctly rounded threshold agrees with exact comparison against that decimal (DESIGN §9 T4)
        from fractions import Fraction
        f = Fraction(repr(float(c.percent_fields)))
        return ["percent", max(f.numerator, 0), f.denominator]
    if isinstance(c, ModelFieldsNumberMatch):
        return ["number", max(0, int(c.number_fields))]
    raise TypeError(c)


class _TableRegistry(ModelRegistry):
    """registry whose comparison sees the models' first keys in dict order (sets lose it)"""

    def _models_cmp_fn(self, model_a, model_b):
        if any(isinstance(c, TableCmp) for c in self._models_cmp):
            ka = next(iter(model_a.type.keys()), "")
            kb = next(iter(model_b.type.keys()), "")
            for c in self._models_cmp:
                if isinstance(c, TableCmp):
                    if (ka, kb) in c.edges:
                        return True
                elif c.cmp(set(model_a.type.keys()), set(model_b.type.keys())):
                    return True
            return False
        return super()._models_cmp_fn(model_a, model_b)


def enc_graph(reg):
    models = []
    ptrs = []
    for m in reg.models:
        models.append([m.index, conv.enc_ty(m.type)[1], m.name, m.is_name_generated])
        for p in m.pointers:
            ptrs.append([p.type.index, p.parent.index if p.parent is not None else None, p.parent_field_name])
    return {"models": models, "ptrs": sorted(ptrs, key=repr)}


def proj_graph(g):
    return {"models": g["models"], "ptrs": sorted(g["ptrs"], key=repr)}


def enc_struct(nodes):
    return [[n["model"].index, enc_struct(n["nested"])] for n in nodes]


def name_oracles(keys):
    su = {}
    cam = {}
    for k in keys:
        w = inflection.singularize(inflection.underscore(k))
        su[k] = w
        cam[w] = inflection.camelize(w)
    return {"singUnder": [[k, v] for k, v in su.items()], "camelize": [[k, v] for k, v in cam.items()]}


def run_pipeline_impl(inputs, registry, cmps, dict_fields=(), dict_regex=(), first=None):
    """the library pipeline up to the layouts; returns the projections compared with the model.
    `first`: inputs registered and merged before `inputs` arrive (a registry merged twice)"""
    gen = MetadataGenerator(registry, dict_keys_regex=list(dict_regex), dict_keys_fields=list(dict_fields))
    reg = _TableRegistry(*cmps)
    out = {}
    if first:
        for name, samples in first:
            reg.process_meta_data(gen.generate(*copy.deepcopy(samples)), name)
        if closure_cost(reg) > 80:
            raise TooCostly()
        reg.merge_models(gen)
    for name, samples in inputs:
        meta = gen.generate(*copy.deepcopy(samples))
        reg.process_meta_data(meta, name)
    out["process"] = enc_graph(reg)
    out["cost"] = closure_cost(reg)
    if out["cost"] > 80:
        raise TooCostly()          # the implementation's own grouping loop needs seconds here: not explored
    repl = reg.merge_models(gen)
    out["merge"] = enc_graph(reg)
    out["replaces"] = [[m.index, sorted(x.index for x in grp)] for m, grp in repl]
    reg.generate_names()
    out["named"] = enc_graph(reg)
    try:
        out["flat"] = [n["model"].index for n in compose_models_flat(reg.models_map)[0]]
    except Exception as e:  # noqa
        out["flat"] = {"err": "NoPointers" if "has no pointers" in str(e) else err_class(e)}
    try:
        roots, inj = compose_models(reg.models_map)
        out["nested"] = [enc_struct(roots), sorted([a.index, b.index] for a, b in inj.items())]
    except Exception as e:  # noqa
        out["nested"] = {"err": "NoPointers" if "has no pointers" in str(e) else err_class(e)}
    return out, reg, gen


def proj_pipeline(r):
    """canonical projection of a model answer (same shape as run_pipeline_impl's)"""
    out = {}
    for k in ("process", "merge", "named"):
        out[k] = proj_graph(r[k])
    out["replaces"] = [[i, sorted(ms)] for i, ms in r["replaces"]]
    out["flat"] = r["flat"]
    n = r["nested"]
    out["nested"] = n if isinstance(n, dict) else [n[0], sorted(n[1])]
    return out


class TooCostly(Exception):
    pass


def closure_cost(reg, limit=80):
    """max number of groups the grouping loop holds for this registry (early exit above `limit`):
    the model executes the same loop on lists and is only asked when this is small"""
    from collections import defaultdict
    from itertools import combinations
    m2m = defaultdict(set)
    for a, b in combinations(list(reg.models), 2):
        if reg._models_cmp_fn(a, b):
            m2m[a.index].add(b.index)
            m2m[b.index].add(a.index)
    groups = [frozenset({m, *ms}) for m, ms in m2m.items()]
    worst = len(groups)
    flag = True
    while flag:
        flag = False
        ng = {}
        for i, g1 in enumerate(groups):
            ins = False
            for j, g2 in enumerate(groups):
                if i != j and g1 & g2:
                    ins = True
                    u = g1 | g2
                    if u not in ng:
                        ng[u] = 1
                        flag = True
                        if len(ng) > limit:
                            return len(ng)
            if not ins:
                ng.setdefault(g1, 1)
        worst = max(worst, len(ng))
        if flag:
            groups = list(ng)
    return worst


def stage_pipeline(batch, inputs, registry, cmps, dict_fields=(), dict_regex=(), parts=None, first=None):
    values, keys = set(), set()
    for _, samples in list(inputs) + list(first or []):
        for s in samples:
            conv.walk_strings(s, values, keys)
    cfg = conv.gen_cfg(registry, dict_fields, dict_regex)
    orc = conv.oracles(registry, values, keys, dict_regex)
    orc.update(name_oracles(keys))

    def run():
        return run_pipeline_impl(inputs, registry, cmps, dict_fields, dict_regex, first)[0]

    try:
        ans = impl_call(run)
    except TooCostly:
        batch.skipped_cost += 1
        return {"skipped": "cost"}
    if "ok" in ans:
        ans["ok"].pop("cost")
    req = {"op": "pipeline", "cfg": cfg, "orc": orc, "cmps": enc_cmps(cmps),
           "in": [[n, [conv.enc_json(s) for s in ss]] for n, ss in inputs]}
    if first:
        req["first"] = [[n, [conv.enc_json(s) for s in ss]] for n, ss in first]
    batch.add(req, ans, {"inputs": inputs, "first": first, "project": "pipeline", "parts": parts, "cmps": enc_cmps(cmps)})
    return ans


# ------------------------------------------------------------------------------------------ render
import re as _re  # noqa: E402

import json_to_models.models.base as _base  # noqa: E402
from json_to_models.dynamic_typing import StringLiteral as _SL  # noqa: E402
from json_to_models.models.attr import AttrsModelCodeGenerator  # noqa: E402
from json_to_models.models.base import GenericModelCodeGenerator, generate_code  # noqa: E402
from json_to_models.models.dataclasses import DataclassModelCodeGenerator  # noqa: E402
from json_to_models.models.pydantic import PydanticModelCodeGenerator  # noqa: E402
from json_to_models.models.sqlmodel import SqlModelCodeGenerator  # noqa: E402

GENERATORS = {"base": GenericModelCodeGenerator, "pydantic": PydanticModelCodeGenerator,
              "sqlmodel": SqlModelCodeGenerator, "attrs": AttrsModelCodeGenerator,
              "dataclasses": DataclassModelCodeGenerator}


class _ReProxy:
    def __init__(self, rec):
        self._rec = rec

    def sub(self, pattern, repl, string, *a, **kw):
        r = _re.sub(pattern, repl, string, *a, **kw)
        if pattern == r"\W" and repl == "":
            self._rec.stripW[string] = r
        return r

    def __getattr__(self, item):
        return getattr(_re, item)


class LabelRecorder:
    """records every call `prepare_label` makes to unidecode / re.sub(r"\\W") / inflection.underscore"""

    def __init__(self):
        self.unidecode = {}
        self.stripW = {}
        self.underscore = {}

    def __enter__(self):
        self._old = (_base.unidecode, _base.re, inflection.underscore)
        ou, _, ound = self._old

        def rec_unidecode(s, *a, **kw):
            r = ou(s, *a, **kw)
            self.unidecode[s] = r
            return r

        def rec_underscore(s):
            r = ound(s)
            self.underscore[s] = r
            return r

        _base.unidecode = rec_unidecode
        _base.re = _ReProxy(self)
        inflection.underscore = rec_underscore
        return self

    def __exit__(self, *exc):
        _base.unidecode, _base.re, inflection.underscore = self._old
        return False

    def tables(self):
        firsts = {s[0] for s in self.stripW.values() if s and ord(s[0]) > 127}
        nonprint = sorted({ord(ch) for tbl in (self.unidecode, self.stripW, self.underscore) for s in tbl for ch in s
                           if ord(ch) > 127 and not ch.isprintable()})
        return {"unidecode": [[k, v] for k, v in self.unidecode.items()],
                "stripW": [[k, v] for k, v in self.stripW.items()],
                "underscore": [[k, v] for k, v in self.underscore.items()],
                "lowerAz": [[ord(c), 'a' <= c.lower() <= 'z'] for c in sorted(firsts)]}, nonprint


def render_consts(registry):
    from typing_extensions import Literal
    ser = [[c.__name__, c.actual_type.__name__, c.actual_type.__module__]
           for c in list(registry.types) + list(conv.SER_CLASSES.values())]
    seen = set()
    return {"literalModule": Literal.__module__, "blacklist": sorted(_base.blacklist_words),
            "metadataFieldName": _base.METADATA_FIELD_NAME,
            "serInfo": [s for s in ser if not (s[0] in seen or seen.add(s[0]))]}


def job_kwargs(job):
    kw = {"max_literals": job["maxLit"], "post_init_converters": job.get("postInit", False),
          "convert_unicode": job.get("convertUnicode", True)}
    if job["fw"] in ("attrs", "dataclasses"):
        kw["meta"] = job.get("meta", False)
    if job.get("omitDefaults"):
        # the library call as a user writes it: options left at their documented defaults are not passed at all
        for k, default in (("max_literals", 10), ("post_init_converters", False), ("convert_unicode", True), ("meta", False)):
            if k in kw and kw[k] == default and type(kw[k]) is type(default):
                del kw[k]
    return kw


def render_impl(reg, job):
    fn = compose_models if job.get("layout", "flat") == "nested" else compose_models_flat
    structure = fn(reg.models_map)
    return generate_code(structure, GENERATORS[job["fw"]], class_generator_kwargs=job_kwargs(job) or None,
                         preamble=job.get("preamble"))


def build_registry(inputs, registry, cmps, dict_fields=(), dict_regex=()):
    if registry is None:
        # the library's defaults: no registry argument at all (the process-wide default registry of string types)
        gen = MetadataGenerator(dict_keys_regex=list(dict_regex), dict_keys_fields=list(dict_fields))
    else:
        gen = MetadataGenerator(registry, dict_keys_regex=list(dict_regex), dict_keys_fields=list(dict_fields))
    reg = _TableRegistry(*cmps)
    for name, samples in inputs:
        reg.process_meta_data(gen.generate(*copy.deepcopy(samples)), name)
    if closure_cost(reg) > 80:
        raise TooCostly()
    reg.merge_models(gen)
    reg.generate_names()
    return reg, gen


def stage_render(batch, inputs, registry, cmps, jobs, dict_fields=(), dict_regex=()):
    """the whole library pipeline + `generate_code` for each job; text compared byte for byte"""
    values, keys = set(), set()
    for _, samples in inputs:
        for s in samples:
            conv.walk_strings(s, values, keys)
    cfg = conv.gen_cfg(registry, dict_fields, dict_regex)
    orc = conv.oracles(registry, values, keys, dict_regex)
    orc.update(name_oracles(keys))
    outs = []
    cost = [0]
    with LabelRecorder() as rec:
        reg = None
        for job in jobs:
            if reg is None or job.get("fresh", True):
                try:
                    reg, _ = build_registry(inputs, registry, cmps, dict_fields, dict_regex)
                except Exception as e:  # noqa
                    return {"err": err_class(e), "stage": "pipeline"}
            try:
                outs.append({"text": render_impl(reg, job)})
            except Exception as e:  # noqa
                outs.append({"err": "NoPointers" if "has no pointers" in str(e) else err_class(e)})
    try:
        reg0 = _TableRegistry(*cmps)
        g0 = MetadataGenerator(registry, dict_keys_regex=list(dict_regex), dict_keys_fields=list(dict_fields))
        for name, samples in inputs:
            reg0.process_meta_data(g0.generate(*copy.deepcopy(samples)), name)
        cost[0] = closure_cost(reg0)
    except Exception:  # noqa
        pass
    if cost[0] > 80:
        batch.skipped_cost += 1
        return {"ok": outs}
    lab, nonprint = rec.tables()
    orc.update(lab)
    orc["nonprint"] = sorted(set(orc["nonprint"]) | set(nonprint))
    req = {"op": "pipeline", "cfg": cfg, "orc": orc, "cmps": enc_cmps(cmps),
           "in": [[n, [conv.enc_json(s) for s in ss]] for n, ss in inputs],
           "render": jobs, "consts": render_consts(registry)}
    batch.add(req, {"ok": outs}, {"inputs": inputs, "jobs": jobs, "project": "render", "cmps": enc_cmps(cmps)})
    return {"ok": outs}


def stage_strtype(batch, s):
    """exact models of int(str) (ASCII grammar) and BooleanString against CPython"""
    from json_to_models.dynamic_typing import BooleanString, IntString

    def run():
        out = {}
        ascii_only = all(ord(ch) < 128 for ch in s)
        try:
            i = IntString.to_internal_value(s)
            out["int"] = str(int(i))
        except ValueError:
            out["int"] = None
        if not ascii_only or len(s) > 4000:
            out["int"] = "skip"
        try:
            out["bool"] = bool(BooleanString.to_internal_value(s))
        except ValueError:
            out["bool"] = None
        return out

    ans = impl_call(run)
    batch.add({"op": "strtype", "in": s, "lower": s.lower()}, ans, {"string": s, "project": "strtype"})
    return ans


def stage_pylex(batch, s):
    """bridge (iii): the model's reading of a double-quoted token vs CPython's, on json.dumps(s, ensure_ascii=False)"""
    import ast
    import json
    tok = json.dumps(s, ensure_ascii=False)

    def run():
        try:
            v = ast.literal_eval(tok)
        except Exception:  # noqa
            return None
        return [ord(ch) for ch in v]

    ans = impl_call(run)
    batch.add({"op": "pylex", "in": tok}, ans, {"string": s})
    return ans


def stage_closure(batch, n, edges):
    """the grouping loop alone: table-driven registry vs Closure.mergeGroups (group list incl. order)"""
    def run():
        sample = {"holder%d" % i: {"k%d" % i: i} for i in range(n)}
        g = MetadataGenerator(make_registry())
        reg = _TableRegistry(TableCmp([["k%d" % a, "k%d" % b] for a, b in edges]))
        reg.process_meta_data(g.generate(sample), "Root")
        pos = {m.index: i - 1 for i, m in enumerate(reg.models)}      # position 0 is Root
        repl = reg.merge_models(g)
        return [sorted(pos[m.index] for m in grp) for _, grp in repl]

    ans = impl_call(run)
    # the model sees n+1 models (Root first, unrelated to everything): shift positions by one
    batch.add({"op": "closure", "n": n + 1, "edges": [[a + 1, b + 1] for a, b in edges]}, ans,
              {"n": n, "edges": edges, "project": "closure"})
    return ans


def enc_pval(v):
    """converted value of the real post-init -> the model's PVal vocabulary"""
    from json_to_models.dynamic_typing import StringSerializable as SS
    if isinstance(v, SS):
        return ["parsed", type(v).__name__]
    if type(v) is list:
        return ["list", [enc_pval(x) for x in v]]
    if isinstance(v, dict):
        return ["dict", [[k, enc_pval(x)] for k, x in v.items()]]
    return ["raw", conv.enc_json(v)]


def annotation_of(ty):
    """typing object of a chain type (what `self.__annotations__[name]` holds for base-style generators)"""
    import typing
    if isinstance(ty, list):
        if ty[0] == "ser":
            return conv.SER_CLASSES[ty[1]]
        if ty[0] == "opt":
            return typing.Optional[annotation_of(ty[1])]
        if ty[0] == "list":
            return typing.List[annotation_of(ty[1])]
        if ty[0] == "dict":
            return typing.Dict[str, annotation_of(ty[1])]
    return {"int": int, "str": str, "float": float, "bool": bool, "null": type(None)}.get(ty, typing.Any)


def stage_convert(batch, ty, path, value, registry):
    from json_to_models.models.string_converters import _process_string_field_value
    values, keys = set(), set()
    conv.walk_strings(value, values, keys)
    orc = conv.oracles(registry, values, keys, extra_classes=list(conv.SER_CLASSES.values()))

    def run():
        return enc_pval(_process_string_field_value(list(path), copy.deepcopy(value), annotation_of(ty)))

    ans = impl_call(run)
    if "err" in ans and ans["err"] == "AttributeError":
        ans["err"] = "TypeError"        # the model has one class for "wrong kind of value"
    batch.add({"op": "convert", "ty": ty, "path": list(path), "in": conv.enc_json(value), "orc": orc}, ans,
              {"ty": ty, "path": path, "value": value})
    return ans


def stage_paths(batch, fields):
    from json_to_models.dynamic_typing import ModelMeta
    from json_to_models.models.string_converters import get_string_field_paths

    def run():
        m = ModelMeta(conv.dec_ty(["obj", fields]), "1A")
        return [[k, p if isinstance(p, str) else ""] for k, p in get_string_field_paths(m)]

    ans = impl_call(run)
    batch.add({"op": "paths", "in": fields}, ans, {"fields": fields, "project": "paths"})
    return ans


def stage_remove_by_name(batch, kinds, dt, name):
    registry = make_registry(kinds, datetime=dt)
    before = conv.reg_cfg(registry)

    def run():
        registry.remove_by_name(name)
        c = conv.reg_cfg(registry)
        return {"types": c["types"], "replaces": c["replaces"]}

    ans = impl_call(run)
    batch.add({"op": "removebyname", "reg": before, "name": name}, ans, {"kinds": kinds, "name": name, "project": "regcfg"})
    return ans


def stage_setargs(batch, kw_items, dkr, dkf, disable_unicode, preamble):
    """the real `Cli.set_args` for the options that are stored as they are mapped (dict-key options, preamble, unicode
    flag, generator kwargs items) against `CliArgs.setArgs`"""
    def run():
        from json_to_models.cli import Cli
        cli = Cli()
        cli.set_args([], "flat", "base", None, list(kw_items), list(dkr), list(dkf), disable_unicode, preamble)
        base = {"post_init_converters", "convert_unicode", "max_literals"}
        kw = [[k, v] for k, v in cli.model_generator_kwargs.items() if k not in base]
        return {"dkr": [p.pattern for p in cli.dict_keys_regex], "dkf": list(cli.dict_keys_fields),
                "preamble": cli.preamble, "convert_unicode": cli.model_generator_kwargs["convert_unicode"], "kwargs": kw}
    names = [it.strip('"').split("=", 1)[0] for it in kw_items if "=" in it]
    if any(n in ("post_init_converters", "convert_unicode", "max_literals") for n in names):
        return None
    ans = impl_call(run)
    req = {"op": "setargs", "kw": list(kw_items), "dkr": list(dkr), "dkf": list(dkf), "disableUnicode": bool(disable_unicode)}
    if preamble is not None:
        req["preamble"] = preamble
    batch.add(req, ans, {"kw": kw_items, "dkr": dkr, "dkf": dkf, "preamble": preamble})
    return ans


def stage_spaces(batch):
    """`str.isspace` over every code point against `CliArgs.pyIsSpace` (what `str.strip()` removes)"""
    ans = impl_call(lambda: [c for c in range(0x110000) if chr(c).isspace()])
    batch.add({"op": "spaces", "limit": 0x110000}, ans, {"table": "str.isspace"})


class _Boom(Exception):
    pass


def _ctx_run_body(body, probe, other, reads):
    """execute a Body on the real AbsoluteModelRef: reads are observed through the text of a reference to `probe`"""
    from json_to_models.dynamic_typing import AbsoluteModelRef
    tag = body[0]
    if tag == "read":
        _, text = AbsoluteModelRef(probe).to_typing_code({})
        inner = text.strip("'")
        reads.append(inner[:-len(probe.name) - 1] if inner.endswith("." + probe.name) else "")
    elif tag == "raise":
        raise _Boom()
    elif tag == "seq":
        _ctx_run_body(body[1], probe, other, reads)
        _ctx_run_body(body[2], probe, other, reads)
    elif tag == "inject":
        mapping = {(probe if k == "P" else other): v for k, v in body[1]}
        with AbsoluteModelRef.inject(mapping):
            _ctx_run_body(body[2], probe, other, reads)
    else:
        raise ValueError(tag)


def gen_ctx_body(rng, depth=3):
    r = rng.random()
    if depth <= 0 or r < 0.3:
        return ["read"] if rng.random() < 0.8 else ["raise"]
    if r < 0.6:
        return ["seq", gen_ctx_body(rng, depth - 1), gen_ctx_body(rng, depth - 1)]
    patches = rng.choice([[], [["P", rng.choice(["Root", "Outer", "A"])]], [["Q", "X"]], [["P", "B"], ["Q", "Y"]]])
    return ["inject", patches, gen_ctx_body(rng, depth - 1)]


def stage_ctxexec(batch, schedule):
    """nested `with AbsoluteModelRef.inject(...)` blocks, reads and exceptions, run in the main thread (0) and in two
    long-lived worker threads (1, 2) one after the other, against `Runtime.exec`: what every read shows and what each
    thread's context is afterwards"""
    import queue
    import threading
    from json_to_models.dynamic_typing import ModelMeta

    def run():
        probe, other = ModelMeta({"a": int}, "9P"), ModelMeta({"b": int}, "9Q")
        probe.name, other.name = "Probe", "Other"
        inbox = {t: queue.Queue() for t in (1, 2)}
        outbox = queue.Queue()

        def one(body):
            reads = []
            try:
                _ctx_run_body(body, probe, other, reads)
                return {"ok": True, "reads": reads}
            except _Boom:
                return {"ok": False, "reads": reads}

        def worker(t):
            while True:
                body = inbox[t].get()
                if body is None:
                    return
                outbox.put(one(body))

        ths = {t: threading.Thread(target=worker, args=(t,), daemon=True) for t in (1, 2)}
        for th in ths.values():
            th.start()
        items = []
        for t, body in schedule + [[t, ["read"]] for t in (0, 1, 2)]:
            if t == 0:
                items.append(one(body))
            else:
                inbox[t].put(body)
                items.append(outbox.get(timeout=60))
        for t in (1, 2):
            inbox[t].put(None)
        final = [it["reads"][0] for it in items[-3:]]
        return {"items": items[:-3], "final": final}

    ans = impl_call(run)
    batch.add({"op": "ctxexec", "threads": [0, 1, 2], "schedule": schedule}, ans, {"schedule": schedule})
    return ans


def stage_ctxops(batch, ops):
    """primitive operations of the reference context in three real threads (0 = main, 1 and 2 long-lived workers) in an
    arbitrary interleaving: enter / exit of `AbsoluteModelRef.inject(...)` managers and reads, against `Runtime.runOps`"""
    import queue
    import threading
    from json_to_models.dynamic_typing import AbsoluteModelRef, ModelMeta

    def run():
        probe, other = ModelMeta({"a": int}, "9P"), ModelMeta({"b": int}, "9Q")
        probe.name, other.name = "Probe", "Other"
        stacks = {0: [], 1: [], 2: []}

        def do(op):
            if op[0] == "enter":
                cm = AbsoluteModelRef.inject({(probe if k == "P" else other): v for k, v in op[2]})
                cm.__enter__()
                stacks[op[1]].append(cm)
                return None
            if op[0] == "exit":
                if stacks[op[1]]:
                    stacks[op[1]].pop().__exit__(None, None, None)
                return None
            _, text = AbsoluteModelRef(probe).to_typing_code({})
            inner = text.strip("'")
            return inner[:-len(probe.name) - 1] if inner.endswith("." + probe.name) else ""

        inbox = {t: queue.Queue() for t in (1, 2)}
        outbox = queue.Queue()

        def worker(t):
            while True:
                op = inbox[t].get()
                if op is None:
                    return
                try:
                    outbox.put(("ok", do(op)))
                except Exception as e:  # noqa
                    outbox.put(("err", type(e).__name__))

        ths = [threading.Thread(target=worker, args=(t,), daemon=True) for t in (1, 2)]
        for th in ths:
            th.start()
        reads = []
        try:
            for op in ops:
                if op[1] == 0:
                    r = do(op)
                else:
                    inbox[op[1]].put(op)
                    st, r = outbox.get(timeout=60)
                    if st == "err":
                        raise RuntimeError(r)
                if op[0] == "read":
                    reads.append(r)
        finally:
            for t in (1, 2):
                inbox[t].put(None)
            for t in (0,):
                while stacks[t]:
                    stacks[t].pop().__exit__(None, None, None)       # leave the main thread's context as it was
        return reads

    ans = impl_call(run)
    batch.add({"op": "ctxops", "ops": ops}, ans, {"ops": ops})
    return ans


def gen_ctx_ops(rng):
    ops = []
    for _ in range(rng.randint(3, 14)):
        t = rng.choice([0, 1, 1, 2])
        r = rng.random()
        if r < 0.35:
            ops.append(["enter", t, rng.choice([[], [["P", rng.choice(["Root", "Outer", "A"])]], [["Q", "X"]], [["P", "B"], ["Q", "Y"]]])])
        elif r < 0.55:
            ops.append(["exit", t])
        else:
            ops.append(["read", t])
    return ops + [["read", 0], ["read", 1], ["read", 2]]
