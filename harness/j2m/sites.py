"""Site inventory (DESIGN §4.5): every place where the source creates / iterates a set, keeps process-level mutable state,
writes a file, prints, reads argv / the clock or touches threading. Rows are identified by
(file, enclosing function, kind, normalised source) — not by line number — and compared with the committed table
harness/site_inventory.json, where each row says how the model accounts for it."""
import ast
import json
import os

HERE = os.path.dirname(os.path.dirname(os.path.abspath(__file__)))
TABLE = os.path.join(HERE, "site_inventory.json")
PROCESS_WIDE = {("os", "chdir"), ("os", "putenv"), ("os", "umask"), ("locale", "setlocale"), ("random", "seed"),
                ("warnings", "filterwarnings"), ("warnings", "simplefilter"), ("logging", "basicConfig"),
                ("signal", "signal"), ("atexit", "register"), ("gc", "disable"), ("gc", "enable"), ("gc", "set_threshold"),
                ("importlib", "reload"), ("threading", "setprofile"), ("threading", "settrace"),
                ("threading", "stack_size"), ("resource", "setrlimit")}
MUTABLE_CALLS = {"dict", "list", "set", "defaultdict", "OrderedSet", "local", "StringSerializableRegistry", "Index"}


def _src(node):
    try:
        return " ".join(ast.unparse(node).split())[:160]
    except Exception:  # noqa
        return type(node).__name__


class Scan(ast.NodeVisitor):
    def __init__(self, rel):
        self.rel = rel
        self.stack = []
        self.rows = []

    def row(self, kind, node):
        self.rows.append({"file": self.rel, "where": ".".join(self.stack) or "<module>", "kind": kind, "src": _src(node)})

    def visit_FunctionDef(self, node):
        self.stack.append(node.name)
        self.generic_visit(node)
        self.stack.pop()

    visit_AsyncFunctionDef = visit_FunctionDef

    def visit_ClassDef(self, node):
        self.stack.append(node.name)
        # class-level mutable state
        for st in node.body:
            if isinstance(st, (ast.Assign, ast.AnnAssign)) and st.value is not None and self._mutable(st.value):
                self.row("class-level-mutable", st)
        self.generic_visit(node)
        self.stack.pop()

    def _mutable(self, v):
        if isinstance(v, (ast.List, ast.Dict, ast.Set, ast.ListComp, ast.DictComp, ast.SetComp)):
            return True
        if isinstance(v, ast.Call):
            f = v.func
            name = f.id if isinstance(f, ast.Name) else f.attr if isinstance(f, ast.Attribute) else ""
            return name in MUTABLE_CALLS
        return False

    def visit_Module(self, node):
        for st in node.body:
            if isinstance(st, (ast.Assign, ast.AnnAssign)) and st.value is not None and self._mutable(st.value):
                self.row("module-level-mutable", st)
        self.generic_visit(node)

    def visit_Set(self, node):
        self.row("set-display", node)
        self.generic_visit(node)

    def visit_SetComp(self, node):
        self.row("set-comprehension", node)
        self.generic_visit(node)

    def visit_Call(self, node):
        f = node.func
        name = f.id if isinstance(f, ast.Name) else f.attr if isinstance(f, ast.Attribute) else ""
        if name in ("set", "frozenset", "OrderedSet"):
            self.row("set-construction", node)
        if name == "next" and node.args and isinstance(node.args[0], ast.Call) and getattr(node.args[0].func, "id", "") == "iter":
            self.row("next-iter", node)
        if name == "open":
            mode = None
            if len(node.args) > 1 and isinstance(node.args[1], ast.Constant):
                mode = node.args[1].value
            for kw in node.keywords:
                if kw.arg == "mode" and isinstance(kw.value, ast.Constant):
                    mode = kw.value.value
            if mode and any(c in str(mode) for c in "wax+"):
                self.row("open-for-writing", node)
        if name == "print":
            self.row("print", node)
        if name in ("now", "today", "time") and isinstance(f, ast.Attribute):
            self.row("clock", node)
        if isinstance(f, ast.Attribute) and isinstance(f.value, ast.Name) and (f.value.id, name) in PROCESS_WIDE or \
                (isinstance(f, ast.Attribute) and isinstance(f.value, ast.Name) and f.value.id == "sys" and name.startswith("set")):
            # interpreter- / process-wide settings: shared by every thread and every later call
            self.row("process-wide-setter", node)
        self.generic_visit(node)

    def visit_Attribute(self, node):
        if isinstance(node.value, ast.Name) and node.value.id == "threading":
            self.row("threading", node)
        if isinstance(node.value, ast.Name) and node.value.id == "sys" and node.attr == "argv":
            self.row("sys.argv", node)
        self.generic_visit(node)

    def visit_Global(self, node):
        self.row("global-statement", node)


def scan(repo):
    rows = []
    root = os.path.join(repo, "json_to_models")
    for d, _, files in sorted(os.walk(root)):
        for f in sorted(files):
            if f.endswith(".py"):
                path = os.path.join(d, f)
                rel = os.path.relpath(path, repo)
                s = Scan(rel)
                s.visit(ast.parse(open(path, encoding="utf-8").read()))
                rows.extend(s.rows)
    return rows


def key(r):
    return (r["file"], r["where"], r["kind"], r["src"])


def compare(repo, kinds=None):
    """returns (new rows not in the table, table rows that disappeared)"""
    table = json.load(open(TABLE))["rows"]
    have = {key(r) for r in table}
    now = scan(repo)
    if kinds:
        now = [r for r in now if r["kind"] in kinds]
        table = [r for r in table if r["kind"] in kinds]
    seen = {key(r) for r in now}
    new = [r for r in now if key(r) not in have]
    gone = [r for r in table if key(r) not in seen]
    return new, gone


if __name__ == "__main__":
    import sys
    rows = scan(sys.argv[1] if len(sys.argv) > 1 else "/repo")
    for r in rows:
        print(json.dumps(r))
