"""Seeded, structured generators (G-json, G-ir, G-key, G-reg). Every random choice comes from the Random passed in."""
import random

WORDS = ["a", "b", "c", "id", "name", "value", "items", "data", "type", "x", "y", "k1", "k2", "k3", "meta", "tags"]
PLAIN = ["foo", "bar", "baz", "qux", "red", "green", "blue", "a,b", "a", "b", "x y", 'q"t', "back\\slash",
         "new\nline", "it's", "tab\t", "]", "é", "ß", "日本", "😀", "", "N/A", "none", "yes", "no",
         "ls\u2028x", "ps\u2029x", "nel\x85x", "vt\x0bx", "ff\x0cx", "fs\x1cx", "cr\rx", "nul\x00x",
         # short (< 20 characters) but long when escaped: non-ASCII words, quotes / backslashes / control characters
         "тестовый", "données été", "日本語のテキスト", "😀😀😀😀", 'say "hi" \\ ok\t', '"""\\\\"""\n\n',
         # values that differ only by letter case
         "ok", "OK", "Ok", "GET", "get", "Get"]
CASEPOOL = ["ok", "OK", "Ok", "oK", "GET", "get", "Get", "ß", "SS", "ss"]
PSEUDO = ["1", "-2", "+3", "0", "1.5", "-0.5", "1e3", "1E-2", ".5", "5.", "true", "false", "True", "FALSE",
          " 12 ", "1_000", "١٢", "nan", "inf", "-inf", "Infinity", "0x10", "1__0", "_1", "12\n",
          "2020-01-02", "2020-01", "20200102", "12:30", "12:30:45.123", "2020-01-02T03:04:05",
          "2020-01-02T03:04:05Z", "2020-01-02 03:04", "2020-W01-1", "T12", "1 Jan 2020",
          "0999-12-31", "0001-01-01", "09870605", "0987-06-05T01:02:03", "9999-12-31", "00:00", "23:59:59.999999"]


# G-key: key styles (in-domain: contain an ASCII-transliterable letter, no leading digit/underscore)
KEYS_STYLED = ["snake_case", "camelCase", "PascalCase", "kebab-case", "with space", "dotted.name", "a1b2", "x2y",
               "class", "def", "import", "list", "dict", "type", "id", "pk", "optional", "field", "Field", "List", "Any",
               "datetime", "schema", "str", "int", "None", "True", "from", "lambda", "Root", "Model0", "self",
               "naïve", "straße", "приветx", "Ünïcode", "a\"b", "a\\b", "a'b", "tab\tkey", "new\nline", "q?mark",
               "UPPER", "mixedCASE_key", "a__b", "trailing_", "items", "children", "data", "ITEM-s", "x😀y",
               "dataclass", "attr", "BaseModel", "Literal", "Optional", "Union", "Dict", "converter", "json",
               "schemaJson", "parseObj", "fromOrm", "updateForwardRefs", "convertStrings", "parseRaw", "SchemaJson",
               "isInstance", "hasAttr", "classMethod", "notImplemented", "baseException",
               "lsep\u2028key", "nel\x85key", "vtab\x0bkey", "ffeed\x0ckey", "gsep\x1dkey",
               # a non-printable character together with one outside the BMP (escaping decisions taken per string); the astral
               # letters are of a cased script (Deseret) and NFKC-stable, as the key domain asks
               "eta\xa0\U0001f680x", "total\u200d\U00010400 (net)", "zw\u200bsp\U0001f600ace", "bidi\u200emark\U00010428",
               "nbsp\xa0only", "astral\U0001f680only",
               # keys that sanitise to the names sqlmodel treats specially
               "PK", "Pk", "pk.", "ID", "Id", "id-"]
KEYS_OUT = ["日本語a", "1abc", "0", "9lives", "_private", "__dunder__", "", "-", "日本", "***", " ", "fooBar", "foo_bar", "FooBar",
            "foo-bar", "😀"]


KEYS_MIXED_OUT = KEYS_OUT + KEYS_STYLED


def rng_for(seed, *tags):
    return random.Random("|".join([str(seed), *map(str, tags)]))


def long_string(rng, n):
    return "".join(rng.choice("abcdefghij") for _ in range(n))


def gen_string(rng, pseudo_p=0.3):
    r = rng.random()
    if r < pseudo_p:
        return rng.choice(PSEUDO)
    if r < pseudo_p + 0.08:
        return long_string(rng, rng.choice([19, 20, 21, 25]))
    if r < pseudo_p + 0.12:
        return "v%d" % rng.randrange(40)       # many distinct short literals (overflow by count)
    if r < pseudo_p + 0.17:
        return rng.choice(CASEPOOL)            # literals of one field that differ only by case
    return rng.choice(PLAIN)


def gen_atom(rng):
    r = rng.random()
    if r < 0.12:
        return None
    if r < 0.22:
        return rng.choice([True, False])
    if r < 0.40:
        return rng.choice([0, 1, -1, 7, 42, 10 ** 20])
    if r < 0.52:
        return rng.choice([0.5, 1.0, -2.25, 1e100])
    return gen_string(rng)


def gen_value(rng, depth, keys=WORDS):
    if depth <= 0:
        return gen_atom(rng)
    r = rng.random()
    if r < 0.45:
        return gen_atom(rng)
    if r < 0.70:
        n = rng.choice([0, 0, 1, 1, 2, 3])
        if n and rng.random() < 0.5:
            # homogeneous list of objects with a shared key pool
            pool = rng.sample(keys, k=min(len(keys), rng.randint(1, 4)))
            return [gen_object(rng, depth - 1, pool, drop_p=0.3) for _ in range(n)]
        return [gen_value(rng, depth - 1, keys) for _ in range(n)]
    pool = rng.sample(keys, k=min(len(keys), rng.randint(0, 4)))
    return gen_object(rng, depth - 1, pool, drop_p=0.2)


def gen_object(rng, depth, pool, drop_p=0.2):
    o = {}
    ks = list(pool)
    if rng.random() < 0.3:
        rng.shuffle(ks)
    for k in ks:
        if rng.random() < drop_p:
            continue
        o[k] = gen_value(rng, depth, WORDS)
    return o


def fold(k):
    """case/punctuation folding that defines C11's domain: keys of one object must be pairwise distinct after it"""
    import re
    from unidecode import unidecode
    return re.sub(r"[\W_]+", "", unidecode(k)).lower()


def distinct_after_folding(keys):
    seen = set()
    out = []
    for k in keys:
        f = fold(k)
        if f and f not in seen:
            seen.add(f)
            out.append(k)
    return out


def sample_keys(rng, keys, lo, hi):
    """a key set in the documented domain when `keys` is (pairwise distinct after folding)"""
    return rng.sample(keys, k=min(len(keys), rng.randint(lo, hi)))


def key_pool(rng, styled_p=0.0, out_p=0.0):
    r = rng.random()
    if r < out_p:
        return KEYS_MIXED_OUT
    elif r < out_p + styled_p:
        # the key universe of one case: pairwise distinct after folding (C11's domain), a different subset every time
        u = KEYS_STYLED + WORDS
        u = rng.sample(u, k=len(u))
        return distinct_after_folding(u)
    return WORDS


def gen_samples(rng, max_samples=4, depth=3, keys=None):
    """a non-empty list of JSON objects drawn from one key pool, so that fields merge / go optional / unionise"""
    if keys is not None:
        pool = sample_keys(rng, keys, 1, 6)
        n = rng.randint(1, max_samples)
        return [gen_object_k(rng, depth, pool, keys, drop_p=0.25) for _ in range(n)]
    pool = rng.sample(WORDS, k=rng.randint(1, 6))
    n = rng.randint(1, max_samples)
    return [gen_object(rng, depth, pool, drop_p=0.25) for _ in range(n)]


def gen_object_k(rng, depth, pool, keys, drop_p=0.2):
    """like gen_object but nested objects draw their keys from `keys`"""
    o = {}
    for k in pool:
        if rng.random() < drop_p:
            continue
        r = rng.random()
        if depth > 0 and r < 0.3:
            sub = sample_keys(rng, keys, 1, 4)
            o[k] = gen_object_k(rng, depth - 1, sub, keys, drop_p)
        elif depth > 0 and r < 0.45:
            sub = sample_keys(rng, keys, 1, 3)
            o[k] = [gen_object_k(rng, depth - 1, sub, keys, 0.3) for _ in range(rng.randint(1, 3))]
        else:
            o[k] = gen_value(rng, min(depth, 1), WORDS)
    return o


def mutate_sample(rng, s, depth=2):
    """a variation of an object: same keys, some values re-drawn — produces unions at equal positions"""
    out = {}
    for k, v in s.items():
        r = rng.random()
        if r < 0.15:
            continue
        if r < 0.5:
            out[k] = gen_value(rng, depth, WORDS)
        elif isinstance(v, dict) and rng.random() < 0.7:
            out[k] = mutate_sample(rng, v, depth - 1)
        elif isinstance(v, list) and v and rng.random() < 0.7:
            out[k] = [mutate_sample(rng, x, depth - 1) if isinstance(x, dict) else gen_value(rng, depth - 1, WORDS) for x in v]
        else:
            out[k] = v
    return out


def gen_sample_family(rng, max_samples=4, depth=3):
    base = gen_samples(rng, 1, depth)[0]
    n = rng.randint(1, max_samples)
    return [base] + [mutate_sample(rng, base, depth) for _ in range(n - 1)]


def gen_shared_shape(rng):
    """one sample in which the same object shape (>= 4 keys, so that the default policies merge it) occurs at several
    positions with variations: a value nulled, a key dropped, a value of another type, an extra key"""
    keys = rng.sample(WORDS, k=rng.randint(4, 7))
    base = {k: gen_atom(rng) for k in keys}

    def variant():
        v = dict(base)
        r = rng.random()
        k = rng.choice(keys)
        if r < 0.3:
            v[k] = None
        elif r < 0.5:
            del v[k]
        elif r < 0.7:
            v[k] = gen_atom(rng)
        elif r < 0.8:
            v["extra"] = gen_atom(rng)
        if rng.random() < 0.3:
            items = list(v.items())
            rng.shuffle(items)
            v = dict(items)
        return v

    holders = rng.sample(["x", "y", "z", "w"], k=rng.randint(2, 4))
    out = {}
    for h in holders:
        r = rng.random()
        if r < 0.4:
            out[h] = variant()
        elif r < 0.8:
            out[h] = [variant() for _ in range(rng.randint(1, 3))]
        else:
            out[h] = {"inner": variant(), "n": 1}
    return out


def gen_recursive_tree(rng):
    """a recursive document: node objects nest themselves under a list key, so the merged node model points to itself and
    has no pure root above it; a small sub-object occurs in the node and in another nested object of the node, so its
    model is used by two models inside the cycle"""
    ks = rng.sample(WORDS, k=6)
    ident, kids, tag, extra, a, b = ks
    tagv = {a: 1, b: 2}
    if rng.random() < 0.4:
        tagv[rng.choice(WORDS)] = "s"

    def node(depth):
        n = {ident: depth, tag: dict(tagv)}
        n[kids] = [node(depth + 1) for _ in range(rng.randint(1, 2))] if depth < rng.randint(1, 2) else []
        if depth > 0 or rng.random() < 0.3:
            n[extra] = {"p": 1, tag: dict(tagv)}
            if rng.random() < 0.3:
                n[extra][kids] = []
        return n

    return node(0)


SCALARS_2PASS = [1, 1.5, "a", "123", "1.5", True, "true", None, [1], ["1"], {"q": 1}]


def gen_two_pass_merge(rng):
    """two places with the same key set, where one carries a plain required value for a field and the other a list of
    objects whose values for that field differ in type or are missing (so it already is Optional[Union[...]]): the
    merged field needs the simplifier applied to a union of already-simplified parts"""
    keys = rng.sample(WORDS, k=rng.randint(3, 5))
    f = keys[0]
    rest = {k: 1 for k in keys[1:]}
    single = dict(rest, **{f: rng.choice(SCALARS_2PASS[:7])})
    many = []
    for _ in range(rng.randint(2, 4)):
        o = dict(rest)
        if rng.random() < 0.8:
            o[f] = rng.choice(SCALARS_2PASS)
        many.append(o)
    if rng.random() < 0.7:
        many.append(dict(rest))
    out = {"x": single, "y": many}
    if rng.random() < 0.3:
        out = {"y": many, "x": single}
    if rng.random() < 0.3:
        out["z"] = {"inner": dict(single), "n": 1}
    return out


CLASH_PAIRS = [("données", "donnees"), ("naïve", "naive"), ("a.b", "ab"), ("user.id", "userid"), ("list", "list_"),
               ("any", "any_"), ("straße", "strasse"), ("item's", "items"), ("x y", "xy"), ("café", "cafe"),
               ("field", "field_"), ("user:id", "userid"), ("Ünit", "Unit")]
ROOT_NAMES = ["List", "Any", "Optional", "Field", "Literal", "BaseModel", "Dict", "Union", "Données", "datetime", "Root"]


def gen_name_clash(rng, skewed=None):
    """different objects whose keys give different registry names that convert to the same class name"""
    k1, k2 = rng.choice(CLASH_PAIRS)
    if rng.random() < 0.5:
        k1, k2 = k2, k1
    if (rng.random() < 0.3) if skewed is None else skewed:
        # tree-shaped, and the registry order is not depth-first: the deeper model is merged from two similar siblings (so it
        # is registered last), an earlier subtree precedes it and the other clashing model is a later top-level sibling
        plain = "old_" + "".join(c for c in k1 if c.isalnum())
        return {"info": {"version": 1}, "x": {"n": 1.5, k1: {"p": 1, "k": 2}, plain: {"p": 1, "k": 2}},
                k2: {"q": "s", "r": True}}
    out = {"p": {k1: {"x": 1}}, "q": {k2: {"y": "s"}}}
    if rng.random() < 0.3:
        out["r"] = {k1: {"z": [1.5]}, "n": 1}
    if rng.random() < 0.3:
        out["p"]["n"] = {"deep": {k2: {"w": True}}}
    return out


def gen_rooted_cycle(rng):
    """(root name, sample): a root whose name may need conversion and a nested object that refers back to it"""
    name = rng.choice(ROOT_NAMES)
    ks = rng.sample(WORDS, k=5)
    leaf = {ks[0]: 1, ks[1]: "x", ks[2]: 2, ks[3]: 3, ks[4]: None}
    inner = dict(leaf)
    inner[ks[4]] = {"q": 1, "back": dict(leaf)}
    if rng.random() < 0.4:
        inner[ks[4]]["more"] = {"u": 1.5, "v": [dict(leaf)] if rng.random() < 0.5 else "t"}
    return name, inner


def gen_polymorphic_child(rng):
    """a model inferred from a list of objects whose field holds a nested object in some items and a list of (other)
    nested objects in others — one field owning two nested-model references — and a similar model elsewhere, so that the
    polymorphic model is a member of a merge group"""
    ks = rng.sample(WORDS, k=rng.randint(3, 5))
    pay = ks[0]
    rest = {k: 1 for k in ks[1:]}
    one = dict(rest, **{pay: {"p": 1, "q": "s"}})
    many = dict(rest, **{pay: [{"r": 1.5, "s": True}] if rng.random() < 0.7 else [{"p": 2, "q": "t"}, {"r": 1.5}]})
    items = [one, many]
    if rng.random() < 0.4:
        items.append(dict(rest, **{pay: None}))
    rng.shuffle(items)
    out = {"x": items, "y": dict(rest, **{pay: {"p": 3, "q": "u"}})}
    if rng.random() < 0.3:
        out["z"] = {"inner": dict(rest, **{pay: [{"r": 2.5, "s": False}]})}
    return out


def gen_chain_samples(rng):
    """several samples whose nested objects are similar along a CHAIN only (ten-key windows shifted by one key: neighbours
    share 9 of 11 keys, windows two apart 8 of 12 < 70%), the chain nodes spread over samples and holder keys in a random
    order — the merge result must be the whole chain whatever order the registry meets the pairs in"""
    n = rng.randint(4, 6)
    width = 10
    nodes = [{"f%d" % j: 1 for j in range(i, i + width)} for i in range(n)]
    order = list(range(n))
    rng.shuffle(order)
    samples = []
    i = 0
    while i < n:
        k = rng.randint(1, 3)
        samples.append({"h%d" % order[j]: nodes[order[j]] for j in range(i, min(n, i + k))})
        i += k
    return samples


PSEUDO_KINDS = {
    "int": ["1", "-2", "42"], "float": ["1.5", "-0.5", "1e3"], "bool": ["true", "false", "True"],
    "date": ["2021-03-04", "2020-01-02"], "time": ["12:30", "10:20:30"],
    "datetime": ["2021-03-04T10:20:30", "2020-01-02T03:04:05Z", "2020-01-02 03:04"], "plain": ["foo", "N/A"],
}


def gen_pseudo_mix(rng):
    """samples in which one field holds strings of two or three different pseudo-type kinds (int / float / bool / date /
    time / datetime / plain), within one model and across two models that merge"""
    kinds = rng.sample(sorted(PSEUDO_KINDS), k=rng.choice([2, 2, 3]))
    vals = [rng.choice(PSEUDO_KINDS[k]) for k in kinds]
    rest = {"id": 1, "name": "n"}
    samples = [dict(rest, at=v) for v in vals]
    if rng.random() < 0.4:
        samples.append(dict(rest))                      # the field is also absent once
    if rng.random() < 0.4:
        samples.append(dict(rest, at=None))
    rng.shuffle(samples)
    if rng.random() < 0.4:
        # two holders of the same shape, each with one kind only: the kinds meet when the models are merged
        return [{"first": dict(rest, at=vals[0], k1=1, k2=2), "second": dict(rest, at=vals[1], k1=1, k2=2),
                 "list": samples}]
    return samples


def pseudo_mix_sweep():
    """every pair and triple of pseudo-type kinds in one field (deterministic)"""
    import itertools
    kinds = sorted(PSEUDO_KINDS)
    rest = {"id": 1, "name": "n"}
    for r in (2, 3):
        for combo in itertools.combinations(kinds, r):
            yield [dict(rest, at=PSEUDO_KINDS[k][i % len(PSEUDO_KINDS[k])]) for i, k in enumerate(combo)]


def gen_dict_union(rng):
    """(samples, dict_fields): a field that is a mapping (by option) in some samples and a value of another kind in others,
    the mapping's own values needing simplification (int next to float, nulls, pseudo-type strings, nested objects)"""
    f = rng.choice(["prices", "data", "meta"])
    pool = [1, 2.5, None, "1", "x", True, [1], {"q": 1}, {"q": 2.5, "r": None}]
    mapping = {"k%d" % i: rng.choice(pool) for i in range(rng.randint(2, 4))}
    other = rng.choice(["n/a", 7, [1, 2], {"inner": 1}, 1.5])
    samples = [{f: mapping, "id": 1}, {f: other, "id": 2}]
    if rng.random() < 0.4:
        samples.append({f: {"z": rng.choice(pool)}, "id": 3})
    if rng.random() < 0.3:
        samples.append({"id": 4})
    rng.shuffle(samples)
    return samples, [f]


def gen_literal_boundary(rng):
    """sample lists in which a vocabulary of exactly 14 / 15 / 16 short values reaches one position through unions (list
    fields joined over samples; similar sibling objects merged by the registry), most of it in one sample and single
    values in others — the result must not depend on which sample comes first"""
    k = rng.choice([14, 15, 15, 15, 16])
    words = ["w%02d" % i for i in range(k)]
    some = rng.sample(words, k=rng.randint(1, 2))
    if rng.random() < 0.5:
        samples = [{"tags": list(words), "n": 1}, {"tags": [some[0]], "n": 2}, {"tags": some, "n": 3}]
    else:
        full = [{"kind": w, "v": 1, "u": 2, "t": 3} for w in words]
        samples = [{"first": {"kind": some[0], "v": 1, "u": 2, "t": 3}}, {"second": full}, {"third": [{"kind": s, "v": 1, "u": 2, "t": 3} for s in some]}]
    rng.shuffle(samples)
    return samples


PHRASES = ["ready to be merged", "waiting for review", "changes requested", "closed-won't fix", "needs more info",
           "in progress now", "blocked by other", "re-opened again", "done and shipped", "semi-automatic run", "a b c d e f g",
           "x-y-z to check", "on hold for now", "to be confirmed", "not applicable"]


def gen_long_literal(rng):
    """a Literal whose rendered value list is long (well over 100 characters) and whose values hold spaces and hyphens, as
    a field and as the element of a list: however the emitter lays the annotation out, the values stay what they are"""
    k = rng.randint(5, 9)
    vals = rng.sample(PHRASES, k=k)
    samples = [{"status": v, "n": i} for i, v in enumerate(vals)]
    samples[0]["history"] = list(vals)
    samples[-1]["child"] = {"state": vals[0], "k": 1}
    for v in vals[1:]:
        samples.append({"status": vals[0], "n": 0, "child": {"state": v, "k": 2}})
    return samples


def gen_shared_under_root(rng, union=None):
    """one root whose nested classes share a child model (the nested layout hoists it into the root and refers to it by an
    absolute 'Root.Child' path), under root names the generator has to convert"""
    name = rng.choice(ROOT_NAMES + ["Route-2", "2fast", "Données", "my root"])
    pt = lambda j: {"x": j, "y": j + .5}
    docs = [{"left": {"point": pt(1), "a": 1}, "right": {"point": pt(2), "b": "x"},
             "deep": {"inner": {"point": pt(3), "c": [1]}, "d": 1.5}}]
    if rng.random() < 0.4:
        docs.append({"left": {"point": pt(4), "a": 2}, "right": {"point": pt(5), "b": "y"}, "deep": {"inner": {"point": pt(6), "c": []}, "d": 2}})
    if (rng.random() < 0.6) if union is None else union:
        # ... the shared child also sits inside a Union / a list of mixed members in one of the referring classes
        docs.append({"left": {"point": pt(7), "a": 3}, "right": {"point": rng.choice([7, "far", [pt(8), 1]]), "b": "z"},
                     "deep": {"inner": {"point": pt(9), "c": [2]}, "d": 3}})
    return name, docs


def gen_key_order_swap(rng):
    """samples that hold, at one position (directly and as list elements), objects with the same keys written in a different
    order, whose value types agree position by position although the key-to-type assignment differs: the objects are
    different types and both must be merged, whichever sample comes first"""
    ks = rng.sample(["a", "b", "c", "d", "zeta", "alpha"], k=rng.choice([2, 2, 3]))
    pool = [[1, 2], [True, False], [1.5, 2.5], [None, None], ["x", "x"]]
    tys = rng.sample(pool, k=len(ks))
    perm = ks[1:] + ks[:1]
    o1 = {k: tys[i][0] for i, k in enumerate(ks)}
    o2 = {k: tys[i][1] for i, k in enumerate(perm)}
    shape = rng.choice(["field", "list", "both", "deep"])
    if shape == "field":
        samples = [{"o": o1, "n": 1}, {"o": o2, "n": 2}]
    elif shape == "list":
        samples = [{"l": [o1], "n": 1}, {"l": [o2], "n": 2}]
    elif shape == "both":
        samples = [{"o": o1, "l": [o2, o1]}, {"o": o2, "l": [o1]}]
    else:
        samples = [{"w": {"o": o1, "m": {"k": [o1]}}}, {"w": {"o": o2, "m": {"k": [o2]}}}]
    if rng.random() < 0.4:
        samples.append(dict(samples[0]))
    return samples


def gen_hidden_union_merge(rng):
    """two similar models whose shared field is a required container in one and, in the other (a list of objects), a union
    of several kinds that is also missing once: after the merge the field is a union with an Optional[Union[...]] member,
    whose own members (ints next to the other side's floats, lists next to lists) must still be combined"""
    atoms_a = rng.choice([[1.5], [1.5, 2.5], ["x"], [1], [None, 2.5], ["1", 2], ["1.5", 1], ["true", 1]])
    atoms_b = rng.choice([[1, "a", None], [1, 2], [1, None], ["b", 1], [True, 1], ["3", 2.5, None], ["2.5", None, True],
                          ["false", None, 2.5]])
    other = rng.choice([True, "s", 7, {"k": 1}])
    depth = rng.choice([0, 0, 1])
    fa, fb = atoms_a, atoms_b
    for _ in range(depth):
        fa, fb = [fa], [fb]
    rest = {"g": 1, "h": "t"} if rng.random() < 0.5 else {"g": 1}
    out = {"p": dict(rest, f=fa), "q": [dict(rest, f=fb), dict(rest, f=other), dict(rest)]}
    if rng.random() < 0.3:
        out = {"q": out["q"], "p": out["p"]}
    return out


def gen_nested_containers(rng):
    """values nested directly in two or more containers (lists of lists, lists of mappings-by-option, mappings of lists)
    whose inner rows have the same un-simplified shape in every sample: int next to float, nulls, pseudo-type strings,
    two or three levels down"""
    row = rng.choice([[1, 2.5], [1, None], ["1", "2.5"], [True, None, 1], ["a", None], [1, "x", 2.5]])
    depth = rng.choice([2, 2, 3])

    def wrap(v, d):
        for _ in range(d - 1):
            v = [v, list(v) if isinstance(v, list) else v]
        return v
    out = {"matrix": wrap(list(row), depth), "id": 1}
    if rng.random() < 0.5:
        out["grid"] = {"r1": [list(row)], "r2": [list(row), list(row)]}
    samples = [out, {"matrix": wrap(list(row), depth), "id": 2}]
    return samples


def gen_empty_vs_concrete_merge(rng):
    """similar nested models whose shared field is a container seen only empty (or holding only nulls) in some of them and
    a container with concrete elements (or another kind of value) in others: after the merge `Any` must not survive next
    to the concrete element type"""
    rest = {"g": 1, "h": "t", "i": 2.5, "j": True}
    conc = rng.choice([[1], ["b"], [1.5, 2], [{"k": 1}]])
    variants = [[], [None], conc] if rng.random() < 0.5 else [[], conc, rng.choice(["b", None, 7])]
    rng.shuffle(variants)
    out = {"m%d" % i: dict(rest, f=v) for i, v in enumerate(variants)}
    if rng.random() < 0.5:
        # one holder is itself a list of objects: its own field is already `List[Optional[Any]]` before the registry merge
        holders = [[dict(rest, f=[]), dict(rest, f=[None])], dict(rest, f=[]), dict(rest, f=conc)]
        rng.shuffle(holders)
        out = {"m%d" % i: h for i, h in enumerate(holders)}
    if rng.random() < 0.3:
        out["lst"] = [dict(rest, f=[]), dict(rest)]
    return out


def gen_one_pass_residue(rng):
    """three or more similar models whose merged field needs BOTH passes `merge_models` applies (what one pass leaves:
    a second `Any`, a second `int` next to `float`, `str` from a literal overflow next to a pseudo-type)"""
    rest = {"g": 1, "h": "t", "i": 2.5, "j": True}
    kind = rng.choice(["two-unknowns", "int-twice", "literal-overflow"])
    if kind == "two-unknowns":
        holders = [[dict(rest, f=[]), dict(rest, f=[None])], dict(rest, f=[]), dict(rest, f=[rng.choice([1, "s", 2.5])])]
    elif kind == "int-twice":
        holders = [dict(rest, f=1.5), [dict(rest, f=1), dict(rest, f="a"), dict(rest)], dict(rest, f=7)]
    else:
        a = [dict(rest, f="w%d" % i) for i in range(8)]
        b = [dict(rest, f="v%d" % i) for i in range(8)] + [dict(rest, f="12"), dict(rest)]
        holders = [a, b, dict(rest, f="w0")]
    rng.shuffle(holders)
    return {"m%d" % i: h for i, h in enumerate(holders)}


def gen_object_members(rng):
    """samples whose field is a heterogeneous list (or a mapping-by-position) holding objects with the SAME keys but
    different value types in different samples, next to equal scalar members: the object members must be merged, whatever
    sample comes first"""
    k1, k2 = rng.sample(WORDS, k=2)
    vals = [(7, 1.5), ("E-7", None), (True, "x"), (2.5, [1])]
    rng.shuffle(vals)
    samples = []
    for a, b in vals[:rng.randint(2, 3)]:
        samples.append({"items": [10, {k1: a, k2: b}], "n": 1})
    if rng.random() < 0.4:
        samples.append({"items": [{k1: None, k2: 0}], "n": 2})
    return samples


def gen_identical_siblings(rng):
    """distinct sibling objects with identical field names AND identical field types (numbers, booleans, long strings):
    equal as metadata, but different models unless the merge policy joins them (a number-only policy does not)"""
    ks = rng.sample(WORDS, k=rng.randint(2, 3))
    def shape(seed):
        vals = [1.5 + seed, seed, bool(seed % 2), "x" * 25 + str(seed)]
        return {k: vals[i % len(vals)] for i, k in enumerate(ks)}
    out = {"origin": shape(1), "destination": shape(2), "n": 1}
    if rng.random() < 0.5:
        out["fare"] = {"net": shape(3), "gross": shape(4), "cur": "EUR"}
    if rng.random() < 0.3:
        out["stops"] = [{"at": shape(5)}, {"at": shape(6)}]
    return out


def gen_python_equal_samples(rng):
    """adjacent samples that are equal as Python values but differ in the JSON type of a number (1 == 1.0 == True), also
    inside nested objects and lists: each contributes its own types"""
    pairs = [(10, 10.0), (True, 1), (0, False), (1.0, True), ([1, 2], [1.0, 2.0]), ({"w": 2}, {"w": 2.0})]
    a, b = rng.choice(pairs)
    if rng.random() < 0.5:
        a, b = b, a
    base = {"id": "x", "name": "n"}
    samples = [dict(base, v=a), dict(base, v=b)]
    if rng.random() < 0.5:
        samples.append(dict(base, v=a, extra=None))
    if rng.random() < 0.3:
        samples.insert(0, dict(base, dims={"w": 1, "h": 2}))
        samples.insert(1, dict(base, dims={"w": 1.0, "h": 2}))
    return samples


def gen_many_referrers(rng):
    """one model shape used by 17..24 differently named fields (a mapping given without a dict-keys option): the name
    generated for the merged model is built from all the referring names"""
    n = rng.randint(17, 24)
    codes = ["usd", "eur", "gbp", "jpy", "chf", "cad", "aud", "nzd", "sek", "nok", "dkk", "pln", "czk", "huf", "ron", "bgn",
             "brl", "mxn", "zar", "try", "inr", "cny", "hkd", "sgd", "krw", "thb"]
    rng.shuffle(codes)
    return {"rates": {c: {"bid": 1.5, "ask": 2.5, "n": 1, "src": "x"} for c in codes[:n]}, "base": "eur"}


def gen_shared_samples(rng):
    return [gen_shared_shape(rng) for _ in range(rng.randint(1, 2))]


# ------------------------------------------------------------------------------------------ G-ir
ATOMS_IR = ["int", "float", "bool", "str", "null", "unknown", ["ser", "IntString"], ["ser", "FloatString"],
            ["ser", "BooleanString"], ["lit", False, ["a"]], ["lit", False, ["a", "b"]], ["lit", False, ["c"]],
            ["lit", True, []]]


def ir_universe():
    """~40 types of depth <= 2 (C08's universe)"""
    u = list(ATOMS_IR)
    inner = ["int", "float", "str", "null", "unknown", ["ser", "IntString"], ["lit", False, ["a"]]]
    for t in inner:
        u.append(["list", t])
    for t in ["int", "str", "unknown", ["lit", False, ["b"]]]:
        u.append(["dict", t])
    for t in ["int", "float", ["ser", "BooleanString"], ["lit", False, ["a"]], ["list", "int"], ["list", "unknown"]]:
        u.append(["opt", t])
    u.append(["obj", [["k", "int"]]])
    u.append(["obj", [["k", "str"], ["m", "null"]]])
    u.append(["obj", []])
    u.append(["list", ["obj", [["k", "float"]]]])
    u.append(["list", ["union", ["int", "str"]]])
    u.append(["union", ["int", "null"]])
    u.append(["union", ["bool", ["lit", False, ["z"]]]])
    return u


def gen_ir(rng, depth=3, raw=True):
    r = rng.random()
    if depth <= 0 or r < 0.4:
        t = rng.choice(ATOMS_IR)
        if isinstance(t, list) and t[0] == "lit" and rng.random() < 0.3:
            vals = sorted(set(rng.choice(PLAIN) for _ in range(rng.randint(0, 3))))
            return ["lit", False, vals]
        return t
    if r < 0.52:
        return ["list", gen_ir(rng, depth - 1)]
    if r < 0.60:
        return ["dict", gen_ir(rng, depth - 1)]
    if r < 0.70:
        return ["opt", gen_ir(rng, depth - 1)]
    if r < 0.88:
        return ["union", [gen_ir(rng, depth - 1) for _ in range(rng.randint(1, 4))]]
    ks = rng.sample(["k", "m", "n", "p"], k=rng.randint(0, 3))
    return ["obj", [[k, gen_ir(rng, depth - 1)] for k in ks]]
