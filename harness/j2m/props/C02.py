"""C02 — inferred types are tight: nothing is admitted that no sample exhibited."""
from json_to_models.dynamic_typing import (DDict, DList, DOptional, DUnion, ModelPtr, Null, StringLiteral,
                                           StringSerializable, Unknown)

from .. import conv, gen, stages
from . import common

RULE = ("G-json sample lists x merge policies x dict-key options; correspondence on detect/mkunion/mergefs/optimize/generate/"
        "pipeline; falsifier: route every sample value down the final ModelRegistry graph and check per position: optional "
        "=> some object lacked the key or held null; every union member / element type inhabited by a routed value; Literal "
        "values all observed; Any only under containers observed empty or all-null; non-trivial = a union, Optional or "
        "Literal occurs; distinct by content")
EXPLANATION = ("J2M.C02.* per-function tightness lemmas (merge_opt_iff, mkUnion_members_subset/cover, "
               "detect_unknown_only_empty, optimize_no_new_atoms); C02_tight for the composed pipeline remains partial")
ASSUMPTIONS = ["documented widenings: int absorbed by float, literals overflow to str, several pseudo-types collapse to "
               "their common type or str"]


def correspondence(ctx, batch):
    rng = ctx.rng("corr")
    reg = stages.make_registry()
    for _ in range(ctx.n(150, 2500)):
        samples = gen.gen_sample_family(rng) if rng.random() < .6 else gen.gen_samples(rng)
        stages.stage_generate(batch, samples, common.registry_choice(rng))
        stages.stage_mkunion(batch, [gen.gen_ir(rng, 2) for _ in range(rng.randint(1, 4))], reg)
        sets = [[[k, gen.gen_ir(rng, 2)] for k in rng.sample(["a", "b", "c"], k=rng.randint(0, 3))]
                for _ in range(rng.randint(1, 3))]
        stages.stage_mergefs(batch, sets, reg)
        if rng.random() < 0.3:
            stages.stage_pipeline(batch, common.gen_inputs(rng, styled_p=0.1), reg, common.cmps_choice(rng),
                                  parts=("process", "merge", "replaces"))


def accept(t, v):
    """strict structural membership of a JSON value in an inferred type (independent of the Lean model)"""
    if t is Unknown:
        return False
    if t is Null:
        return v is None
    if t is int:
        return type(v) is int
    if t is float:
        return type(v) in (int, float)
    if t is bool:
        return type(v) is bool
    if t is str:
        return type(v) is str
    if isinstance(t, type) and issubclass(t, StringSerializable):
        return type(v) is str and conv.accepts(t, v)
    if isinstance(t, StringLiteral):
        return type(v) is str and v in t.literals
    if isinstance(t, ModelPtr):
        if not isinstance(v, dict):
            return False
        fields = t.type.type
        return all(k in fields for k in v) and all(k in v or isinstance(ft, DOptional) for k, ft in fields.items())
    cls = type(t)
    if cls is DOptional:
        return v is None or accept(t.type, v)
    if cls is DUnion:
        return any(accept(m, v) for m in t.types)
    if cls is DList:
        return type(v) is list and all(accept(t.type, x) for x in v)
    if cls is DDict:
        return isinstance(v, dict) and all(accept(t.type, x) for x in v.values())
    return False


class Router:
    def __init__(self):
        self.objects = {}        # model index -> list of objects routed there
        self.seen = set()
        self.queue = []

    def give(self, model, obj):
        key = (model.index, id(obj))
        if key in self.seen:
            return
        self.seen.add(key)
        self.objects.setdefault(model.index, []).append(obj)
        self.queue.append((model, obj))

    def route(self, t, v):
        if isinstance(t, ModelPtr):
            if isinstance(v, dict) and accept(t, v):
                self.give(t.type, v)
            return
        cls = type(t)
        if cls is DOptional:
            if v is not None:
                self.route(t.type, v)
        elif cls is DUnion:
            for m in t.types:
                if accept(m, v):
                    self.route(m, v)
        elif cls is DList and type(v) is list:
            for x in v:
                self.route(t.type, x)
        elif cls is DDict and isinstance(v, dict):
            for x in v.values():
                self.route(t.type, x)

    def run(self):
        while self.queue:
            model, obj = self.queue.pop()
            for k, x in obj.items():
                if k in model.type:
                    self.route(model.type[k], x)


def tight(t, values, where, out):
    """values: the values routed to this position (already accepted by `t` as a whole where relevant)"""
    if t is Unknown:
        out.append(f"{where}: Any although values {values[:3]!r} were observed")
        return
    if t is Null:
        return
    if t is str:
        # documented widenings to str: a literal set overflows (a string of 20+ characters, more than 15 distinct) or
        # several pseudo-types collapse. Plain short strings, few of them, are neither.
        obs = [v for v in values if type(v) is str]
        if obs and all(len(x) < 20 for x in obs) and len(set(obs)) <= 15 and _REGISTRY is not None and \
                not any(conv.accepts(c, x) for x in set(obs) for c in _REGISTRY.types):
            out.append(f"{where}: str although only the plain strings {sorted(set(obs))[:4]!r} were observed (each shorter "
                       f"than 20 characters, {len(set(obs))} distinct): no documented widening applies")
        elif obs and _REGISTRY is not None:
            # ... and strings that are ALL of one pseudo-type (or of integer and float strings, which resolve to the float
            # kind) do not collapse either: the position keeps that pseudo-type
            kinds = set()
            for x in set(obs):
                k = next((c.__name__ for c in _REGISTRY.types if conv.accepts(c, x)), None)
                kinds.add(k)
            if None not in kinds and (len(kinds) == 1 or kinds == {"IntString", "FloatString"}):
                out.append(f"{where}: str although every string observed here {sorted(set(obs))[:4]!r} is of the pseudo-type(s) "
                           f"{sorted(kinds)}, which resolve to one type: no documented widening applies")
        return
    if isinstance(t, StringLiteral):
        obs = {v for v in values if type(v) is str}
        extra = set(t.literals) - obs
        if extra:
            out.append(f"{where}: Literal lists {sorted(extra)[:3]!r} which never occurred")
        return
    cls = type(t)
    if cls is DOptional:
        if not any(v is None for v in values):
            out.append(f"{where}: Optional although no null was observed here")
        tight(t.type, [v for v in values if v is not None], where + "?", out) if t.type is not Unknown or any(
            v is not None for v in values) else None
        return
    if cls is DUnion:
        for i, m in enumerate(t.types):
            mine = [v for v in values if accept(m, v)]
            if not mine:
                out.append(f"{where}: union member {conv.enc_ty(m)!r} inhabited by no observed value {values[:4]!r}"[:400])
            else:
                tight(m, mine, where + "|%d" % i, out)
        return
    if cls is DList:
        lists = [v for v in values if type(v) is list]
        elems = [x for v in lists for x in v]
        if t.type is Unknown:
            if any(x is not None for x in elems):
                out.append(f"{where}: List[Any] although elements {elems[:3]!r} were observed")
            return
        if not elems:
            out.append(f"{where}: element type {conv.enc_ty(t.type)!r} although every list here was empty")
            return
        tight(t.type, elems, where + "[]", out)
        return
    if cls is DDict:
        dicts = [v for v in values if isinstance(v, dict)]
        elems = [x for v in dicts for x in v.values()]
        if t.type is Unknown:
            if any(x is not None for x in elems):
                out.append(f"{where}: Dict[str, Any] although values {elems[:3]!r} were observed")
            return
        if not elems:
            out.append(f"{where}: value type {conv.enc_ty(t.type)!r} although every mapping here was empty")
            return
        tight(t.type, elems, where + "{}", out)
        return
    if not any(accept(t, v) for v in values):
        out.append(f"{where}: {conv.enc_ty(t)!r} inhabited by no observed value {values[:4]!r}"[:300])


_REGISTRY = None


def check_case(inputs, cmps, registry, dict_fields=(), dict_regex=()):
    global _REGISTRY
    _REGISTRY = registry
    reg, g = stages.build_registry(inputs, registry, cmps, dict_fields, dict_regex)
    router = Router()
    roots = {m.name: m for m in reg.models if any(p.parent is None for p in m.pointers)}
    for name, samples in inputs:
        m = roots.get(name) or next((r for n, r in roots.items() if name in (n or "").split("_")), None)
        if m is None:
            return {"kind": "root-missing", "observed": name}
        for s in samples:
            router.give(m, s)
    router.run()
    out = []
    for m in reg.models:
        objs = router.objects.get(m.index, [])
        if not objs:
            continue           # not reachable by routing (ambiguous unions): nothing to compare against
        for k, t in m.type.items():
            present = [o[k] for o in objs if k in o]
            absent = sum(1 for o in objs if k not in o)
            where = f"{m.name or m.index}.{k}"
            if isinstance(t, DOptional):
                if not absent and not any(v is None for v in present):
                    out.append(f"{where}: Optional although every routed object has a non-null value")
                inner_vals = [v for v in present if v is not None]
                if t.type is Unknown:
                    if inner_vals:
                        out.append(f"{where}: Optional[Any] although values were observed")
                elif t.type is not Null and inner_vals:
                    tight(t.type, inner_vals, where, out)
            else:
                if t is Unknown:
                    out.append(f"{where}: Any as a field type")
                elif present:
                    tight(t, present, where, out)
    if out:
        return {"kind": "not-tight", "observed": out[:5]}
    return None


def falsify(ctx):
    rng = ctx.rng("fals")
    registry = stages.make_registry()
    focus = common.focus_cases(ctx)
    n = ctx.n(300, 8000)
    for i in range(len(focus) + n):
        inputs = focus[i][0] if i < len(focus) else common.gen_inputs(rng, styled_p=0.1)
        cmps = (focus[i][1] if i < len(focus) else None) or common.cmps_choice(rng)
        if i >= len(focus) and i % 25 == 3:
            # two similar models that each saw strings of ONE pseudo-type at a position, next to numbers — in one of them
            # the position is also missing once (the pseudo-type then sits under an Optional member when the two are merged)
            ps, num, other = rng.choice([("1", 2, 2.5), ("12", 7, 0.5), ("1.5", 2.5, 3), ("true", 1, 2.5)])
            rest = {"a": 1, "b": 2, "c": 3}
            inputs = [("Root", [{"first": [dict(rest, x=ps), dict(rest, x=num)],
                                "second": [dict(rest, x=ps), dict(rest, x=other), dict(rest)]}])]
            cmps = common.cmps_choice(rng) if rng.random() < 0.5 else []
        try:
            hit = check_case(inputs, cmps, registry)
        except (ZeroDivisionError, stages.TooCostly):
            continue
        except Exception as e:  # noqa
            hit = {"kind": "pipeline-raises", "observed": f"{type(e).__name__}: {e}"}
        enc = repr(inputs)
        ctx.case(enc, nontrivial=enc.count("{") > 2 or "None" in enc)
        ctx.sample({"inputs": inputs}, limit=2)
        if hit:
            hit.update({"input": inputs, "cmps": [stages.enc_cmp(c) for c in cmps]})
            yield hit


def replay(ctx, hit):
    from ..worker import cmps_from
    try:
        return check_case([tuple(x) for x in hit["input"]], cmps_from(hit["cmps"]), stages.make_registry())
    except stages.TooCostly:
        raise
    except Exception as e:  # noqa
        return {"kind": "pipeline-raises", "observed": f"{type(e).__name__}: {e}"}
