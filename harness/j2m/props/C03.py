"""C03 — the emitted module is loadable Python with every reference resolvable."""
import ast
import keyword

from json_to_models.models.base import prepare_label
from .. import real, stages
from . import common

RULE = ("G-json inputs with keys drawn from realistic styles (snake, camel, kebab, Pascal, inner digits, keywords, builtin/"
        "typing/framework names, non-ASCII cased scripts; no leading digit/underscore) x 5 frameworks x {flat,nested} x "
        "converter/metadata/unicode/literal options; correspondence: render stage byte-for-byte (pipeline, names, layout, "
        "typing code, imports); falsifier: compile+exec the text, count classes vs registry, evaluate every annotation with "
        "enclosing-class namespaces, identifier/keyword/uniqueness/shadowing checks on the ast; non-trivial = >= 2 classes; "
        "distinct by (inputs, job)")
EXPLANATION = ("theorems over the model of names/layout/rendering (J2M.C03.*) + per-program translation validation: each "
               "explored program's text equals the model's text, and is loaded and inspected under CPython")
ASSUMPTIONS = ["nested layout claimed for tree-shaped graphs", "keys from the documented domain (C11)"]


def correspondence(ctx, batch):
    rng = ctx.rng("corr")
    registry = stages.make_registry()
    for _ in range(ctx.n(160, 3000)):
        inputs = common.gen_inputs(rng, styled_p=0.8)
        jobs = [common.gen_job(rng) for _ in range(2)]
        stages.stage_render(batch, inputs, registry, common.cmps_choice(rng), jobs)
    for _ in range(ctx.n(30, 300)):
        stages.stage_render(batch, common.gen_inputs(rng, styled_p=0.5), stages.make_registry(datetime=True),
                            common.cmps_choice(rng), [common.gen_job(rng)])


def imported_names(tree):
    out = set()
    for node in tree.body:
        if isinstance(node, ast.Import):
            for a in node.names:
                out.add((a.asname or a.name).split(".")[0])
        elif isinstance(node, ast.ImportFrom):
            for a in node.names:
                out.add(a.asname or a.name)
    return out


def check_text(text, reg, job, tree_shaped):
    try:
        tree = ast.parse(text)
    except SyntaxError as e:
        return {"kind": "syntax-error", "observed": str(e)}
    imported = imported_names(tree)
    # identifiers, uniqueness, shadowing — per scope
    problems = []

    def scope(body, where):
        names = []
        for node in body:
            if isinstance(node, ast.ClassDef):
                names.append(node.name)
                scope(node.body, where + "." + node.name)
            elif isinstance(node, ast.AnnAssign) and isinstance(node.target, ast.Name):
                names.append(node.target.id)
        for n in names:
            if not n.isidentifier() or keyword.iskeyword(n):
                problems.append(f"{where}: invalid identifier {n!r}")
            if n in imported:
                problems.append(f"{where}: {n!r} shadows an imported name")
        dup = {n for n in names if names.count(n) > 1}
        if dup:
            problems.append(f"{where}: duplicate names {sorted(dup)}")

    scope(tree.body, "<module>")
    if problems:
        return {"kind": "names", "observed": problems[:6]}
    ncls = sum(isinstance(n, ast.ClassDef) for n in ast.walk(tree))
    if (job["layout"] == "flat" or tree_shaped) and ncls != len(list(reg.models)):
        return {"kind": "class-count", "observed": f"{ncls} classes for {len(list(reg.models))} models"}
    try:
        ns = real.load_module(text)
    except stages.TooCostly:
        raise
    except Exception as e:  # noqa
        return {"kind": "module-does-not-load", "observed": f"{type(e).__name__}: {e}"}
    for q, cls, chain in real.collect_classes(ns):
        try:
            real.hints(cls, ns, chain)
        except stages.TooCostly:
            raise
        except Exception as e:  # noqa
            return {"kind": "annotation-unresolvable", "observed": f"{q}: {type(e).__name__}: {e}"}
    return None


def check_case(inputs, cmps, job, registry):
    reg, text = real.run_library(inputs, registry, cmps, job)
    tree_shaped = common.is_tree(reg, root_backrefs=True)
    if job["layout"] == "nested" and not tree_shaped:
        return None, "nested-non-tree"
    from ..gen import fold
    for m in reg.models:
        folded = [fold(k) for k in m.type]
        if len(set(folded)) != len(folded):
            # keys of one (merged) class that coincide after the harness's own case/punctuation folding: outside the
            # documented key domain (C11's F1); decided without the code under test
            return None, "keys-fold-together"
    hit = check_text(text, reg, job, tree_shaped)
    if hit:
        hit["text"] = text[:4000]
    return hit, None


def falsify(ctx):
    rng = ctx.rng("fals")
    registry = stages.make_registry()
    registry_dt = stages.make_registry(datetime=True)
    focus = common.focus_cases(ctx)
    n = ctx.n(300, 8000)
    for i in range(len(focus) + n):
        inputs = focus[i][0] if i < len(focus) else common.gen_inputs(rng, styled_p=0.85)
        cmps = (focus[i][1] if i < len(focus) else None) or common.cmps_choice(rng)
        job = common.gen_job(rng)
        if i >= len(focus) and i % 15 == 7:
            # class names that change between two renderings of ONE structure (unicode conversion off, then on)
            ks = rng.sample(["größe", "адрес", "naïve", "straße", "données", "Ünit"], k=3)
            inputs = [("Root", [{ks[0]: {"x": 1}, ks[1]: {"y": [{ks[2]: {"z": "s"}}]}, "n": 1}])]
            job.update({"convertUnicode": True, "structureReuse": True})
            job.pop("renderFirst", None)
        if i >= len(focus) and i % 15 == 11:
            # long Literal annotations whose values hold spaces and hyphens, under every framework that emits them
            from .. import gen as _gen
            inputs = [("Root", _gen.gen_long_literal(rng))]
            cmps = []
            job.update({"maxLit": rng.choice([10, 16, 20]), "fw": rng.choice(["base", "dataclasses", "pydantic", "sqlmodel"])})
            job.pop("renderFirst", None)
        if i >= len(focus) and i % 15 == 2:
            # unicode conversion off, attrs / dataclasses: an optional nested-model field written before a required one —
            # fields with defaults must still follow the required ones in the emitted class
            inputs = [("Root", [{"opt": {"a": 1}, "req": {"b": 2}, "also": {"c": 1}, "n": 1}, {"req": {"b": 3}, "also": None, "n": 2}])]
            cmps = []
            job.update({"fw": rng.choice(["attrs", "dataclasses"]), "convertUnicode": False, "omitDefaults": False,
                        "layout": rng.choice(["flat", "nested"])})
            job.pop("renderFirst", None)
            job.pop("structureReuse", None)
        reg_i = registry
        if i >= len(focus) and i % 15 == 4:
            # classes whose names would coincide with the string-type names the module imports once date/time types are
            # registered (attrs / dataclasses import them from the library)
            reg_i = registry_dt
            inputs = [("Root", [{"iso_date_string": {"a": 1}, "iso_time_strings": [{"b": 2}], "IsoDatetimeString": {"c": 3},
                                "int_string": {"d": 4}, "day": "2018-12-31", "at": "12:30:00", "ts": "2018-12-31T10:00:00", "n": "12"}])]
            cmps = []
            job.update({"fw": rng.choice(["attrs", "dataclasses", "attrs", "pydantic"]), "postInit": rng.random() < 0.3})
            job.pop("renderFirst", None)
        try:
            hit, skip = check_case(inputs, cmps, job, reg_i)
        except (ZeroDivisionError, stages.TooCostly):
            ctx.count("skip:zero-division")
            continue
        except Exception as e:  # noqa
            hit, skip = {"kind": "pipeline-raises", "observed": f"{type(e).__name__}: {e}"}, None
        if skip:
            ctx.count("skip:" + skip)
            continue
        ctx.case((repr(inputs), repr(job)), nontrivial=repr(inputs).count("{") > 1)
        ctx.count("fw:" + job["fw"] + "/" + job["layout"])
        ctx.sample({"inputs": inputs, "job": job}, limit=2)
        if hit:
            hit.update({"input": inputs, "job": job, "cmps": [stages.enc_cmp(c) for c in cmps], "datetime": reg_i is registry_dt})
            yield hit


def replay(ctx, hit):
    from ..worker import cmps_from
    try:
        h, _ = check_case([tuple(x) for x in hit["input"]], cmps_from(hit["cmps"]), hit["job"],
                          stages.make_registry(datetime=bool(hit.get("datetime"))))
    except stages.TooCostly:
        raise
    except Exception as e:  # noqa
        h = {"kind": "pipeline-raises", "observed": f"{type(e).__name__}: {e}"}
    return h
