"""Shared generators of pipeline cases for the property modules."""
from json_to_models.registry import ModelFieldsEquals, ModelFieldsNumberMatch, ModelFieldsPercentMatch

from .. import gen, stages

FRAMEWORKS = ["base", "pydantic", "sqlmodel", "attrs", "dataclasses"]


def cmps_choice(rng):
    return rng.choice([
        [ModelFieldsPercentMatch(), ModelFieldsNumberMatch()],
        [ModelFieldsPercentMatch(), ModelFieldsNumberMatch()],
        [ModelFieldsEquals()],
        [ModelFieldsPercentMatch(.5)],
        [ModelFieldsNumberMatch(3)],
        [ModelFieldsNumberMatch()],            # `--merge number`: models with fewer than 10 shared keys stay apart
        [ModelFieldsNumberMatch(25)],
    ])


def registry_choice(rng, datetime_p=0.0):
    kinds = rng.choice([("IntString", "FloatString", "BooleanString")] * 3 +
                       [("IntString", "FloatString"), ("FloatString", "BooleanString"), ("BooleanString",), ()])
    return stages.make_registry(kinds, datetime=rng.random() < datetime_p)


def gen_inputs(rng, styled_p=0.5, out_p=0.0, max_models=2):
    r = rng.random()
    if r < 0.2:
        return [("Root", gen.gen_shared_samples(rng))]
    if r < 0.26:
        return [("Root", [gen.gen_recursive_tree(rng)])]
    if r < 0.34:
        return [("Root", [gen.gen_two_pass_merge(rng)])]
    if r < 0.39:
        return [("Root", [gen.gen_name_clash(rng)])]
    if r < 0.43:
        name, sample = gen.gen_rooted_cycle(rng)
        return [(name, [sample])]
    if r < 0.48:
        return [("Root", [gen.gen_polymorphic_child(rng)])]
    if r < 0.53:
        return [("Root", [gen.gen_hidden_union_merge(rng)])]
    if r < 0.57:
        return [("Root", gen.gen_nested_containers(rng))]
    if r < 0.62:
        return [("Root", [gen.gen_empty_vs_concrete_merge(rng)])]
    if r < 0.66:
        return [("Root", [gen.gen_one_pass_residue(rng)])]
    if r < 0.70:
        return [("Root", [gen.gen_identical_siblings(rng)])]
    if r < 0.74:
        return [("Root", gen.gen_object_members(rng))]
    if r < 0.78:
        return [("Root", gen.gen_literal_boundary(rng))]
    if r < 0.81:
        return [("Root", gen.gen_long_literal(rng))]
    if r < 0.83:
        name, docs = gen.gen_shared_under_root(rng)
        return [(name, docs)]
    if r < 0.85:
        return [("Root", gen.gen_key_order_swap(rng))]
    n = rng.choice([1] * 3 + [2] * (max_models > 1))
    kp = gen.key_pool(rng, styled_p, out_p)
    out = []
    for k in range(n):
        if kp is gen.WORDS:
            samples = gen.gen_sample_family(rng) if rng.random() < .5 else gen.gen_samples(rng)
        else:
            samples = gen.gen_samples(rng, keys=kp)
        out.append(("Model%d" % k if k else "Root", samples))
    return out


def gen_job(rng, fw=None, layout=None):
    job = _gen_job(rng, fw, layout)
    if rng.random() < 0.25:
        job["renderFirst"] = "nested" if job["layout"] == "flat" else "flat"
        if rng.random() < 0.5:
            # ... and with another framework's generator (a registry may be rendered for several frameworks in one process)
            job["renderFirst"] = rng.choice(["flat", "nested"])
            job["renderFirstFw"] = rng.choice([f for f in FRAMEWORKS + ["base"] if f != job["fw"]])
    elif job["convertUnicode"] and rng.random() < 0.2:
        job["structureReuse"] = True
    return job


def _gen_job(rng, fw=None, layout=None):
    return {"fw": fw or rng.choice(FRAMEWORKS), "layout": layout or rng.choice(["flat", "nested"]),
            "maxLit": rng.choice([10, 10, 0, 2, 16]), "postInit": rng.random() < .4,
            "convertUnicode": rng.random() < .7, "meta": rng.random() < .5, "preamble": rng.choice([None, None, "# x"]), "omitDefaults": rng.random() < .35}


def is_tree(reg, root_backrefs=False):
    """each non-root model is referenced from exactly one class (possibly through several fields), roots only from outside"""
    for m in reg.models:
        with_parent = [p for p in m.pointers if p.parent is not None]
        rootp = [p for p in m.pointers if p.parent is None]
        if rootp and with_parent and not root_backrefs:
            return False
        if rootp:
            continue        # root_backrefs: a root may also be referred to from inside (C03 speaks of non-root models)
        if not rootp and len({p.parent.index for p in with_parent}) != 1:
            return False
        if not rootp and not with_parent:
            return False
    return True


def focus_cases(ctx):
    """inputs on which model and implementation disagreed (with the merge policy of that case): run first"""
    from ..worker import cmps_from
    out = []
    for m in ctx.focus:
        if not m:
            continue
        cm = cmps_from(m["cmps"]) if m.get("cmps") else None
        if "samples" in m:
            out.append(([("Root", m["samples"])], cm, m.get("jobs")))
        elif "inputs" in m:
            out.append(([tuple(x) for x in m["inputs"]], cm, m.get("jobs")))
    return out
