"""C11 — JSON keys survive renaming: distinct keys give distinct, recoverable fields.
(The same falsifier also reads defaults and annotations, which is what C04 compares.)"""
import datetime
import typing

from json_to_models.registry import ModelFieldsEquals
from json_to_models.dynamic_typing import (DDict, DList, DOptional, DTuple, DUnion, ModelMeta, ModelPtr, Null,
                                           StringLiteral, StringSerializable, Unknown)
from json_to_models.models.base import prepare_label

from .. import real, stages
from . import common

try:
    from typing import Literal
except ImportError:  # pragma: no cover
    from typing_extensions import Literal

RULE = ("keys over a wide alphabet (quotes, backslashes, hyphens, keywords, builtin/typing/framework names, non-ASCII cased "
        "letters) with at least one ASCII-transliterable letter; key universes of one input pairwise distinct after case/"
        "punctuation folding (documented domain); a separate out-of-domain stream replays the listed known findings; "
        "x 5 frameworks x unicode conversion on/off x metadata on/off; correspondence: render stage (labels, aliases, "
        "metadata, class names) with recorded unidecode/inflection/re tables; falsifier: load the module and read the "
        "framework field tables; non-trivial = a class with a renamed field; distinct by (inputs, job)")
EXPLANATION = "J2M.C11.* over the model of prepare_label / alias emission / name generation; blacklist facts by decide over Extracted"
ASSUMPTIONS = ["domain: keys contain an ASCII-transliterable letter, do not start with a digit or underscore, and the key "
               "universe of one input is pairwise distinct after folding"]
CHECK_TYPES = False


def denote(t, acc, job):
    """independent rendering of an inferred type as a typing object, under the framework's style"""
    fw = job["fw"]
    if t in (int, float, bool, str):
        return t
    if isinstance(t, type) and issubclass(t, StringSerializable):
        return t.actual_type if fw in ("pydantic", "sqlmodel") else ("ser", t.__name__)
    if t is Null:
        return type(None)
    if t is Unknown:
        return typing.Any
    if isinstance(t, StringLiteral):
        if fw != "attrs" and len(t.literals) < job["maxLit"]:
            return Literal.__getitem__(tuple(sorted(t.literals)))
        return str
    if isinstance(t, ModelPtr):
        return ("model", t.type.name)
    cls = type(t)
    if cls is DOptional:
        return typing.Optional[freeze(denote(t.type, acc, job))]
    if cls is DList:
        return typing.List[freeze(denote(t.type, acc, job))]
    if cls is DDict:
        return typing.Dict[str, freeze(denote(t.type, acc, job))]
    if cls is DUnion:
        return typing.Union.__getitem__(tuple(freeze(denote(x, acc, job)) for x in t.types))
    raise TypeError(t)


class _Tok:
    """stand-in for classes that only exist in the loaded module / json_to_models (compared by name)"""
    _cache = {}

    def __new__(cls, key):
        if key not in cls._cache:
            cls._cache[key] = type("Tok_%s_%s" % key, (), {"_key": key})
        return cls._cache[key]


def freeze(x):
    return _Tok(x) if isinstance(x, tuple) else x


def normalise(tp, classes):
    """evaluated annotation -> same vocabulary as `denote`"""
    if tp is None:
        return type(None)
    if tp in classes:
        return _Tok(("model", tp.__name__))
    if isinstance(tp, type) and issubclass(tp, StringSerializable):
        return _Tok(("ser", tp.__name__))
    origin = typing.get_origin(tp)
    if origin is None or origin is Literal:
        return tp
    args = tuple(normalise(a, classes) for a in typing.get_args(tp))
    if origin is typing.Union:
        return typing.Union.__getitem__(args)
    if origin is list:
        return typing.List[args[0]]
    if origin is dict:
        return typing.Dict[args[0], args[1]]
    return tp


def check_case(inputs, cmps, job, registry, check_types, fold_guard=False):
    reg, text = real.run_library(inputs, registry, cmps, job)
    shared = job["layout"] == "nested" and not common.is_tree(reg)
    if shared and not job.get("sharedOk"):
        return None, "nested-non-tree"
    import ast as _ast
    tree = _ast.parse(text)
    imported = set()
    for node in tree.body:
        if isinstance(node, (_ast.Import, _ast.ImportFrom)):
            imported.update((a.asname or a.name).split(".")[0] for a in node.names)
    clash = sorted({n.name for n in _ast.walk(tree) if isinstance(n, _ast.ClassDef)} & imported)
    if clash:
        return {"kind": "class-shadows-import", "observed": f"classes {clash} carry names the module imports"}, None
    ns = real.load_module(text)
    classes = {c.__name__: (c, chain) for q, c, chain in real.collect_classes(ns)}
    fw = job["fw"]
    cu = job.get("convertUnicode", True)
    attach = fw in ("pydantic", "sqlmodel") or (fw in ("attrs", "dataclasses") and job.get("meta", False))
    names_seen = {}
    for m in reg.models:
        if m.name in names_seen:
            return {"kind": "class-names-collide", "observed": f"models {names_seen[m.name]} and {m.index} are both named {m.name!r}"}, None
        names_seen[m.name] = m.index
        if m.name not in classes:
            return {"kind": "class-missing", "observed": m.name}, None
        cls, chain = classes[m.name]
        table = real.field_table(cls, fw)
        hs = real.hints(cls, ns, chain) if check_types else {}
        expected_names = {}
        from ..gen import fold as _fold
        folded = {}
        for key, t in m.type.items():
            # two keys of one (merged) class that coincide after the harness's own case/punctuation folding are outside the
            # documented key domain (finding F1); decided without the code under test
            if fold_guard and _fold(key) in folded:
                return None, "keys-fold-together"
            folded[_fold(key)] = key
        for key, t in m.type.items():
            if fw in ("pydantic", "sqlmodel") and (t is Null or t is Unknown):
                continue
            if fw == "sqlmodel" and key in ("id", "pk"):
                name = key
            else:
                name = prepare_label(key, convert_unicode=cu, to_snake_case=True)
            if name in expected_names:
                return {"kind": "folded-equal-keys", "observed": f"keys {expected_names[name]!r} and {key!r} of {m.name} both become {name!r}"}, None
            expected_names[name] = key
            if name not in table:
                return {"kind": "field-name", "observed": f"{m.name}: key {key!r} should be field {name!r}; fields are {sorted(table)}"}, None
            got_key, has_default, default = table[name]
            if name != key and attach and got_key != key:
                return {"kind": "original-key-lost", "observed": f"{m.name}.{name}: attached key {got_key!r}, original {key!r}"}, None
            if name == key and got_key not in (None, key):
                return {"kind": "original-key-wrong", "observed": f"{m.name}.{name}: attached key {got_key!r} for unchanged name"}, None
            if check_types:
                optional = isinstance(t, DOptional)
                if fw == "base":
                    optional = has_default = False      # the plain generator emits annotations only, by design
                if has_default != optional:
                    return {"kind": "default-vs-optional", "observed": f"{m.name}.{name}: optional={optional} has_default={has_default}"}, None
                if optional:
                    want = [] if isinstance(t.type, DList) else {} if isinstance(t.type, DDict) else None
                    if default != want or type(default) is not type(want):
                        return {"kind": "default-kind", "observed": f"{m.name}.{name}: default {default!r}, expected {want!r}"}, None
                want_t = freeze(denote(t, None, job))
                got_t = normalise(hs[name], {c for c, _ in classes.values()})
                if want_t != got_t:
                    return {"kind": "annotation-denotes", "observed": f"{m.name}.{name}: evaluates to {got_t!r}, inferred type denotes {want_t!r}"}, None
        extra = set(table) - set(expected_names)
        if extra:
            return {"kind": "extra-fields", "observed": f"{m.name}: {sorted(extra)}"}, None
    return None, None


def correspondence(ctx, batch):
    rng = ctx.rng("corr")
    registry = stages.make_registry()
    for _ in range(ctx.n(160, 3000)):
        inputs = common.gen_inputs(rng, styled_p=0.9)
        stages.stage_render(batch, inputs, registry, common.cmps_choice(rng), [common.gen_job(rng) for _ in range(2)])


def run_falsifier(ctx, check_types):
    rng = ctx.rng("fals")
    registry = stages.make_registry()
    registry_dt = stages.make_registry(datetime=True)
    focus = common.focus_cases(ctx)
    n = ctx.n(300, 8000)
    for i in range(len(focus) + n):
        inputs = focus[i][0] if i < len(focus) else common.gen_inputs(rng, styled_p=0.9)
        cmps = (focus[i][1] if i < len(focus) else None) or common.cmps_choice(rng)
        job = common.gen_job(rng)
        job["preamble"] = None
        if i >= len(focus) and i % 12 == 0:
            # class names that coincide only after conversion, under every way of (not) passing the unicode option
            from .. import gen as _gen
            inputs = [("Root", [_gen.gen_name_clash(rng)])]
            job["omitDefaults"] = rng.random() < 0.6
            job["convertUnicode"] = True if job["omitDefaults"] else rng.random() < 0.7
        if i >= len(focus) and i % 12 == 1:
            # the nested layout with a child used by two nested classes of one root: the child is hoisted into the root and
            # referred to by an absolute 'Root.Child' path, under root names the generator has to convert
            from .. import gen as _gen
            name, docs = _gen.gen_shared_under_root(rng, union=(i // 12) % 3 != 0)
            inputs = [(name, docs)]
            cmps = [ModelFieldsEquals()]
            job.update({"layout": "nested", "sharedOk": True})
            job.pop("renderFirst", None)
            job.pop("renderFirstFw", None)
            if (i // 12) % 2 == 0:
                job["renderFirst"] = "flat"          # the same registry rendered flat first: the reference context differs
        if i >= len(focus) and i % 12 == 3:
            # renamed keys holding characters on which str.splitlines splits, inside a nested class (the nested layout
            # re-indents the child's code)
            inputs = [("Root", [{"child": {"first\u2028name": 1, "last\x85name": "x", "ps\u2029key": 2.5,
                                           "deeper": {"vt\x0bkey": 1, "ff\x0ckey": 2}}, "n": 1}])]
            job.update({"fw": rng.choice(["pydantic", "sqlmodel", "attrs", "dataclasses"]), "layout": "nested", "meta": True})
            job.pop("renderFirst", None)
        if i >= len(focus) and i % 12 == 9:
            # the literal limit left at its default through the API: 10..15 distinct short strings are `str`, fewer a Literal
            k = rng.choice([9, 10, 12, 15, 15, 14, 16])
            inputs = [("Root", [{"month": "m%02d" % j, "size": "s%d" % (j % 3), "n": j} for j in range(k)])]
            lim = rng.choice([10, 10, 16, 20, 100])
            job.update({"fw": rng.choice(["pydantic", "sqlmodel", "dataclasses", "base"]), "maxLit": lim, "omitDefaults": lim == 10})
        if i >= len(focus) and i % 12 == 6:
            # keys that only sanitise to the primary-key names sqlmodel keeps as they are: the original key must stay attached
            k1, k2 = rng.choice(["PK", "Pk", "pk.", "p-k", "pK"]), rng.choice(["ID", "Id", "id-", "i.d", "iD"])
            inputs = [("Root", [{k1: 7, "name": "x", "sub": {k2: 3, "v": 1.5}}, {k1: 8, "name": "y", "sub": {k2: 4, "v": 2.5}}])]
            job["fw"] = rng.choice(["sqlmodel", "sqlmodel", "pydantic"])
        if i >= len(focus) and i % 12 == 7:
            # original-name metadata on optional fields with a plain None default (renamed keys), attrs / dataclasses
            k1, k2 = rng.choice(["userId", "kebab-key", "class", "naïve", "Some Key"]), rng.choice(["firstName", "x.y", "from"])
            inputs = [("Root", [{k1: 1, k2: "a", "n": 1}, {"n": 2}, {k1: None, k2: "b", "n": 3}])]
            cmps = []
            job.update({"fw": rng.choice(["dataclasses", "attrs"]), "meta": True, "postInit": False})
            job.pop("renderFirst", None)
        reg_i = registry
        if i >= len(focus) and i % 12 == 4:
            # classes whose names would coincide with the string-type names the module imports once date/time types are
            # registered
            reg_i = registry_dt
            inputs = [("Root", [{"iso_date_string": {"a": 1}, "iso_time_strings": [{"b": 2}], "IsoDatetimeString": {"c": 3},
                                "int_string": {"d": 4}, "day": "2018-12-31", "at": "12:30:00", "ts": "2018-12-31T10:00:00", "n": "12"}])]
            cmps = []
            job.update({"fw": rng.choice(["attrs", "dataclasses", "attrs", "pydantic"]), "postInit": False})
            job.pop("renderFirst", None)
        try:
            hit, skip = check_case(inputs, cmps, job, reg_i, check_types, fold_guard=True)
        except (ZeroDivisionError, stages.TooCostly):
            ctx.count("skip:zero-division")
            continue
        except Exception as e:  # noqa
            hit, skip = {"kind": "pipeline-raises", "observed": f"{type(e).__name__}: {e}"}, None
        if skip:
            ctx.count("skip:" + skip)
            continue
        ctx.case((repr(inputs), repr(job)), nontrivial=repr(inputs).count("{") > 1)
        ctx.count("fw:" + job["fw"])
        ctx.sample({"inputs": inputs, "job": job}, limit=2)
        if hit:
            hit.update({"input": inputs, "job": job, "cmps": [stages.enc_cmp(c) for c in cmps], "datetime": reg_i is registry_dt})
            yield hit
    # labels must not survive from one generator object to the next: generations with and without transliteration alternate
    # (short-lived generator objects; CPython reuses their addresses)
    for attempt in range(ctx.n(12, 60)):
        k = rng.choice(["café", "naïve", "über", "señor"])
        plain = "".join(c for c in __import__("unicodedata").normalize("NFKD", k) if ord(c) < 128)
        warm = [("Root", [{k: 1, "n%d" % j: {"v": j}} for j in range(attempt % 5 + 1)])]
        j1 = {"fw": "pydantic", "layout": "flat", "maxLit": 10, "postInit": False, "convertUnicode": True, "meta": False, "preamble": None}
        j2 = dict(j1, convertUnicode=False)
        try:
            real.run_library(warm, registry, [], j1)
            hit, skip = check_case([("Root", [{k: 1, plain: 2}])], [], j2, registry, check_types)
        except Exception as e:  # noqa
            hit, skip = {"kind": "pipeline-raises", "observed": f"{type(e).__name__}: {e}"}, None
        ctx.case(("label-cache", k, attempt), nontrivial=True)
        if hit and not skip:
            hit.update({"input": [("Root", [{k: 1, plain: 2}])], "job": j2, "cmps": [], "after": {"input": warm, "job": j1}})
            yield hit
            break
    # out-of-domain stream: the findings the property text itself lists
    for kid, inputs, job in KNOWN_INPUTS:
        try:
            hit, _ = check_case(inputs, [], job, registry, False)
        except stages.TooCostly:
            ctx.count("skip:too-costly")
            continue
        except Exception as e:  # noqa
            hit = {"kind": "pipeline-raises", "observed": f"{type(e).__name__}: {e}"}
        if hit:
            hit.update({"kind": kid, "input": inputs, "job": job, "cmps": []})
            yield hit


KNOWN_INPUTS = [
    ("F1-folded-equal-keys", [("Root", [{"fooBar": 1, "foo_bar": 2}])],
     {"fw": "pydantic", "layout": "flat", "maxLit": 10, "convertUnicode": True}),
    ("F1-empty-label", [("Root", [{"***": 1}])], {"fw": "base", "layout": "flat", "maxLit": 10, "convertUnicode": True}),
]


def falsify(ctx):
    yield from run_falsifier(ctx, CHECK_TYPES)


def replay(ctx, hit):
    from ..worker import cmps_from
    if hit.get("after"):
        # the failing generation came after another one in the same process: repeat the pair a few times
        for _ in range(40):
            try:
                real.run_library([tuple(x) for x in hit["after"]["input"]], stages.make_registry(), [], hit["after"]["job"])
                h, _ = check_case([tuple(x) for x in hit["input"]], [], hit["job"], stages.make_registry(), CHECK_TYPES)
            except Exception as e:  # noqa
                h = {"kind": "pipeline-raises", "observed": f"{type(e).__name__}: {e}"}
            if h:
                return h
        return None
    try:
        h, _ = check_case([tuple(x) for x in hit["input"]], cmps_from(hit["cmps"]), hit["job"],
                          stages.make_registry(datetime=bool(hit.get("datetime"))), CHECK_TYPES)
    except stages.TooCostly:
        raise
    except Exception as e:  # noqa
        h = {"kind": "pipeline-raises", "observed": f"{type(e).__name__}: {e}"}
    return h
