"""C06 — output is a deterministic function of inputs and options."""
from concurrent.futures import ThreadPoolExecutor

from .. import stages, worker
from . import common

SITE_KINDS = {"set-construction", "set-display", "set-comprehension", "next-iter"}
RULE = ("G-json inputs (shared key pools, mergeable nested objects, recursive/shared shapes) x merge policies x frameworks x "
        "layouts; the model gives one answer per case (render stage, byte-for-byte); the falsifier renders every case in "
        "fresh processes under k PYTHONHASHSEED values (quick 4, thorough 16) and compares bytes; non-trivial = at least "
        "two models were merged or a model is referenced from two places; distinct by content")
EXPLANATION = ("the Lean model is a function of (samples, options) only — every Python set whose order can reach the output is "
               "a sorted list or an order-insensitive fold in the model (J2M.Proofs: distinctWords/sort lemmas); agreement of "
               "the implementation with that single answer under several hash seeds is the tie")
ASSUMPTIONS = ["header timestamp line excluded (library-level text compared)"]


def gen_case(rng):
    if rng.random() < 0.1:
        # literal values (and keys) that a case-insensitive or otherwise non-injective sort key would tie
        from .. import gen
        vals = rng.sample(gen.CASEPOOL, k=rng.randint(3, 6))
        samples = [{"status": v, "n": i, "Status": i, "STATUS": i} for i, v in enumerate(vals)]
        job = common.gen_job(rng, fw=rng.choice(["pydantic", "dataclasses", "base"]))
        job.update({"maxLit": rng.choice([10, 16]), "preamble": None})
        return {"inputs": [["Root", samples]], "cmps": [["percent", 7, 10], ["number", 10]], "job": job}
    inputs = common.gen_inputs(rng, styled_p=0.15, max_models=2)
    cmps = common.cmps_choice(rng)
    job = common.gen_job(rng)
    job["preamble"] = None
    return {"inputs": [list(x) for x in inputs], "cmps": [stages.enc_cmp(c) for c in cmps], "job": job}


def correspondence(ctx, batch):
    rng = ctx.rng("corr")
    registry = stages.make_registry()
    for k in range(ctx.n(120, 1500)):
        c = many_roots_case(rng) if k % 12 == 0 else gen_case(rng)
        if k % 12 == 6:
            from .. import gen as _gen
            c = {"inputs": [["Quotes", [_gen.gen_many_referrers(rng)]]], "cmps": [["percent", 7, 10], ["number", 10]], "job": c["job"]}
        stages.stage_render(batch, [tuple(x) for x in c["inputs"]], registry, worker.cmps_from(c["cmps"]), [c["job"]])


def compare(cases, seeds, repo):
    with ThreadPoolExecutor(max_workers=min(16, len(seeds))) as ex:
        outs = list(ex.map(lambda s: worker.run_in_fresh_process(cases, hashseed=s, repo=repo), seeds))
    for i, case in enumerate(cases):
        ref = outs[0][i]
        for s, o in zip(seeds[1:], outs[1:]):
            if o[i] != ref:
                yield {"kind": "hashseed-dependent-output", "case": case, "hashseeds": [seeds[0], s],
                       "observed": {"seed_%d" % seeds[0]: ref, "seed_%d" % s: o[i]}}
                break


def many_roots_case(rng):
    """several root models (one per input) that all use one shared nested model, nested layout: where the shared class goes
    depends on the roots found for it — sets of objects hashed by id() are ordered by memory layout, which differs
    between processes even under one PYTHONHASHSEED"""
    from .. import gen
    n = rng.randint(4, 7)
    owner = {k: 1 for k in rng.sample(gen.WORDS, k=4)}
    inputs = [["M%d" % i, [{"owner": dict(owner), "f%d" % i: i, "g%d" % i: "x"}]] for i in range(n)]
    job = common.gen_job(rng, layout="nested")
    job["preamble"] = None
    return {"inputs": inputs, "cmps": [["percent", 7, 10], ["number", 10]], "job": job}


def cli_pattern_cases(ctx, rng):
    """the command line over a path pattern that matches several heterogeneous files of one unchanged directory, in fresh
    processes under different hash seeds: the printed code (header removed) must be the same"""
    import os
    import tempfile
    from .. import clitools, gen
    with tempfile.TemporaryDirectory(prefix="j2m-c06-") as root:
        jobs, metas = [], []
        n_pat = ctx.n(3, 12)
        for k in range(n_pat + ctx.n(2, 8)):
            d = os.path.join(root, "c%d" % k)
            files = {}
            for i in range(rng.randint(3, 6)):
                name = rng.choice(["page_%d.json", "sub/page_%d.json", "sub/deep/page_%d.json"]) % i
                files[name] = [gen.gen_object(rng, 1, rng.sample(gen.WORDS, k=4))]
            clitools.write_files(d, files)
            argv = ["-m", "Page", rng.choice(["**/page_*.json", "**/*.json"])] + rng.choice([[], ["-f", "pydantic"], ["-s", "nested"]])
            if k >= n_pat:
                # the other input formats: an ini file (sections with several options, a [DEFAULT] section) and a yaml
                # document (mappings nested in lists): field order follows the file, whatever the hash seed
                words = rng.sample(gen.WORDS, k=6)
                if (k - n_pat) % 2 == 0:
                    text = "[DEFAULT]\n%s = 1\nzeta = d\n" % words[0] if rng.random() < 0.5 else ""
                    for sec in ("server", "client", "paths"):
                        opts = rng.sample(words, k=rng.randint(3, 6))
                        text += "[%s]\n" % sec + "".join("%s = %s\n" % (o, rng.choice(["1", "x y", "2.5", "true"])) for o in opts)
                    files = {"conf.ini": text}
                    argv = ["-m", "Conf", "conf.ini", "-i", "ini"] + rng.choice([[], ["-f", "pydantic"], ["-s", "nested"]])
                else:
                    text = "items:\n" + "".join("  - {%s}\n" % ", ".join("%s: %s" % (o, rng.choice(["1", "abc", "2.5", "[1, 2]"]))
                                                                          for o in rng.sample(words, k=rng.randint(3, 6))) for _ in range(3))
                    text += "meta:\n" + "".join("  %s: {%s: 1, %s: x}\n" % (o, words[0], words[1]) for o in rng.sample(words, k=4))
                    files = {"doc.yaml": text}
                    argv = ["-m", "Doc", "doc.yaml", "-i", "yaml"] + rng.choice([[], ["-f", "attrs"], ["-s", "nested"]])
                d = os.path.join(root, "f%d" % k)
                clitools.write_files(d, files)
            for seed in range(ctx.n(6, 12)):
                jobs.append((argv, d, ctx.repo, seed))
                metas.append((k, argv, files, seed))
        results = clitools.run_many(jobs)
    by_case = {}
    for (k, argv, files, seed), (rc, out, err) in zip(metas, results):
        by_case.setdefault(k, []).append((seed, rc, clitools.strip_header(out) if rc == 0 else "exit %d" % rc, argv, files))
    for k, runs in by_case.items():
        ctx.case(("cli-pattern", k, tuple(runs[0][3])), nontrivial=True)
        ref = runs[0]
        ctx.count("cli-format:" + (ref[3][ref[3].index("-i") + 1] if "-i" in ref[3] else "json") + (":ok" if ref[1] == 0 else ":exit%d" % ref[1]))
        for r in runs[1:]:
            if r[2] != ref[2]:
                yield {"kind": "hashseed-dependent-cli-output", "argv": ref[3], "files": ref[4], "hashseeds": [ref[0], r[0]],
                       "observed": {"seed_%d" % ref[0]: (ref[2] or "")[:1500], "seed_%d" % r[0]: (r[2] or "")[:1500]}}
                break


def falsify(ctx):
    rng = ctx.rng("fals")
    yield from cli_pattern_cases(ctx, rng)
    # the same hash seed in many fresh processes (memory layout varies), then different seeds
    id_cases = [many_roots_case(rng) for _ in range(ctx.n(6, 40))] + [gen_case(rng) for _ in range(ctx.n(10, 60))]
    from .. import gen as _gen
    for _ in range(ctx.n(8, 40)):
        # a rootless cycle with a model used by two classes inside it: its place depends on which parent is picked
        job = common.gen_job(rng, layout=rng.choice(["flat", "flat", "nested"]))
        job["preamble"] = None
        id_cases.append({"inputs": [["Node", [_gen.gen_recursive_tree(rng)]]], "cmps": [["percent", 7, 10], ["number", 10]], "job": job})
    for _ in range(ctx.n(4, 30)):
        job = common.gen_job(rng)
        job["preamble"] = None
        id_cases.append({"inputs": [["Quotes", [_gen.gen_many_referrers(rng)]]], "cmps": [["percent", 7, 10], ["number", 10]], "job": job})
    for c in id_cases:
        ctx.case(("many-processes", repr(c)), nontrivial=True)
    yield from compare(id_cases, [0] * ctx.n(10, 24) + [1, 2], ctx.repo)
    seeds = list(range(ctx.n(4, 16)))
    cases = []
    for m in ctx.focus:
        if m and "inputs" in m and "jobs" in m:
            for job in m["jobs"]:
                cases.append({"inputs": [list(x) for x in m["inputs"]], "cmps": [["percent", 7, 10], ["number", 10]],
                              "job": job})
    for _ in range(ctx.n(150, 1500)):
        cases.append(gen_case(rng))
    for c in cases:
        enc = repr(c["inputs"])
        ctx.case(repr(c), nontrivial=enc.count("{") > 2)
    ctx.sample(cases[0], limit=1)
    ctx.stats["hashseeds"] = seeds
    yield from compare(cases, seeds, ctx.repo)


def replay(ctx, hit):
    if hit.get("kind") == "hashseed-dependent-cli-output":
        import tempfile
        from .. import clitools
        with tempfile.TemporaryDirectory(prefix="j2m-c06-") as d:
            clitools.write_files(d, hit["files"])
            outs = [clitools.strip_header(clitools.run_cli(hit["argv"], d, ctx.repo, s)[1]) for s in range(12)]
        return {"kind": hit["kind"], "observed": f"{len(set(outs))} different outputs over 12 hash seeds"} if len(set(outs)) > 1 else None
    for h in compare([hit["case"]], list(range(8)), ctx.repo):
        return h
    return None
