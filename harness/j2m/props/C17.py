"""C17 — a failing run reports failure and leaves existing output untouched."""
import hashlib
import json
import os
import tempfile

from .. import clitools, gen, stages
from . import common

SITE_KINDS = {"open-for-writing", "print"}
RULE = ("fault kinds {missing file, malformed JSON / YAML / INI, lookup to a missing key / scalar / through a list, non-object "
        "sample, non-string keys (YAML), bad merge policy (unknown name, bad argument), framework/generator mismatch, unknown "
        "option, generator exception (key without word characters; two models with empty key sets under the percent "
        "policy)} x position of the faulty file among good ones x with/without a pre-existing -o target; compared triple: "
        "(exit-status class, stdout contains a class definition?, SHA-256 of the -o target before/after); successful runs "
        "are checked for completeness; correspondence: `clirun` op (effect-trace model) on the same triples; "
        "non-trivial = every fault case; distinct by (fault, position, existing)")
EXPLANATION = "J2M.C17.fail_is_clean / success_is_complete / fault_classes over Cli.runCli (every fallible step precedes the write)"
ASSUMPTIONS = ["a write that fails half-way (disk full, signal) is OS behaviour outside the model and outside the property's fault list"]

GOOD = [{"a": 1, "b": "x"}, {"a": 2, "b": "y", "c": [1, 2]}]
OLD = "# previous output\nX = 1\n"


def fault_cases():
    """(name, files, argv for the inputs, expect_fail)"""
    g = {"good1.json": GOOD, "good2.json": [{"a": 3}]}
    cases = []
    for pos in ("first", "middle", "last"):
        def place(bad_args, extra_files=None, fmt=None, pos=pos):
            files = dict(g)
            files.update(extra_files or {})
            a1, a2 = ["-m", "Root", "good1.json"], ["-m", "Root", "good2.json"]
            order = {"first": [bad_args, a1, a2], "middle": [a1, bad_args, a2], "last": [a1, a2, bad_args]}[pos]
            argv = [x for part in order for x in part] + (["-i", fmt] if fmt else [])
            return files, argv

        cases.append(("missing-file/" + pos, *place(["-m", "Root", "nope.json"]), True))
        for odd in ("users[2].json", "data[1]/x.json", "a{b}.json", "x!y.json", "[ab].json"):
            cases.append((f"missing-file-{odd.replace('/', '-')}/" + pos, *place(["-m", "Root", odd]), True))
        cases.append(("malformed-json/" + pos, *place(["-m", "Root", "bad.json"], {"bad.json": '[{"a": 1},'}), True))
        cases.append(("lookup-missing-key/" + pos, *place(["-m", "Root", "x.y", "good1w.json"], {"good1w.json": {"x": {"z": GOOD}}}), True))
        cases.append(("lookup-to-scalar/" + pos, *place(["-m", "Root", "x", "sc.json"], {"sc.json": {"x": 5}}), True))
        cases.append(("lookup-through-list/" + pos, *place(["-m", "Root", "x.y", "li.json"], {"li.json": {"x": [1]}}), True))
        cases.append(("toplevel-scalar/" + pos, *place(["-m", "Root", "s.json"], {"s.json": "7"}), True))
        # every JSON kind that is neither an object nor a list, as the whole document and as the value a lookup selects
        for label, doc in (("null", None), ("true", True), ("float", 1.5), ("string", "abc"), ("empty-string", "")):
            cases.append((f"lookup-to-{label}/" + pos, *place(["-m", "Root", "x", "lk.json"], {"lk.json": {"x": doc, "y": GOOD}}), True))
            cases.append((f"nested-lookup-to-{label}/" + pos,
                          *place(["-l", "Root", "x.y", "lk2.json"], {"lk2.json": {"x": {"y": doc}}}), True))
            cases.append((f"toplevel-{label}/" + pos, *place(["-m", "Root", "tl.json"], {"tl.json": json.dumps(doc)}), True))
        # the same file given again for the same model with another (faulty) lookup
        rep = {"rep.json": {"items": GOOD, "total": 5, "nothing": None}}
        for label, lk in (("scalar", "total"), ("missing", "absent"), ("null", "nothing")):
            cases.append((f"same-file-second-lookup-{label}/" + pos,
                          *place(["-m", "Root", "items", "rep.json", "-m", "Root", lk, "rep.json"], rep), True))
            cases.append((f"same-file-l-after-m-{label}/" + pos,
                          *place(["-m", "Root", "items", "rep.json", "-l", "Root", lk, "rep.json"], rep), True))
        cases.append(("null-among-samples/" + pos, *place(["-m", "Root", "ns.json"], {"ns.json": [{"a": 1}, None]}), True))
        cases.append(("non-object-sample/" + pos, *place(["-m", "Root", "n.json"], {"n.json": [1, 2]}), True))
        cases.append(("one-arg-model/" + pos, *place(["-m", "Root"]), True))
        cases.append(("four-arg-model/" + pos, *place(["-m", "Root", "-", "good1.json", "extra"]), True))
        cases.append(("empty-label-key/" + pos, *place(["-m", "Root", "e.json"], {"e.json": [{"***": 1}]}), True))
    for fmt, good, ext in (("ini", "[s]\na = 1\n", "ini"), ("yaml", "- a: 1\n  b: x\n", "yaml"), ("json", '[{"a": 1}]', "json")):
        gf = {"good." + ext: good, "adir." + ext + "/keep.txt": "x"}
        for bad, label in (("nope." + ext, "missing-file"), ("adir." + ext, "directory-as-file")):
            for order in ("first", "last", "alone"):
                a_good, a_bad = ["-m", "Root", "good." + ext], ["-m", "Root", bad]
                argv = {"first": a_bad + a_good, "last": a_good + a_bad, "alone": a_bad}[order] + ["-i", fmt]
                cases.append((f"{label}-{fmt}/{order}", gf, argv, True))
    y = {"good1.yaml": "- a: 1\n  b: x\n", "bad.yaml": "- a: [1\n", "intkey.yaml": "- 1: x\n  2: y\n", "empty.yaml": "",
         "nulldoc.yaml": "~\n", "nullkey.yaml": "x: ~\ny: 1\n"}
    for order in ("first", "last", "alone"):
        for bad, lk in (("empty.yaml", None), ("nulldoc.yaml", None), ("nullkey.yaml", "x")):
            a_good = ["-m", "Root", "good1.yaml"]
            a_bad = ["-m", "Root"] + ([lk] if lk else []) + [bad]
            cases.append((f"yaml-{bad}/{order}", y, {"first": a_bad + a_good, "last": a_good + a_bad, "alone": a_bad}[order] + ["-i", "yaml"], True))
    cases.append(("malformed-yaml", y, ["-m", "Root", "good1.yaml", "-m", "Root", "bad.yaml", "-i", "yaml"], True))
    cases.append(("non-string-keys", y, ["-m", "Root", "good1.yaml", "-m", "Root", "intkey.yaml", "-i", "yaml"], True))
    ini = {"good.ini": "[s]\na = 1\n", "bad.ini": "a = 1\n[s\n"}
    cases.append(("malformed-ini", ini, ["-m", "Root", "good.ini", "-m", "Root", "bad.ini", "-i", "ini"], True))
    base = ["-m", "Root", "good1.json"]
    cases.append(("bad-merge-name", g, base + ["--merge", "fuzzy"], True))
    cases.append(("bad-merge-arg", g, base + ["--merge", "percent_abc"], True))
    cases.append(("bad-merge-arity", g, base + ["--merge", "exact_1"], True))
    for bad in ("percent_80_90", "number_1_0", "percent_7_0", "number_1_000", "percent_50_", "exact_"):
        cases.append(("bad-merge-arity-" + bad, g, base + ["--merge", bad], True))
        cases.append(("bad-merge-arity-later-" + bad, g, base + ["--merge", "number_4", bad], True))
    cases.append(("custom-without-generator", g, base + ["-f", "custom"], True))
    cases.append(("generator-without-custom", g, base + ["--code-generator", "json_to_models.models.attr.AttrsModelCodeGenerator"], True))
    for fw in ([], ["-f", "base"], ["-f", "pydantic"], ["-f", "attrs"]):
        cases.append(("empty-generator-without-custom" + "".join(fw), g, base + fw + ["--code-generator", ""], True))
        cases.append(("empty-generator-eq-without-custom" + "".join(fw), g, base + fw + ["--code-generator="], True))
    cases.append(("custom-with-empty-generator", g, base + ["-f", "custom", "--code-generator", ""], True))
    cases.append(("custom-generator-import-error", g, base + ["-f", "custom", "--code-generator", "no.such.Module"], True))
    cases.append(("unknown-framework", g, base + ["-f", "nope"], True))
    cases.append(("unknown-option", g, base + ["--frobnicate"], True))
    cases.append(("bad-max-literals", g, base + ["--max-strings-literals", "many"], True))
    cases.append(("bad-regex", g, base + ["--dkr", "("], True))
    cases.append(("empty-models-percent", {"e1.json": [{}], "e2.json": [{}]}, ["-m", "A", "e1.json", "-m", "B", "e2.json"], True))
    cases.append(("ok-plain", g, base, False))
    cases.append(("ok-two-files", g, base + ["-m", "Root", "good2.json", "-f", "pydantic"], False))
    return cases


def sha(path):
    if not os.path.exists(path):
        return None
    return hashlib.sha256(open(path, "rb").read()).hexdigest()


def correspondence(ctx, batch):
    real_process_tie(ctx, batch)
    # the effect-trace model on the abstract fault positions
    for existing in (False, True):
        for step in (None, "argparse", "loadErr", "validateErr", "pipelineErr"):
            for out in (None, "out.py", ""):
                files = [["out.py", OLD]] if existing else []
                req = {"op": "clirun", "code": "class A:\n    pass\n", "header": "H\n", "output": out, "files": files,
                       "argparseOk": step != "argparse"}
                if step and step != "argparse":
                    req[step] = "boom"
                if step is None:
                    text = "H\nclass A:\n    pass\n"
                    if out:
                        want = {"exit": 0, "stdout": "Output is written to out.py\n",
                                "files": [["out.py", text]]}
                    else:
                        want = {"exit": 0, "stdout": text + "\n", "files": files}
                else:
                    want = {"exit": 2 if step == "argparse" else 1, "stdout": "", "files": files}
                batch.add(req, {"ok": want}, {"step": step, "existing": existing, "output": out})


ARGPARSE_FAULTS = ("unknown-framework", "unknown-option", "bad-max-literals")


def real_process_tie(ctx, batch):
    """the effect-trace model against real processes: for every fault kind (one position) and the good runs, with and
    without -o / an existing target, the model's Outcome for the classified step (argparse -> exit 2; any later step
    -> exit 1; success -> the text) against (exit status, stdout, content of out.py) of the real command. The code of a
    successful run is the real stdout of the same command without -o; the header's clock line is removed on both sides."""
    cases = [c for c in fault_cases() if "/" not in c[0] or c[0].endswith("/middle") or c[0].endswith("/alone")]
    combos = [(False, False), (True, False), (True, True)]            # (with -o, target exists)

    def no_clock(text):
        # the header's clock line and its echo of the command line (which differs by the -o argument)
        return "\n".join(l for l in text.split("\n")
                         if not l.startswith("generated by json2python-models") and not l.startswith("command: "))

    with tempfile.TemporaryDirectory(prefix="j2m-c17t-") as root:
        jobs, metas = [], []
        for k, (name, files, argv, expect_fail) in enumerate(cases):
            for with_o, existing in combos:
                d = os.path.join(root, "t%d_%d%d" % (k, with_o, existing))
                os.makedirs(d)
                clitools.write_files(d, files)
                if existing:
                    with open(os.path.join(d, "out.py"), "w") as f:
                        f.write(OLD)
                jobs.append((argv + (["-o", "out.py"] if with_o else []), d, ctx.repo))
                metas.append((name, expect_fail, with_o, existing, d))
        results = clitools.run_many(jobs)
        left = []
        for (name, expect_fail, with_o, existing, d) in metas:
            t = os.path.join(d, "out.py")
            left.append(open(t, encoding="utf-8").read() if os.path.exists(t) else None)
    plain = {name: out for (name, _, with_o, _, _), (rc, out, err) in zip(metas, results) if not with_o}
    for (name, expect_fail, with_o, existing, d), (rc, out, err), target in zip(metas, results, left):
        files = [["out.py", OLD]] if existing else []
        step = None if not expect_fail else ("argparse" if name.split("/")[0] in ARGPARSE_FAULTS else "loadErr")
        code = no_clock(plain[name])[:-1] if not expect_fail else ""          # `print` adds the final newline
        req = {"op": "clirun", "code": code, "header": "", "output": "out.py" if with_o else None, "files": files,
               "argparseOk": step != "argparse"}
        if step == "loadErr":
            req["loadErr"] = "boom"
        got_files = [] if target is None else [["out.py", no_clock(target) if target != OLD else target]]
        ans = {"ok": {"exit": rc, "stdout": no_clock(out), "files": got_files}}
        batch.add(req, ans, {"fault": name, "with_o": with_o, "existing": existing})
        ctx.count("real_process_tie")


def falsify(ctx):
    cases = fault_cases()
    rng = ctx.rng("fals")
    with tempfile.TemporaryDirectory(prefix="j2m-c17-") as root:
        jobs, metas = [], []
        k = 0
        for name, files, argv, expect_fail in cases:
            for existing in (False, True):
                for with_o in (True, False):
                    if not with_o and existing:
                        continue
                    d = os.path.join(root, "c%d" % k)
                    k += 1
                    os.makedirs(d)
                    clitools.write_files(d, files)
                    if existing:
                        with open(os.path.join(d, "out.py"), "w") as f:
                            f.write(OLD)
                    full = argv + (["-o", "out.py"] if with_o else [])
                    jobs.append((full, d, ctx.repo))
                    metas.append((name, files, full, expect_fail, existing, with_o, d))
        results = clitools.run_many(jobs)
        for (name, files, argv, expect_fail, existing, with_o, d), (rc, out, err) in zip(metas, results):
            ctx.case((name, existing, with_o), nontrivial=True)
            ctx.count("fault:" + name.split("/")[0])
            target = os.path.join(d, "out.py")
            after = sha(target)
            before = hashlib.sha256(OLD.encode()).hexdigest() if existing else None
            has_code = "class " in out
            meta = {"fault": name, "files": files, "argv": argv, "existing_output": existing}
            if expect_fail:
                if rc == 0:
                    yield dict(meta, kind="fault-not-reported", observed={"exit": rc, "stdout": out[:300]})
                elif has_code:
                    yield dict(meta, kind="code-printed-on-failure", observed={"exit": rc, "stdout": out[:300]})
                elif after != before:
                    yield dict(meta, kind="output-file-touched-on-failure",
                               observed={"exit": rc, "before": before, "after": after, "stderr": err[-200:]})
            else:
                if rc != 0:
                    yield dict(meta, kind="good-run-fails", observed={"exit": rc, "stderr": err[-300:]})
                elif with_o:
                    text = open(target, encoding="utf-8").read() if os.path.exists(target) else ""
                    if "class Root" not in text or not text.endswith("\n") or has_code:
                        yield dict(meta, kind="incomplete-output-file", observed={"file": text[:300], "stdout": out[:200]})
                elif not has_code:
                    yield dict(meta, kind="no-code-on-stdout", observed={"stdout": out[:300]})
    ctx.sample({"faults": sorted({c[0].split("/")[0] for c in cases})}, limit=1)


def replay(ctx, hit):
    with tempfile.TemporaryDirectory(prefix="j2m-c17-") as d:
        clitools.write_files(d, hit["files"])
        if hit.get("existing_output"):
            with open(os.path.join(d, "out.py"), "w") as f:
                f.write(OLD)
        rc, out, err = clitools.run_cli(hit["argv"], d, ctx.repo)
        after = sha(os.path.join(d, "out.py"))
        before = hashlib.sha256(OLD.encode()).hexdigest() if hit.get("existing_output") else None
        bad = (rc == 0) or ("class " in out) or (after != before)
        return {"kind": hit["kind"], "observed": {"exit": rc, "stdout": out[:300], "before": before, "after": after}} if bad else None
