"""C14 — a generation is independent of what the process did before."""
from concurrent.futures import ThreadPoolExecutor

from .. import stages, worker
from . import common
from . import C06 as _c06

SITE_KINDS = {"module-level-mutable", "class-level-mutable", "threading", "global-statement", "process-wide-setter"}
RULE = ("histories of up to 4 library calls in one fresh process: generations of other inputs / frameworks / layouts, calls "
        "that raise inside code generation (a key without word characters), and re-renderings of a registry built by an "
        "earlier call (same unicode option; nested only for tree-shaped graphs) — each call's output compared with the same "
        "call made alone in a fresh process; correspondence: pipeline op with several render jobs on one registry (class "
        "names are converted in place) vs the implementation; non-trivial = history of >= 2 calls with a reuse or a failing "
        "call; distinct by content")
EXPLANATION = ("J2M.C14.ctx_restored / history_free_ctx over the model of the reference context (restored on every path), and "
               "label idempotence (J2M.C11.label_idempotent) for in-place class-name conversion")
ASSUMPTIONS = ["unicode-conversion option fixed per registry; nested layout for tree-shaped graphs (as the property states)"]

FAILING = {"inputs": [["Root", [{"***": 1, "ok": 2}]]], "cmps": [["percent", 7, 10], ["number", 10]],
           "job": {"fw": "pydantic", "layout": "flat", "maxLit": 10, "postInit": False, "convertUnicode": True, "meta": False,
                   "preamble": None}}


def failing_nested_pair(rng):
    """a nested-layout generation with a model shared by sibling classes (so that reference paths are injected) that
    raises inside code generation, followed by the flat generation of the same data without the offending key"""
    from .. import gen as _gen
    ks = rng.sample(_gen.WORDS, k=4)
    item = {k: 1 for k in ks}
    good = {"first": {"item": dict(item), "n": 1}, "second": {"item": dict(item), "m": "x"}}
    bad = dict(good)
    bad["***"] = 1
    cmps = [["percent", 7, 10], ["number", 10]]
    job = common.gen_job(rng, layout="nested")
    job["preamble"] = None
    job2 = dict(job, layout="flat")
    return [{"inputs": [["Root", [bad]]], "cmps": cmps, "job": job, "tree": None},
            {"inputs": [["Root", [good]]], "cmps": cmps, "job": job2, "tree": None}]


def converters_then_base(rng):
    """a generation with post-init converters for attrs / dataclasses, then one for the plain generator (also with the
    option on) over data with string pseudo-types"""
    data = [{"n": "5", "f": "0.5", "b": "true", "s": "plain", "sub": {"k": "12"}}]
    cmps = [["percent", 7, 10], ["number", 10]]
    j1 = common.gen_job(rng, fw=rng.choice(["attrs", "dataclasses"]), layout="flat")
    j2 = common.gen_job(rng, fw="base", layout=rng.choice(["flat", "nested"]))
    for j in (j1, j2):
        j.update({"postInit": True, "preamble": None})
    return [{"inputs": [["Root", data]], "cmps": cmps, "job": j1, "tree": None},
            {"inputs": [["Root", data]], "cmps": cmps, "job": j2, "tree": None}]


def clash_layout_switch(rng):
    """two root models; a child of the first collides (after class-name conversion) with the second root: the nested
    walk meets the child first, the flat walk the root first. One registry rendered in one layout, then in the other."""
    k1, k2 = rng.choice([("foo.bar", "Foobar"), ("données", "Donnee"), ("a.b", "Ab"), ("list", "List_")])
    inputs = [["Order", [{k1: {"x": 1, "y": 2}, "n": 1}]], [k2, [{"z": "s", "w": True}]]]
    cmps = [["percent", 7, 10], ["number", 10]]
    layouts = ["flat", "nested"]
    rng.shuffle(layouts)
    fw = rng.choice(common.FRAMEWORKS)
    j1 = common.gen_job(rng, fw=fw, layout=layouts[0])
    j2 = common.gen_job(rng, fw=fw, layout=layouts[1])
    for j in (j1, j2):
        j.update({"convertUnicode": True, "preamble": None})
        j.pop("renderFirst", None)
        j.pop("structureReuse", None)
    return [{"inputs": inputs, "cmps": cmps, "job": j1, "tree": True},
            {"inputs": inputs, "cmps": cmps, "job": j2, "reuse": 0, "tree": True}]


def gen_history(rng):
    n = rng.randint(2, 4)
    hist = []
    r0 = rng.random()
    if 0.8 < r0 <= 0.9:
        return clash_layout_switch(rng)
    if r0 > 0.9:
        hist.extend(converters_then_base(rng))
        if rng.random() < 0.5:
            return hist
    if r0 < 0.12:
        hist.extend(failing_nested_pair(rng))
        if rng.random() < 0.5:
            return hist
    for i in range(n):
        r = rng.random()
        reusable = [j for j, c in enumerate(hist) if c.get("reuse") is None and c is not FAILING and c.get("tree") is not None]
        if r < 0.2:
            hist.append(dict(FAILING))
        elif r < 0.6 and reusable:
            j = rng.choice(reusable)
            base = hist[j]
            job = common.gen_job(rng)
            job["convertUnicode"] = base["job"]["convertUnicode"]
            job["preamble"] = None
            if not base["tree"]:
                job["layout"] = "flat"
            hist.append({"inputs": base["inputs"], "cmps": base["cmps"], "job": job, "reuse": j, "tree": base["tree"],
                         **{k: base[k] for k in ("dictFields", "dictRegex", "kinds", "datetime", "defaultRegistry") if k in base}})
        else:
            c = _c06.gen_case(rng)
            r2 = rng.random()
            if r2 < 0.3:
                # options of this call only: they must not leak into later calls
                from .. import gen as _gen
                c["dictFields"] = rng.sample(_gen.WORDS, k=rng.randint(1, 4))
            elif r2 < 0.4:
                c["dictRegex"] = [rng.choice([r"^k\d$", r"^[a-z]$", r"^(id|name|data)$"])]
            elif r2 < 0.5:
                c["kinds"] = rng.choice([["IntString"], [], ["BooleanString", "FloatString"]])
            elif r2 < 0.55:
                c["datetime"] = True
            elif r2 < 0.72:
                # every default left alone: no registry argument (the process-wide default registry of string types), over
                # data that holds numeric strings
                c["defaultRegistry"] = True
                c["inputs"][0][1].append({"count": "12", "ratio": "1.5", "flag": "true", "when": "2020-01-02"})
            try:
                reg, _ = stages.build_registry([tuple(x) for x in c["inputs"]],
                                               stages.make_registry(tuple(c.get("kinds", ("IntString", "FloatString", "BooleanString"))),
                                                                    datetime=c.get("datetime", False)),
                                               worker.cmps_from(c["cmps"]), c.get("dictFields", ()), c.get("dictRegex", ()))
                c["tree"] = common.is_tree(reg)
            except Exception:  # noqa
                c["tree"] = False
            if not c["tree"]:
                c["job"]["layout"] = "flat"
            hist.append(c)
    return hist


def correspondence(ctx, batch):
    rng = ctx.rng("corr")
    registry = stages.make_registry()
    # the reference context itself: nested injections, exceptions, several threads (J2M.Runtime.exec)
    for _ in range(ctx.n(120, 1500)):
        schedule = [[rng.choice([0, 0, 1, 2]), stages.gen_ctx_body(rng, rng.randint(1, 4))] for _ in range(rng.randint(1, 5))]
        stages.stage_ctxexec(batch, schedule)
        stages.stage_ctxops(batch, stages.gen_ctx_ops(rng))
    for _ in range(ctx.n(80, 1200)):
        c = _c06.gen_case(rng)
        inputs = [tuple(x) for x in c["inputs"]]
        try:
            reg, _ = stages.build_registry(inputs, registry, worker.cmps_from(c["cmps"]))
            tree = common.is_tree(reg)
        except Exception:  # noqa
            continue
        jobs = []
        cu = rng.random() < 0.7
        for k in range(rng.randint(2, 4)):
            job = common.gen_job(rng)
            job["convertUnicode"] = cu
            job["fresh"] = (k == 0)
            if not tree:
                job["layout"] = "flat"
            jobs.append(job)
        stages.stage_render(batch, inputs, registry, worker.cmps_from(c["cmps"]), jobs)


def strip(c):
    return {k: v for k, v in c.items() if k not in ("reuse", "tree")}


def check_cli_object_histories(ctx, rng):
    """one `Cli` object handling two or three command lines with different option sets one after the other: every run
    equals the run of a fresh `Cli` object on that command line in the same process"""
    import tempfile
    from .. import clitools, gen
    from . import C16 as _c16
    with tempfile.TemporaryDirectory(prefix="j2m-c14-") as d:
        sample = gen.gen_shared_samples(rng)
        files = {"s.json": sample, "t.json": [{"payload": {"a": 1}, "when": "2020-01-02", "n": "12"}]}
        clitools.write_files(d, files)
        for _ in range(ctx.n(8, 80)):
            seq = []
            for _k in range(rng.randint(2, 3)):
                opts, oargv = _c16.gen_opts(rng)
                while "datetime" in opts or "disable" in opts:
                    # these two options change the process-wide string-type registry by design (one command = one process)
                    opts, oargv = _c16.gen_opts(rng)
                seq.append(["-m", "Root", rng.choice(["s.json", "t.json"])] + oargv)
            try:
                r = clitools.run_cli_sequence(seq, d, ctx.repo)
            except Exception as e:  # noqa
                yield {"kind": "cli-reuse-raises", "sequence": seq, "files": files, "observed": str(e)[-300:]}
                continue
            ctx.case(("cli-object", repr(seq)), nontrivial=True)
            for k, (a, b) in enumerate(zip(r["reused"], r["fresh_all"])):
                if a != b:
                    yield {"kind": "cli-object-history-dependent", "sequence": seq, "call": k, "files": files,
                           "observed": {"reused_object": a, "fresh_object": b}}
                    break


def check_cli_rewritten_inputs(ctx, rng):
    """several command lines in one process that name the SAME path (and format), the file being rewritten between them: each
    run reads the file as it is then — it equals the run of a fresh process on that content"""
    import json as _json
    import os
    import tempfile
    from .. import clitools, gen
    for k in range(ctx.n(4, 30)):
        fmt = ["json", "json", "yaml", "ini"][k % 4]
        name = {"json": "input.json", "yaml": "input.yaml", "ini": "input.ini"}[fmt]
        def content(j):
            if fmt == "json":
                return _json.dumps(gen.gen_shared_samples(rng) if j else [{"id": 1, "name": "x", "tags": ["a"]}])
            if fmt == "yaml":
                return "items:\n" + "".join("  - {k%d: %d, v%d: x}\n" % (j, i, j) for i in range(2))
            return "[main]\nopt%d = 1\nname%d = x y\n[other]\nz%d = 2.5\n" % (j, j, j)
        versions = [content(j) for j in range(rng.randint(2, 3))]
        argv = ["-m", "Root", name] + (["-i", fmt] if fmt != "json" else []) + rng.choice([[], ["-f", "pydantic"], ["-s", "nested"]])
        steps = []
        for v in versions:
            steps += [{"write": {name: v}}, {"argv": argv}]
        with tempfile.TemporaryDirectory(prefix="j2m-c14-") as d:
            try:
                got = clitools.run_cli_rewrites(steps, d, ctx.repo)
            except Exception as e:  # noqa
                yield {"kind": "cli-rewrite-raises", "steps": steps, "observed": str(e)[-300:]}
                continue
        want = []
        for v in versions:
            with tempfile.TemporaryDirectory(prefix="j2m-c14-") as d:
                clitools.write_files(d, {name: v})
                rc, out, err = clitools.run_cli(argv, d, ctx.repo)
                want.append({"ok": clitools.strip_header(out[:-1] if out.endswith("\n") else out)} if rc == 0 else {"err": "exit %d" % rc})
        ctx.case(("cli-rewrite", fmt, repr(versions)), nontrivial=True)
        for j, (a, b) in enumerate(zip(got, want)):
            if ("ok" in a) != ("ok" in b) or ("ok" in a and a["ok"] != b["ok"]):
                yield {"kind": "cli-input-history-dependent", "steps": steps, "call": j,
                       "observed": {"in_one_process": a, "fresh_process": b}}
                break


def falsify(ctx):
    rng = ctx.rng("fals")
    yield from check_cli_object_histories(ctx, rng)
    yield from check_cli_rewritten_inputs(ctx, rng)
    hists = [gen_history(rng) for _ in range(ctx.n(120, 2500))]
    singles = [strip(c) for h in hists for c in h]
    with ThreadPoolExecutor(max_workers=16) as ex:
        chunks = [singles[i::8] for i in range(8)]
        alone_chunks = list(ex.map(lambda ch: worker.run_in_fresh_process(ch, None, ctx.repo) if ch else [], chunks))
        in_hist = list(ex.map(lambda h: worker.run_in_fresh_process(h, None, ctx.repo, 600, "history"), hists))
    alone = [None] * len(singles)
    for i, ch in enumerate(alone_chunks):
        for j, r in enumerate(ch):
            alone[i + 8 * j] = r
    # NB: `alone` cases share a process per chunk only for economy; each is an independent pipeline (own registry);
    #     a difference caused by that sharing would itself be a C14 violation and shows up as a mismatch below
    k = 0
    for h, res in zip(hists, in_hist):
        ctx.case(repr(h), nontrivial=len(h) >= 2 and any(c.get("reuse") is not None or "***" in repr(c["inputs"]) for c in h))
        for c, got in zip(h, res):
            want = alone[k]
            k += 1
            want_n = {"err": want["err"].split(":")[0]} if "err" in want else want
            if got != want_n:
                yield {"kind": "history-dependent-output", "history": h, "call": h.index(c),
                       "observed": {"in_history": got, "alone": want_n}}
                break
        else:
            continue
        k += len(h) - (h.index(c) + 1)
    ctx.sample({"history": [{"fw": c["job"]["fw"], "layout": c["job"]["layout"], "reuse": c.get("reuse"),
                             "failing": c["inputs"] == FAILING["inputs"]} for c in hists[0]]}, limit=1)


def replay(ctx, hit):
    if hit.get("kind") in ("cli-object-history-dependent", "cli-reuse-raises"):
        import tempfile
        from .. import clitools
        with tempfile.TemporaryDirectory(prefix="j2m-c14-") as d:
            clitools.write_files(d, hit["files"])
            r = clitools.run_cli_sequence(hit["sequence"], d, ctx.repo)
        bad = [k for k, (a, b) in enumerate(zip(r["reused"], r["fresh_all"])) if a != b]
        return {"kind": "cli-object-history-dependent", "observed": {"calls": bad}} if bad else None
    if hit.get("kind") in ("cli-input-history-dependent", "cli-rewrite-raises"):
        import tempfile
        from .. import clitools
        steps = hit["steps"]
        with tempfile.TemporaryDirectory(prefix="j2m-c14-") as d:
            got = clitools.run_cli_rewrites(steps, d, ctx.repo)
        state, j = {}, 0
        for st in steps:
            if "write" in st:
                state.update(st["write"])
                continue
            with tempfile.TemporaryDirectory(prefix="j2m-c14-") as d:
                clitools.write_files(d, state)
                rc, out, err = clitools.run_cli(st["argv"], d, ctx.repo)
            want = {"ok": clitools.strip_header(out[:-1] if out.endswith("\n") else out)} if rc == 0 else {"err": "exit %d" % rc}
            if ("ok" in got[j]) != ("ok" in want) or ("ok" in want and got[j]["ok"] != want["ok"]):
                return {"kind": "cli-input-history-dependent", "call": j, "observed": {"in_one_process": got[j], "fresh_process": want}}
            j += 1
        return None
    h = hit["history"]
    res = worker.run_in_fresh_process(h, None, ctx.repo, 600, "history")
    for i, (c, got) in enumerate(zip(h, res)):
        want = worker.run_in_fresh_process([strip(c)], None, ctx.repo)[0]
        want_n = {"err": want["err"].split(":")[0]} if "err" in want else want
        if got != want_n:
            return {"kind": "history-dependent-output", "call": i, "observed": {"in_history": got, "alone": want_n}}
    return None
