"""C05 — models are merged exactly along the configured similarity relation."""
import itertools

from json_to_models.generator import MetadataGenerator
from json_to_models.registry import ModelFieldsEquals, ModelFieldsNumberMatch, ModelFieldsPercentMatch, ModelRegistry

from .. import conv, gen, stages
from . import common

RULE = ("(a) every symmetric similarity table on n <= 5 models (quick: all 1+1+8+64 for n<=4 and a seeded sample for n=5; "
        "thorough: all 1024 for n=5 and a seeded sample for n=6) driven through a table-backed comparator, on models that "
        "reference each other; (b) real comparators on generated key sets around the thresholds (7/10, 14/20, 69-71/100, "
        "custom percent_N / number_N); correspondence: the `closure` op (group list incl. order) and the pipeline stage "
        "(graph after merge, replacement list); falsifier: union-find over the pairwise relation computed by calling the "
        "comparators vs the partition read off the registry, merged key sets, untouched models, dangling pointers; "
        "non-trivial = at least one edge; distinct by (table / key sets, policy)")
EXPLANATION = ("J2M.C05.closure_components / closure_terminates / closure_total: for every symmetric table and every n the "
               "loop of merge_models terminates within n+2 passes with exactly the connected components that have an edge")
ASSUMPTIONS = ["percent thresholds compared as exact rationals of the float threshold (T4); comparator decisions are taken "
               "on the original key sets (merge_models runs once)"]


def tables(n):
    pairs = list(itertools.combinations(range(n), 2))
    for bits in range(1 << len(pairs)):
        yield [p for i, p in enumerate(pairs) if bits >> i & 1]


def table_inputs(n, edges):
    """n nested models with distinct singleton key sets 'k<i>' (value types differ so that nothing else merges)"""
    sample = {"holder%d" % i: {"k%d" % i: i} for i in range(n)}
    return [("Root", [sample])], [["k%d" % a, "k%d" % b] for a, b in edges]


def correspondence(ctx, batch):
    rng = ctx.rng("corr")
    registry = stages.make_registry()
    for n in range(0, 6 if ctx.tier == "quick" else 7):
        for edges in tables(n):
            if n == 5 and ctx.tier == "quick" and rng.random() > 0.12:
                continue
            if n == 6 and rng.random() > 0.02:
                continue
            stages.stage_closure(batch, n, edges)
            ctx.count("tables_n%d" % n)
            if n <= 4 or rng.random() < 0.2:
                inputs, kedges = table_inputs(n, edges)
                stages.stage_pipeline(batch, inputs, registry, [stages.TableCmp(kedges)], parts=("merge", "replaces"))
    for inputs, cmps in list(boundary_cases()) + list(order_cases()) + list(fieldless_cases()) + list(duplicate_class_cases()):
        stages.stage_pipeline(batch, inputs, registry, cmps, parts=("merge", "replaces"))
        ctx.count("boundary_cases")
    for _ in range(ctx.n(80, 1500)):
        stages.stage_pipeline(batch, common.gen_inputs(rng, styled_p=0.1), registry, threshold_cmps(rng),
                              parts=("process", "merge", "replaces"))
    for _ in range(ctx.n(60, 1000)):
        stages.stage_pipeline(batch, [("Root", [threshold_sample(rng)])], registry, threshold_cmps(rng),
                              parts=("process", "merge", "replaces"))
    # a registry that is merged, receives more data and is merged again
    from .. import gen as _gen
    for _ in range(ctx.n(25, 300)):
        tree = _gen.gen_recursive_tree(rng) if rng.random() < 0.6 else _gen.gen_shared_shape(rng)
        more = _gen.gen_recursive_tree(rng) if rng.random() < 0.5 else dict(tree, extra_key=1)
        stages.stage_pipeline(batch, [("Item", [more]), ("Again", [tree])], registry, [] if rng.random() < 0.5 else threshold_cmps(rng),
                              parts=("process", "merge", "replaces"), first=[("Root", [tree])])


def threshold_cmps(rng):
    return rng.choice([
        [ModelFieldsPercentMatch(), ModelFieldsNumberMatch()],
        [ModelFieldsPercentMatch()],
        [ModelFieldsEquals()],
        [ModelFieldsPercentMatch(.95)], [ModelFieldsPercentMatch(float("69") / 100)], [ModelFieldsPercentMatch(float("71") / 100)],
        [ModelFieldsPercentMatch(1 / 3)], [ModelFieldsNumberMatch(3)], [ModelFieldsNumberMatch(1)],
        [ModelFieldsNumberMatch(10)], [ModelFieldsNumberMatch(5)], [ModelFieldsNumberMatch(25)],
        [ModelFieldsPercentMatch(float("80") / 100)], [ModelFieldsPercentMatch(float("90") / 100)],
        [ModelFieldsPercentMatch(float("60") / 100)], [ModelFieldsPercentMatch(float("75") / 100)],
        [ModelFieldsPercentMatch(float("32") / 100)], [ModelFieldsPercentMatch(float("55") / 100)],
        [ModelFieldsPercentMatch(float("68") / 100)], [ModelFieldsPercentMatch(float("92") / 100)],
        [ModelFieldsPercentMatch(float("50") / 100)], [ModelFieldsPercentMatch(1.0)],
        [ModelFieldsEquals(), ModelFieldsNumberMatch(4)],
        # every order of several comparators: each must see the original key sets
        [ModelFieldsNumberMatch(), ModelFieldsPercentMatch()], [ModelFieldsNumberMatch(10), ModelFieldsPercentMatch(.7)],
        [ModelFieldsNumberMatch(4), ModelFieldsEquals()], [ModelFieldsNumberMatch(8), ModelFieldsPercentMatch(.5)],
        [ModelFieldsNumberMatch(5), ModelFieldsEquals(), ModelFieldsPercentMatch(float("80") / 100)],
        [ModelFieldsPercentMatch(float("90") / 100), ModelFieldsNumberMatch(6), ModelFieldsEquals()],
    ])


def threshold_sample(rng):
    """objects whose key sets sit at the comparator boundaries"""
    out = {}
    size = rng.choice([10, 20, 3, 7, 5, 25, 4])
    base = ["f%d" % i for i in range(size)]
    for j in range(rng.randint(2, 4)):
        drop = rng.choice([0, 1, 2, 3, size * 3 // 10, size * 3 // 10 + 1, size // 2, size // 4, size // 5, size // 10])
        extra = rng.choice([0, 0, 1, 2, 3])
        ks = base[drop:] + ["x%d_%d" % (j, i) for i in range(extra)]
        out["h%d" % j] = {k: 1 for k in ks}
    return out


PERCENTS = [32, 50, 55, 56, 60, 68, 69, 70, 71, 75, 80, 90, 92, 95, 100, 33, 10, 1]


def order_cases():
    """pairs that satisfy NO comparator of the policy, with the later model's keys mostly or wholly inside the earlier
    one's (12 and 9 keys sharing 7; a subset), under every order of the policy's comparators"""
    import itertools
    a = {"f%d" % i: 1 for i in range(12)}
    b = {"f%d" % i: 1 for i in range(7)}
    b.update({"g0": 1, "g1": 1})
    sub = {"f%d" % i: 1 for i in range(6)}
    for first, second in ((a, b), (b, a), (a, sub), (sub, a)):
        for policy in ([ModelFieldsNumberMatch(10), ModelFieldsPercentMatch(.7)],
                       [ModelFieldsNumberMatch(10), ModelFieldsEquals()],
                       [ModelFieldsNumberMatch(10), ModelFieldsPercentMatch(.7), ModelFieldsEquals()]):
            for perm in itertools.permutations(policy):
                yield [("Root", [{"ha": first, "hb": second}])], list(perm)


def duplicate_class_cases():
    """policies that hold the same comparator class twice with different thresholds, in both orders: a pair related by
    the more permissive one only is merged ("any comparator relates the pair")"""
    a = {"f%d" % i: 1 for i in range(4)}                       # {f0..f3}
    b = {"f0": 1, "f1": 1, "g0": 1, "g1": 1}                   # shares 2 of 6: ratio 1/3; 2 common keys
    c = {"f0": 1, "f1": 1, "f2": 1, "h0": 1}                   # with a: 3 of 5 = 0.6; 3 common keys
    for policy in ([ModelFieldsPercentMatch(.5), ModelFieldsPercentMatch(.9)], [ModelFieldsPercentMatch(.9), ModelFieldsPercentMatch(.5)],
                   [ModelFieldsNumberMatch(2), ModelFieldsNumberMatch(6)], [ModelFieldsNumberMatch(6), ModelFieldsNumberMatch(2)],
                   [ModelFieldsNumberMatch(3), ModelFieldsEquals(), ModelFieldsNumberMatch(9)],
                   [ModelFieldsPercentMatch(.3), ModelFieldsNumberMatch(9), ModelFieldsPercentMatch(.95)]):
        yield [("Root", [{"ha": a, "hb": b, "hc": c}])], policy
        yield [("Root", [{"hc": c, "ha": a}])], policy


def fieldless_cases():
    """root models without any field (inputs `{}`): two of them have equal key sets, and share 0 keys with everything"""
    a = {"f%d" % i: 1 for i in range(3)}
    for policy in ([ModelFieldsEquals()], [ModelFieldsEquals(), ModelFieldsNumberMatch(2)], [ModelFieldsNumberMatch(0)],
                   [ModelFieldsNumberMatch(0), ModelFieldsEquals()], [ModelFieldsNumberMatch(1)]):
        yield [("Ping", [{}]), ("Pong", [{}])], policy
        yield [("Ping", [{}]), ("Full", [a]), ("Pong", [{}])], policy
        yield [("Full", [a]), ("Ping", [{}, {}]), ("Other", [dict(a)])], policy


def boundary_cases():
    """two sibling models whose shared/union key ratio is exactly on, just below and just above a percent threshold, and
    whose shared key count is exactly n, n-1 for a number threshold — every threshold, not a sample"""
    from math import gcd
    for n in PERCENTS:
        cmp_ = [ModelFieldsPercentMatch(float(str(n)) / 100)]
        u0 = 100 // gcd(n, 100)
        for u in (u0, 2 * u0):
            if u > 100:
                continue
            shared = n * u // 100
            for d in (0, -1, 1):
                k = shared + d
                if not 1 <= k <= u:
                    continue
                a = {"f%d" % i: 1 for i in range(u)}
                b = {"f%d" % i: 1 for i in range(k)}
                yield [("Root", [{"ha": a, "hb": b}])], cmp_
                # the same ratio with keys missing on both sides
                if k >= 2 and u - k >= 1:
                    a2 = {"f%d" % i: 1 for i in range(u - 1)}
                    b2 = {"f%d" % i: 1 for i in list(range(k)) + [u - 1]}
                    yield [("Root", [{"ha": a2, "hb": b2}])], cmp_
    for n in (1, 2, 3, 4, 5, 10, 25):
        for k in (n - 1, n, n + 1):
            if k < 1:
                continue
            a = {"f%d" % i: 1 for i in range(k)}
            a.update({"a%d" % i: 1 for i in range(3 * k + 2)})
            b = {"f%d" % i: 1 for i in range(k)}
            b.update({"b%d" % i: 1 for i in range(3 * k + 2)})
            yield [("Root", [{"ha": a, "hb": b}])], [ModelFieldsNumberMatch(n)]


def holds(c, fa, fb):
    """the documented meaning of a comparator, in exact arithmetic, from its configuration (not by calling it)"""
    from fractions import Fraction
    if isinstance(c, ModelFieldsEquals):
        return fa == fb
    if isinstance(c, ModelFieldsPercentMatch):
        if not (fa | fb):
            raise ZeroDivisionError
        return Fraction(len(fa & fb), len(fa | fb)) >= Fraction(repr(float(c.percent_fields)))
    if isinstance(c, ModelFieldsNumberMatch):
        return len(fa & fb) >= c.number_fields
    raise TypeError(c)


class UF:
    def __init__(self, xs):
        self.p = {x: x for x in xs}

    def find(self, x):
        while self.p[x] != x:
            self.p[x] = self.p[self.p[x]]
            x = self.p[x]
        return x

    def union(self, a, b):
        self.p[self.find(a)] = self.find(b)


def check_registry(inputs, cmps, registry, first_phase=None):
    gen_ = MetadataGenerator(registry)
    reg = stages._TableRegistry(*cmps)
    if first_phase:
        # more data arrives after a first merge_models(): the registry is merged a second time (models that already are
        # merge results, self-references included, take part)
        for name, samples in first_phase:
            reg.process_meta_data(gen_.generate(*samples), name)
        if stages.closure_cost(reg) > 80:
            raise stages.TooCostly()
        reg.merge_models(gen_)
    for name, samples in inputs:
        reg.process_meta_data(gen_.generate(*samples), name)
    before = {m.index: (set(m.type.keys()), conv.enc_ty(m.type)) for m in reg.models}
    order = [m.index for m in reg.models]
    models = list(reg.models)
    uf = UF(order)
    def similar(a, b):
        """the configured relation itself: at least one comparator holds on the original key sets"""
        fa, fb = set(a.type.keys()), set(b.type.keys())
        for c in (cmps or ModelRegistry.DEFAULT_MODELS_CMP):
            if isinstance(c, stages.TableCmp):
                ka, kb = next(iter(a.type.keys()), ""), next(iter(b.type.keys()), "")
                if (ka, kb) in c.edges:
                    return True
            elif holds(c, fa, fb):
                return True
        return False

    for a, b in itertools.combinations(models, 2):
        if similar(a, b):
            uf.union(a.index, b.index)
    comps = {}
    for i in order:
        comps.setdefault(uf.find(i), []).append(i)
    expected = sorted(sorted(c) for c in comps.values() if len(c) > 1)
    if stages.closure_cost(reg) > 80:
        raise stages.TooCostly()        # the grouping loop of the implementation itself needs minutes on such inputs
    repl = reg.merge_models(gen_)
    got = sorted(sorted(m.index for m in grp) for _, grp in repl)
    if got != expected:
        return {"kind": "partition", "observed": {"merged_groups": got, "connected_components": expected}}
    after = {m.index: m for m in reg.models}
    merged_members = {i for g in expected for i in g}
    for new, grp in repl:
        if new.index not in after:
            return {"kind": "replacement-list", "observed": f"{new.index} reported but not registered"}
        keys = set().union(*[before[m.index][0] for m in grp])
        if set(new.type.keys()) != keys:
            return {"kind": "merged-fields", "observed": {"merged": sorted(new.type.keys()), "union_of_members": sorted(keys)}}
    for i in order:
        if i in merged_members:
            if i in after:
                return {"kind": "member-still-registered", "observed": i}
        else:
            if i not in after:
                return {"kind": "untouched-model-missing", "observed": i}
            if set(after[i].type.keys()) != before[i][0]:
                return {"kind": "untouched-model-changed", "observed": i}
    if len(after) != len(order) - len(merged_members) + len(expected):
        return {"kind": "registry-size", "observed": sorted(after)}
    # every reference anywhere points to a registered model

    def walk(t):
        from json_to_models.dynamic_typing import ModelPtr
        if isinstance(t, ModelPtr):
            if t.type.index not in after or after[t.type.index] is not t.type:
                return t.type.index
            return None
        if isinstance(t, dict):
            it = t.values()
        elif hasattr(t, "__iter__") and not isinstance(t, (str, type)):
            it = list(t)
        else:
            return None
        for x in it:
            r = walk(x)
            if r:
                return r
        return None

    for m in after.values():
        r = walk(m.type)
        if r:
            return {"kind": "dangling-pointer", "observed": f"model {m.index} references unregistered {r}"}
        for p in m.pointers:
            if p.type is not m or (p.parent is not None and p.parent.index not in after):
                return {"kind": "dangling-pointer", "observed": f"pointer bookkeeping of {m.index}"}
    return None


def falsify(ctx):
    rng = ctx.rng("fals")
    registry = stages.make_registry()
    cases = []
    from ..worker import cmps_from
    for m in ctx.focus:          # inputs on which model and implementation disagreed come first
        if m and "inputs" in m and m.get("cmps"):
            cases.append(([tuple(x) for x in m["inputs"]], cmps_from(m["cmps"]), True))
    for n in range(0, 6):
        for edges in tables(n):
            if n == 5 and ctx.tier == "quick" and rng.random() > 0.1:
                continue
            inputs, kedges = table_inputs(n, edges)
            cases.append((inputs, [stages.TableCmp(kedges)], bool(edges)))
    for inputs, cmps in list(boundary_cases()) + list(order_cases()) + list(fieldless_cases()) + list(duplicate_class_cases()):
        cases.append((inputs, cmps, True))
    for _ in range(ctx.n(150, 3000)):
        cases.append(([("Root", [threshold_sample(rng)])], threshold_cmps(rng), True))
    for _ in range(ctx.n(100, 2000)):
        cases.append((common.gen_inputs(rng, styled_p=0.1), threshold_cmps(rng), True))
    if ctx.tier == "thorough":
        cnt = 0
        for edges in tables(6):
            if rng.random() < 0.05:
                inputs, kedges = table_inputs(6, edges)
                cases.append((inputs, [stages.TableCmp(kedges)], True))
                cnt += 1
        ctx.count("tables_n6", cnt)
    two_phase = []
    for _ in range(ctx.n(30, 400)):
        from .. import gen as _gen
        tree = _gen.gen_recursive_tree(rng) if rng.random() < 0.6 else _gen.gen_shared_shape(rng)
        more = _gen.gen_recursive_tree(rng) if rng.random() < 0.5 else dict(tree, extra_key=1)
        cm = threshold_cmps(rng) if rng.random() < 0.5 else []
        two_phase.append(([("Root", [tree])], [("Item", [more]), ("Again", [tree])], cm))
    tree = {"id": 1, "name": "n", "v": 2, "children": [{"id": 2, "name": "m", "v": 3, "children": []}]}
    two_phase.append(([("Node", [tree])], [("Item", [dict(tree, w=1)])], []))
    for first, inputs, cmps in two_phase:
        try:
            hit = check_registry(inputs, cmps, registry, first_phase=first)
        except (ZeroDivisionError, stages.TooCostly):
            continue
        except Exception as e:  # noqa
            hit = {"kind": "merge-raises", "observed": f"{type(e).__name__}: {e}"}
        ctx.case(("two-phase", repr(first), repr(inputs)), nontrivial=True)
        if hit:
            hit.update({"input": inputs, "first_phase": first, "cmps": [stages.enc_cmp(c) for c in cmps]})
            yield hit
    for inputs, cmps, nontrivial in cases:
        try:
            hit = check_registry(inputs, cmps, registry)
        except (ZeroDivisionError, stages.TooCostly):
            ctx.count("skip:zero-division")
            continue
        except Exception as e:  # noqa
            hit = {"kind": "merge-raises", "observed": f"{type(e).__name__}: {e}"}
        ctx.case((repr(inputs), repr([stages.enc_cmp(c) for c in cmps])), nontrivial=nontrivial)
        if hit:
            hit.update({"input": inputs, "cmps": [stages.enc_cmp(c) for c in cmps]})
            yield hit
    ctx.sample({"table_n4_chain": [[0, 1], [1, 2], [2, 3]], "threshold_sample": threshold_sample(rng)})


def replay(ctx, hit):
    from ..worker import cmps_from
    try:
        return check_registry([tuple(x) for x in hit["input"]], cmps_from(hit["cmps"]), stages.make_registry(),
                              first_phase=[tuple(x) for x in hit["first_phase"]] if hit.get("first_phase") else None)
    except stages.TooCostly:
        raise
    except Exception as e:  # noqa
        return {"kind": "merge-raises", "observed": f"{type(e).__name__}: {e}"}
