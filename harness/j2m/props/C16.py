"""C16 — the command line is a faithful front end to the library pipeline."""
import configparser
import io
import json
import os
import tempfile

from json_to_models.generator import MetadataGenerator
from json_to_models.models.structure import compose_models, compose_models_flat
from json_to_models.registry import ModelFieldsEquals, ModelFieldsNumberMatch, ModelFieldsPercentMatch, ModelRegistry

from .. import clitools, conv, gen, stages
from . import common

RULE = ("sample sets x ways of splitting them over files / dotted lookups / repeated -m / -l / one glob pattern x option sets "
        "(framework, structure, merge policy, max literals, dict-key options, converters, unicode, datetime, disabled types) x "
        "input formats {json, yaml, ini}; correspondence: `assemble`/`lookup`/`parsemerge` ops vs Cli.setup_models_data / "
        "dict_lookup / the merge-policy table; falsifier: the real CLI in a subprocess vs the library called in-process "
        "with the mapped options (stdout after the header; bytes of the -o target); non-trivial = samples split over >= 2 "
        "arguments or files; distinct by (files, argv)")
EXPLANATION = "J2M.C16.lookup_path / assemble_concat / split_invariant / opts_table over Cli.lean"
ASSUMPTIONS = ["files matched by one glob pattern come in unspecified order (compared as a multiset of orders: the library "
               "call uses the order the CLI used, read back from a sorted listing when unique)",
               "file parsing (JSON/YAML/INI) and globbing are inputs of the model"]


# ------------------------------------------------------------------------------------------ correspondence
def impl_assemble(args):
    """Cli.setup_models_data with an in-memory parser; args: [(name, lookup, [docs])] each doc is its own path"""
    from json_to_models.cli import Cli
    docs = {}
    models = []
    by_id = {}
    for i, (name, lookup, ds) in enumerate(args):
        for j, d in enumerate(ds):
            # the same document object given to several arguments is the same file (path) given several times
            path = by_id.setdefault(id(d), "f%d_%d.json" % (i, j))
            docs[path] = d
            models.append((name, lookup, path) if lookup is not None else (name, path))
    cli = Cli()
    cli.setup_models_data(models, [], lambda p: docs[str(p)])
    return [[n, len(xs), [conv.enc_json(x) for x in xs]] for n, xs in cli.models_data.items()]


def gen_doc(rng, depth=2):
    r = rng.random()
    objs = [gen.gen_object(rng, 1, rng.sample(gen.WORDS, k=3)) for _ in range(rng.randint(0, 3))]
    if r < 0.35:
        return objs, "-"
    if r < 0.5:
        return (objs[0] if objs else {}), "-"
    if r < 0.8:
        return {"data": objs, "meta": 1}, "data"
    if r < 0.9:
        return {"a": {"b.c": 1, "b": {"c": objs}}}, rng.choice(["a.b.c", "a.b", "a.x", "a.b.c.d", "a.", ".a", "a.-", ""])
    return rng.choice([1, "s", None, [1, 2], {"data": 3}]), rng.choice(["-", "data"])


def correspondence(ctx, batch):
    rng = ctx.rng("corr")
    for _ in range(ctx.n(400, 6000)):
        args = []
        for _ in range(rng.randint(1, 4)):
            name = rng.choice(["A", "B", "A"])
            ds = []
            lookup = None
            for _ in range(rng.randint(0, 3)):
                d, lk = gen_doc(rng)
                ds.append(d)
                lookup = lk
            args.append((name, lookup if rng.random() < .8 else None, ds))
        if len(args) >= 2 and rng.random() < 0.4:
            # a file repeated in a later, non-adjacent argument with another lookup
            src = rng.choice([a for a in args if a[2]] or [None])
            if src is not None:
                args.append((src[0], rng.choice(["-", "data", "a.b.c", "meta"]), [rng.choice(src[2])]))
        ans = stages.impl_call(lambda: impl_assemble(args))
        batch.add({"op": "assemble", "in": [[n, "-" if lk is None else lk, [conv.enc_json(d) for d in ds]]
                                            for n, lk, ds in args]}, ans, {"args": args})
    # --code-generator-kwargs items, the pattern split of process_path, the -m tuple shapes
    import itertools
    import json_to_models.cli as _cli
    pieces = ["a", "meta", "=", "==", '"', "true", "x y", "", "é", "b=c"]
    for _ in range(ctx.n(300, 4000)):
        items = ["".join(rng.choice(pieces) for _ in range(rng.randint(0, 4))) for _ in range(rng.randint(0, 3))]

        def run_kw(items=items):
            cli = _cli.Cli()
            cli.set_args([], "flat", "base", None, list(items), [], [], False, None)     # the real option mapping
            base = {"post_init_converters", "convert_unicode", "max_literals"}
            kw = dict(cli.model_generator_kwargs)
            out = [[k, v] for k, v in kw.items() if k not in base or not isinstance(v, (bool, int))]
            return [[k, v] for k, v in out if isinstance(v, str)]
        names = [it.strip('"').split("=", 1)[0] for it in items if "=" in it]
        if any(n in ("post_init_converters", "convert_unicode", "max_literals") for n in names):
            continue
        batch.add({"op": "kwargs", "in": items}, stages.impl_call(run_kw), {"items": items})
    # the remaining option mapping of set_args: one anchored pattern per --dict-keys-regex expression, fields, preamble
    pats = [r"\d+", r"k\d", r"[a-z]+", r"(id|name)", r".*", r"x|y", ""]
    for _ in range(ctx.n(150, 2000)):
        stages.stage_setargs(batch, [rng.choice(["meta=true", "a=b", '"x=1"']) for _ in range(rng.randint(0, 2))],
                             rng.sample(pats, k=rng.choice([0, 1, 2, 2, 3])), rng.sample(gen.WORDS, k=rng.choice([0, 1, 2])),
                             rng.random() < .4, rng.choice([None, "", "# x", "  # y \n", "import os\n\nX = 1\n", " \u2028 "]))
    stages.stage_spaces(batch)
    comps = ["data", "sub", "*.json", "file?.json", "**", "a.json", "x*y", "."]
    for _ in range(ctx.n(200, 3000)):
        parts = [rng.choice(comps) for _ in range(rng.randint(1, 4))]

        def run_split(parts=parts):
            clean = list(itertools.takewhile(lambda part: "*" not in part and "?" not in part, parts))
            return [clean, parts[len(clean):]]
        batch.add({"op": "splitpattern", "in": parts}, stages.impl_call(run_split), {"parts": parts})
        path = "/".join(parts)
        if _cli.path_split(path) == [p_ for p_ in parts]:
            got = list(_cli.process_path(path)) if False else None      # globbing itself is an input of the model
    for xs in (["A"], ["A", "f"], ["A", "l", "f"], ["A", "l", "f", "g"], []):
        def run_tuple(xs=xs):
            if len(xs) == 2:
                return [xs[0], "-", xs[1]]
            if len(xs) == 3:
                return list(xs)
            raise ValueError("`--model` argument should contain exactly 2 or 3 strings")
        batch.add({"op": "modeltuple", "in": xs}, stages.impl_call(run_tuple), {"xs": xs})
    from json_to_models.cli import Cli
    from json_to_models.registry import ModelFieldsPercentMatch as P, ModelFieldsNumberMatch as N
    from fractions import Fraction
    dn, dd = Fraction(repr(float(P.DEFAULT))).as_integer_ratio()
    for m in ["percent", "number", "exact", "percent_95", "percent_33.3", "percent_abc", "number_5", "number_x", "number_-1",
              "foo", "foo_1", "exact_1", "percent_70_1", "number_07", "percent_1e1", "percent_", "_", "percent_ 5 ", "percent_80_90",
              "number_1_0", "percent_7_0", "number_1_000", "percent__5", "number_3_"]:
        def run(m=m):
            mp = [m.split("_") if "_" in m else m]
            cli = Cli()
            # first through the real parse_args (its own splitting of the item; a pattern that matches no file)
            cli.parse_args(["-m", "A", "zz-no-such-*.json", "--merge", m])
            first = [stages.enc_cmp(c) for c in cli.merge_policy]
            cli = Cli()
            cli.validate(mp, "base", None)
            # through the real set_args, among other items of the same kinds: the list it stores has one comparator per
            # item, in the order given
            around = [["percent", "12"], mp[0], ["number", "2"], ["percent", "77"], "exact", ["number", "9"]]
            cli.set_args(around, "flat", "base", None, [], [], [], False, None)
            got = [stages.enc_cmp(c) for c in cli.merge_policy]
            rest = got[:1] + got[2:]
            if len(got) != 6 or rest != [["percent", 3, 25], ["number", 2], ["percent", 77, 100], ["exact"], ["number", 9]]:
                return {"merge-list": got}
            if first != [got[1]]:
                return {"parse-args": first, "set-args": got[1]}
            return got[1]
        ans = stages.impl_call(run)
        parts = m.split("_")
        pt, it = [], []
        for a in parts[1:]:
            try:
                n, d = Fraction(repr(float(a) / 100)).as_integer_ratio()
                pt.append([a, max(n, 0), d])
            except (ValueError, OverflowError, ZeroDivisionError):
                pt.append([a, None])
            try:
                it.append([a, max(0, int(a))])
            except ValueError:
                it.append([a, None])
        batch.add({"op": "parsemerge", "in": m, "percent": pt, "int": it, "defaultPercent": [dn, dd],
                   "defaultNumber": N.DEFAULT}, ans, {"merge": m})
    # the whole `--merge` list through the real validate + set_args against `Cli.parseMergeList`: one comparator per item,
    # in order, kinds repeated, an invalid name anywhere reported first
    rng_m = ctx.rng("mergelist")
    pool = ["percent", "number", "exact", "percent_95", "percent_33.3", "percent_50", "percent_90", "number_5", "number_2",
            "number_6", "number_07", "percent_1e1", "number_x", "percent_abc", "foo", "foo_1", "exact_1", "number_-1"]
    for k in range(ctx.n(60, 600)):
        good = rng_m.random() < 0.7
        items = [rng_m.choice(pool[:12] if good else pool) for _ in range(rng_m.randint(0, 5))]
        if k % 5 == 0:
            kind = rng_m.choice(["number", "percent"])
            items = [x for x in pool[:12] if x.startswith(kind)]
            rng_m.shuffle(items)
        def run_list(items=items):
            mp = [x.split("_") if "_" in x else x for x in items]
            cli = Cli()
            cli.validate(mp, "base", None)
            cli.set_args(mp, "flat", "base", None, [], [], [], False, None)
            return [stages.enc_cmp(c) for c in cli.merge_policy]
        ans = stages.impl_call(run_list)
        pt, it = [], []
        for x in items:
            for a in x.split("_")[1:]:
                try:
                    n_, d_ = Fraction(repr(float(a) / 100)).as_integer_ratio()
                    pt.append([a, max(n_, 0), d_])
                except (ValueError, OverflowError, ZeroDivisionError):
                    pt.append([a, None])
                try:
                    it.append([a, max(0, int(a))])
                except ValueError:
                    it.append([a, None])
        batch.add({"op": "parsemergelist", "in": items, "percent": pt, "int": it, "defaultPercent": [dn, dd],
                   "defaultNumber": N.DEFAULT}, ans, {"merge": items})


# ------------------------------------------------------------------------------------------ falsifier
def library_text(models_data, opts):
    """the library pipeline with the options the CLI is documented to map to"""
    kinds = [k for k in ("IntString", "FloatString", "BooleanString")
             if k not in opts.get("disable", ()) and conv.SER_CLASSES[k].actual_type.__name__ not in opts.get("disable", ())]
    registry = stages.make_registry(tuple(kinds), datetime=opts.get("datetime", False))
    if opts.get("datetime"):
        for name in opts.get("disable", ()):
            registry.remove_by_name(name)
    g = MetadataGenerator(registry, dict_keys_regex=[f"^{r}$" for r in opts.get("dkr", [])],
                          dict_keys_fields=opts.get("dkf", []))
    cmps = []
    for m in opts.get("merge", ["percent", "number"]):
        p = m.split("_")
        if p[0] == "percent":
            cmps.append(ModelFieldsPercentMatch(float(p[1]) / 100) if len(p) > 1 else ModelFieldsPercentMatch())
        elif p[0] == "number":
            cmps.append(ModelFieldsNumberMatch(int(p[1])) if len(p) > 1 else ModelFieldsNumberMatch())
        else:
            cmps.append(ModelFieldsEquals())
    reg = ModelRegistry(*cmps)
    for name, data in models_data.items():
        reg.process_meta_data(g.generate(*data), name)
    reg.merge_models(g)
    reg.generate_names()
    job = {"fw": opts.get("framework", "base"), "layout": opts.get("structure", "flat"),
           "maxLit": opts.get("max_literals", 10), "postInit": opts.get("converters", False),
           "convertUnicode": not opts.get("no_unidecode", False), "meta": opts.get("meta", False),
           "preamble": (opts.get("preamble") or "").strip() or None}
    return stages.render_impl(reg, job)


def matches(pattern, name):
    """does the relative file name match the pattern, component by component: `*` / `?` match any characters of one
    component (a leading dot included), `**` matches any number of directories"""
    import fnmatch

    def go(ps, ns):
        if not ps:
            return not ns
        if ps[0] == "**":
            return any(go(ps[1:], ns[k:]) for k in range(len(ns))) if len(ps) > 1 else True
        return bool(ns) and fnmatch.fnmatchcase(ns[0], ps[0]) and go(ps[1:], ns[1:])
    return go(pattern.split("/"), name.split("/"))


def split_samples(rng, samples):
    """ways of giving the same sample list to the CLI: returns (files dict, argv fragments, format)"""
    fmt = "json"
    files = {}
    argv = []
    k = rng.choice([1, 2, 3])
    cuts = sorted(rng.sample(range(len(samples) + 1), k=min(k - 1, len(samples) + 1))) if k > 1 else []
    parts = [samples[a:b] for a, b in zip([0] + cuts, cuts + [len(samples)])]
    style = rng.choice(["m-each", "m-each", "lookup", "l", "glob", "single-objects", "repeat-file", "repeat-file"])
    if style == "repeat-file" and len(samples) >= 3:
        # one file used by two non-adjacent arguments (different lookups), another file between them
        a, b, c = samples[:1], samples[1:2], samples[2:]
        files["r0.json"] = {"first": a, "second": c}
        files["r1.json"] = b
        argv += ["-m", "Root", "first", "r0.json", "-m", "Root", "r1.json", "-m", "Root", "second", "r0.json"]
        return files, argv, fmt, style
    if style == "glob":
        # names a pattern must match although a shell would hide them (leading dot), sub-directories under `**`
        names = ["part%d.json", ".part%d.json", "sub/part%d.json", "sub/.cache/part%d.json", ".hid/part%d.json"]
        deep = rng.random() < 0.5
        for i, p in enumerate(parts):
            files["g/" + (rng.choice(names) if deep else rng.choice(names[:2])) % i] = p
        argv += ["-m", "Root", "g/**/*.json" if deep else "g/*.json"]
    elif style == "single-objects" and samples:
        for i, s in enumerate(samples):
            files["o%d.json" % i] = s
            argv += ["-m", "Root", "o%d.json" % i]
    else:
        for i, p in enumerate(parts):
            name = "p%d.json" % i
            if style == "lookup":
                files[name] = {"wrap": {"items": p}, "x": 1}
                argv += ["-m", "Root", "wrap.items", name]
            elif style == "l":
                files[name] = {"items": p}
                argv += ["-l", "Root", "items", name]
            else:
                files[name] = p
                argv += rng.choice([["-m", "Root", name], ["-m", "Root", "-", name]])
    return files, argv, fmt, style


def gen_opts(rng):
    o = {}
    argv = []
    if rng.random() < .7:
        o["framework"] = rng.choice(common.FRAMEWORKS)
        argv += ["-f", o["framework"]]
    if rng.random() < .5:
        o["structure"] = rng.choice(["flat", "nested"])
        argv += ["-s", o["structure"]]
    if rng.random() < .4:
        o["merge"] = rng.choice([["exact"], ["percent_50"], ["number_3"], ["percent", "number_4"], ["percent_95.5"]])
        argv += ["--merge"] + o["merge"]
    if rng.random() < .4:
        o["max_literals"] = rng.choice([0, 2, 16])
        argv += ["--max-strings-literals", str(o["max_literals"])]
    if rng.random() < .3:
        o["dkf"] = rng.sample(gen.WORDS, k=2)
        argv += ["--dict-keys-fields"] + o["dkf"]
    if rng.random() < .3:
        o["dkr"] = [r"\d+", r"k\d"][:rng.randint(1, 2)]
        argv += ["--dkr"] + o["dkr"]
    if rng.random() < .3:
        o["converters"] = True
        argv += ["--strings-converters"]
    if rng.random() < .3:
        o["no_unidecode"] = True
        argv += ["--disable-unicode-conversion"]
    if rng.random() < .2:
        o["datetime"] = True
        argv += ["--datetime"]
    if rng.random() < .3:
        o["disable"] = rng.choice([["float"], ["IntString"], ["bool", "int"], ["date"], ["IsoTimeString"], ["datetime", "int"],
                                   ["IsoDateString", "float"], ["time", "date", "datetime"]])
        if o["disable"][0] in ("date", "IsoTimeString", "datetime", "IsoDateString", "time") and rng.random() < .8:
            o["datetime"] = True
            if "--datetime" not in argv:
                argv += ["--datetime"]
        argv += ["--disable-str-serializable-types"] + o["disable"]
    if rng.random() < .2:
        o["preamble"] = "# hello"
        argv += ["--preamble", o["preamble"]]
    if rng.random() < .2 and o.get("framework") in ("attrs", "dataclasses"):
        o["meta"] = True
        argv += ["--code-generator-kwargs", "meta=true"]
    return o, argv


BOUNDARY_NS = [35, 41, 47, 50, 57, 60, 69, 70, 75, 80, 82, 83, 90, 94, 95]


def boundary_case(rng, n=None):
    """two nested objects whose shared-key ratio is exactly N/100, with `--merge percent_N`: the documented mapping is
    ModelFieldsPercentMatch(float(N) / 100)"""
    from math import gcd
    n = n or rng.choice(BOUNDARY_NS)
    g = gcd(n, 100)
    union, inter = 100 // g, n // g
    if union > 25:
        union, inter = 20, round(n / 5)            # nearest twentieth: still a near-boundary case
    a = {"k%d" % i: i for i in range(union)}
    b = {"k%d" % i: i for i in range(inter)}
    sample = {"first": a, "second": b}
    return [sample], {"merge": ["percent_%d" % n]}, ["--merge", "percent_%d" % n]


def dkr_case(rng, full=0):
    """objects whose keys are covered by one expression, by several only jointly, or by none, with two or three
    --dict-keys-regex expressions: the documented mapping is one anchored pattern per expression"""
    pats = rng.sample([r"\d+", r"k\d", r"[a-z]+", r"x|y"], k=rng.choice([2, 2, 3]))
    sample = {"digits": {"1": 1, "22": 2}, "ks": {"k1": 1, "k3": 2}, "words": {"ab": 1, "cd": 2},
              "mixed1": {"7": 1, "k2": 2}, "mixed2": {"7": 1, "seven": 2}, "mixed3": {"k1": 1, "x": 2, "abc": 3},
              "none": {"A-1": 1, "B-2": 2}}
    keys = list(sample)
    rng.shuffle(keys)
    if full:
        # the whole table under two fixed expression lists: every jointly-covered object is there
        pats = [[r"\d+", r"[a-z]+"], [r"k\d", r"x|y", r"[a-z]+"]][full - 1]
        return [sample], {"dkr": pats}, ["--dkr"] + pats
    return [{k: sample[k] for k in keys[:rng.randint(3, 7)]}], {"dkr": pats}, ["--dkr"] + pats


REPEATED_KINDS = [["number_2", "number_6"], ["percent_30", "percent_90"], ["number_3", "exact", "number_9"],
                  ["percent_90", "percent_30"], ["number_6", "number_2"]]


def repeated_kind_case(rng, which=None):
    """`--merge` listing one kind twice with different arguments, the stricter last: every listed comparator counts"""
    a = {"k%d" % i: i for i in range(6)}
    b = {"k%d" % i: i for i in range(3)}
    b.update({"z0": 1, "z1": 2, "z2": 3})                      # 3 shared of 9: ratio 1/3, 3 common keys
    merge = REPEATED_KINDS[which] if which is not None else rng.choice(REPEATED_KINDS)
    return [{"first": a, "second": b}], {"merge": merge}, ["--merge"] + merge


def format_case(rng, which):
    """the other input formats, with what makes them more than json: an ini file with a [DEFAULT] section, `%(name)s`
    references, `%%`, options overridden in a section, whole-file and per-section lookups; a yaml document with anchors,
    aliases, a merge key and the scalar kinds. The expected samples are what the stdlib `configparser` (default settings) /
    the yaml loader say the document holds, read by the harness itself."""
    if which % 2 == 0:
        import configparser
        base = rng.choice(["8000", "9", "120"])
        text = ("[DEFAULT]\nbase_port = %s\nhost = example.org\nurl = http://%%(host)s:%%(base_port)s/\nratio = 50%%%%\n"
                "[server]\nport = %%(base_port)s\nname = main\nalias = srv.%%(host)s\n"
                "[client]\nport = 1%%(base_port)s\nretries = 3\ngreeting = hello %%(name)s\nname = c1\n") % base
        cp = configparser.ConfigParser()
        cp.read_string(text)
        doc = {sec: dict(cp.items(sec)) for sec in cp.sections()}
        if which % 4 == 0:
            return [doc], {"conf.ini": text}, ["-m", "Root", "conf.ini", "-i", "ini"], "format-ini"
        return [doc["server"], doc["client"]], {"conf.ini": text}, \
            ["-m", "Root", "server", "conf.ini", "-m", "Root", "client", "conf.ini", "-i", "ini"], "format-ini-lookup"
    from ruamel import yaml as _yaml
    text = ("defaults: &d\n  retries: 3\n  timeout: 1.5\n  tags: [a, b]\n"
            "items:\n  - <<: *d\n    name: first\n    on: yes\n    when: 2020-01-02\n"
            "  - {name: second, retries: '7', timeout: null, tags: [], extra: *d}\n")
    doc = _yaml.YAML(typ="safe", pure=True).load(text)
    if which % 4 == 1:
        return doc["items"], {"doc.yaml": text}, ["-m", "Root", "items", "doc.yaml", "-i", "yaml"], "format-yaml-lookup"
    return doc["items"], {"doc.yml": text}, ["-l", "Root", "items", "doc.yml", "-i", "yaml"], "format-yaml-l"


def empty_object_case(rng):
    """an empty object as a whole document / as what a lookup selects is a sample like any other (the fields of the other
    samples become optional)"""
    full = {"id": 1, "name": "x", "tags": [1]}
    kind = rng.choice(["second", "first", "lookup", "only-empties"])
    if kind == "second":
        return [full, {}], {"e0.json": full, "e1.json": {}}, ["-m", "Root", "e0.json", "-m", "Root", "e1.json"]
    if kind == "first":
        return [{}, full], {"e0.json": {}, "e1.json": full}, ["-m", "Root", "e0.json", "-m", "Root", "e1.json"]
    if kind == "lookup":
        return [full, {}], {"e0.json": {"result": {"item": full}}, "e1.json": {"result": {"item": {}}}}, \
            ["-m", "Root", "result.item", "e0.json", "-l", "Root", "result.item", "e1.json"]
    return [{}, {}], {"e0.json": {}, "e1.json": [{}]}, ["-m", "Root", "e0.json", "-m", "Root", "e1.json"]


def falsify(ctx):
    rng = ctx.rng("fals")
    n = ctx.n(90, 1800)
    with tempfile.TemporaryDirectory(prefix="j2m-c16-") as root:
        jobs, metas = [], []
        for i in range(len(BOUNDARY_NS) + ctx.n(12, 120)):
            d = os.path.join(root, "b%d" % i)
            os.makedirs(d)
            if i < 2:
                d3 = os.path.join(root, "k%d" % i)
                os.makedirs(d3)
                samples, opts, oargv = dkr_case(rng, full=i + 1)
                clitools.write_files(d3, {"b.json": samples})
                full = ["-m", "Root", "b.json"] + oargv
                jobs.append((full, d3, ctx.repo))
                metas.append((samples, {"b.json": samples}, full, opts, False, "boundary", d3))
            if i < len(REPEATED_KINDS):
                # every repeated-kind merge list, each run (next to the boundary case of the same index)
                d2 = os.path.join(root, "r%d" % i)
                os.makedirs(d2)
                samples, opts, oargv = repeated_kind_case(rng, i)
                clitools.write_files(d2, {"b.json": samples})
                full = ["-m", "Root", "b.json"] + oargv
                jobs.append((full, d2, ctx.repo))
                metas.append((samples, {"b.json": samples}, full, opts, False, "boundary", d2))
            if i < len(BOUNDARY_NS):
                # every threshold whose N/100 an inexact conversion would miss, each run
                samples, opts, oargv = boundary_case(rng, BOUNDARY_NS[i])
                clitools.write_files(d, {"b.json": samples})
                full = ["-m", "Root", "b.json"] + oargv
                jobs.append((full, d, ctx.repo))
                metas.append((samples, {"b.json": samples}, full, opts, False, "boundary", d))
                continue
            if i % 3 == 2:
                samples, files_e, argv_e = empty_object_case(rng)
                clitools.write_files(d, files_e)
                jobs.append((argv_e, d, ctx.repo))
                metas.append((samples, files_e, argv_e, {}, False, "empty-object", d))
                continue
            samples, opts, oargv = boundary_case(rng) if i % 3 == 0 else (dkr_case(rng) if i % 2 else repeated_kind_case(rng))
            clitools.write_files(d, {"b.json": samples})
            full = ["-m", "Root", "b.json"] + oargv
            jobs.append((full, d, ctx.repo))
            metas.append((samples, {"b.json": samples}, full, opts, False, "boundary", d))
        for i in range(n):
            d = os.path.join(root, "c%d" % i)
            os.makedirs(d)
            samples = gen.gen_sample_family(rng, 4, 2) if rng.random() < .7 else gen.gen_samples(rng, 4, 2)
            files, argv, fmt, style = split_samples(rng, samples)
            if rng.random() < 0.12:
                # a model name whose files contribute no sample at all (empty result pages): it is still a model
                files["empty1.json"] = []
                files["empty2.json"] = {"items": []}
                argv += rng.choice([["-m", "Empty", "empty1.json"], ["-m", "Empty", "items", "empty2.json"],
                                    ["-m", "Empty", "empty1.json", "-l", "Empty", "items", "empty2.json"]])
                style = style + "+empty-model"
            opts, oargv = gen_opts(rng)
            use_o = rng.random() < .3
            clitools.write_files(d, files)
            full = argv + oargv + (["-o", "out.py"] if use_o else [])
            jobs.append((full, d, ctx.repo))
            metas.append((samples, files, full, opts, use_o, style, d))
        for i in range(ctx.n(8, 40)):
            d = os.path.join(root, "f%d" % i)
            os.makedirs(d)
            samples, files_f, argv_f, style_f = format_case(rng, i)
            opts, oargv = gen_opts(rng) if i >= 4 else ({}, [])
            clitools.write_files(d, files_f)
            jobs.append((argv_f + oargv, d, ctx.repo))
            metas.append((samples, files_f, argv_f + oargv, opts, False, style_f, d))
        results = clitools.run_many(jobs)
        for (samples, files, argv, opts, use_o, style, d), (rc, out, err) in zip(metas, results):
            ctx.case((repr(files), tuple(argv)), nontrivial=len(files) > 1)
            ctx.count("style:" + style)
            ctx.sample({"files": files, "argv": argv}, limit=2)
            if style.split("+")[0] == "glob":
                # files matched by one pattern come in the file system's order (unspecified by the property): read the
                # order this directory yields and give the library the samples in that order
                from pathlib import Path
                pattern = argv[argv.index("Root") + 1]
                matching = sorted(n for n in files if matches(pattern, n))       # "every matching file", by our own rule
                seen = [str(p_.relative_to(d)) for p_ in Path(d, "g").glob(pattern[2:])]
                order = [n for n in seen if n in matching] + [n for n in matching if n not in seen]
                samples = [x for name_ in order for x in files[name_]]
            try:
                models_data = {"Root": samples}
                if style.endswith("+empty-model"):
                    # model names come in the order of their first -m argument, then of their first -l argument
                    names = [argv[i + 1] for flag in ("-m", "-l") for i, a in enumerate(argv) if a == flag]
                    first = list(dict.fromkeys(names))
                    models_data = {n: (samples if n == "Root" else []) for n in first}
                want = library_text(models_data, opts)
                lib_err = None
            except stages.TooCostly:
                ctx.count("skip:too-costly")
                continue
            except Exception as e:  # noqa
                want, lib_err = None, f"{type(e).__name__}: {e}"
            if lib_err is not None:
                if rc == 0:
                    yield {"kind": "cli-succeeds-where-library-raises", "files": files, "argv": argv, "observed": lib_err}
                continue
            if rc != 0:
                yield {"kind": "cli-fails-where-library-succeeds", "files": files, "argv": argv, "observed": err[-400:]}
                continue
            if use_o:
                text = open(os.path.join(d, "out.py"), encoding="utf-8").read()
                if "class " in out:
                    yield {"kind": "code-on-stdout-with-o", "files": files, "argv": argv, "observed": out[:300]}
                    continue
            else:
                text = out[:-1] if out.endswith("\n") else out
            body = clitools.strip_header(text)
            if body is None or body != want:
                yield {"kind": "cli-differs-from-library", "files": files, "argv": argv,
                       "observed": {"cli": (body or text)[:1500], "library": want[:1500]}}


def replay(ctx, hit):
    with tempfile.TemporaryDirectory(prefix="j2m-c16-") as d:
        clitools.write_files(d, hit["files"])
        rc, out, err = clitools.run_cli(hit["argv"], d, ctx.repo)
        return {"kind": hit["kind"], "observed": {"exit": rc, "stdout": out[:1500], "stderr": err}} if True else None
