"""C08 — type simplification reaches a stable normal form."""
import copy
import itertools

from .. import conv, gen, nfcheck, stages
from . import common

RULE = ("correspondence: optimize (x1, x2, x3) and DUnion construction on multisets of <=3 types from the ~40-type universe "
        "(thorough: all; quick: a seeded third) and on random deeper IR, generate and the registry pipeline on G-json inputs; "
        "falsifier: for every type of the final registry of a generated input, re-run optimize_type on a copy and scan "
        "the emitted annotations; a case is non-trivial when the type contains a union or Optional; distinct by content")
EXPLANATION = ("theorems J2M.C08.* establish the normal form and idempotence for the Lean model of optimize/DUnion; "
               "the stage-wise diff ties that model to the code under test")
ASSUMPTIONS = ["types explored are the ones arising from JSON samples (Raw) and from registry merges"]


def multisets(universe, rng, tier):
    k = 0
    for n in (1, 2, 3):
        for ms in itertools.combinations_with_replacement(range(len(universe)), n):
            k += 1
            if tier == "thorough" or n < 3 or rng.random() < 0.12:
                yield [universe[i] for i in ms]


def correspondence(ctx, batch):
    rng = ctx.rng("corr")
    reg = stages.make_registry()
    U = gen.ir_universe()
    for ms in multisets(U, rng, ctx.tier):
        if rng.random() < 0.5:
            rng.shuffle(ms)
        stages.stage_mkunion(batch, ms, reg)
        stages.stage_optimize(batch, ["union", ms], reg, times=rng.choice([1, 2, 3]))
        ctx.count("ir_multisets")
    for _ in range(ctx.n(300, 4000)):
        stages.stage_optimize(batch, gen.gen_ir(rng, 3), reg, times=rng.choice([1, 2]))
    for _ in range(ctx.n(150, 2500)):
        samples = gen.gen_sample_family(rng) if rng.random() < .6 else gen.gen_samples(rng)
        stages.stage_generate(batch, samples, common.registry_choice(rng))
    for _ in range(ctx.n(60, 800)):
        stages.stage_pipeline(batch, common.gen_inputs(rng, styled_p=0.1), reg, common.cmps_choice(rng),
                              parts=("process", "merge", "replaces"))
    for _ in range(ctx.n(40, 600)):
        samples, dict_fields = gen.gen_dict_union(rng)
        stages.stage_generate(batch, samples, reg, dict_fields=dict_fields)


def contains_union(t):
    return "union" in repr(t) or "opt" in repr(t)


def check_input(inputs, cmps, registry, dict_fields=()):
    """returns a hit dict or None"""
    from json_to_models.generator import MetadataGenerator
    g0 = MetadataGenerator(registry, dict_keys_fields=list(dict_fields))
    for name, samples in inputs:
        # what generate() returns is already simplified: normal form, and a further pass is the identity
        meta = g0.generate(*copy.deepcopy(samples))
        enc = conv.enc_ty(meta)
        bad = nfcheck.nf_violations(enc)
        if bad:
            return {"kind": "generate-not-normal-form", "input": inputs, "type": enc, "observed": bad[:5]}
        again = conv.enc_ty(g0.optimize_type(copy.deepcopy(meta)))
        if again != enc:
            return {"kind": "generate-not-idempotent", "input": inputs, "type": enc, "observed": again}
    reg, g = stages.build_registry(inputs, registry, cmps, dict_fields)
    for m in reg.models:
        before = conv.enc_ty(m.type)
        bad = nfcheck.nf_violations(before)
        if bad:
            return {"kind": "not-normal-form", "input": inputs, "model": m.index, "type": before, "observed": bad[:5]}
        try:
            again = conv.enc_ty(g.optimize_type(copy.deepcopy(m.type)))
        except stages.TooCostly:
            raise
        except Exception as e:  # noqa
            return {"kind": "reoptimize-raises", "input": inputs, "model": m.index, "type": before,
                    "observed": f"{type(e).__name__}: {e}"}
        if again != before:
            return {"kind": "not-idempotent", "input": inputs, "model": m.index, "type": before, "observed": again}
    text = stages.render_impl(reg, {"fw": "base", "layout": "flat", "maxLit": 10})
    bad = nfcheck.annotation_violations(text)
    if bad:
        return {"kind": "annotation-not-normal", "input": inputs, "observed": bad[:5], "text": text[:3000]}
    return None


def registry_history_cases(rng):
    """a string-type registry that is USED (a generation that simplifies unions), then CHANGED (date/time types registered,
    a type removed or added), then used again: simplification must see the registry as it is now"""
    from json_to_models.dynamic_typing import register_datetime_classes
    from json_to_models.generator import MetadataGenerator
    warm = [{"a": 1, "b": "1"}, {"a": 1.5, "b": "x"}, {"a": None, "b": "true"}]
    for change in ("datetime", "remove-int", "add-bool", "remove-float-add-datetime"):
        kinds = ("IntString", "FloatString") if change == "add-bool" else ("IntString", "FloatString", "BooleanString")
        reg = stages.make_registry(kinds)
        MetadataGenerator(reg).generate(*warm)                       # first use
        if "datetime" in change:
            register_datetime_classes(reg)
        if change == "remove-int":
            reg.remove_by_name("IntString")
        if change == "remove-float-add-datetime":
            reg.remove_by_name("FloatString")
        if change == "add-bool":
            from json_to_models.dynamic_typing import BooleanString
            reg.add(cls=BooleanString)
        samples = [{"when": "2020-01-02", "n": "1", "f": "1.5", "flag": "true", "mix": "2020-01-02T03:04:05"},
                   {"when": "free text, long enough to be plain str", "n": "not a number, and a long one", "f": "y" * 25,
                    "flag": "maybe " * 5, "mix": "12:30"},
                   {"when": rng.choice(["2021-03-04", None]), "n": "2", "f": "2", "flag": "false", "mix": "z"}]
        yield change, reg, [("Root", samples)]


def falsify(ctx):
    rng = ctx.rng("fals")
    registry = stages.make_registry()
    for change, reg, inputs in registry_history_cases(rng):
        try:
            hit = check_input(inputs, [], reg)
        except Exception as e:  # noqa
            hit = {"kind": "pipeline-raises", "input": inputs, "observed": f"{type(e).__name__}: {e}"}
        ctx.case(("registry-history", change), nontrivial=True)
        if hit:
            hit["registry_history"] = change
            yield hit
    focus = common.focus_cases(ctx)
    n = ctx.n(250, 6000)
    for i in range(len(focus) + n):
        inputs = focus[i][0] if i < len(focus) else common.gen_inputs(rng, styled_p=0.1)
        cmps = (focus[i][1] if i < len(focus) else None) or common.cmps_choice(rng)
        dict_fields = ()
        if i >= len(focus) and i % 10 == 0:
            samples, dict_fields = gen.gen_dict_union(rng)          # dict-keys options: a mapping next to another kind
            inputs = [("Root", samples)]
        elif i >= len(focus) and i % 10 == 5:
            inputs, cmps = [("Root", [gen.gen_one_pass_residue(rng)])], []     # merged under the default policy
        try:
            hit = check_input(inputs, cmps, registry, dict_fields)
        except (ZeroDivisionError, stages.TooCostly):
            ctx.count("zero-division (two models with empty key sets): outside the property")
            continue
        except Exception as e:  # noqa
            hit = {"kind": "pipeline-raises", "input": inputs, "observed": f"{type(e).__name__}: {e}"}
        enc = repr(inputs)
        ctx.case(enc, nontrivial=("[" in enc and "{" in enc))
        ctx.sample({"inputs": inputs}, limit=2)
        if hit:
            hit["cmps"] = [stages.enc_cmp(c) for c in cmps]
            hit["dict_fields"] = list(dict_fields)
            yield hit


def replay(ctx, hit):
    if hit.get("registry_history"):
        for change, reg, inputs in registry_history_cases(ctx.rng("replay")):
            if change == hit["registry_history"]:
                try:
                    return check_input(inputs, [], reg)
                except Exception as e:  # noqa
                    return {"kind": "pipeline-raises", "observed": f"{type(e).__name__}: {e}"}
    from json_to_models.registry import ModelFieldsEquals, ModelFieldsNumberMatch, ModelFieldsPercentMatch
    cmps = []
    for c in hit.get("cmps", [["percent", 7, 10], ["number", 10]]):
        if c[0] == "exact":
            cmps.append(ModelFieldsEquals())
        elif c[0] == "percent":
            cmps.append(ModelFieldsPercentMatch(c[1] / c[2]))
        elif c[0] == "number":
            cmps.append(ModelFieldsNumberMatch(c[1]))
    inputs = [tuple(x) for x in hit["input"]]
    try:
        return check_input(inputs, cmps, stages.make_registry(), hit.get("dict_fields", ()))
    except stages.TooCostly:
        raise
    except Exception as e:  # noqa
        return {"kind": "pipeline-raises", "input": inputs, "observed": f"{type(e).__name__}: {e}"}
