"""C15 — generation works from any thread and concurrent runs do not interfere."""
from concurrent.futures import ThreadPoolExecutor

from .. import stages, worker
from . import common
from . import C06 as _c06

SITE_KINDS = {"module-level-mutable", "class-level-mutable", "threading", "global-statement", "process-wide-setter"}
RULE = ("batches of 2-8 independent library pipelines (own samples, registry, generators) started together behind a barrier "
        "in one fresh process under sys.setswitchinterval(1e-6) — once free-running and once with the rendering phases aligned by a second barrier —, each compared with its output when run alone in a fresh "
        "process; plus single calls from a fresh worker thread; correspondence: the render stage for the same cases (the "
        "model's single answer); non-trivial = a batch with >= 2 distinct cases; distinct by content")
EXPLANATION = ("J2M.C15.worker_thread_ok / noninterference / exec_other_threads: the reference context is per thread with a "
               "class-level default and a pipeline run touches only its own slot and its private objects; the real "
               "interleavings are exercised, not proved (partial: CPython scheduling, third-party caches)")
ASSUMPTIONS = ["no shared mutable state other than the thread-local context (checked by the concurrent runs themselves)"]


def correspondence(ctx, batch):
    rng = ctx.rng("corr")
    registry = stages.make_registry()
    # the reference context itself: nested injections, exceptions, several threads (J2M.Runtime.exec)
    for _ in range(ctx.n(120, 1500)):
        schedule = [[rng.choice([0, 0, 1, 2]), stages.gen_ctx_body(rng, rng.randint(1, 4))] for _ in range(rng.randint(1, 5))]
        stages.stage_ctxexec(batch, schedule)
        stages.stage_ctxops(batch, stages.gen_ctx_ops(rng))
    for _ in range(ctx.n(60, 800)):
        c = _c06.gen_case(rng)
        stages.stage_render(batch, [tuple(x) for x in c["inputs"]], registry, worker.cmps_from(c["cmps"]), [c["job"]])


def context_sensitive_case(rng):
    from .. import gen
    sample = gen.gen_shared_shape(rng) if rng.random() < 0.7 else gen.gen_recursive_tree(rng)
    job = common.gen_job(rng, layout="nested")
    job["preamble"] = None
    return {"inputs": [["Root", [sample]]], "cmps": [["percent", 7, 10], ["number", 10]], "job": job}


def option_sensitive_pair(rng):
    k = rng.randint(3, 9)
    samples = [{"tag": "w%d" % i, "n": i, "sub": {"kind": "k%d" % (i % 3), "v": 1.5}} for i in range(k)]
    fw = rng.choice(["base", "pydantic", "dataclasses"])
    out = []
    for lim in (2, 16):
        job = common.gen_job(rng, fw=fw, layout="flat")
        job.update({"maxLit": lim, "preamble": None, "postInit": False})
        out.append({"inputs": [["Root", samples]], "cmps": [["percent", 7, 10], ["number", 10]], "job": job})
    return out


def registry_case(rng):
    samples = [{"when": rng.choice(["2020-01-02", "2021-03-04T10:20:30", "12:30"]), "what": "free text", "n": "12"},
               {"when": rng.choice(["2020-05-06", "x"]), "what": "other", "n": "7"}]
    job = common.gen_job(rng, layout="flat")
    job["preamble"] = None
    return {"inputs": [["Root", samples]], "cmps": [["percent", 7, 10], ["number", 10]], "job": job,
            "kinds": rng.choice([["IntString", "FloatString", "BooleanString"], ["IntString"], []]), "datetime": True}


def default_registry_case(rng):
    """a generation with every default left alone — no registry argument, so the process-wide default registry of string
    types is the one every such thread reads — over data full of integer / float / boolean strings"""
    seed = rng.randint(0, 99)
    samples = [{"id": str(seed * 1000 + i), "ratio": "%d.5" % i, "flag": "true" if i % 2 else "false",
                "mixed": str(i) if i % 3 else "%d.25" % i,
                "items": [{"count": str(j), "weight": "%d.%d" % (j, seed), "name": "n%d" % (j % 3)} for j in range(1, 6)]}
               for i in range(1, rng.choice([12, 25]))]
    job = common.gen_job(rng, layout="flat", fw=rng.choice(["dataclasses", "attrs", "pydantic", "base"]))
    job["preamble"] = None
    return {"inputs": [["Root", samples]], "cmps": [["percent", 7, 10], ["number", 10]], "job": job, "defaultRegistry": True}


def deep_case(rng):
    """objects nested several hundred levels deep: alone such a generation either works or exhausts the stack, and it
    must do the same next to other generations (an interpreter-wide limit changed by one thread is seen by all)"""
    depth = rng.choice([520, 600])
    doc = {"leaf": 1}
    for _ in range(depth):
        doc = {"a": doc}
    job = common.gen_job(rng, layout="flat", fw="base")
    job["preamble"] = None
    return {"inputs": [["Root", [doc]]], "cmps": [["exact"]], "job": job}


def falsify(ctx):
    rng = ctx.rng("fals")
    batches = []
    for _ in range(ctx.n(48, 600)):
        b = [_c06.gen_case(rng) for _ in range(rng.randint(2, 8))]
        # every batch holds at least one generation whose text depends on the reference context while it is rendered:
        # nested layout with a model shared by sibling classes (absolute references through path injections)
        b.insert(rng.randrange(len(b) + 1), context_sensitive_case(rng))
        # ... and two generations of the same data that differ only in a per-call option (the literal limit)
        for c in option_sensitive_pair(rng):
            b.insert(rng.randrange(len(b) + 1), c)
        if len(batches) % 3 == 0:
            b.insert(rng.randrange(len(b) + 1), deep_case(rng))       # a document at the edge of the interpreter's stack
        # a generation with the date/time string types registered: their parsers keep state of their own
        b.insert(rng.randrange(2), registry_case(rng))
        # ... and several generations that leave the registry argument out: they share the default registry
        for _k in range(rng.choice([2, 3, 4])):
            b.insert(rng.randrange(len(b) + 1), default_registry_case(rng))
        batches.append(b)
    flat = [c for b in batches for c in b]
    chunks = [batches[i::8] for i in range(8)]
    with ThreadPoolExecutor(max_workers=9) as ex:
        solo_f = ex.submit(worker.run_in_fresh_process, flat, None, ctx.repo)
        conc = list(ex.map(lambda ch: worker.run_in_fresh_process(ch, None, ctx.repo, 900, "threads") if ch else [], chunks))
        solo = solo_f.result()
    solo_by = {}
    k = 0
    for b in batches:
        for c in b:
            solo_by[id(c)] = solo[k]
            k += 1
    for ch, res in zip(chunks, conc):
        for b, r in zip(ch, res):
            ctx.case(repr(b), nontrivial=len(b) >= 2)
            for c, got in zip(b, r["concurrent"]):
                if got != solo_by[id(c)]:
                    yield {"kind": "concurrent-differs-from-solo", "batch": b, "case": c,
                           "observed": {"concurrent": got, "solo": solo_by[id(c)]}}
                    break
            for c, got in zip(b, r.get("phased") or []):
                if got != solo_by[id(c)]:
                    yield {"kind": "concurrent-differs-from-solo", "batch": b, "case": c, "schedule": "render phases aligned",
                           "observed": {"concurrent": got, "solo": solo_by[id(c)]}}
                    break
            for c, got in zip(b[:2], r["worker"]):
                if got != solo_by[id(c)]:
                    yield {"kind": "worker-thread-differs", "batch": [c], "case": c,
                           "observed": {"worker_thread": got, "solo": solo_by[id(c)]}}
                    break
    ctx.sample({"batch_sizes": [len(b) for b in batches[:10]], "first_case": batches[0][0]}, limit=1)


def replay(ctx, hit):
    b = hit["batch"]
    solo = worker.run_in_fresh_process(b, None, ctx.repo)
    for _ in range(5):
        r = worker.run_in_fresh_process([b], None, ctx.repo, 900, "threads")[0]
        for c, got, s in list(zip(b, r["concurrent"], solo)) + list(zip(b, r.get("phased") or [], solo)):
            if got != s:
                return {"kind": "concurrent-differs-from-solo", "observed": {"concurrent": got, "solo": s}}
        for c, got, s in zip(b[:2], r["worker"], solo):
            if got != s:
                return {"kind": "worker-thread-differs", "observed": {"worker_thread": got, "solo": s}}
    return None
