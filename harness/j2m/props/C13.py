"""C13 — dict-field options turn objects into mappings, and only those."""
import re

from json_to_models.dynamic_typing import DDict, DList, DOptional, DUnion, ModelPtr
from json_to_models.generator import MetadataGenerator

from .. import conv, gen, real, stages
from . import common

RULE = ("G-json inputs x choices of dict-keys-fields lists and dict-keys-regex lists (anchored as the CLI does, and "
        "unanchored library patterns), including partially matching key sets, empty objects, nested combinations, keys "
        "ending in newline; correspondence: detect/generate/pipeline stages with the (pattern, key) match table recorded "
        "from `re`; falsifier: recompute the iff with `re` per object position and compare with the inferred metadata and "
        "with the number of generated models; non-trivial = an option applies to at least one object; distinct by content")
EXPLANATION = "J2M.C13.dict_iff / field_dict_iff / nested_dict_iff / toplevel_always_model / dict_value_sound"
ASSUMPTIONS = ["regular-expression matching is an oracle recorded from `re` for every (pattern, key) pair"]

PATTERNS = [r"^\d+$", r"^k\d$", r"^[a-z]$", r"^(id|name)$", r"\d", r"^.*$", r"^x", r"^k\d$|^meta$"]


def directed_case(rng):
    """(a) the same key set as the value of a dict-keys field first and at ordinary positions later, with a regex
    configured that matches none of it; (b) a key set covered only jointly by two patterns"""
    if rng.random() < 0.5:
        f = rng.choice(gen.WORDS)
        a, b = rng.sample(["u", "v", "w", "left", "right"], k=2)
        first = {f: {a: 1, b: 2}, "later": {a: 3, b: 4}, "deep": {"inner": {a: 5, b: 6}, "n": 1}}
        if rng.random() < 0.3:
            first = {"early": {a: 0, b: 0}, **first}
        samples = [first] + ([{f: {a: 7, b: 8}, "later": {a: 9, b: 1}}] if rng.random() < 0.5 else [])
        return samples, [f], rng.sample([r"^\d+$", r"^k\d$", r"^x"], k=rng.choice([1, 2]))
    obj = {"k1": 1, "id": 2} if rng.random() < 0.5 else {"k1": 1, "k2": 2, "name": "n"}
    sample = {"data": dict(obj), "plain": {"k1": 1, "k2": 2}, "meta": {"id": 1, "name": "x"}, "mixed": [dict(obj)]}
    return [sample], rng.sample(gen.WORDS, k=rng.choice([0, 1])), [r"^k\d$", r"^(id|name)$"]


def enc_regex(regex):
    return [r if isinstance(r, str) else {"pattern": r.pattern, "flags": r.flags} for r in regex]


def dec_regex(regex):
    return [r if isinstance(r, str) else re.compile(r["pattern"], r["flags"]) for r in regex]


def compiled_case(rng):
    """the library API takes patterns "compiled or not": compiled ones carry flags that decide the matches"""
    kind = rng.choice(["ignorecase", "verbose", "ascii", "same-source"])
    if kind == "ignorecase":
        pats = [re.compile(r"^[a-z]+$", re.IGNORECASE)]
        sample = {"upper": {"AB": 1, "CD": 2}, "lower": {"ab": 1}, "digits": {"12": 1, "x": 2}}
    elif kind == "verbose":
        pats = [re.compile(r"^ \d+ $  # digits only", re.VERBOSE)]
        sample = {"nums": {"1": 1, "22": 2}, "spaced": {" 1 ": 1}, "words": {"ab": 1}}
    elif kind == "ascii":
        pats = [re.compile(r"^\w+$", re.ASCII)]
        sample = {"plain": {"ab": 1, "cd": 2}, "accented": {"né": 1, "straße": 2}}
    else:
        pats = [re.compile(r"^[a-z]+$"), re.compile(r"^[a-z]+$", re.IGNORECASE)]
        sample = {"upper": {"AB": 1, "CD": 2}, "lower": {"ab": 1}, "mixed": {"aB": 1, "cd": 2}}
    return [sample], rng.sample(gen.WORDS, k=rng.choice([0, 1])), pats


def gen_case(rng):
    r0 = rng.random()
    if r0 < 0.08:
        return compiled_case(rng)
    if r0 < 0.2:
        return directed_case(rng)
    samples = gen.gen_sample_family(rng) if rng.random() < .5 else gen.gen_samples(rng)
    if rng.random() < 0.5:
        # objects keyed by digits / ids somewhere
        samples[0][rng.choice(["data", "meta", "items"])] = {str(i): rng.choice([1, "x", None]) for i in range(rng.randint(0, 3))}
    if rng.random() < 0.2:
        samples[0]["nl"] = {"1\n": 1, "2": 2}
    fields = rng.sample(gen.WORDS, k=rng.choice([0, 0, 1, 2, 3]))
    regex = rng.sample(PATTERNS, k=rng.choice([0, 0, 1, 2]))
    return samples, fields, regex


def correspondence(ctx, batch):
    rng = ctx.rng("corr")
    registry = stages.make_registry()
    for k in range(len(CLI_EXPRS) + ctx.n(20, 300)):
        exprs = [CLI_EXPRS[k]] if k < len(CLI_EXPRS) else rng.sample(CLI_EXPRS, k=rng.randint(0, 3))
        stages.stage_setargs(batch, [], exprs, rng.sample(gen.WORDS, k=rng.choice([0, 1, 2])), False, None)
    for _ in range(ctx.n(250, 4000)):
        samples, fields, regex = gen_case(rng)
        stages.stage_generate(batch, samples, registry, dict_fields=fields, dict_regex=regex)
        if rng.random() < 0.3:
            stages.stage_pipeline(batch, [("Root", samples)], registry, common.cmps_choice(rng), dict_fields=fields,
                                  dict_regex=regex, parts=("process",))
        v = samples[0]
        stages.stage_detect(batch, v, registry, convert_dict=rng.random() < .5, dict_fields=fields, dict_regex=regex)


def expected_dictlike(obj, key_is_field, patterns):
    if not obj:
        return True
    if key_is_field:
        return True
    return any(all(p.match(k) for k in obj) for p in patterns)


def walk(value, meta, direct_key, fields, patterns, out, path):
    """compare every object position of the first-pass metadata with the rule"""
    if isinstance(value, dict):
        want = expected_dictlike(value, direct_key is not None and direct_key in fields, patterns)
        is_dict = isinstance(meta, DDict)
        is_model = isinstance(meta, dict)
        if want != is_dict or (not want) != is_model:
            out.append(f"{path}: object {sorted(value)[:5]} should be {'Dict' if want else 'model'}, is {type(meta).__name__}")
            return
        if is_model:
            if set(value) != set(meta):
                out.append(f"{path}: model keys {sorted(meta)[:6]} differ from object keys {sorted(value)[:6]}")
                return
            for k, v in value.items():
                walk(v, meta[k], k, fields, patterns, out, path + "." + k)
        else:
            inner = meta.type
            members = inner.types if isinstance(inner, DUnion) else [inner]
            for k, v in value.items():
                walk_member(v, members, fields, patterns, out, path + "{" + k + "}")
    elif isinstance(value, list):
        if not isinstance(meta, DList):
            out.append(f"{path}: list is {type(meta).__name__}")
            return
        inner = meta.type
        members = inner.types if isinstance(inner, DUnion) else [inner]
        for i, v in enumerate(value):
            walk_member(v, members, fields, patterns, out, path + "[%d]" % i)


def walk_member(v, members, fields, patterns, out, path):
    """value below a list / dict-like object: `dict_keys_fields` does not apply there"""
    if isinstance(v, dict):
        want = expected_dictlike(v, False, patterns)
        cands = [m for m in members if (isinstance(m, DDict) if want else isinstance(m, dict))]
        if not cands:
            out.append(f"{path}: object {sorted(v)[:5]} should be {'Dict' if want else 'model'}; members {members!r}"[:300])
            return
        for m in cands:
            sub = []
            walk(v, m, None, fields, patterns, sub, path)
            if not sub:
                return
        out.extend(sub[:1])
    elif isinstance(v, list):
        cands = [m for m in members if isinstance(m, DList)]
        if not cands:
            out.append(f"{path}: list has no List member")
            return
        for m in cands:
            sub = []
            walk(v, m, None, fields, patterns, sub, path)
            if not sub:
                return
        out.extend(sub[:1])


def check_case(sample, fields, regex, registry):
    g = MetadataGenerator(registry, dict_keys_regex=list(regex), dict_keys_fields=list(fields))
    meta = g._convert(sample)           # first-pass metadata of one sample: positions are still aligned with the value
    if not isinstance(meta, dict):
        return {"kind": "toplevel-not-a-model", "observed": repr(meta)}
    patterns = [re.compile(r) for r in regex]
    out = []
    for k, v in sample.items():
        walk(v, meta[k], k, set(fields), patterns, out, "$." + k)
    if out:
        return {"kind": "dict-vs-model", "observed": out[:4]}
    full = g.generate(sample)
    if not isinstance(full, dict):
        return {"kind": "toplevel-not-a-model", "observed": repr(full)}
    return None


def falsify(ctx):
    rng = ctx.rng("fals")
    registry = stages.make_registry()
    for _ in range(ctx.n(500, 10000)):
        samples, fields, regex = gen_case(rng)
        for s in samples[:2]:
            try:
                hit = check_case(s, fields, regex, registry)
            except stages.TooCostly:
                ctx.count("skip:too-costly")
                continue
            except Exception as e:  # noqa
                hit = {"kind": "raises", "observed": f"{type(e).__name__}: {e}"}
            enc = repr(s)
            applies = any(k in enc for k in fields) or bool(regex)
            ctx.case((enc, tuple(fields), tuple(map(str, enc_regex(regex)))), nontrivial=applies and "{" in enc[1:])
            if hit:
                hit.update({"sample": s, "fields": fields, "regex": enc_regex(regex)})
                yield hit
        ctx.sample({"sample": samples[0], "fields": fields, "regex": enc_regex(regex)}, limit=2)
    yield from check_cli_reuse(ctx, rng)
    # the command-line form of the regular expressions
    for k in range(len(CLI_EXPRS) + ctx.n(10, 200)):
        exprs = [CLI_EXPRS[k]] if k < len(CLI_EXPRS) else rng.sample(CLI_EXPRS, k=rng.randint(2, 3))
        try:
            hit = check_cli_anchoring(exprs)
        except re.error:
            continue
        ctx.case(("cli", tuple(exprs)), nontrivial=True)
        if hit:
            yield hit


def check_cli_reuse(ctx, rng):
    """a `Cli` object that handled a command line WITH dict-key options and then one WITHOUT them: the second run types
    objects by the options of the second command line only (compared with a fresh object)"""
    import tempfile
    from .. import clitools
    sample = [{"payload": {"a": 1, "b": 2}, "codes": {"1": "x", "22": "y"}, "plain": {"k": 1}, "n": 1}]
    with_opts = [["--dict-keys-fields", "payload"], ["--dkr", r"\d+"], ["--dkf", "plain", "payload", "--dkr", r"\d+", "[a-z]"]]
    with tempfile.TemporaryDirectory(prefix="j2m-c13-") as d:
        clitools.write_files(d, {"s.json": sample})
        base = ["-m", "Root", "s.json"]
        for opts in with_opts:
            for second in ([], ["--dkf", "n"], ["--dkr", "zzz"]):
                seq = [base + opts, base + second]
                try:
                    r = clitools.run_cli_sequence(seq, d, ctx.repo)
                except Exception as e:  # noqa
                    yield {"kind": "cli-reuse-raises", "sequence": seq, "observed": str(e)[-300:]}
                    continue
                ctx.case(("cli-reuse", tuple(opts), tuple(second)), nontrivial=True)
                if r["reused"][-1] != r["fresh_last"]:
                    yield {"kind": "cli-option-state-leaks", "sequence": seq,
                           "observed": {"second_run_on_reused_object": r["reused"][-1], "fresh_object": r["fresh_last"]}}


CLI_EXPRS = [r"\d+", r"\w+\$", r"^\d+$", r"^k\d", r"k\d$", r"a|b", r"node_\d+", r"x\$", r"[$]", r"(a)$", r"\^a", r"$", r"^",
             r"\d+\\", r".*", r"[a-z]+\$\$"]
CLI_KEYS = ["1", "12x", "x12", "USD$", "USD$rate", "k1", "k1x", "xk1", "a", "ab", "b", "node_1", "node_1x", "x$", "x$y", "$",
            "^a", "1\\", "1\n", "ab$$", "ab$$c", ""]


def check_cli_anchoring(exprs):
    """`--dict-keys-regex E`: "^ and $ tokens will be added automatically" — the pattern the CLI stores for E matches a key
    exactly when `^E$` does (the documented meaning, written out here with `re` and nothing from the implementation)"""
    from json_to_models.cli import Cli
    cli = Cli()
    cli.set_args([], "flat", "base", None, [], list(exprs), [], False, None)
    got = [[bool(p.match(k)) for k in CLI_KEYS] for p in cli.dict_keys_regex]
    want = [[bool(re.compile("^" + e + "$").match(k)) for k in CLI_KEYS] for e in exprs]
    if len(got) != len(want):
        return {"kind": "cli-anchoring", "exprs": list(exprs),
                "observed": f"{len(exprs)} expressions became {len(got)} patterns: {[p.pattern for p in cli.dict_keys_regex]!r}"}
    for e, g, w, p in zip(exprs, got, want, cli.dict_keys_regex):
        if g != w:
            bad = [k for k, a, b in zip(CLI_KEYS, g, w) if a != b]
            return {"kind": "cli-anchoring", "exprs": list(exprs),
                    "observed": f"expression {e!r} is stored as {p.pattern!r}; keys decided differently from ^E$: {bad[:5]!r}"}
    return None


def replay(ctx, hit):
    if hit.get("kind") in ("cli-option-state-leaks", "cli-reuse-raises"):
        import tempfile
        from .. import clitools
        with tempfile.TemporaryDirectory(prefix="j2m-c13-") as d:
            clitools.write_files(d, {"s.json": [{"payload": {"a": 1, "b": 2}, "codes": {"1": "x", "22": "y"}, "plain": {"k": 1}, "n": 1}]})
            r = clitools.run_cli_sequence(hit["sequence"], d, ctx.repo)
        return {"kind": "cli-option-state-leaks", "observed": r} if r["reused"][-1] != r["fresh_last"] else None
    if hit.get("kind") == "cli-anchoring":
        return check_cli_anchoring(hit["exprs"])
    try:
        return check_case(hit["sample"], hit["fields"], dec_regex(hit["regex"]), stages.make_registry())
    except stages.TooCostly:
        raise
    except Exception as e:  # noqa
        return {"kind": "raises", "observed": f"{type(e).__name__}: {e}"}
