"""C19 — header and preamble never corrupt the generated module."""
import ast
import tempfile
import warnings

warnings.filterwarnings("ignore", category=SyntaxWarning)

from .. import clitools, stages
from . import common

SITE_KINDS = {"sys.argv", "clock"}
RULE = ("argv strings / preamble texts over an alphabet of quote, triple quote, backslash (incl. trailing and before quotes), "
        "newline, tab, non-ASCII and astral characters x frameworks; correspondence: `header` op (Cli.version_string with "
        "patched argv/clock vs the model's versionString, byte for byte) and the model's raw-triple-quote lexer vs CPython "
        "(ast.parse) on every header; render stage with preambles; falsifier: ast.parse of the real CLI output (in-process "
        "header + library text, and real subprocess runs): first statement is the header string, preamble between imports "
        "and first class exactly once; non-trivial = argv or preamble contains a quote or a backslash; distinct by content")
EXPLANATION = ("J2M.C19.header_is_one_string / header_ok: for every argv the repaired header lexes as exactly one raw string "
               "token (all strings, induction with the lexer's backslash look-ahead); preamble_placement / preamble_blank")
ASSUMPTIONS = ["argv is valid UTF-8 and stdout can encode it (locale) — out of the model's domain",
               "version and ctime contain no quote or backslash (Clean hypothesis; checked on the explored values)"]

PIECES = ['"', '"""', '""', "'", "'''", "\\", '\\"', '\\"""', '"""\\', "\n", "\t", "a", "b c", "é", "日本", "😀", "#", "\\\\",
          'r"""', '"" "', "x\\", '\\\\"""', "\r"]


def gen_arg(rng):
    return "".join(rng.choice(PIECES) for _ in range(rng.randint(0, 5)))


SEPS = ["\u2028", "\u2029", "\x85", "\x0b", "\x0c", "\x1c", "\x1d", "\x1e", "\xa0", "\u3000"]


def gen_pre_text(rng):
    """preamble code with characters on which `str.splitlines`/`str.strip` and the tokenizer disagree, raw inside a
    string constant or a comment (valid Python: only \\n and \\r end a line for the tokenizer)"""
    sep = rng.choice(SEPS)
    return rng.choice(['S = "a%sb"' % sep, "T = 'x%sy'  # c%sd" % (sep, sep), "# only a comment %s here" % sep,
                       'import os\nU = """m%sn"""' % sep, "V = 1",
                       # preambles that begin and end with a quote: a string statement, an expression of two strings
                       '"""note %s"""' % sep, '"é" + "\\\\"', "'x' 'y'", '"only"', '"a" if 1 else "b"'])


def gen_argv(rng):
    return ["/usr/bin/json2models"] + [gen_arg(rng) for _ in range(rng.randint(0, 5))]


def correspondence(ctx, batch):
    rng = ctx.rng("corr")
    from json_to_models import __version__ as version
    for _ in range(ctx.n(400, 8000)):
        argv = gen_argv(rng)
        ctime = "Sun Sep 27 13:19:00 2026"
        ans = stages.impl_call(lambda: clitools.version_string_impl(argv, ctime))
        batch.add({"op": "header", "version": version, "ctime": ctime, "argv": argv}, ans,
                  {"argv": argv, "project": "header-text"})
        # the lexer model against CPython on the implementation's own header text
        if "ok" in ans:
            text = ans["ok"]
            batch.add({"op": "headerok", "in": text}, stages.impl_call(lambda: header_value_cpython(text)),
                      {"text": text, "project": "header-value"})
    # the CLI's preamble normalisation (`strip`, empty -> None) on the real set_args; str.isspace over all code points
    for _ in range(ctx.n(150, 2000)):
        pre = rng.choice(["", " ", "\n", "\t# x\n"]) + gen_pre_text(rng) + rng.choice(["", " ", "\n\n", "\u2028", "\x0c"])
        stages.stage_setargs(batch, [], [], [], False, rng.choice([pre, pre, None, ""]))
    stages.stage_spaces(batch)
    registry = stages.make_registry()
    for _ in range(ctx.n(60, 800)):
        job = common.gen_job(rng)
        job["preamble"] = rng.choice([None, "", "# x", "import os\nX = 1", gen_arg(rng).strip() or None])
        inputs = common.gen_inputs(rng, styled_p=0.1) if rng.random() < .7 else \
            [("Root", [{"a": 1, "b": 2.5, "c": True, "n": {"k": 1}}])]          # a module that needs no import
        stages.stage_render(batch, inputs, registry, common.cmps_choice(rng), [job])


def header_value_cpython(text):
    """value of the header if `text` is a module consisting of exactly one string expression statement, else None"""
    try:
        tree = ast.parse(text)
    except (SyntaxError, ValueError):
        return None
    if len(tree.body) == 1 and isinstance(tree.body[0], ast.Expr) and isinstance(tree.body[0].value, ast.Constant) \
            and isinstance(tree.body[0].value.value, str):
        return tree.body[0].value.value
    return None


def split_header(text):
    """(header, rest) when the module starts with one string expression statement that is the header, else None"""
    try:
        tree = ast.parse(text)
    except (SyntaxError, ValueError) as e:
        return None, {"kind": "output-not-a-module", "observed": f"{type(e).__name__}: {e}"}
    if not tree.body or not (isinstance(tree.body[0], ast.Expr) and isinstance(tree.body[0].value, ast.Constant)
                             and isinstance(tree.body[0].value.value, str)):
        return None, {"kind": "first-statement-not-header", "observed": ast.dump(tree.body[0])[:300] if tree.body else "empty"}
    if "generated by json2python-models" not in tree.body[0].value.value:
        return None, {"kind": "first-statement-not-header", "observed": tree.body[0].value.value[:200]}
    import re
    # CPython counts \r\n, \r and \n as line ends
    ends = [m.end() for m in re.finditer(r"\r\n|\r|\n", text)]
    n = tree.body[0].end_lineno
    return text[ends[n - 1]:] if n - 1 < len(ends) else "", None


def expected_with_preamble(body0, stripped):
    """the text without preamble, with `preamble + delimiter` inserted after the import block (if any)"""
    if body0.startswith(("import ", "from ")):
        k = body0.index("\n\n\n") + 3
    else:
        k = 0
    return body0[:k] + stripped + "\n\n\n" + body0[k:]


def check_module(text, preamble, text_without):
    """`text`: full output with the preamble option; `text_without`: the same run without it"""
    body, err = split_header(text)
    if err:
        return err
    body0, err = split_header(text_without)
    if err:
        return err
    stripped = (preamble or "").strip()
    want = expected_with_preamble(body0, stripped) if stripped else body0
    if body != want:
        kind = "preamble-not-verbatim-once" if stripped else "blank-preamble-changed-output"
        return {"kind": kind, "observed": {"got": body[:600], "expected": want[:600]}}
    return None


def falsify(ctx):
    rng = ctx.rng("fals")
    # in-process: header (real property) + library text
    registry = stages.make_registry()
    regs = [stages.build_registry([("Root", [{"a": 1, "b": {"c": "x"}}])], registry, [])[0],
            stages.build_registry([("Root", [{"a": 1, "b": 2.5, "c": True}])], registry, [])[0],      # needs no import
            stages.build_registry([("Root", [{"a": 1, "n": {"k": 2.5}}])], registry, [])[0]]
    for _ in range(ctx.n(500, 10000)):
        reg = rng.choice(regs)
        argv = gen_argv(rng)
        preamble = rng.choice([None, "", "  \n ", "# x", "import os\nX = 1"])
        try:
            header = clitools.version_string_impl(argv, "Sun Sep 27 13:19:00 2026")
            fw = rng.choice(common.FRAMEWORKS)
            body = stages.render_impl(reg, {"fw": fw, "layout": "flat", "maxLit": 10,
                                            "preamble": (preamble or "").strip() or None})
            body0 = stages.render_impl(reg, {"fw": fw, "layout": "flat", "maxLit": 10, "preamble": None})
            hit = check_module(header + body, preamble, header + body0)
        except stages.TooCostly:
            ctx.count("skip:too-costly")
            continue
        except Exception as e:  # noqa
            hit = {"kind": "raises", "observed": f"{type(e).__name__}: {e}"}
        joined = " ".join(argv)
        ctx.case((tuple(argv), preamble), nontrivial=('"' in joined or "\\" in joined))
        ctx.sample({"argv": argv, "preamble": preamble}, limit=3)
        if hit:
            hit.update({"argv": argv, "preamble": preamble, "mode": "in-process"})
            yield hit
    # real subprocess runs: weird text reaches argv through --preamble and the model name
    with tempfile.TemporaryDirectory(prefix="j2m-c19-") as d:
        clitools.write_files(d, {"d.json": [{"a": 1, "b": {"c": "x"}}], "plain.json": [{"a": 1, "b": 2.5, "c": True}]})
        jobs, metas = [], []
        directed = ['D = "e\u0301le\u0300ve"  # decomposed accents', 'OHM = "\u2126 \u212b"', '# \u1112\u1161\u11ab jamo',
                    'B = """top\n    \nbottom"""', 'C = """a\n\t\nb\n\u3000\nc"""  # ws-only lines', '"""note"""', '"é" + "\\\\"', "'x' 'y'", '"only"', '"a" if 1 else "b"', 'S = "a\u2028b"', "# c\x85d", '"""m\x0cn"""']
        for k in range(len(directed) + ctx.n(24, 300)):
            weird = gen_arg(rng)
            # the preamble is code: the odd characters go into a comment or a string constant of valid Python
            pre = directed[k] if k < len(directed) else rng.choice(["# " + weird.replace("\n", " ").replace("\r", " "), "X = " + repr(weird),
                              "import os\nY = " + repr(weird) + "  # c", "  \n", "", gen_pre_text(rng), gen_pre_text(rng)])
            extra = gen_arg(rng).replace("\x00", "")
            base = ["-m", "Root", rng.choice(["d.json", "plain.json"]), "-f", rng.choice(common.FRAMEWORKS + ["base", "base"]),
                    "--dict-keys-fields", extra or "x"]
            # every other option the front end has may stand next to the preamble; whatever it does, stdout stays one module
            # that starts with the header
            OPTS = [[], ["--datetime"], ["--datetime", "--disable-str-serializable-types", "IsoDateString"],
                    ["--disable-str-serializable-types", "float", "nosuchtype"], ["--datetime", "--disable-str-serializable-types", "date", "time"],
                    ["--disable-str-serializable-types", "IsoTimeString"], ["--merge", "exact"], ["-s", "nested"],
                    ["--max-strings-literals", "0"], ["--strings-converters"], ["--disable-unicode-conversion"],
                    ["--code-generator-kwargs", "meta=true"]]
            base = base + (OPTS[k % len(OPTS)] if k % 2 == 0 else [])
            argv = base + ["--preamble=" + pre]
            jobs.append((argv, d, ctx.repo))
            jobs.append((base, d, ctx.repo))
            metas.append((argv, pre))
        results = clitools.run_many(jobs)
        for i, (argv, pre) in enumerate(metas):
            (rc, out, err), (rc0, out0, err0) = results[2 * i], results[2 * i + 1]
            ctx.case(("cli", tuple(argv)), nontrivial=True)
            if rc != 0 or rc0 != 0:
                yield {"kind": "cli-fails", "argv": argv, "preamble": pre, "mode": "subprocess", "observed": (err or err0)[-300:]}
                continue
            unprint = lambda o: o[:-1] if o.endswith("\n") else o       # `print` adds one newline
            hit = check_module(unprint(out), pre, unprint(out0))
            if hit:
                hit.update({"argv": argv, "preamble": pre, "mode": "subprocess"})
                yield hit


def replay(ctx, hit):
    if hit.get("mode") == "subprocess":
        with tempfile.TemporaryDirectory(prefix="j2m-c19-") as d:
            clitools.write_files(d, {"d.json": [{"a": 1, "b": {"c": "x"}}], "plain.json": [{"a": 1, "b": 2.5, "c": True}]})
            rc, out, err = clitools.run_cli(hit["argv"], d, ctx.repo)
            rc0, out0, err0 = clitools.run_cli([a for a in hit["argv"] if not a.startswith("--preamble=")], d, ctx.repo)
            if rc != 0 or rc0 != 0:
                return {"kind": "cli-fails", "observed": (err or err0)[-300:]}
            return check_module(out[:-1] if out.endswith("\n") else out, hit["preamble"],
                                out0[:-1] if out0.endswith("\n") else out0)
    header = clitools.version_string_impl(hit["argv"], "Sun Sep 27 13:19:00 2026")
    return check_module(header + "class A:\n    pass\n", None, header + "class A:\n    pass\n")
