"""C12 — flat and nested layouts describe the same models."""
from .. import real, stages
from . import common
from . import C11 as _c11

RULE = ("G-json inputs (tree-shaped stream: the graph check `is_tree` selects them; shared/recursive graphs are used for the "
        "flat-completeness part only) x 5 frameworks x merge policies; correspondence: pipeline stage projections `flat` "
        "and `nested` and the render stage for both layouts; falsifier: exec both modules, collect classes recursively, "
        "compare name -> (fields, evaluated annotations, defaults) pairwise, class counts vs registry, nesting parent, root "
        "first in the flat layout; non-trivial = >= 3 classes; distinct by (inputs, job)")
EXPLANATION = "J2M.C12.* over Structure.composeFlat / composeNested and Render (class text independent of placement)"
ASSUMPTIONS = ["agreement of layouts is claimed for tree-shaped model graphs; flat completeness for all graphs"]


def correspondence(ctx, batch):
    rng = ctx.rng("corr")
    registry = stages.make_registry()
    for _ in range(ctx.n(150, 2500)):
        inputs = common.gen_inputs(rng, styled_p=0.2)
        cmps = common.cmps_choice(rng)
        stages.stage_pipeline(batch, inputs, registry, cmps, parts=("named", "flat", "nested"))
        if rng.random() < 0.5:
            job = common.gen_job(rng)
            stages.stage_render(batch, inputs, registry, cmps, [dict(job, layout="flat"), dict(job, layout="nested")])


def class_table(ns, fw):
    out = {}
    parents = {}
    all_classes = {c for _, c, _ in real.collect_classes(ns)}
    for q, cls, chain in real.collect_classes(ns):
        hs = {k: _c11.normalise(v, all_classes) for k, v in real.hints(cls, ns, chain).items()}
        out.setdefault(cls.__name__, []).append((repr(hs), repr(real.field_table(cls, fw)), list(hs)))
        parents[cls.__name__] = chain[-1].__name__ if chain else None
    return out, parents


def check_case(inputs, cmps, job, registry):
    reg, _ = stages.build_registry(inputs, registry, cmps)
    n_models = len(list(reg.models))
    tree = common.is_tree(reg)
    roots = [m.name for m in reg.models if any(p.parent is None for p in m.pointers)]
    flat_text = stages.render_impl(reg, dict(job, layout="flat"))
    reg2, _ = stages.build_registry(inputs, registry, cmps)
    ns_f = real.load_module(flat_text)
    tf, _ = class_table(ns_f, job["fw"])
    nflat = sum(len(v) for v in tf.values())
    if nflat != n_models:
        return {"kind": "flat-class-count", "observed": f"{nflat} classes for {n_models} models", "text": flat_text[:3000]}, tree
    if not tree:
        return None, tree
    import ast
    first = next(n.name for n in ast.parse(flat_text).body if isinstance(n, ast.ClassDef))
    if len(roots) == 1 and first != [m.name for m in reg.models if any(p.parent is None for p in m.pointers)][0]:
        return {"kind": "flat-root-not-first", "observed": f"first class {first}, root {roots}", "text": flat_text[:2000]}, tree
    nested_text = stages.render_impl(reg2, dict(job, layout="nested"))
    ns_n = real.load_module(nested_text)
    tn, parents = class_table(ns_n, job["fw"])
    if tf != tn:
        diff = sorted(set(tf) ^ set(tn)) or [k for k in tf if tf[k] != tn.get(k)]
        return {"kind": "layouts-differ", "observed": {"classes": diff[:5], "flat": {k: tf.get(k) for k in diff[:2]},
                                                        "nested": {k: tn.get(k) for k in diff[:2]}},
                "flat": flat_text[:2500], "nested": nested_text[:2500]}, tree
    # each non-root class sits inside the class that references it
    by_name = {m.name: m for m in reg2.models}
    for name, parent in parents.items():
        m = by_name.get(name)
        if m is None:
            continue
        refs = {p.parent.name for p in m.pointers if p.parent is not None}
        want = next(iter(refs)) if refs else None
        if parent != want:
            return {"kind": "nesting-parent", "observed": f"{name} is inside {parent}, referenced from {want}",
                    "nested": nested_text[:2500]}, tree
    return None, tree


def falsify(ctx):
    rng = ctx.rng("fals")
    registry = stages.make_registry()
    focus = common.focus_cases(ctx)
    n = ctx.n(300, 6000)
    for i in range(len(focus) + n):
        inputs = focus[i][0] if i < len(focus) else common.gen_inputs(rng, styled_p=0.2)
        cmps = (focus[i][1] if i < len(focus) else None) or common.cmps_choice(rng)
        job = common.gen_job(rng)
        job["preamble"] = None
        if i >= len(focus) and i % 20 == 6:
            # two class names that clash only after conversion, in a tree whose registry order is not depth-first (the deeper
            # model is merged from two similar siblings): both layouts must name the classes alike
            from .. import gen as _gen
            from json_to_models.registry import ModelFieldsEquals
            inputs = [("Root", [_gen.gen_name_clash(rng, skewed=True)])]
            cmps = [ModelFieldsEquals()] if rng.random() < 0.5 else []
            job["convertUnicode"] = True
            job.pop("structureReuse", None)
        try:
            hit, tree = check_case(inputs, cmps, job, registry)
        except (ZeroDivisionError, stages.TooCostly):
            ctx.count("skip:zero-division")
            continue
        except Exception as e:  # noqa
            hit, tree = {"kind": "pipeline-raises", "observed": f"{type(e).__name__}: {e}"}, None
        ctx.case((repr(inputs), repr(job)), nontrivial=repr(inputs).count("{") > 2)
        ctx.count("tree" if tree else "non-tree")
        ctx.sample({"inputs": inputs, "job": job}, limit=2)
        if hit:
            hit.update({"input": inputs, "job": job, "cmps": [stages.enc_cmp(c) for c in cmps]})
            yield hit


def replay(ctx, hit):
    from ..worker import cmps_from
    try:
        h, _ = check_case([tuple(x) for x in hit["input"]], cmps_from(hit["cmps"]), hit["job"], stages.make_registry())
    except stages.TooCostly:
        raise
    except Exception as e:  # noqa
        h = {"kind": "pipeline-raises", "observed": f"{type(e).__name__}: {e}"}
    return h
