"""C09 — string pseudo-types are detected soundly and convert losslessly."""
import itertools
import math

from .. import conv, gen, stages
from . import common

RULE = ("strings from a structured grammar (signs, exponents, underscores, whitespace, non-ASCII digits, case variants, ISO "
        "fragments) x registries (subsets/orders of the real kinds) x subsets passed to resolve; correspondence stages "
        "detect/resolve/generate + the exact int/bool parser models; falsifier re-runs every registered parser directly; "
        "non-trivial = a string some parser accepts, or a resolve call on >= 2 kinds; distinct by (string, registry)")
EXPLANATION = "theorems J2M.C09.* (first-match detection, resolve covers, disabled kinds never appear, int/bool round trip)"
ASSUMPTIONS = ["float/date/time/datetime parsers and renderers are oracles (CPython float, dateutil): their round trip is "
               "checked on the explored strings only (C09_roundtrip_partial)"]

KINDS = ["IntString", "FloatString", "BooleanString"]
DT = ["IsoDateString", "IsoTimeString", "IsoDatetimeString"]


def grammar(rng, n):
    out = list(gen.PSEUDO) + list(gen.PLAIN)
    # magnitudes: integers beyond the float range, floats that overflow / underflow, long fractions
    out += ["9" * 310, "-" + "9" * 320, "1" + "0" * 400, "1e400", "-1e999", "1e-400", "0." + "0" * 330 + "1",
            "1" * 25, "0" * 30, "123456789012345678901234567890.5", "4" * 4299]
    signs = ["", "+", "-"]
    for _ in range(n):
        r = rng.random()
        if r < 0.3:
            digits = "".join(rng.choice("0123456789") for _ in range(rng.randint(1, 6)))
            if rng.random() < .3:
                digits = digits[:1] + "_" + digits[1:]
            s = rng.choice(signs) + digits
            if rng.random() < .4:
                s += "." + "".join(rng.choice("0123456789") for _ in range(rng.randint(0, 3)))
            if rng.random() < .3:
                s += rng.choice("eE") + rng.choice(signs) + str(rng.randint(0, 30))
            if rng.random() < .2:
                s = rng.choice([" ", "\t", "\n", " ", " "]) + s + rng.choice(["", " ", "\n"])
        elif r < 0.4:
            s = "".join(rng.choice("٠١٢٣٤٥٦٧٨٩०१२３４") for _ in range(rng.randint(1, 4)))
        elif r < 0.5:
            s = "".join(rng.choice([c.upper(), c.lower()]) for c in rng.choice(["true", "false", "nan", "inf", "infinity"]))
        elif r < 0.8:
            y, mo, d = rng.randint(1, 9999), rng.randint(1, 12), rng.randint(1, 28)
            h, mi, sec = rng.randint(0, 23), rng.randint(0, 59), rng.randint(0, 59)
            s = rng.choice([f"{y:04d}-{mo:02d}-{d:02d}", f"{y:04d}{mo:02d}{d:02d}", f"{y:04d}-{mo:02d}", f"{h:02d}:{mi:02d}",
                            f"{h:02d}:{mi:02d}:{sec:02d}", f"{h:02d}:{mi:02d}:{sec:02d}.{rng.randint(0, 999999)}",
                            f"{y:04d}-{mo:02d}-{d:02d}T{h:02d}:{mi:02d}:{sec:02d}",
                            f"{y:04d}-{mo:02d}-{d:02d}T{h:02d}:{mi:02d}:{sec:02d}" + rng.choice(["Z", "+02:00", "-0530"]),
                            f"{y:04d}-W{rng.randint(1, 52):02d}-{rng.randint(1, 7)}", f"{y:04d}-{rng.randint(1, 365):03d}",
                            f"{y:04d}-{mo:02d}-{d:02d} {h:02d}:{mi:02d}"])
        else:
            s = rng.choice(gen.PLAIN) + rng.choice(["", "1", " "])
        out.append(s)
    return out


def registries(rng, n):
    subsets = []
    for k in range(0, 4):
        for p in itertools.permutations(KINDS, k):
            subsets.append(p)
    regs = [(p, False) for p in subsets]
    shipped = [(tuple(KINDS), True), (tuple(KINDS), False)]      # the registries the library itself builds: always explored
    regs += [((), True), (("FloatString", "IntString"), True)]
    rng.shuffle(regs)
    return shipped + regs[:max(0, n - len(shipped))]


def correspondence(ctx, batch):
    rng = ctx.rng("corr")
    strings = grammar(rng, ctx.n(400, 8000))
    regs = registries(rng, ctx.n(8, 19))
    for kinds, dt in regs:
        registry = stages.make_registry(kinds, datetime=dt)
        for s in rng.sample(strings, k=min(len(strings), ctx.n(120, 1500))):
            stages.stage_detect(batch, s, registry)
        names = [c.__name__ for c in registry.types]
        for k in range(1, len(names) + 1):
            for sub in itertools.combinations(names, k):
                stages.stage_resolve(batch, registry, list(sub))
        for _ in range(ctx.n(15, 200)):
            vals = [rng.choice(strings) for _ in range(rng.randint(1, 4))]
            stages.stage_generate(batch, [{"f": v} for v in vals], registry)
    # exact parser models
    for s in strings:
        stages.stage_strtype(batch, s)
    # remove_by_name on the registry (types and replaces afterwards)
    for kinds, dt in registries(rng, 19):
        for name in ["int", "float", "bool", "IntString", "FloatString", "BooleanString", "date", "IsoTimeString", "str", "x"]:
            stages.stage_remove_by_name(batch, kinds, dt, name)


def eq_value(a, b):
    if isinstance(a, float) and isinstance(b, float) and math.isnan(a) and math.isnan(b):
        return True
    return a == b


def accepts_safe(c, s):
    """True / False as the parser says; None when it raises something other than ValueError"""
    try:
        return conv.accepts(c, s)
    except Exception:  # noqa
        return None


def check_string(registry, s):
    """first-match soundness + render/re-parse round trip, directly on the real classes"""
    from json_to_models.generator import MetadataGenerator
    try:
        t = MetadataGenerator(registry)._detect_type(s)
    except Exception as e:  # noqa — a parser that raises anything but ValueError aborts the whole generation
        return {"kind": "detection-raises", "string": s[:60] + ("..." if len(s) > 60 else ""), "length": len(s),
                "full_string": s, "registry": [c.__name__ for c in registry.types],
                "observed": f"{type(e).__name__}: {str(e)[:200]}"}
    expect = None
    for c in registry.types:          # registration order, stopping at the first acceptance as the property says
        if accepts_safe(c, s):
            expect = c
            break
    got = t if isinstance(t, type) else None
    if got is not expect:
        return {"kind": "first-match", "string": s, "registry": [c.__name__ for c in registry.types],
                "observed": f"classified as {t!r}, first accepting parser is {expect!r}"}
    for c in registry.types:
        if not accepts_safe(c, s):
            continue
        v = c.to_internal_value(s)
        r = v.to_representation()
        try:
            v2 = c.to_internal_value(r)
        except ValueError as e:
            return {"kind": "roundtrip", "string": s, "cls": c.__name__, "observed": f"rendering {r!r} rejected: {e}"}
        if not eq_value(v, v2):
            return {"kind": "roundtrip", "string": s, "cls": c.__name__, "observed": f"{v!r} -> {r!r} -> {v2!r}"}
    return None


def check_resolve(registry, kinds, pool):
    """a single result must accept every string any member accepts"""
    classes = [conv.SER_CLASSES[k] for k in kinds]
    res = registry.resolve(*classes)
    if len(res) == 1:
        u = next(iter(res))
        for c in classes:
            for s in pool:
                if accepts_safe(c, s) and accepts_safe(u, s) is False:
                    return {"kind": "resolve-unsound", "kinds": list(kinds), "registry": [c.__name__ for c in registry.types],
                            "observed": f"resolved to {u.__name__} which rejects {s!r} accepted by {c.__name__}"}
    return None


def check_replaces(registry, pool):
    """the registry's own `replaces` pairs must be sound: what the particular type accepts the general one accepts"""
    for a, b in registry.replaces:
        for s in pool:
            if accepts_safe(a, s) and accepts_safe(b, s) is False:
                return {"kind": "replaces-unsound", "registry": [c.__name__ for c in registry.types],
                        "kinds": [a.__name__, b.__name__],
                        "observed": f"{a.__name__} is registered as a particular case of {b.__name__}, which rejects {s[:40]!r}... "
                                    f"(length {len(s)}) accepted by {a.__name__}"}
    return None


def check_field(registry, vals):
    """single-field generation: the annotation must accept every value; disabled kinds never appear"""
    from json_to_models.generator import MetadataGenerator
    meta = MetadataGenerator(registry).generate(*[{"f": v} for v in vals])
    t = meta["f"]
    names = {c.__name__ for c in registry.types}
    enc = conv.enc_ty(t)

    def kinds_of(e, acc):
        if isinstance(e, list):
            if e[0] == "ser":
                acc.add(e[1])
            for x in e[1:]:
                if isinstance(x, list):
                    kinds_of(x, acc)
        return acc

    used = kinds_of(enc, set())
    if not used <= names:
        return {"kind": "disabled-kind-appears", "values": vals, "registry": sorted(names), "observed": enc}
    if isinstance(t, type) and t is not str and t.__name__ in conv.SER_CLASSES:
        for v in vals:
            if accepts_safe(t, v) is False:
                return {"kind": "field-type-rejects-sample", "values": vals, "registry": [c.__name__ for c in registry.types],
                        "observed": f"field typed {t.__name__} but it rejects {v!r}"}
    return None


def check_disable_history(kinds, dt, vals, name):
    """detect, disable a type by name on the SAME registry, detect again: the disabled type must be gone and the result
    must equal that of a registry that never had the type"""
    from json_to_models.generator import MetadataGenerator
    registry = stages.make_registry(kinds, datetime=dt)
    before = [conv.enc_ty(MetadataGenerator(registry).generate({"f": v})["f"]) for v in vals]
    registry.remove_by_name(name)
    after = [conv.enc_ty(MetadataGenerator(registry).generate({"f": v})["f"]) for v in vals]
    fresh = stages.make_registry(kinds, datetime=dt)
    fresh.remove_by_name(name)
    want = [conv.enc_ty(MetadataGenerator(fresh).generate({"f": v})["f"]) for v in vals]
    removed = {c for c in conv.SER_CLASSES if c == name or conv.SER_CLASSES[c].actual_type.__name__ == name}
    for v, a, w in zip(vals, after, want):
        if isinstance(a, list) and a[0] == "ser" and a[1] in removed:
            return {"kind": "disabled-type-still-detected", "registry": list(kinds), "datetime": dt, "values": vals, "disabled": name,
                    "observed": f"{v!r} is still classified as {a[1]} after remove_by_name({name!r}) (it was {before[vals.index(v)]})"}
        if a != w:
            return {"kind": "disable-history-dependent", "registry": list(kinds), "datetime": dt, "values": vals, "disabled": name,
                    "observed": f"{v!r}: {a} after disabling on a used registry, {w} on a registry never used before"}
    return None


CLI_DATA = [{"i": "1", "f": "1.5", "b": "true", "d": "2020-01-02", "t": "12:30", "dt": "2020-01-02T03:04:05", "s": "plain"},
            {"i": "-2", "f": "1e3", "b": "False", "d": "2021-03-04", "t": "10:20:30", "dt": "2021-03-04T10:20:30", "s": "other"}]
CLI_NAMES = {"int": "IntString", "float": "FloatString", "bool": "BooleanString", "date": "IsoDateString",
             "time": "IsoTimeString", "datetime": "IsoDatetimeString"}


def check_cli_disable(ctx, rng):
    """`--disable-str-serializable-types` in both documented spellings (python type name, class name), with and without
    --datetime: a disabled type never appears in the printed code"""
    import tempfile
    from .. import clitools
    spellings = list(CLI_NAMES) + list(CLI_NAMES.values())
    sets = [[x] for x in spellings] + [rng.sample(spellings, k=rng.randint(2, 4)) for _ in range(ctx.n(8, 60))]
    with tempfile.TemporaryDirectory(prefix="j2m-c09-") as d:
        clitools.write_files(d, {"d.json": CLI_DATA})
        jobs, metas = [], []
        for names in sets:
            for dt in (False, True):
                if not dt and all(CLI_NAMES.get(n, n).startswith("Iso") for n in names):
                    continue
                argv = ["-m", "Root", "d.json"] + (["--datetime"] if dt else []) + ["--disable-str-serializable-types"] + names
                jobs.append((argv, d, ctx.repo))
                metas.append((names, dt, argv))
        for (names, dt, argv), (rc, out, err) in zip(metas, clitools.run_many(jobs)):
            ctx.case(("cli-disable", tuple(names), dt), nontrivial=True)
            if rc != 0:
                yield {"kind": "cli-disable-fails", "argv": argv, "observed": err[-300:]}
                continue
            body = clitools.strip_header(out)          # the header echoes the command line, type names included
            if body is None:
                yield {"kind": "cli-disable-fails", "argv": argv, "observed": "no well-formed header: " + out[:200]}
                continue
            leaked = sorted({CLI_NAMES.get(n, n) for n in names if CLI_NAMES.get(n, n) in body})
            if leaked:
                yield {"kind": "disabled-type-in-output", "argv": argv, "observed": {"leaked": leaked, "stdout": body[-600:]}}


def check_constructor(ctx, rng):
    """a registry filled through its constructor: the types are tried in the order of the arguments (every ordered pair of
    the six shipped kinds, some longer orders), and detection takes the first of them that accepts"""
    from json_to_models.dynamic_typing import (BooleanString, FloatString, IntString, IsoDateString, IsoDatetimeString,
                                               IsoTimeString, StringSerializableRegistry)
    from json_to_models.generator import MetadataGenerator
    six = [IntString, FloatString, BooleanString, IsoDateString, IsoTimeString, IsoDatetimeString]
    orders = list(itertools.permutations(six, 2)) + [tuple(rng.sample(six, k=rng.randint(3, 6))) for _ in range(ctx.n(20, 200))]
    probes = ["1", "-7", "2018", "2018-12-31", "1.5", "true", "12:30", "2018-12-31T10:00:00", "x"]
    for order in orders:
        ctx.case(("constructor", tuple(c.__name__ for c in order)), nontrivial=True)
        r = StringSerializableRegistry(*order)
        seen = list(iter(r))
        if seen != list(order) or list(r.types) != list(order):
            yield {"kind": "constructor-order", "registry": [c.__name__ for c in order],
                   "observed": f"constructed from {[c.__name__ for c in order]}, tries {[c.__name__ for c in seen]}"}
            return
        g = MetadataGenerator(r)
        for s in probes:
            expect = next((c for c in order if accepts_safe(c, s)), None)
            t = g._detect_type(s)
            if (t if isinstance(t, type) and t in six else None) is not expect:
                yield {"kind": "constructor-first-match", "string": s, "registry": [c.__name__ for c in order],
                       "observed": f"classified as {t!r}, first accepting parser in argument order is {expect!r}"}
                return


def falsify(ctx):
    rng = ctx.rng("fals")
    yield from check_cli_disable(ctx, rng)
    yield from check_constructor(ctx, rng)
    for _ in range(ctx.n(60, 1500)):
        kinds = tuple(rng.sample(KINDS, k=rng.randint(1, 3)))
        dt = rng.random() < 0.2
        vals = [rng.choice(gen.PSEUDO) for _ in range(rng.randint(1, 5))]
        name = rng.choice(list(kinds) + ["int", "float", "bool"] + (["date", "IsoTimeString"] if dt else []))
        try:
            hit = check_disable_history(kinds, dt, vals, name)
        except Exception as e:  # noqa
            hit = {"kind": "disable-history-raises", "registry": list(kinds), "datetime": dt, "values": vals, "disabled": name,
                   "observed": f"{type(e).__name__}: {e}"}
        ctx.case(("disable", kinds, dt, tuple(vals), name))
        if hit:
            yield hit
    strings = grammar(rng, ctx.n(600, 12000))
    pool = strings[:460]
    for kinds, dt in registries(rng, ctx.n(6, 19)):
        registry = stages.make_registry(kinds, datetime=dt)
        for s in rng.sample(strings, k=min(len(strings), ctx.n(250, 3000))) + strings[len(gen.PSEUDO) + len(gen.PLAIN):][:11]:
            try:
                hit = check_string(registry, s)
            except Exception as e:  # noqa — a parser must reject with ValueError; anything else aborts the whole generation
                hit = {"kind": "parser-raises-instead-of-rejecting", "string": s[:60] + ("..." if len(s) > 60 else ""),
                       "length": len(s), "registry": [c.__name__ for c in registry.types],
                       "observed": f"{type(e).__name__}: {str(e)[:200]}"}
            ctx.case((s, kinds, dt), nontrivial=any(accepts_safe(c, s) for c in registry.types))
            if hit:
                yield hit
        try:
            hit = check_replaces(registry, strings)
        except stages.TooCostly:
            ctx.count("skip:too-costly")
            continue
        except Exception as e:  # noqa
            hit = None
        ctx.case(("replaces", kinds, dt))
        if hit:
            yield hit
        names = [c.__name__ for c in registry.types]
        for k in range(2, len(names) + 1):
            for sub in itertools.permutations(names, k):
                try:
                    hit = check_resolve(registry, sub, pool)
                except Exception:  # noqa — reported by the per-string check above
                    hit = None
                ctx.case(("resolve", sub, kinds, dt))
                if hit:
                    yield hit
        for _ in range(ctx.n(40, 600)):
            vals = [rng.choice(strings) for _ in range(rng.randint(1, 4))]
            try:
                hit = check_field(registry, vals)
            except Exception:  # noqa — reported by the per-string check above
                hit = None
            ctx.case(("field", tuple(vals), kinds, dt))
            if hit:
                yield hit
    ctx.sample({"strings": strings[60:75]})


def replay(ctx, hit):
    if hit["kind"] in ("disabled-type-in-output", "cli-disable-fails"):
        import tempfile
        from .. import clitools
        with tempfile.TemporaryDirectory(prefix="j2m-c09-") as d:
            clitools.write_files(d, {"d.json": CLI_DATA})
            rc, out, err = clitools.run_cli(hit["argv"], d, ctx.repo)
            names = hit["argv"][hit["argv"].index("--disable-str-serializable-types") + 1:]
            body = clitools.strip_header(out) or ""
            leaked = sorted({CLI_NAMES.get(n, n) for n in names if CLI_NAMES.get(n, n) in body})
            if rc != 0:
                return {"kind": "cli-disable-fails", "observed": err[-300:]}
            return {"kind": "disabled-type-in-output", "observed": {"leaked": leaked}} if leaked else None
    if hit["kind"] in ("constructor-order", "constructor-first-match"):
        import json_to_models.dynamic_typing as _dt
        from json_to_models.generator import MetadataGenerator
        order = [getattr(_dt, n) for n in hit["registry"]]
        r = _dt.StringSerializableRegistry(*order)
        if list(iter(r)) != order:
            return {"kind": "constructor-order", "observed": f"tries {[c.__name__ for c in r]}"}
        if "string" in hit:
            expect = next((c for c in order if accepts_safe(c, hit["string"])), None)
            t = MetadataGenerator(r)._detect_type(hit["string"])
            if (t if isinstance(t, type) and t in order else None) is not expect:
                return {"kind": "constructor-first-match", "observed": f"classified as {t!r}, expected {expect!r}"}
        return None
    registry = stages.make_registry(tuple(k for k in hit.get("registry", KINDS) if k in KINDS),
                                    datetime=any(k in DT for k in hit.get("registry", [])))
    if hit["kind"] in ("first-match", "roundtrip"):
        return check_string(registry, hit["string"])
    if hit["kind"] in ("disabled-type-still-detected", "disable-history-dependent", "disable-history-raises"):
        return check_disable_history(tuple(hit["registry"]), hit.get("datetime", False), hit["values"], hit["disabled"])
    if hit["kind"] == "detection-raises":
        return check_string(registry, hit["full_string"])
    if hit["kind"] == "resolve-unsound":
        return check_resolve(registry, hit["kinds"], grammar(ctx.rng("replay"), 10))
    if hit["kind"] == "replaces-unsound":
        return check_replaces(registry, grammar(ctx.rng("replay"), 10))
    return check_field(registry, hit["values"])
