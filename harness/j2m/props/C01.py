"""C01 — generated models accept every sample they were inferred from."""
from .. import conv, gen, real, stages
from . import common

RULE = ("G-json sample lists (heterogeneous values, nulls, empty containers, pseudo-type strings, shared object shapes at "
        "several positions) x 5 frameworks x {flat,nested} x merge policies x registries x literal limits; correspondence on "
        "detect/mkunion/hash/mergefs/optimize/generate/pipeline/render; falsifier: exec the emitted module, check every "
        "sample structurally against the evaluated annotations and (pydantic) parse_obj it; non-trivial = a sample with a "
        "nested object or list; distinct by (inputs, options)")
EXPLANATION = ("J2M.C01.generate_sound(_names): every sample inhabits the type `generate` infers (model), with hashStr "
               "injectivity (J2M.HashInj.hashStr_inj) discharging de-duplication soundness; registry/render stages are "
               "tied by the pipeline/render correspondence and audited by the falsifier")
ASSUMPTIONS = ["keys in the documented domain of C11 (labels distinct, non-empty, no leading underscore)",
               "ReplacesSound: every IntString is a FloatString (tested on every explored string)",
               "nested layout checked for tree-shaped graphs"]

CORPUS = [
    [{"a": [["a,b"], ["a", "b"]]}],
    [{"a": [[1, True], [1.5, {}], None]}, {"a": [[1, True], [1.5, {}, None]]}],
    [{"a": "1"}, {"a": "1.5"}, {"a": "true"}],
    [{"a": []}, {"a": [None]}],
    [{"x": {"a": 1, "b": 2, "c": 3, "d": 4, "e": 5},
      "y": [{"a": 1, "b": 2, "c": 3, "d": 4, "e": 5}, {"a": None, "b": 2, "c": 3, "d": 4, "e": 5}]}],
    [{"s": "😀"}, {"s": "x"}],
    [{"name": [None]}, {"name": None}],
    [{"uid": 1, "name": "first", "tags": ["a"]}, {}, {"uid": 2, "name": "second", "tags": []}],
    [{}, {"uid": 1}],
    [{"uid": 1, "sub": {"a": 1}}, {"uid": 2, "sub": {}}, {}],
]


def correspondence(ctx, batch):
    rng = ctx.rng("corr")
    reg = stages.make_registry()
    for samples in CORPUS:
        stages.stage_generate(batch, samples, reg)
        stages.stage_pipeline(batch, [("Root", samples)], reg, common.cmps_choice(rng), parts=("process", "merge"))
    # the hash-string partition on structured near-collisions
    near = [["lit", False, ["a,b"]], ["lit", False, ["a", "b"]], ["lit", False, ["a", "b"]],
            ["list", ["union", [["list", ["union", ["int", "bool"]]], ["list", ["union", ["float", ["dict", "unknown"]]]], "null"]]],
            ["list", ["union", [["list", ["union", ["int", "bool"]]], ["list", ["union", ["float", ["dict", "unknown"], "null"]]]]]],
            ["union", ["int", ["union", ["str", "bool"]]]], ["union", ["int", "str", "bool"]],
            ["obj", [["a", "int"]]], ["obj", [["a", "float"]]], ["obj", [["a", "int"], ["b", "int"]]]]
    stages.stage_hash(batch, near)
    for _ in range(ctx.n(150, 2000)):
        stages.stage_hash(batch, [gen.gen_ir(rng, 3) for _ in range(6)] + [rng.choice(near)])
        stages.stage_mkunion(batch, [gen.gen_ir(rng, 2) for _ in range(rng.randint(1, 4))], reg)
        sets = [[[k, gen.gen_ir(rng, 2)] for k in rng.sample(["a", "b", "c"], k=rng.randint(0, 3))]
                for _ in range(rng.randint(1, 3))]
        stages.stage_mergefs(batch, sets, reg)
        stages.stage_optimize(batch, gen.gen_ir(rng, 3), reg)
    for _ in range(ctx.n(150, 3000)):
        samples = gen.gen_sample_family(rng) if rng.random() < .6 else gen.gen_samples(rng)
        stages.stage_generate(batch, samples, common.registry_choice(rng))
    for _ in range(ctx.n(60, 1000)):
        inputs = common.gen_inputs(rng, styled_p=0.2)
        stages.stage_render(batch, inputs, reg, common.cmps_choice(rng), [common.gen_job(rng)])
    for _ in range(ctx.n(60, 1000)):
        mix = gen.gen_pseudo_mix(rng)
        r2 = common.registry_choice(rng, datetime_p=0.7)
        stages.stage_generate(batch, mix, r2)
        stages.stage_render(batch, [("Root", mix)], r2, common.cmps_choice(rng), [common.gen_job(rng)])


def null_only_keys(samples):
    """(path-less) keys all of whose observed values are null — the only keys pydantic/sqlmodel output may drop"""
    seen = {}

    def walk(v):
        if isinstance(v, dict):
            for k, x in v.items():
                seen.setdefault(k, []).append(x)
                walk(x)
        elif isinstance(v, list):
            for x in v:
                walk(x)

    for s in samples:
        walk(s)
    return {k for k, vs in seen.items() if all(x is None for x in vs)}


def check_case(inputs, cmps, job, registry):
    reg, text = real.run_library(inputs, registry, cmps, job)
    if job["layout"] == "nested" and not common.is_tree(reg):
        return None, "nested-non-tree"
    try:
        ns = real.load_module(text)
    except stages.TooCostly:
        raise
    except Exception as e:  # noqa
        return {"kind": "module-does-not-load", "observed": f"{type(e).__name__}: {e}", "text": text[:3000]}, None
    fw = job["fw"]
    attached = fw in ("pydantic", "sqlmodel") or (fw in ("attrs", "dataclasses") and job.get("meta", False))
    acc = real.Acceptor(ns, fw, convert_unicode=job.get("convertUnicode", True), attached=attached)
    roots = {m.index: m for m in reg.models}
    for name, samples in inputs:
        # the root class is the one whose model carries the given name (possibly merged: look it up by pointer)
        with_root_ptr = [m for m in reg.models if any(p.parent is None for p in m.pointers)]
        root_models = [m for m in with_root_ptr if m.name == name or name in (m.name or "").split("_")]
        if not root_models and len(inputs) == 1 and len(with_root_ptr) == 1:
            root_models = with_root_ptr     # the given name was converted into a class name (Données -> Donnees)
        if not root_models:
            return {"kind": "root-class-missing", "observed": name}, None
        cls_name = root_models[0].name
        cls = next((c for q, c, ch in real.collect_classes(ns) if c.__name__ == cls_name), None)
        if cls is None:
            return {"kind": "root-class-missing", "observed": cls_name, "text": text[:2000]}, None
        droppable = null_only_keys(samples) if fw in ("pydantic", "sqlmodel") else set()
        for s in samples:
            acc.problems = []
            try:
                ok = acc.accepts_obj(cls, s, "$")
            except stages.TooCostly:
                raise
            except Exception as e:  # noqa
                return {"kind": "annotation-unresolvable", "observed": f"{type(e).__name__}: {e}", "sample": s,
                        "text": text[:3000]}, None
            probs = [p for p in acc.problems]
            if not ok:
                return {"kind": "sample-rejected", "sample": s, "observed": probs[:5], "text": text[:4000]}, None
        if fw == "pydantic":
            for s in samples:
                try:
                    real.pydantic_parse(ns, cls_name, s)
                except stages.TooCostly:
                    raise
                except Exception as e:  # noqa
                    kind = "pydantic-rejects-sample"
                    import re as _re
                    if _re.search(r"Optional\[(List\[None\]|Dict\[str, None\])\]", text):
                        # pydantic.v1 does not accept None for Optional[List[None]] / Optional[Dict[str, None]]: the finding
                        # is this one only if the same module with Any as the element type accepts the sample
                        text2 = text.replace("Optional[List[None]]", "Optional[List[Any]]") \
                                    .replace("Optional[Dict[str, None]]", "Optional[Dict[str, Any]]")
                        if "import Any" not in text2 and " Any," not in text2 and ", Any" not in text2:
                            text2 = "from typing import Any\n" + text2
                        try:
                            real.pydantic_parse(real.load_module(text2), cls_name, s)
                            kind = "F4-pydantic-optional-container-of-none"
                        except Exception:  # noqa
                            pass
                    if kind == "pydantic-rejects-sample" and _re.search(r"(?m)^from datetime import ", text):
                        # F2: the library's lenient (dateutil.parser.parse) time detection typed a string as `time` and
                        # pydantic's own parser rejects that string. The finding is this one only if the same module with
                        # `str` in place of `time` (and nothing else changed) accepts the sample (the structural acceptor, which asks the
                        # library's parser, has already accepted it above).
                        lines = []
                        for ln in text.split("\n"):
                            m = _re.match(r"^(\s+\w+: )(.*)$", ln)
                            if m:
                                ln = m.group(1) + _re.sub(r"\btime\b", "str", m.group(2))
                            lines.append(ln)
                        try:
                            real.pydantic_parse(real.load_module("\n".join(lines)), cls_name, s)
                            kind = "F2-lenient-time-detection"
                        except Exception:  # noqa
                            pass
                    return {"kind": kind, "sample": s, "observed": f"{type(e).__name__}: {str(e)[:500]}",
                            "text": text[:4000]}, None
    return None, None


def falsify(ctx):
    rng = ctx.rng("fals")
    registry = stages.make_registry()
    cases = []
    for samples in CORPUS:
        for fw in common.FRAMEWORKS:
            cases.append(([("Root", samples)], fw))
    # a renamed key that is missing from one sample, under every framework (metadata / alias options decide how its
    # default is written)
    for key in ("userId", "class", "kebab-key", "naïve"):
        for fw in common.FRAMEWORKS:
            cases.append(([("Root", [{"name": "first", key: 7}, {"name": "second"}, {"name": "third", key: None}])], fw))
            cases.append(([("Root", [{"name": "first", key: "x"}, {"name": "second"}])], fw))
    # one registry rendered for two frameworks in a row (a field only ever null / a list only ever empty is left out by the
    # pydantic family and must still be there for the others)
    first_fw = {}
    for fw0 in ("pydantic", "sqlmodel", "attrs"):
        for fw in ("dataclasses", "attrs", "base", "pydantic"):
            if fw != fw0:
                first_fw[len(cases)] = fw0
                cases.append(([("Root", [{"id": 1, "deleted_at": None, "tags": [], "sub": {"gone": None, "k": 1}},
                                         {"id": 2, "deleted_at": None, "tags": [], "sub": {"gone": None, "k": 2}}])], fw))
    sweep_from = len(cases)
    for samples in gen.pseudo_mix_sweep():
        cases.append(([("Root", samples)], "pydantic"))
    sweep_to = len(cases)
    fcmps = {}
    for inputs, cm, _ in common.focus_cases(ctx):
        fcmps[len(cases)] = cm
        cases.append((inputs, None))
    n = ctx.n(220, 6000)
    ALL = ("IntString", "FloatString", "BooleanString")
    for i in range(len(cases) + n):
        spec = {"kinds": list(ALL), "datetime": False}
        if i < len(cases):
            inputs, fw = cases[i]
            if sweep_from <= i < sweep_to:
                spec = {"kinds": list(ALL), "datetime": True}
        elif i % 6 == 5:
            # string-type registry contents: a field mixing pseudo-type kinds under registries with / without date-time types
            inputs, fw = [("Root", gen.gen_pseudo_mix(rng))], rng.choice([None, "pydantic", "pydantic"])
            spec = {"kinds": list(rng.choice([ALL, ALL, ("IntString", "FloatString"), ("BooleanString",), ()])),
                    "datetime": rng.random() < 0.7}
        else:
            inputs, fw = common.gen_inputs(rng, styled_p=0.2), None
        cmps = fcmps.get(i) or common.cmps_choice(rng)
        job = common.gen_job(rng, fw=fw)
        job["preamble"] = None
        if i < sweep_from:
            job["meta"] = (i % 2 == 0)
        if i in first_fw:
            job.update({"renderFirst": rng.choice(["flat", "nested"]), "renderFirstFw": first_fw[i]})
            job.pop("structureReuse", None)
        case_registry = registry if spec == {"kinds": list(ALL), "datetime": False} else \
            stages.make_registry(tuple(spec["kinds"]), datetime=spec["datetime"])
        try:
            hit, skip = check_case(inputs, cmps, job, case_registry)
        except (ZeroDivisionError, stages.TooCostly):
            ctx.count("skip:zero-division")
            continue
        except Exception as e:  # noqa
            hit, skip = {"kind": "pipeline-raises", "observed": f"{type(e).__name__}: {e}"}, None
        if skip:
            ctx.count("skip:" + skip)
            continue
        enc = repr(inputs)
        ctx.case((enc, repr(job)), nontrivial=enc.count("{") > 1 or "[" in enc)
        ctx.count("fw:" + job["fw"])
        ctx.sample({"inputs": inputs, "job": job}, limit=2)
        if hit:
            hit.update({"input": inputs, "job": job, "cmps": [stages.enc_cmp(c) for c in cmps], "registry": spec})
            yield hit


def replay(ctx, hit):
    from ..worker import cmps_from
    inputs = [tuple(x) for x in hit["input"]]
    try:
        spec = hit.get("registry") or {"kinds": ["IntString", "FloatString", "BooleanString"], "datetime": False}
        h, _ = check_case(inputs, cmps_from(hit["cmps"]), hit["job"],
                          stages.make_registry(tuple(spec["kinds"]), datetime=spec["datetime"]))
    except stages.TooCostly:
        raise
    except Exception as e:  # noqa
        h = {"kind": "pipeline-raises", "observed": f"{type(e).__name__}: {e}"}
    return h
