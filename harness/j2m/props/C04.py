"""C04 — emitted classes denote exactly the inferred model graph."""
from . import C11 as _c11
from . import common
from .. import stages

RULE = ("every program emitted for G-json inputs x 5 frameworks x both layouts x literal limit / converter / metadata / "
        "unicode options; correspondence: render stage byte-for-byte against the model's text (translation validation per "
        "program); falsifier: exec the module and compare, field by field, the framework's own field table (name, attached "
        "original key, default presence and kind, evaluated annotation) with an independent rendering of "
        "ModelRegistry.models_map; non-trivial = >= 2 classes; distinct by (inputs, job)")
EXPLANATION = "J2M.C04.* over the model's typing code / field bodies; per-program equality of emitted text and model text"
ASSUMPTIONS = _c11.ASSUMPTIONS + ["nested layout on tree-shaped graphs"]


def correspondence(ctx, batch):
    rng = ctx.rng("corr")
    registry = stages.make_registry()
    for _ in range(ctx.n(180, 3000)):
        inputs = common.gen_inputs(rng, styled_p=0.5)
        stages.stage_render(batch, inputs, registry, common.cmps_choice(rng), [common.gen_job(rng) for _ in range(2)])
    for _ in range(ctx.n(30, 400)):
        stages.stage_render(batch, common.gen_inputs(rng, styled_p=0.3), stages.make_registry(datetime=True),
                            common.cmps_choice(rng), [common.gen_job(rng)])


def falsify(ctx):
    for h in _c11.run_falsifier(ctx, True):
        if str(h.get("kind", "")).startswith("F1-"):
            continue
        yield h


def replay(ctx, hit):
    from ..worker import cmps_from
    try:
        h, _ = _c11.check_case([tuple(x) for x in hit["input"]], cmps_from(hit["cmps"]), hit["job"],
                               stages.make_registry(datetime=bool(hit.get("datetime"))), True)
    except stages.TooCostly:
        raise
    except Exception as e:  # noqa
        h = {"kind": "pipeline-raises", "observed": f"{type(e).__name__}: {e}"}
    return h
