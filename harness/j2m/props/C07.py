"""C07 — sample order and repetition do not change what is inferred."""
import itertools

from .. import conv, gen, stages
from . import common

RULE = ("G-json sample lists (<= 4 samples: all permutations; more: random permutations; plus duplications of samples "
        "already given) x merge policies; correspondence: generate and pipeline stages on the permuted/duplicated lists "
        "(the model is asked about every variant); falsifier: canonicalise the real ModelRegistry graph (fields sorted, "
        "union members sorted, names without numeric suffix, models identified by bisimulation from the roots) for a list "
        "and for its permutations/duplications and compare; non-trivial = >= 2 distinct samples; distinct by content")
EXPLANATION = ("J2M.C07.* (key set / optionality of merge_field_sets invariant under permutation and duplication, "
               "DUnion members as a set) + hashStr injectivity (J2M.HashInj) for de-duplication")
ASSUMPTIONS = ["types compared as sets: field order, union member order and numeric suffixes of duplicate class names may differ"]


def variants(rng, samples, k):
    out = []
    if len(samples) <= 4:
        perms = list(itertools.permutations(range(len(samples))))
        rng.shuffle(perms)
        for p in perms[:k]:
            out.append([samples[i] for i in p])
    else:
        for _ in range(k):
            p = list(samples)
            rng.shuffle(p)
            out.append(p)
    dup = list(samples) + [rng.choice(samples) for _ in range(rng.randint(1, 2))]
    out.append(dup)
    d2 = list(samples)
    d2.insert(rng.randrange(len(d2) + 1), rng.choice(samples))
    out.append(d2)
    return out


def correspondence(ctx, batch):
    rng = ctx.rng("corr")
    registry = stages.make_registry()
    for i in range(ctx.n(80, 1500)):
        samples = gen.gen_sample_family(rng) if rng.random() < .7 else gen.gen_samples(rng)
        cmps = common.cmps_choice(rng)
        if i % 8 == 0:
            samples, cmps = gen.gen_chain_samples(rng), []
        elif i % 8 == 4:
            samples = gen.gen_python_equal_samples(rng)
        elif i % 8 == 3:
            samples = gen.gen_object_members(rng)
        elif i % 8 == 2:
            samples, cmps = gen.gen_literal_boundary(rng), []
        elif i % 8 == 1:
            samples, cmps = [{k: v} for k, v in gen.gen_two_pass_merge(rng).items()], []
        elif i % 8 == 5:
            samples = gen.gen_key_order_swap(rng)
        for v in [samples] + variants(rng, samples, 3):
            stages.stage_generate(batch, v, registry)
            if rng.random() < 0.4:
                stages.stage_pipeline(batch, [("Root", v)], registry, cmps, parts=("process", "merge", "replaces"))


def canon_type(t, graph, seen):
    if isinstance(t, str):
        return t
    tag = t[0]
    if tag == "ptr":
        return ("model", canon_model(t[1], graph, seen))
    if tag == "lit":
        return ("lit", t[1], tuple(t[2]))
    if tag == "ser":
        return ("ser", t[1])
    if tag in ("list", "dict", "opt"):
        return (tag, canon_type(t[1], graph, seen))
    if tag in ("union", "tuple"):
        return (tag, tuple(sorted((canon_type(x, graph, seen) for x in t[1]), key=repr)))
    if tag == "obj":
        return ("obj", tuple(sorted(((k, canon_type(v, graph, seen)) for k, v in t[1]), key=repr)))
    raise ValueError(t)


def canon_model(idx, graph, seen):
    """model identified up to index renaming: unfold from the roots, back-references by depth"""
    if idx in seen:
        return ("rec", len(seen) - seen.index(idx))
    seen = seen + [idx]
    fields = graph[idx]
    return tuple(sorted(((k, canon_type(v, graph, seen)) for k, v in fields), key=repr))


def canon_graph(reg):
    graph = {m.index: conv.enc_ty(m.type)[1] for m in reg.models}
    roots = [m.index for m in reg.models if any(p.parent is None for p in m.pointers)]
    all_models = sorted((canon_model(i, graph, []) for i in graph), key=repr)
    return {"roots": sorted((canon_model(i, graph, []) for i in roots), key=repr),
            "models": [m for i, m in enumerate(all_models) if i == 0 or m != all_models[i - 1]]}


def outcome(samples, cmps, registry):
    """canonical graph, or ("RecursionError", raised-inside-==) when the pipeline exhausts the stack"""
    import traceback
    try:
        return canon_graph(stages.build_registry([("Root", samples)], registry, cmps)[0]), None
    except RecursionError as e:
        frames = traceback.extract_tb(e.__traceback__)
        inner = [f.name for f in frames[-40:]]
        return "RecursionError", all(n == "__eq__" for n in inner[-20:])


def check_case(samples, vs, cmps, registry):
    base, base_eq = outcome(samples, cmps, registry)
    for v in vs:
        other, other_eq = outcome(v, cmps, registry)
        if other != base:
            kind = "order-or-repetition-dependent"
            if "RecursionError" in (base, other) and (base_eq or other_eq):
                # one order compares two distinct self-referential models with `==` (infinite recursion), another does not
                kind = "F5-eq-recursion-order-dependent"
            return {"kind": kind, "variant": v,
                    "observed": {"original": repr(base)[:1500], "variant": repr(other)[:1500]}}
    return None


def f5_witness():
    P = {"a": {"a": None, "p1": 1, "p2": 1}, "p1": 1, "p2": 1}
    Q = {"a": {"a": None, "q1": 1, "q2": 1}, "q1": 1, "q2": 1}
    parts = {"p": P, "q": Q, "m1": {"f": 1, "g": 1}, "m2": {"f": P, "g": 1}, "m3": {"f": Q, "g": 1}}
    good = [{k: parts[k]} for k in ("p", "q", "m1", "m2", "m3")]
    bad = [{k: parts[k]} for k in ("p", "q", "m2", "m3", "m1")]
    return good, [bad]


def falsify(ctx):
    rng = ctx.rng("fals")
    registry = stages.make_registry()
    for i in range(ctx.n(150, 4000) + 1):
        r = rng.random()
        samples = gen.gen_sample_family(rng) if r < .6 else gen.gen_shared_samples(rng) if r < .8 else gen.gen_samples(rng)
        cmps = common.cmps_choice(rng)
        if r > .92:
            samples, cmps = gen.gen_chain_samples(rng), []
        elif r > .66 and r <= .72:
            samples = gen.gen_python_equal_samples(rng)
        elif r > .60 and r <= .66:
            samples = gen.gen_key_order_swap(rng)
        elif r > .72 and r <= .78:
            samples, cmps = gen.gen_object_members(rng), common.cmps_choice(rng)
        elif r > .78 and r <= .84:
            samples, cmps = gen.gen_literal_boundary(rng), []
        elif r > .84:
            # similar nested models introduced by different samples: a required field of type X in one, an already
            # optional union in the other — which one the registry meets first follows the sample order
            samples, cmps = [{k: v} for k, v in gen.gen_two_pass_merge(rng).items()], []
        vs = variants(rng, samples, ctx.n(4, 24))
        if i == 0:
            samples, vs = f5_witness()          # the recorded finding, found by the proof of C07R.merge_success_perm_false
            cmps = []
        try:
            hit = check_case(samples, vs, cmps, registry)
        except (ZeroDivisionError, stages.TooCostly):
            continue
        except Exception as e:  # noqa
            hit = {"kind": "pipeline-raises", "observed": f"{type(e).__name__}: {e}"}
        ctx.case(repr(samples), nontrivial=len({repr(s) for s in samples}) > 1)
        ctx.count("variants", len(vs))
        ctx.sample({"samples": samples}, limit=2)
        if hit:
            hit.update({"samples": samples, "cmps": [stages.enc_cmp(c) for c in cmps]})
            yield hit


def replay(ctx, hit):
    from ..worker import cmps_from
    try:
        return check_case(hit["samples"], [hit["variant"]], cmps_from(hit["cmps"]), stages.make_registry())
    except stages.TooCostly:
        raise
    except Exception as e:  # noqa
        return {"kind": "pipeline-raises", "observed": f"{type(e).__name__}: {e}"}
