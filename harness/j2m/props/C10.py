"""C10 — Literal annotations follow the documented limits and hold exact values."""
import typing

from .. import conv, real, stages
from . import common

try:
    from typing import Literal
except ImportError:  # pragma: no cover
    from typing_extensions import Literal

RULE = ("sets of up to 17 strings over an alphabet with quote, backslash, newline, comma, bracket, non-ASCII BMP and astral "
        "characters, lengths 18-21, counts 9-17, optional pseudo-type strings at the same position, max-literals 0..16, all "
        "frameworks; correspondence: mkunion/optimize/generate/render + the string-literal lexer model against "
        "ast.literal_eval; falsifier: evaluate the annotation of the exec'd module and compare with the rule; "
        "non-trivial = at least two distinct plain strings; distinct by (strings, limit, framework)")
EXPLANATION = ("J2M.C10.mkLit_overflow_iff / fold_literals / literal_roundtrip_raw / literal_list_split over the model; "
               "Extracted limits re-checked by the kernel (extracted_limits)")
ASSUMPTIONS = ["CPython's evaluation of the emitted string tokens is what pyLexStr says (validated on every explored token)"]

ALPHA = ["a", "b", "c", "Z", "0", " ", '"', "'", "\\", "\n", "\t", ",", "]", "[", "é", "ß", "日", "😀", "\xa0", "\x7f", "\x01",
         "\u2028", "\u2029", "\x85", "\x0b", "\x0c", "\x1c", "\r"]


def gen_strings(rng):
    n = rng.choice([1, 2, 3, 5, 9, 10, 11, 14, 15, 16, 17])
    out = []
    for _ in range(n):
        r = rng.random()
        ln = rng.choice([18, 19, 20, 21]) if r < 0.12 else rng.randint(0, 6)
        out.append("".join(rng.choice(ALPHA) for _ in range(ln)))
    if rng.random() < 0.25:
        out.append(rng.choice(["1", "2.5", "true"]))
    if rng.random() < 0.1:
        out.append(out[0])
    return out


def limit_sweep(rng):
    """every distinct-count k = 1..17 against the limits k-1, k, k+1 and limits above the built-in 15 (16, 20, 100)"""
    for k in range(1, 18):
        for lim in sorted({max(k - 1, 0), k, k + 1, 16, 20, 100}):
            strings = ["w%dq" % i for i in range(k)]
            rng.shuffle(strings)
            yield strings, lim


def correspondence(ctx, batch):
    rng = ctx.rng("corr")
    registry = stages.make_registry()
    for strings, lim in limit_sweep(rng):
        job = common.gen_job(rng)
        job.update({"maxLit": lim, "layout": "flat", "preamble": None})
        stages.stage_render(batch, [("Root", [{"f": s} for s in strings])], registry, [], [job])
        ctx.count("limit_sweep")
    for _ in range(ctx.n(250, 4000)):
        strings = gen_strings(rng)
        samples = [{"f": s} for s in strings]
        if rng.random() < 0.2:
            samples.append({"f": None})
        if rng.random() < 0.3:
            samples.insert(rng.choice([0, 0, 1, len(samples)]), {"g": 1})
        if rng.random() < 0.15:
            samples = [{"g": 1}, {"f": "ok"}, {"f": "x" * rng.choice([19, 20, 25])}][::rng.choice([1, -1])]
        elif rng.random() < 0.1:
            samples = [{"f": ["w%dq" % j for j in range(rng.choice([2, 3, 9, 15]))] * rng.choice([2, 8, 9])}]
        elif rng.random() < 0.1:
            samples = [{"items": [{"f": a, "g": 1}, {"f": b, "g": 1}]} for a, b in (("a", "b"), ("c", "d"), ("e", rng.choice(["f", "x" * 20])))]
        stages.stage_generate(batch, samples, registry)
        job = common.gen_job(rng)
        job["maxLit"] = rng.randint(0, 16)
        job["layout"] = "flat"
        stages.stage_render(batch, [("Root", samples)], registry, common.cmps_choice(rng), [job])
        if rng.random() < 0.3:
            stages.stage_render(batch, [("Root", [{"inner": smp, "top": 1} for smp in samples])], registry, [],
                                [dict(job, layout="nested")])
        stages.stage_mkunion(batch, [["lit", False, sorted(set(strings[:k]))] for k in (1, 2, len(strings))], registry)
        for s in strings[:3]:
            stages.stage_pylex(batch, s)


def plain_strings(registry, strings):
    return sorted({s for s in strings if not any(conv.accepts(c, s) for c in registry.types)})


def find_literals(tp, out):
    if typing.get_origin(tp) is Literal:
        out.append(tp)
    for a in typing.get_args(tp) if typing.get_origin(tp) is not Literal else ():
        find_literals(a, out)
    return out


def check_case(strings, with_null, job, registry, absent_at=None, nest=False, container=None):
    samples = [{"f": s, "g": 1} for s in strings] + ([{"f": None, "g": 1}] if with_null else [])
    if container == "objlist":
        # the position sits in objects that are members of a list (two per document, several documents): every document's
        # strings must reach the literal
        chunks = [strings[k:k + 2] for k in range(0, len(strings), 2)]
        samples = [{"items": [{"f": x, "g": 1} for x in ch] + ([{"f": ch[0], "g": 1}] if len(ch) == 1 else []), "top": 1}
                   for ch in chunks]
    elif container:
        # the position is the element of ONE list holding all the strings, each `container` times
        samples = [{"f": list(strings) * container, "g": 1}]
    if absent_at is not None:
        samples.insert(min(absent_at, len(samples)), {"g": 1})      # the position is optional by absence
    if nest:
        # the position sits in a model of its own below the root (a nested class in the nested layout)
        samples = [{"inner": smp, "top": 1} for smp in samples]
    if job.get("viaCli"):
        # the same position through the command line: `--max-strings-literals N` given explicitly (0 included) or left out
        import os
        import tempfile
        from .. import clitools
        with tempfile.TemporaryDirectory(prefix="j2m-c10-") as d:
            clitools.write_files(d, {"f.json": samples})
            argv = ["-m", "Root", "f.json", "-f", job["fw"], "-s", job["layout"]]
            if not job.get("omitLimit"):
                argv += ["--max-strings-literals", str(job["maxLit"])]
            rc, out, err = clitools.run_cli(argv, d, os.environ.get("J2M_REPO", "/repo"))
        if rc != 0:
            return {"kind": "module-does-not-load", "observed": f"CLI exit {rc}: {err[-300:]}", "argv": argv}
        text = out
    else:
        reg, text = real.run_library([("Root", samples)], registry, [], job)
    ns = real.load_module(text)
    cls = ns["Root"]
    chain = []
    if container == "objlist":
        found = [(c, ch) for q, c, ch in real.collect_classes(ns) if c.__name__ == "Item"]
        if not found:
            return {"kind": "module-does-not-load", "observed": "class Item not found", "text": text}
        cls, chain = found[0]
    if nest:
        found = [(c, ch) for q, c, ch in real.collect_classes(ns) if c.__name__ == "Inner"]
        if not found:
            return {"kind": "module-does-not-load", "observed": "class Inner not found", "text": text}
        cls, chain = found[0]
    ann = real.hints(cls, ns, chain)
    name = "f"
    if container and container != "objlist" and typing.get_origin(ann[name]) not in (list, typing.List):
        return {"kind": "module-does-not-load", "observed": f"list field annotated {ann[name]!r}", "text": text}
    lits = find_literals(ann[name], [])
    P = plain_strings(registry, strings)
    # "whenever, in addition, no string at that position had to be generalised to str": pseudo-typed strings of kinds
    # that do not resolve to one type are generalised to str, which then absorbs the literals
    kinds = []
    for s_ in strings:
        k = next((c for c in registry.types if conv.accepts(c, s_)), None)
        if k is not None and k not in kinds:
            kinds.append(k)
    generalised = len(registry.resolve(*kinds)) > 1 if kinds else False
    limit = job["maxLit"]
    expect = bool(P) and all(len(s) < 20 for s in P) and len(P) <= 15 and len(P) < limit and job["fw"] != "attrs"
    if expect and generalised:
        if lits and list(typing.get_args(lits[0])) != P:
            return {"kind": "literal-values-differ", "observed": {"expected": P, "evaluated": list(typing.get_args(lits[0]))}, "text": text}
        return None
    if expect:
        if len(lits) != 1:
            return {"kind": "literal-missing", "observed": f"expected Literal{P!r}, annotation is {ann[name]!r}", "text": text}
        got = list(typing.get_args(lits[0]))
        if got != P:
            return {"kind": "literal-values-differ", "observed": {"expected": P, "evaluated": got}, "text": text}
    elif lits:
        return {"kind": "literal-unexpected", "observed": f"rule forbids a Literal here (|P|={len(P)}, limit={limit}, fw={job['fw']}), "
                                                       f"annotation is {ann[name]!r}", "text": text}
    return None


def falsify(ctx):
    rng = ctx.rng("fals")
    registry = stages.make_registry()
    sweep = list(limit_sweep(rng))
    for i in range(len(sweep) + ctx.n(400, 8000)):
        job = common.gen_job(rng)
        if i < len(sweep):
            strings, lim = sweep[i]
        else:
            strings, lim = gen_strings(rng), rng.choice(list(range(17)) + [20, 100])
        nest = rng.random() < 0.3
        job.update({"maxLit": lim, "layout": rng.choice(["flat", "nested"]) if nest else "flat", "preamble": None, "postInit": False})
        with_null = rng.random() < 0.2
        absent_at = rng.choice([None, None, 0, 1, len(strings)])
        if i >= len(sweep) and rng.random() < 0.25:
            # short strings first, a long one later (and the other way round), the key missing somewhere
            strings = ["ok", "failed"][:rng.randint(1, 2)] + ["x" * rng.choice([19, 20, 25])]
            if rng.random() < 0.5:
                strings.reverse()
            absent_at = rng.choice([0, 0, 1, None])
        container = None
        if i >= len(sweep) and rng.random() < 0.15:
            # few distinct values, many occurrences in one list (multiplicity is not distinctness)
            strings = ["w%dq" % j for j in range(rng.choice([2, 3, 5, 9, 15]))]
            container, with_null, absent_at = rng.choice([2, 4, 8, 9]), False, None
            job["maxLit"] = rng.choice([10, 16, 20])
        if i >= len(sweep) and container is None and rng.random() < 0.12:
            container, with_null, absent_at, nest = "objlist", False, None, False
            if rng.random() < 0.5:
                strings = ["a", "b", "c", "d", rng.choice(["e", "x" * 20, "f"])][:rng.randint(3, 5)]
        if i >= len(sweep) and (i - len(sweep)) < ctx.n(14, 80):
            # through the command line: the limit given explicitly (0, 1, around the number of values, the default, above
            # it) or left out
            k = rng.choice([2, 3, 5, 9, 12])
            strings = ["v%dz" % j for j in range(k)]
            lim = [0, 0, 1, k, k + 1, 10, 16, 20, None][(i - len(sweep)) % 9]
            job.update({"viaCli": True, "fw": rng.choice(["base", "dataclasses", "pydantic"]), "meta": False,
                        "convertUnicode": True, "maxLit": 10 if lim is None else lim, "omitLimit": lim is None})
            job.pop("renderFirst", None)
            container, with_null, absent_at = None, False, None
        try:
            hit = check_case(strings, with_null, job, registry, absent_at, nest, container)
        except stages.TooCostly:
            ctx.count("skip:too-costly")
            continue
        except Exception as e:  # noqa
            hit = {"kind": "module-does-not-load", "observed": f"{type(e).__name__}: {e}"}
        ctx.case((tuple(strings), job["maxLit"], job["fw"]), nontrivial=len(set(strings)) >= 2)
        ctx.sample({"strings": strings, "maxLit": job["maxLit"], "fw": job["fw"]}, limit=3)
        if hit:
            hit.update({"strings": strings, "with_null": with_null, "job": job, "absent_at": absent_at, "nest": nest, "container": container})
            yield hit


def replay(ctx, hit):
    try:
        return check_case(hit["strings"], hit["with_null"], hit["job"], stages.make_registry(), hit.get("absent_at"),
                          hit.get("nest", False), hit.get("container"))
    except stages.TooCostly:
        raise
    except Exception as e:  # noqa
        return {"kind": "module-does-not-load", "observed": f"{type(e).__name__}: {e}"}
