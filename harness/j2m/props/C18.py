"""C18 — generated attrs/dataclass models construct from their samples and convert."""
import datetime

from json_to_models.dynamic_typing import StringSerializable

from .. import conv, real, stages
from . import common

RULE = ("inputs whose fields hold string pseudo-types at nesting paths over {Optional, List, Dict} up to depth 3, with empty "
        "containers, nulls and plain fields x {attrs, dataclasses} x converters on/off; correspondence: render stage "
        "(decorator text, per-field converters, paths) ; falsifier: exec the module, construct the root class from each "
        "sample's values and compare every converted field with an independent walk; non-trivial = a pseudo-type below at "
        "least one wrapper; distinct by (samples, job)")
EXPLANATION = "J2M.C18.* over the model of get_string_field_paths / _process_string_field_value (Converters)"
ASSUMPTIONS = ["attrs without post-init converters: claimed for integer and float strings only (boolean/date-like listed as "
               "known finding F3)"]

LEAVES = [["1", "22", "-3"], ["1.5", "2", "1e3"], ["true", "false", "True"]]


def gen_field(rng, depth, leaf):
    r = rng.random()
    if depth <= 0 or r < 0.35:
        return rng.choice(leaf)
    if r < 0.65:
        xs = [gen_field(rng, depth - 1, leaf) for _ in range(rng.choice([0, 1, 2]))]
        if rng.random() < 0.3:
            xs.insert(rng.randrange(len(xs) + 1), None)          # null inside a list: List[Optional[...]]
        return xs
    d = {k: gen_field(rng, depth - 1, leaf) for k in rng.sample(["p", "q", "r"], k=rng.choice([0, 1, 2]))}
    if rng.random() < 0.25:
        d["z"] = None                                            # null inside a mapping: Dict[str, Optional[...]]
    return d


def same_shape(rng, v, leaf):
    """another value of the same nesting shape (so that the field stays a chain over one pseudo-type)"""
    if isinstance(v, str):
        return rng.choice(leaf)
    if v is None:
        return None
    if isinstance(v, list):
        return [same_shape(rng, x, leaf) for x in v] if rng.random() < .7 else []
    return {k: same_shape(rng, x, leaf) for k, x in v.items()} if rng.random() < .7 else {}


def gen_samples(rng, leaves=LEAVES):
    n = rng.randint(1, 3)
    fields = {}
    # keys whose field name differs from the key (camelCase, keyword, kebab, space, builtin, non-ASCII) next to plain ones
    for name in rng.sample(["a", "b", "c", "itemIds", "maxValue", "class", "kebab-key", "with space", "list", "naïve"],
                           k=rng.randint(1, 4)):
        leaf = rng.choice(leaves)
        fields[name] = (gen_field(rng, rng.randint(0, 3), leaf), leaf)
    samples = []
    for i in range(n):
        s = {}
        for name, (v, leaf) in [kv for kv in fields.items() if kv[0] != "dict_leaf"]:
            r = rng.random()
            if i > 0 and r < 0.15:
                continue                       # missing -> Optional
            if i > 0 and r < 0.3:
                s[name] = None                 # null -> Optional
                continue
            s[name] = v if i == 0 else same_shape(rng, v, leaf)
        s["plain"] = rng.choice(["x", 1, None, [1, 2], {"k": "v"}])
        dl = leaves[-1] if i == 0 or "dict_leaf" not in fields else fields["dict_leaf"]
        fields["dict_leaf"] = dl
        s["dict_field"] = {"u": rng.choice(dl), "w": rng.choice(dl)}
        samples.append(s)
    return samples


def gen_chain(rng, depth, kind, under_opt=False):
    if depth <= 0:
        return ["ser", kind]
    tag = rng.choice(["list", "dict"] if under_opt else ["opt", "list", "dict"])     # Optional is never nested in Optional
    return [tag, gen_chain(rng, depth - 1, kind, tag == "opt")]


def gen_chain_value(rng, ty, leaf, in_domain=True):
    tag = ty[0]
    if tag == "ser":
        return rng.choice(leaf) if in_domain or rng.random() < .7 else rng.choice(["zzz", "", "x y"])     # strings the parser rejects; non-string leaves are outside the modelled domain
    if tag == "opt":
        return None if rng.random() < .3 else gen_chain_value(rng, ty[1], leaf, in_domain)
    if tag == "list":
        return [gen_chain_value(rng, ty[1], leaf, in_domain) for _ in range(rng.choice([0, 1, 2]))]
    return {k: gen_chain_value(rng, ty[1], leaf, in_domain) for k in rng.sample(["p", "q"], k=rng.choice([0, 1, 2]))}


def path_of(ty):
    return {"ser": ["S"]}.get(ty[0]) or [{"opt": "O", "list": "L", "dict": "D"}[ty[0]]] + path_of(ty[1])


def correspondence(ctx, batch):
    rng = ctx.rng("corr")
    registry = stages.make_registry()
    kinds = [("IntString", LEAVES[0]), ("FloatString", LEAVES[1]), ("BooleanString", LEAVES[2])]
    for _ in range(ctx.n(300, 5000)):
        kind, leaf = rng.choice(kinds)
        ty = gen_chain(rng, rng.randint(0, 3), kind)
        stages.stage_convert(batch, ty, path_of(ty), gen_chain_value(rng, ty, leaf, rng.random() < .8), registry)
    from .. import gen as _gen
    for _ in range(ctx.n(150, 2500)):
        fields = [[k, _gen.gen_ir(rng, 3) if rng.random() < .5 else gen_chain(rng, rng.randint(0, 3), "IntString")]
                  for k in rng.sample(["a", "b", "c", "d"], k=rng.randint(1, 4))]
        # registered models never hold raw dicts (process_meta_data replaces them by pointers): outside the domain
        fields = [f for f in fields if '"obj"' not in __import__("json").dumps(f)]
        stages.stage_paths(batch, fields)
    for _ in range(ctx.n(200, 3000)):
        samples = gen_samples(rng)
        job = common.gen_job(rng, fw=rng.choice(["attrs", "dataclasses", "base"]), layout="flat")
        stages.stage_render(batch, [("Root", samples)], registry, [], [job], dict_fields=["dict_field"])


def expected_value(ann, v, ns):
    """independent walk: parse every string below a pseudo-type annotation"""
    import typing
    if v is None:
        return None
    origin = typing.get_origin(ann)
    args = typing.get_args(ann)
    if origin is typing.Union:
        inner = [a for a in args if a is not type(None)]
        if len(inner) == 1:
            return expected_value(inner[0], v, ns)
        return v
    if origin is list and isinstance(v, list):
        return [expected_value(args[0], x, ns) for x in v]
    if origin is dict and isinstance(v, dict):
        return {k: expected_value(args[1], x, ns) for k, x in v.items()}
    if isinstance(ann, type) and issubclass(ann, StringSerializable) and isinstance(v, str):
        return ann.to_internal_value(v)
    return v


def is_chain(ann):
    import typing
    origin = typing.get_origin(ann)
    args = typing.get_args(ann)
    if origin is typing.Union:
        inner = [a for a in args if a is not type(None)]
        return len(inner) == 1 and len(args) == 2 and is_chain(inner[0])
    if origin is list:
        return is_chain(args[0])
    if origin is dict:
        return is_chain(args[1])
    return isinstance(ann, type) and issubclass(ann, StringSerializable)


def kind_of(ann):
    import typing
    for a in typing.get_args(ann) or ():
        k = kind_of(a)
        if k:
            return k
    if isinstance(ann, type) and issubclass(ann, StringSerializable):
        return ann.__name__
    return None


def check_case(samples, job, registry):
    reg, text = real.run_library([("Root", samples)], registry, [], job, dict_fields=["dict_field"])
    ns = real.load_module(text)
    cls = ns["Root"]
    hs = real.hints(cls, ns, [])
    table = real.field_table(cls, job["fw"])
    from json_to_models.models.base import prepare_label
    for s in samples:
        kwargs = {}
        for k, v in s.items():
            kwargs[prepare_label(k, convert_unicode=job.get("convertUnicode", True), to_snake_case=True)] = v
        import copy as _copy
        before = _copy.deepcopy(kwargs)
        try:
            obj = cls(**kwargs)
            if kwargs != before or repr(kwargs) != repr(before):
                return {"kind": "sample-mutated-by-construction", "sample": s,
                        "observed": f"the caller's data changed from {before!r} to {kwargs!r}"[:600], "text": text[:3000]}
            cls(**kwargs)                   # the same sample object builds a second instance just as well
        except stages.TooCostly:
            raise
        except Exception as e:  # noqa
            return {"kind": "construction-raises", "sample": s, "observed": f"{type(e).__name__}: {e}", "text": text[:3000]}
        for name, ann in hs.items():
            if name not in kwargs:
                continue
            got = getattr(obj, name)
            raw = kwargs[name]
            if job.get("postInit"):
                want = expected_value(ann, raw, ns) if is_chain(ann) else raw
            else:
                want = raw
                if job["fw"] == "attrs" and kind_of(ann) in ("IntString", "FloatString") and is_chain(ann):
                    import typing
                    flat = ann if isinstance(ann, type) else None
                    args = typing.get_args(ann)
                    if flat is None and typing.get_origin(ann) is typing.Union and len(args) == 2:
                        inner = [a for a in args if a is not type(None)][0]
                        flat = inner if isinstance(inner, type) else None
                    if flat is not None:
                        want = expected_value(ann, raw, ns)       # per-field converter form
                    else:
                        continue
                elif job["fw"] == "attrs" and kind_of(ann) and is_chain(ann):
                    continue                                       # boolean/date-like per-field converters: finding F3
            if want != got or type(want) is not type(got):
                return {"kind": "converted-value", "sample": s, "field": name,
                        "observed": f"{name}: got {got!r} ({type(got).__name__}), expected {want!r} ({type(want).__name__})",
                        "text": text[:3000]}
    return None


def falsify(ctx):
    rng = ctx.rng("fals")
    registry = stages.make_registry()
    for _ in range(ctx.n(300, 6000)):
        job = common.gen_job(rng, fw=rng.choice(["attrs", "dataclasses"]), layout="flat")
        job["preamble"] = None
        # attrs per-field converters are claimed for integer/float strings only (F3 covers the rest)
        samples = gen_samples(rng, LEAVES[:2] if (job["fw"] == "attrs" and not job["postInit"]) else LEAVES)
        try:
            hit = check_case(samples, job, registry)
        except stages.TooCostly:
            ctx.count("skip:too-costly")
            continue
        except Exception as e:  # noqa
            hit = {"kind": "pipeline-raises", "observed": f"{type(e).__name__}: {e}"}
        enc = repr(samples)
        ctx.case((enc, repr(job)), nontrivial="[" in enc or enc.count("{") > 2)
        ctx.count("fw:%s/postInit=%s" % (job["fw"], job["postInit"]))
        ctx.sample({"samples": samples, "job": job}, limit=2)
        if hit:
            hit.update({"samples": samples, "job": job})
            yield hit
    # the listed known finding: attrs per-field converter for boolean strings calls the class, not the parser
    try:
        f3 = check_f3(registry)
    except stages.TooCostly:
        raise
    except Exception as e:  # noqa
        f3 = {"kind": "F3-attrs-bool-converter", "observed": f"{type(e).__name__}: {e}"}
    if f3:
        yield f3


def check_f3(registry):
    samples = [{"flag": "true"}]
    job = {"fw": "attrs", "layout": "flat", "maxLit": 10, "postInit": False, "convertUnicode": True, "meta": False}
    reg, text = real.run_library([("Root", samples)], registry, [], job)
    ns = real.load_module(text)
    try:
        obj = ns["Root"](flag="true")
    except stages.TooCostly:
        raise
    except Exception as e:  # noqa
        return {"kind": "F3-attrs-bool-converter", "samples": samples, "job": job,
                "observed": f"constructing from 'true' raises {type(e).__name__}: {e}"}
    return None


def replay(ctx, hit):
    try:
        return check_case(hit["samples"], hit["job"], stages.make_registry())
    except stages.TooCostly:
        raise
    except Exception as e:  # noqa
        return {"kind": "pipeline-raises", "observed": f"{type(e).__name__}: {e}"}
