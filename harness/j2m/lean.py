"""Run the Lean line-protocol driver on a batch of requests."""
import json
import os
import subprocess
import tempfile

LEAN_DIR = os.path.join(os.path.dirname(os.path.dirname(os.path.dirname(os.path.abspath(__file__)))), "lean")


def run_batch(requests, timeout=900):
    """requests: list of dicts -> list of responses (dicts)"""
    if not requests:
        return []
    with tempfile.TemporaryDirectory(prefix="j2m-lean-") as d:
        inp = os.path.join(d, "in.jsonl")
        with open(inp, "w", encoding="utf-8") as f:
            for r in requests:
                f.write(json.dumps(r, ensure_ascii=True))
                f.write("\n")
        with open(inp, "rb") as fin:
            p = subprocess.run(["lake", "env", "lean", "--run", "Main.lean"], cwd=LEAN_DIR, stdin=fin,
                               stdout=subprocess.PIPE, stderr=subprocess.PIPE, timeout=timeout)
    out = [l for l in p.stdout.decode("utf-8").split("\n") if l.strip()]
    if p.returncode != 0 or len(out) != len(requests):
        raise RuntimeError(f"lean driver failed rc={p.returncode} got {len(out)}/{len(requests)} lines\n"
                           f"stderr: {p.stderr.decode('utf-8', 'replace')[-2000:]}\nlast: {out[-1:] }")
    return [json.loads(l) for l in out]
