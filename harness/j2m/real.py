"""Direct observation of the real code (used by falsifiers only; never consults the Lean model)."""
import os
import copy
import dataclasses
import datetime
import sys
import types
import typing
from inspect import isclass

from . import stages

try:
    from typing import Literal
except ImportError:  # pragma: no cover
    from typing_extensions import Literal

from json_to_models.dynamic_typing import StringSerializable
from json_to_models.models.base import METADATA_FIELD_NAME, prepare_label


def sqlmodel_stub():
    m = types.ModuleType("sqlmodel")

    class SQLModel:
        def __init_subclass__(cls, table=False, **kw):
            super().__init_subclass__(**kw)

    def Field(default=..., **kw):
        return _StubField(default, kw)

    m.SQLModel = SQLModel
    m.Field = Field
    return m


class _StubField:
    def __init__(self, default, kw):
        self.default = default
        self.kw = kw
        self.alias = kw.get("alias")


def load_module(text, name="j2m_generated"):
    """compile + exec the emitted text as a module with only its own imports (sqlmodel is a stub package)"""
    had = sys.modules.get("sqlmodel")
    stub = None
    if had is None:
        stub = sqlmodel_stub()
        sys.modules["sqlmodel"] = stub
    try:
        mod = types.ModuleType(name)
        mod.__dict__["__name__"] = name
        sys.modules[name] = mod
        try:
            exec(compile(text, f"<{name}>", "exec"), mod.__dict__)
        finally:
            sys.modules.pop(name, None)
        return mod.__dict__
    finally:
        if stub is not None:
            sys.modules.pop("sqlmodel", None)


def collect_classes(ns):
    """classes defined by the module (recursively through nested classes) -> list of (qualname, cls, enclosing chain)"""
    out = []
    name = ns.get("__name__")

    def walk(cls, chain):
        out.append((cls.__qualname__, cls, chain))
        for v in list(vars(cls).values()):
            if isclass(v) and getattr(v, "__module__", None) == name and v.__qualname__.startswith(cls.__qualname__ + "."):
                walk(v, chain + [cls])

    for v in list(ns.values()):
        if isclass(v) and getattr(v, "__module__", None) == name and "." not in v.__qualname__:
            walk(v, [])
    return out


def local_ns(chain, cls):
    """names a class's string annotations can use beyond the module's globals: the classes defined in its own body (Python
    does not nest class scopes — an enclosing class's other members are NOT visible; the generator refers to those by an
    absolute dotted path). A top-level class also sees its own name (it is a module global)."""
    ns = {k: v for k, v in vars(cls).items() if isclass(v)}
    if not chain:
        ns[cls.__name__] = cls
    return ns


def hints(cls, ns, chain):
    """annotations of the class's own fields, evaluated the way the observation point does (enclosing namespaces)"""
    ann = dict(vars(cls).get("__annotations__", {}))
    loc = local_ns(chain, cls)
    out = {}
    for k, v in ann.items():
        if isinstance(v, str):
            v = typing.ForwardRef(v)
        out[k] = typing._eval_type(v, ns, loc) if not isinstance(v, typing.ForwardRef) else _eval_ref(v, ns, loc)
    return out


def _eval_ref(ref, ns, loc):
    return typing._eval_type(ref, ns, loc)


def resolve(tp, ns, loc):
    return typing._eval_type(tp, ns, loc)


def field_table(cls, fw, convert_unicode=True):
    """python field name -> (original key or None when not attached, has_default, default_repr)"""
    out = {}
    ann = vars(cls).get("__annotations__", {})
    for name in ann:
        key = None
        has_default = False
        default = None
        if fw == "pydantic":
            f = cls.__fields__[name]
            key = f.alias if f.alias != name else None
            has_default = not f.required
            default = f.default if f.default_factory is None else f.default_factory()
        elif fw == "sqlmodel":
            v = vars(cls).get(name, dataclasses.MISSING)
            if isinstance(v, _StubField):
                key = v.alias
                has_default = v.default is not ...
                default = v.default
            elif v is not dataclasses.MISSING:
                has_default = True
                default = v
        elif fw == "attrs":
            import attr
            a = getattr(attr.fields(cls), name)
            key = a.metadata.get(METADATA_FIELD_NAME)
            has_default = a.default is not attr.NOTHING
            if has_default:
                default = a.default.factory() if isinstance(a.default, attr.Factory) else a.default
        elif fw == "dataclasses":
            f = {f.name: f for f in dataclasses.fields(cls)}[name]
            key = f.metadata.get(METADATA_FIELD_NAME)
            if f.default is not dataclasses.MISSING:
                has_default, default = True, f.default
            elif f.default_factory is not dataclasses.MISSING:
                has_default, default = True, f.default_factory()
        else:
            v = vars(cls).get(name, dataclasses.MISSING)
            if v is not dataclasses.MISSING:
                has_default, default = True, v
        out[name] = (key, has_default, default)
    return out


class Acceptor:
    """structural acceptance of a JSON value by an annotation of the loaded module"""

    def __init__(self, ns, fw, convert_unicode=True, attached=True):
        self.ns = ns
        self.fw = fw
        self.convert_unicode = convert_unicode
        self.attached = attached          # original keys are attached (alias / metadata on)
        self.classes = {c: (q, chain) for q, c, chain in collect_classes(ns)}
        self.problems = []

    def label(self, key):
        if self.fw == "sqlmodel" and key in ("id", "pk"):
            return key
        return prepare_label(key, convert_unicode=self.convert_unicode, to_snake_case=True)

    def accepts(self, tp, v, path="$"):
        if tp is typing.Any:
            return True
        if tp is None or tp is type(None):
            return v is None
        if self.fw in ("pydantic", "sqlmodel") and type(v) is str and tp in (int, float, bool):
            # these frameworks annotate string pseudo-types with their actual type and parse the string
            from json_to_models.dynamic_typing import BooleanString, FloatString, IntString
            cls = {int: IntString, float: FloatString, bool: BooleanString}[tp]
            try:
                cls.to_internal_value(v)
            except ValueError:
                return False
            return True
        if tp is int:
            return type(v) is int
        if tp is float:
            return type(v) in (int, float)
        if tp is bool:
            return type(v) is bool
        if tp is str:
            return type(v) is str
        origin = typing.get_origin(tp)
        args = typing.get_args(tp)
        if origin is typing.Union:
            mark = len(self.problems)
            for a in args:
                if self.accepts(a, v, path):
                    del self.problems[mark:]      # explanations of the members that did not match are irrelevant
                    return True
            return False
        if origin is list:
            return type(v) is list and all(self.accepts(args[0], x, path + "[]") for x in v)
        if origin is dict:
            return isinstance(v, dict) and all(self.accepts(args[1], x, path + "{}") for x in v.values())
        if origin is Literal:
            return type(v) is str and v in args
        if isclass(tp) and issubclass(tp, StringSerializable):
            if type(v) is not str:
                return False
            try:
                tp.to_internal_value(v)
            except ValueError:
                return False
            return True
        if tp in (datetime.date, datetime.datetime, datetime.time):
            return type(v) is str     # pydantic's own parsing decides; checked by parse_obj
        if tp in self.classes:
            return self.accepts_obj(tp, v, path)
        self.problems.append(f"{path}: unexpected annotation {tp!r}")
        return False

    def accepts_obj(self, cls, v, path):
        if not isinstance(v, dict):
            return False
        q, chain = self.classes[cls]
        hs = hints(cls, self.ns, chain)
        table = field_table(cls, self.fw)
        by_key = {}
        for name, (key, has_default, _) in table.items():
            by_key.setdefault(key if key is not None else name, []).append(name)
        ok = True
        used = set()
        for k, x in v.items():
            names = by_key.get(k)
            if names is None:
                try:
                    lbl = self.label(k)
                except Exception:  # noqa
                    lbl = None
                names = by_key.get(lbl) if (lbl is not None and not self.attached) else None
                if names is None and lbl is not None and lbl == k:
                    names = by_key.get(lbl)
            if not names:
                if self.fw in ("pydantic", "sqlmodel") and x is None:
                    continue     # may be a dropped all-null key; checked against the samples by the caller
                self.problems.append(f"{path}.{k}: key has no field in {q}")
                ok = False
                continue
            if len(names) != 1:
                self.problems.append(f"{path}.{k}: key maps to {len(names)} fields")
                ok = False
                continue
            used.add(names[0])
            if not self.accepts(hs[names[0]], x, path + "." + k):
                self.problems.append(f"{path}.{k}: value {x!r} not in {hs[names[0]]!r}")
                ok = False
        for name, (key, has_default, _) in table.items():
            if self.fw == "base" and (type(None) in typing.get_args(hs[name]) or hs[name] is type(None)):
                # (Optional[None] evaluates to NoneType itself)
                continue     # the plain generator emits annotations only: Optional[...] marks what may be absent
            if not has_default and name not in used:
                self.problems.append(f"{path}: required field {name} of {q} absent")
                ok = False
        return ok


def pydantic_parse(ns, root_name, sample):
    """`Root.parse_obj(sample)` after `update_forward_refs` with enclosing namespaces"""
    top = {k: v for k, v in ns.items() if isclass(v)}      # module globals (the module object itself is gone)
    for q, cls, chain in collect_classes(ns):
        cls.update_forward_refs(**{**top, **local_ns(chain, cls)})
    return ns[root_name].parse_obj(copy.deepcopy(sample))


def run_library(inputs, registry, cmps, job, dict_fields=(), dict_regex=()):
    reg, gen = stages.build_registry(inputs, registry, cmps, dict_fields, dict_regex)
    if job.get("renderFirst"):
        # the registry has been rendered once before, in the other layout (a library user may emit both): the text under
        # test is the second rendering
        try:
            stages.render_impl(reg, dict(job, layout=job["renderFirst"], fw=job.get("renderFirstFw", job["fw"])))
        except Exception:  # noqa
            pass
    if job.get("structureReuse") and job.get("convertUnicode", True):
        # ONE structure (compose_models result) rendered twice: first without unicode conversion, then as asked — class
        # names change in between, every reference of the second text must follow
        from json_to_models.models.base import generate_code
        from json_to_models.models.structure import compose_models, compose_models_flat
        fn = compose_models if job.get("layout", "flat") == "nested" else compose_models_flat
        structure = fn(reg.models_map)
        first = dict(job, convertUnicode=False, omitDefaults=False)
        try:
            generate_code(structure, stages.GENERATORS[job["fw"]], class_generator_kwargs=stages.job_kwargs(first))
        except Exception:  # noqa
            pass
        return reg, generate_code(structure, stages.GENERATORS[job["fw"]], class_generator_kwargs=stages.job_kwargs(job) or None,
                                  preamble=job.get("preamble"))
    return reg, stages.render_impl(reg, job)
