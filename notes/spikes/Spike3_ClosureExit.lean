namespace J2M.Closure

abbrev Grp := List Nat

def overlap (a b : Grp) : Bool := a.any (fun x => b.contains x)
def unionG (a b : Grp) : Grp := a ++ b.filter (fun x => !a.contains x)

theorem mem_unionG {a b : Grp} {x : Nat} : x ∈ unionG a b ↔ x ∈ a ∨ x ∈ b := by
  unfold unionG
  simp only [List.mem_append, List.mem_filter, List.contains_eq_mem, Bool.not_eq_true',
    decide_eq_false_iff_not]
  constructor
  · rintro (h | ⟨h, _⟩) <;> simp [h]
  · rintro (h | h)
    · exact Or.inl h
    · by_cases ha : x ∈ a
      · exact Or.inl ha
      · exact Or.inr ⟨h, ha⟩

theorem overlap_iff {a b : Grp} : overlap a b = true ↔ ∃ x, x ∈ a ∧ x ∈ b := by
  unfold overlap; simp [List.any_eq_true]

/-- reachability in the similarity graph -/
inductive Reach (sim : Nat → Nat → Prop) : Nat → Nat → Prop
  | refl (a) : Reach sim a a
  | step {a b c} : Reach sim a b → (sim b c ∨ sim c b) → Reach sim a c

theorem Reach.trans {sim} {a b c : Nat} (h1 : Reach sim a b) (h2 : Reach sim b c) : Reach sim a c := by
  induction h2 with
  | refl => exact h1
  | step _ e ih => exact .step ih e

theorem Reach.symm {sim} {a b : Nat} (h : Reach sim a b) : Reach sim b a := by
  induction h with
  | refl => exact .refl _
  | step _ e ih =>
    have : Reach sim _ _ := .step (.refl _) (e.symm)
    exact this.trans ih

def Conn (sim : Nat → Nat → Prop) (g : Grp) : Prop := ∀ a ∈ g, ∀ b ∈ g, Reach sim a b
def Cover (sim : Nat → Nat → Prop) (gs : List Grp) : Prop := ∀ a b, sim a b → ∃ g ∈ gs, a ∈ g ∧ b ∈ g
def NoOverlap (gs : List Grp) : Prop :=
  ∀ i j (hi : i < gs.length) (hj : j < gs.length), i ≠ j → overlap gs[i] gs[j] = false

theorem conn_union {sim} {g h : Grp} (hg : Conn sim g) (hh : Conn sim h) (ho : overlap g h = true) :
    Conn sim (unionG g h) := by
  obtain ⟨x, xg, xh⟩ := overlap_iff.mp ho
  intro a ha b hb
  rcases mem_unionG.mp ha with ha | ha <;> rcases mem_unionG.mp hb with hb | hb
  · exact hg a ha b hb
  · exact (hg a ha x xg).trans (hh x xh b hb)
  · exact (hh a ha x xh).trans (hg x xg b hb)
  · exact hh a ha b hb

/-- exit condition of the loop + invariants ⇒ groups are exactly the components that have an edge -/
theorem exit_components {sim : Nat → Nat → Prop} {gs : List Grp}
    (hconn : ∀ g ∈ gs, Conn sim g) (hcov : Cover sim gs) (hno : NoOverlap gs)
    {a b : Nat} (hab : a ≠ b) :
    Reach sim a b ↔ ∃ g ∈ gs, a ∈ g ∧ b ∈ g := by
  constructor
  · intro h
    -- stronger: for every vertex c reached from a with c ≠ a, there is a group containing a and c
    have key : ∀ c, Reach sim a c → c ≠ a → ∃ g ∈ gs, a ∈ g ∧ c ∈ g := by
      intro c hc
      induction hc with
      | refl => intro h; exact absurd rfl h
      | @step m c hr e ih =>
        intro hca
        -- the edge m–c lies in some group ge
        obtain ⟨ge, hge, hm, hc'⟩ : ∃ g ∈ gs, m ∈ g ∧ c ∈ g := by
          rcases e with e | e
          · exact hcov _ _ e
          · obtain ⟨g, hg, h1, h2⟩ := hcov _ _ e; exact ⟨g, hg, h2, h1⟩
        by_cases hma : m = a
        · subst hma; exact ⟨ge, hge, hm, hc'⟩
        · obtain ⟨g1, hg1, ha1, hm1⟩ := ih hma
          -- g1 and ge share m, hence are the same list position
          obtain ⟨i, hi, rfl⟩ := List.getElem_of_mem hg1
          obtain ⟨j, hj, rfl⟩ := List.getElem_of_mem hge
          by_cases hij : i = j
          · subst hij; exact ⟨_, hg1, ha1, hc'⟩
          · have := hno i j hi hj hij
            have ho : overlap gs[i] gs[j] = true := overlap_iff.mpr ⟨m, hm1, hm⟩
            rw [this] at ho; cases ho
    exact key b h (Ne.symm hab)
  · rintro ⟨g, hg, ha, hb⟩
    exact hconn g hg a ha b hb

end J2M.Closure
