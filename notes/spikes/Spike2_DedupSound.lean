import J2M.Basic
namespace J2M

/-- strict inhabitation as an inductive predicate -/
inductive Inh (parse : Kind → String → Bool) : Ty → Json → Prop
  | int {i} : Inh parse .int (.int i)
  | floatF {x} : Inh parse .float (.float x)
  | floatI {i} : Inh parse .float (.int i)
  | bool {b} : Inh parse .bool (.bool b)
  | str {s} : Inh parse .str (.str s)
  | null : Inh parse .null .null
  | ser {k s} : parse k s = true → Inh parse (.ser k) (.str s)
  | lit {vs s} : s ∈ vs → Inh parse (.lit false vs) (.str s)
  | list {t xs} : (∀ x ∈ xs, Inh parse t x) → Inh parse (.list t) (.arr xs)
  | optNull {t} : Inh parse (.opt t) .null
  | optSome {t v} : Inh parse t v → Inh parse (.opt t) v
  | union {ts t v} : t ∈ ts → Inh parse t v → Inh parse (.union ts) v

/-- dedup by hash string, first occurrence wins (DUnion.__init__ without literal folding) -/
def dedupBy (h : Ty → String) : List Ty → List String → List Ty
  | [], _ => []
  | t :: ts, seen => if h t ∈ seen then dedupBy h ts seen else t :: dedupBy h ts (h t :: seen)

theorem dedupBy_sound (h : Ty → String) (hinj : ∀ a b, h a = h b → a = b)
    (ts : List Ty) (seen : List String) (t : Ty) (ht : t ∈ ts) (hs : h t ∉ seen) :
    t ∈ dedupBy h ts seen := by
  induction ts generalizing seen with
  | nil => cases ht
  | cons a as ih =>
    unfold dedupBy
    rcases List.mem_cons.mp ht with rfl | hmem
    · simp [hs]
    · split
      · exact ih seen hmem hs
      · rename_i hna
        by_cases hta : h t = h a
        · have := hinj _ _ hta; subst this; simp
        · apply List.mem_cons_of_mem
          apply ih _ hmem
          simp [hs, hta]

theorem union_dedup_sound (parse) (h : Ty → String) (hinj : ∀ a b, h a = h b → a = b)
    (ts : List Ty) (v : Json) (hv : Inh parse (.union ts) v) :
    Inh parse (.union (dedupBy h ts [])) v := by
  cases hv with
  | union hm hi => exact .union (dedupBy_sound h hinj ts [] _ hm (by simp)) hi

end J2M
