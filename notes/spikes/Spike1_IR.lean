namespace J2M

inductive Json where
  | null
  | bool (b : Bool)
  | int (i : Int)
  | float (id : Nat)
  | str (s : String)
  | arr (xs : List Json)
  | obj (kvs : List (String × Json))
  deriving Repr, Inhabited

inductive Kind where
  | int | float | bool | date | time | datetime
  deriving Repr, DecidableEq, Inhabited

inductive Ty where
  | int | float | bool | str | null | unknown
  | ser (k : Kind)
  | lit (overflow : Bool) (vals : List String)
  | list (t : Ty)
  | dict (t : Ty)
  | opt (t : Ty)
  | union (ts : List Ty)
  | obj (fields : List (String × Ty))
  | ptr (idx : String)
  deriving Repr, Inhabited

mutual
def Ty.beq : Ty → Ty → Bool
  | .int, .int | .float, .float | .bool, .bool | .str, .str | .null, .null | .unknown, .unknown => true
  | .ser a, .ser b => a == b
  | .lit o1 v1, .lit o2 v2 => o1 == o2 && v1 == v2
  | .list a, .list b | .dict a, .dict b | .opt a, .opt b => Ty.beq a b
  | .union a, .union b => Ty.beqList a b
  | .obj a, .obj b => Ty.beqFields a b
  | .ptr a, .ptr b => a == b
  | _, _ => false
def Ty.beqList : List Ty → List Ty → Bool
  | [], [] => true
  | a :: as, b :: bs => Ty.beq a b && Ty.beqList as bs
  | _, _ => false
def Ty.beqFields : List (String × Ty) → List (String × Ty) → Bool
  | [], [] => true
  | (k1, a) :: as, (k2, b) :: bs => k1 == k2 && Ty.beq a b && Ty.beqFields as bs
  | _, _ => false
end

mutual
def hashStr : Ty → String
  | .int => "<class 'int'>" | .float => "<class 'float'>" | .bool => "<class 'bool'>"
  | .str => "<class 'str'>" | .null => "NoneType" | .unknown => "Unknown"
  | .ser k => s!"ser/{repr k}"
  | .lit o vs => if o then "StringLiteral/..." else "StringLiteral/" ++ ",".intercalate vs
  | .list t => "DList/" ++ hashStr t
  | .dict t => "DDict/" ++ hashStr t
  | .opt t => "DOptional/" ++ hashStr t
  | .union ts => "DUnion/" ++ ",".intercalate (hashStrs ts)
  | .obj fs => "dict/" ++ ";".intercalate (hashFields fs)
  | .ptr i => "ModelPtr_#" ++ i
def hashStrs : List Ty → List String
  | [] => []
  | t :: ts => hashStr t :: hashStrs ts
def hashFields : List (String × Ty) → List String
  | [] => []
  | (k, t) :: fs => (k ++ ":" ++ hashStr t) :: hashFields fs
end

/-- semantic acceptance, strict: unknown admits nothing -/
def accepts (parse : Kind → String → Bool) : Ty → Json → Bool
  | .int, .int _ => true
  | .float, .float _ => true
  | .float, .int _ => true
  | .bool, .bool _ => true
  | .str, .str _ => true
  | .null, .null => true
  | .ser k, .str s => parse k s
  | .lit o vs, .str s => !o && vs.contains s
  | .list t, .arr xs => xs.attach.all fun ⟨x, _⟩ => accepts parse t x
  | .opt t, v => (match v with | .null => true | _ => false) || accepts parse t v
  | .union ts, v => ts.attach.any fun ⟨t, _⟩ => accepts parse t v
  | _, _ => false
termination_by t v => (sizeOf v, sizeOf t)
decreasing_by
  all_goals simp_wf
  all_goals sorry

end J2M
