import sys; sys.path.insert(0, "/tmp/repo_fix")
import json_to_models; assert "repo_fix" in json_to_models.__file__
import threading, json
from p1lib import *
tests = [("empty+null", [{"a": []}, {"a": [None]}], {}), ("3 str", [{"a": "1"}, {"a": "1.5"}, {"a": "true"}], {}),
 ("comma", [{"a": [["a,b"], ["a", "b"]]}], {}), ("hashamb", [{"a": [[1,True],[1.5,{}],None]}, {"a": [[1,True],[1.5,{},None]]}], {}),
 ("astral", [{"a": "😀"}], {}), ("alias", [{'a"b': 1, "c\\d": 2, "e\nf": 3}], {}), ("cache", [{"Root": 1}], {}),
 ("attrs opt", [{"a": "1"}, {}], {"gen_cls": AttrsModelCodeGenerator}),
 ("conv empty", [{"a": [], "b": "1"}], {"gen_cls": DataclassModelCodeGenerator, "gen_kwargs": {"post_init_converters": True}})]
for name, s, kw in tests:
    try:
        code = pipeline(s, **kw); ns = {}; exec(code, ns); print("==", name, "OK"); print(code.split("\n\n\n",1)[-1].strip())
        if kw == {}:
            for x in s: ns["Root"].parse_obj(x)
    except Exception as e: print("==", name, "FAIL", type(e).__name__, str(e)[:200])
t = threading.Thread(target=lambda: print("thread:", pipeline([{"a": {"b": 1}}]).count("class"))); t.start(); t.join()
