import json, typing
from p1lib import *
from json_to_models.dynamic_typing import *
g = MetadataGenerator()
# idempotence probe: optimize twice on random IR
import random, itertools, copy
U = [int, float, str, bool, Null, Unknown, IntString, FloatString, BooleanString, StringLiteral({"a"}), StringLiteral({"b"}), StringLiteral({"x"*25})]
def mk(rnd, d):
    c = rnd.random()
    if d == 0 or c < .45: return rnd.choice(U)
    if c < .6: return DList(mk(rnd, d-1))
    if c < .7: return DDict(mk(rnd, d-1))
    if c < .8: return DOptional(mk(rnd, d-1))
    return DUnion(*[mk(rnd, d-1) for _ in range(rnd.randint(1,3))])
rnd = random.Random(5)
bad = {}
for i in range(20000):
    t = mk(rnd, 3)
    s0 = str(t)
    try:
        a = g.optimize_type(copy.deepcopy(t)); sa = str(a)
        b = g.optimize_type(copy.deepcopy(a)); sb = str(b)
        if sa != sb: bad.setdefault("nonidem", []).append((s0, sa, sb))
    except Exception as e:
        bad.setdefault(type(e).__name__, []).append(s0)
for k, v in bad.items():
    print(k, len(v)); 
    for x in sorted(v, key=lambda x: len(str(x)))[:4]: print("   ", x)
# nested forward refs
code = pipeline([{"a": {"x": 1, "b": {"y": 2}}}], structure=compose_models)
print(code)
ns = {}; exec(code, ns)
try:
    ns["Root"].update_forward_refs(); print("update_forward_refs ok")
    print(ns["Root"].parse_obj({"a": {"x": 1, "b": {"y": 2}}}))
except Exception as e: print("ERR", type(e).__name__, str(e)[:200])
# top-level all keys match regex
print(MetadataGenerator(dict_keys_regex=[r"\d+"]).generate({"1": 1, "2": 2}))
print(MetadataGenerator(dict_keys_regex=[r"\d+"]).generate({"a": {"1": 1, "2x": 2}, "b": {"1": {"2": 3}}}))
