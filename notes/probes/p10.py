from p1lib import *
from json_to_models.dynamic_typing import register_datetime_classes, StringSerializableRegistry, IntString, FloatString, BooleanString
from json_to_models.dynamic_typing.string_datetime import IsoDateString, IsoTimeString, IsoDatetimeString
r = StringSerializableRegistry(); 
for c in (IntString,): r.add(cls=c)
r.add(replace_types=(IntString,), cls=FloatString); r.add(cls=BooleanString); register_datetime_classes(r)
for s in ["2020-01", "2020-01-05", "20200105", "12:30", "2020-01-05T10:00:00Z", "2020-W01-1", "Jan 5 2020"]:
    g = MetadataGenerator(str_types_registry=r)
    t = g._detect_type(s)
    code = None
    try:
        reg = ModelRegistry(); reg.process_meta_data(g.generate({"a": s}), "Root"); reg.merge_models(g); reg.generate_names()
        code = generate_code(compose_models_flat(reg.models_map), PydanticModelCodeGenerator)
        ns = {}; exec(code, ns); ns["Root"].parse_obj({"a": s}); res = "ok"
    except Exception as e: res = "FAIL " + type(e).__name__ + " " + str(e).replace("\n", " ")[:80]
    print(repr(s), getattr(t, "__name__", t), res)
code = pipeline([{"a": "1"}, {}], gen_cls=AttrsModelCodeGenerator)
try: exec(code, {})
except Exception as e: print("attrs optional import:", type(e).__name__, e)
