import sys, json, traceback
from json_to_models.generator import MetadataGenerator
from json_to_models.registry import ModelRegistry, ModelFieldsEquals
from json_to_models.models.base import generate_code, GenericModelCodeGenerator
from json_to_models.models.pydantic import PydanticModelCodeGenerator
from json_to_models.models.attr import AttrsModelCodeGenerator
from json_to_models.models.dataclasses import DataclassModelCodeGenerator
from json_to_models.models.structure import compose_models, compose_models_flat
from json_to_models.dynamic_typing import StringSerializableRegistry, IntString, FloatString, BooleanString, registry

def pipeline(samples, gen_cls=PydanticModelCodeGenerator, structure=compose_models_flat, cmps=(), gen_kwargs=None, **mg):
    g = MetadataGenerator(**mg)
    r = ModelRegistry(*cmps)
    meta = g.generate(*samples)
    r.process_meta_data(meta, "Root")
    r.merge_models(g)
    r.generate_names()
    s = structure(r.models_map)
    return generate_code(s, gen_cls, class_generator_kwargs=gen_kwargs or {})

def show(title, samples, **kw):
    print("=====", title, json.dumps(samples))
