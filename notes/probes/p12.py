import random, json, ast, sys
from p1lib import *
from json_to_models.registry import ModelFieldsEquals
def obj(rnd, d, pool):
    o = {}
    for k in rnd.sample(pool, rnd.randint(1, 3)):
        c = rnd.random()
        if d > 0 and c < .45: o[k] = obj(rnd, d-1, [k + "x" + s for s in "abc"])   # unique keys per position -> tree
        elif d > 0 and c < .6: o[k] = [obj(rnd, d-1, [k + "y" + s for s in "abc"])]
        else: o[k] = rnd.choice([1, "s", None, 2.5])
    return o
def classes(tree, prefix=()):
    out = {}
    for n in tree.body if hasattr(tree, "body") else []:
        if isinstance(n, ast.ClassDef):
            fields = sorted(ast.unparse(s) for s in n.body if isinstance(s, ast.AnnAssign))
            out[n.name] = (prefix, fields)
            out.update(classes(n, prefix + (n.name,)))
    return out
rnd = random.Random(3); bad = 0; n = 0; errs = {}
for i in range(1500):
    S = [obj(rnd, 3, ["a", "b", "c", "d"])]
    try:
        flat = pipeline(S, cmps=(ModelFieldsEquals(),)); nest = pipeline(S, structure=compose_models, cmps=(ModelFieldsEquals(),))
    except Exception as e:
        errs[type(e).__name__ + str(e)[:50]] = S; continue
    cf = classes(ast.parse(flat)); cn = classes(ast.parse(nest)); n += 1
    first = [x for x in ast.parse(flat).body if isinstance(x, ast.ClassDef)][0].name
    if {k: v[1] for k, v in cf.items()} != {k: v[1] for k, v in cn.items()} or first != "Root":
        bad += 1
        if bad < 3: print(json.dumps(S)); print(flat); print(nest)
print("ok", n, "bad", bad, "errs", errs)
