import itertools, sys
from json_to_models.registry import ModelRegistry, ModelCmp
from json_to_models.generator import MetadataGenerator
class TableCmp(ModelCmp):
    def __init__(self, table): self.table = table
    def cmp(self, a, b):
        ia = next(iter(a))[1:]; ib = next(iter(b))[1:]
        return self.table[frozenset((int(ia.split('_')[0]), int(ib.split('_')[0])))]
def comps(n, table):
    parent = list(range(n))
    def f(x):
        while parent[x] != x: x = parent[x]
        return x
    for (i, j) in itertools.combinations(range(n), 2):
        if table[frozenset((i, j))]: parent[f(i)] = f(j)
    groups = {}
    for i in range(n): groups.setdefault(f(i), set()).add(i)
    return sorted(sorted(g) for g in groups.values() if len(g) > 1)
bad = 0; total = 0
for n in range(2, 6):
    pairs = list(itertools.combinations(range(n), 2))
    for bits in itertools.product([False, True], repeat=len(pairs)):
        table = {frozenset(p): b for p, b in zip(pairs, bits)}
        g = MetadataGenerator(); r = ModelRegistry(TableCmp(table))
        # each model i has unique key "k{i}_x" ; all in one root as separate roots
        metas = []
        for i in range(n):
            r.process_meta_data({f"k{i}_x": int}, f"M{i}")
        before = [next(iter(m.type)) for m in r.models]
        rep = r.merge_models(g)
        got = sorted(sorted(int(next(iter(m.type))[1:].split('_')[0]) for m in grp) for _, grp in rep)
        total += 1
        if got != comps(n, table):
            bad += 1
            if bad < 5: print("MISMATCH", n, bits, got, comps(n, table))
print("tables", total, "bad", bad)
