import sys, json, traceback, threading
from p1lib import *
def show(title, samples, **kw):
    print("=====", title, json.dumps(samples), {k:getattr(v,'__name__',v) for k,v in kw.items()})
    try:
        code = pipeline(samples, **kw)
        print(code)
        return code
    except Exception as e:
        traceback.print_exc(limit=2)

show("class List", [{"list": {"a": 1}, "items": [{"b": 1}], "dict": {"c": 2}, "optional": {"d": 1}, "x": None}])
show("dataclass field key", [{"field": 1, "dataclass": 2}], gen_cls=DataclassModelCodeGenerator)
show("attrs optional intstr", [{"a": "1"}, {}], gen_cls=AttrsModelCodeGenerator)
show("attrs conv emptylist", [{"a": [], "b": "1"}], gen_cls=AttrsModelCodeGenerator, gen_kwargs={"post_init_converters": True})
show("dc conv nested", [{"a": ["1","2"], "b": {"x":"1"}, "c": None, "d": [["1.5"]]}, {"a": ["1","2"], "b": {"x":"1"}, "c": "3", "d": []}], gen_cls=DataclassModelCodeGenerator, gen_kwargs={"post_init_converters": True}, dict_keys_fields=["b"])
# shared model nested
show("shared nested", [{"a": {"x": 1, "y": 2}, "b": {"c": {"x": 1, "y": 2}}}], structure=compose_models)
show("recursive nested", [{"name": "a", "children": [{"name": "b", "children": []}]}], structure=compose_models)
show("recursive flat", [{"name": "a", "children": [{"name": "b", "children": []}]}], structure=compose_models_flat)

def worker():
    try:
        print(pipeline([{"a": {"b": 1}}]))
    except Exception:
        traceback.print_exc(limit=2)
t = threading.Thread(target=worker); t.start(); t.join()
