#!/bin/bash
# usage: tools/try_seeded.sh <patch.diff> <ID> [<ID> ...]   — apply a seeded change to /repo, run the quick checks, undo it
set -u
PATCH="$1"; shift
cd /repo || exit 2
if ! git diff --quiet; then echo "/repo has uncommitted changes"; exit 2; fi
git apply "$PATCH" || { echo "patch does not apply"; exit 2; }
trap 'git -C /repo checkout -- . ; git -C /repo clean -fdq -- json_to_models' EXIT
cd /verif
for id in "$@"; do
  ./check "$id" "${TIER:-quick}" 2>&1 | grep -E "VIOLATION|KNOWN-FINDING|exit [0-9]" 
done
