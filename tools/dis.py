#!/usr/bin/env python3
"""debug helper: run only the correspondence of a property and print the disagreements"""
import sys, json, os
sys.path.insert(0, "/verif/harness"); sys.path.insert(0, os.environ.get("J2M_REPO", "/repo"))
import importlib
from j2m import stages, runner
pid = sys.argv[1]
prop = importlib.import_module("j2m.props." + pid)
ctx = runner.Ctx(pid, sys.argv[2] if len(sys.argv) > 2 else "quick", int(os.environ.get("VERIF_SEED", "0")), "/repo")
b = stages.Batch()
prop.correspondence(ctx, b)
dis = b.run()
print(len(b.requests), "requests", len(dis), "disagreements")
for d in dis[:int(os.environ.get("N", "3"))]:
    r = d["request"]
    print("OP", r["op"], json.dumps({k: v for k, v in r.items() if k in ("in", "a", "b", "times", "render", "cmps", "ty", "path")}, ensure_ascii=False)[:1500])
    print("  impl ", json.dumps(d["impl"], ensure_ascii=False)[:1200]); print("  model", json.dumps(d["model"], ensure_ascii=False)[:1200])
