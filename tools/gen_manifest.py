#!/usr/bin/env python3
"""Writes MANIFEST.json from the per-property table below (kept next to the checks so that it stays current)."""
import json
import os

HERE = os.path.dirname(os.path.dirname(os.path.abspath(__file__)))
props = {json.loads(l)["id"]: json.loads(l) for l in open(os.path.join(HERE, "properties.jsonl"))}
ob = json.load(open(os.path.join(HERE, "lean", "obligations.json")))

TABLE = {
 "C01": ("8.1", "Lean theorems J2M.C01.generate_sound(_names) (every sample inhabits the type generate infers, with hashStr injectivity J2M.HashInj.hashStr_inj discharging de-duplication) and J2M.C01R.registry_sound / mergeModels_sound / processTy_sound (acceptance is preserved through process_meta_data and merge_models, for graphs with pointers and cycles) and J2M.C01S.typing_widens / fields_kept / class_accepts / C01_pipeline_sound(_flat, _flat_prepared) (the annotation emitted for a type admits every value of the type, in every framework and layout; exactly the null-only keys are dropped for pydantic/sqlmodel; the class table read off the emitted class body accepts every sample object, composed with registry_sound and generate_names) over the model of detect/DUnion/merge_field_sets/optimize/resolve/registry/renderer; stage-wise differential tie (detect, mkunion, hash, mergefs, optimize, generate, pipeline, render) to the code; falsifier execs the emitted module and checks every sample (structural + pydantic parse_obj)",
         "C01_pipeline_sound is stated over an abstract acceptance relation for annotations (AnnInh) and class tables (TabAccepts, stricter than pydantic); that pydantic/attrs/dataclasses read the text this way is observed by the falsifier (T5); named hypotheses: PydBridge (actual-type view of pseudo-types), distinct reference texts (discharged for the flat layout by C03N/refsDistinct_of_flat_rendering under ConvFix); hypotheses: JSON objects have distinct keys, acyclic replaces relation, ReplacesSound (IntString ⊆ FloatString), registry kind names are identifiers; keys in C11's documented domain"),
 "C02": ("8.2", "J2M.C02T.generate_tight / C02_tight (position-wise: every type `generate` emits is witnessed by the sample values routed to that position — Optional only with a null or an absent key, every union member / element type / literal value observed, Any only under a container observed empty — for all samples, options and oracles; negative examples show the relation is not trivial) and the per-function lemmas J2M.C02.* + tie; falsifier routes every sample value down the real registry graph and checks each position",
         "proved for the generator stage (generate_tight); tightness through the registry merge (merge_field_sets on already optional fields) rests on the merge_hasOpt_iff lemma, the tie and the falsifier; `Dict[str, Any]` next to a model is admitted when SOME mapping at the position was empty (the all-empty form is false for the code: dictAny_all_empty_false)"),
 "C03": ("8.3", "theorems on names/layout (J2M.C03/C11/C12: blacklist facts by kernel evaluation over the blacklist extracted from the code on every run, labels never blacklisted, sort_fields required-before-optional, flat layout is a permutation of the registry), J2M.C03S.refs_resolve_flat(_module) / typing_ok_iff / generateNames_named (every quoted reference of every field annotation is the final name of a registered class that the field type points to; exact condition for an annotation to be renderable) and J2M.C03N.prepareNames_distinct / generateCode_class_names_distinct / prepareNames_layout_independent (class names are converted and made pairwise distinct before anything is rendered, independently of the layout) + per-program translation validation: emitted text equals the Lean model's text byte for byte, and the falsifier compiles, execs and resolves every annotation",
         "scopeOk over a Python AST model is not formalised; 'executes under CPython' is observed per explored program (T5); nested layout claimed for trees"),
 "C04": ("8.4", "J2M.C04.typing_denotes / imports_exact / field_line_* / alias_iff_renamed / alias_roundtrip / metadata_roundtrip (the annotation text is the print of the denoted typing term; alias and repr texts lex back to the exact key, for all strings) + byte-equal render tie; falsifier compares the frameworks' own field tables with an independent rendering of the registry",
         "CPython/typing/pydantic evaluate the text the way the lexer and Ann models say (validated per explored program)"),
 "C05": ("8.5", "J2M.C05.closure_components / closure_terminates / closure_total (for every symmetric similarity table and every n the grouping loop of merge_models terminates within n+2 passes with exactly the connected components that have an edge) and J2M.C05R.C05_merge_iff / mergeModels_spec / mergeGroup_spec / no_dangling / cmp_any / cmp_symmetric (two models end up in one class iff chained by the configured comparators on their original key sets; merged key set = union; untouched models unchanged; replacement list; every reference registered); tie: closure op on all tables n<=5 (thorough: sample of n=6) and pipeline stage with real comparators at the thresholds; falsifier: union-find vs registry",
         "percent thresholds compared as the decimal fraction they denote (T4: agrees with correctly rounded float division below 2^26 keys)"),
 "C06": ("8.6", "the Lean model is a function of (samples, options): every set-ordered step is proved order-free (J2M.C06.distinctWords_perm, sortStrings_perm, extractRoot_perm, composeFlat_perm, composeNested_perm, compileImports_perm) and J2M.C06R.render_ptrs_perm composes them: layout + rendered text do not depend on the order of the pointer sets; tie: implementation text equals the model's single answer; falsifier renders each case in fresh processes under 4/16 PYTHONHASHSEED values",
         "site inventory (AST scan of set constructions / next(iter())) compared with the committed table on every run; a new site is reported as a broken correspondence"),
 "C07": ("8.7", "J2M.C07P.generate_perm (sample lists with the same set of samples — permutation or repetition — give types equal up to field order and union member order; 4 kLoC development: mergeFieldSets_equiv, optimize_congr, resolve_perm) and J2M.C07.* per-function invariance + generate/pipeline tie on permuted and duplicated sample lists; falsifier canonicalises the real registry graph (bisimulation from the roots) for all permutations of <=4 samples",
         "proved for the generator (generate_perm); invariance of the registry stage (which models merge) under sample order rests on C05R.C05_merge_iff being a function of key sets + the tie and the falsifier"),
 "C08": ("8.8", "J2M.C08.optimize_nf / optimize_nfc / optimize_idem / optimize_twice / generate_second_pass / mkUnion_flat_nodup: results of simplification are in normal form and a further pass is the identity, never failing except by comparison-recursion; tie: optimize x1..3 and DUnion on all multisets <=3 of the 37-type universe (thorough) + registry second pass; falsifier re-optimises the real registry and scans annotations",
         "Raw (what detect/merge produce) is a hypothesis with reachability lemmas (detect_raw, merge_raw)"),
 "C09": ("8.9", "J2M.C09.detect_first_match / resolve_covers / resolve_single_sound / disabled_never_appear(_generate) / int_roundtrip / bool_roundtrip; tie: detect/resolve/generate on the string grammar x registries, exact int/bool parser models vs CPython; falsifier re-runs every registered parser and the render/re-parse round trip",
         "float/date/time/datetime parsers are oracles: their round trip is checked on explored strings only (partial by design)"),
 "C10": ("8.10", "J2M.C10R.single_field_generate / single_field_annotation(_lib) (end to end for one position, all sample lists: the annotation is Literal[...] listing exactly the sorted distinct plain strings iff each is shorter than 20, at most 15 are distinct, their number is below the limit and the framework uses literals — with the limits instantiated from the constants extracted from the code — and the emitted argument list lexes back to exactly those strings), J2M.C10.mkLit_overflow_iff, fold_literals, literal_roundtrip_raw, literal_list_split, J2M.C10b.attrs_no_literal / max_literals_zero_no_literal; tie mkunion/optimize/generate/render + lexer vs ast.literal_eval; falsifier evaluates the annotations",
         "single-field positions are proved end to end; positions inside nested/merged models rely on the same per-stage theorems composed by the tie"),
 "C11": ("8.11", "J2M.C11.blacklist_suffix_safe / prepareLabel_not_blacklisted / label facts, J2M.C03N.generateCode_class_names_distinct (emitted class names pairwise distinct) + J2M.C04.alias_iff_renamed / alias_roundtrip / metadata_roundtrip; tie: render stage with recorded unidecode/inflection/re tables; falsifier reads alias/metadata from the loaded module",
         "domain as documented (keys with an ASCII-transliterable letter, key universe pairwise distinct after folding); folded-equal keys and empty labels are listed known findings"),
 "C12": ("8.12", "J2M.C12.flat_perm / flat_once / flat_root_first / nested_once / nested_tree and J2M.C12R.layouts_agree(_tree, _rooted) / genClass_decomp (for rooted tree graphs both layouts are assembled from the same class heads — same names, fields, annotations, defaults — the nested text only inserts the children's blocks); tie: pipeline projections flat/nested + render for both layouts; falsifier loads both modules and compares class tables, nesting parents, root first",
         "hypotheses of layouts_agree_rooted (Tree, distinct indices, a depth rank on the parent relation, fields follow pointers) are those of graphs built from tree-shaped inputs; CPython's reading of the two texts is observed by the falsifier"),
 "C13": ("8.13", "J2M.C13.dict_iff / field_dict_iff / nested_dict_iff / toplevel_always_model / dict_value_sound and J2M.C13S.processTy_models / dictlike_no_model / own_model_iff (registration creates exactly one model per object node that is not dict-like, with that node's keys, in pre-order; a dict-like object creates none); tie detect/generate/pipeline with the (pattern,key) match table recorded from re; falsifier recomputes the iff with re per object position",
         "regular-expression matching is an oracle; CLI anchoring checked by the C16 option tie"),
 "C14": ("8.14", "J2M.C14.ctx_restored / history_free_ctx / fresh_process_obs (the reference context is restored on every path; observations of a body depend only on its own slot) and J2M.C14R.render_twice_partial / render_twice_flat / render_twice_tree / cross_framework(_layouts) (rendering a registry again, or for another framework / layout under the same naming options, gives the text of a fresh registry; render_twice_prepared: no readiness condition once names are prepared and stable; the unrestricted statement is refuted only for an adversarial blacklist, render_twice_Statement_false); tie: several render jobs on one registry vs the implementation; falsifier: histories of <=4 calls in one process vs each call alone in a fresh process",
         "only the context and name-mutation state are modelled; other process state (third-party caches) is exercised by the falsifier"),
 "C15": ("8.15", "J2M.C15.worker_thread_ok / noninterference / interleaving_irrelevant / exec_other_threads over the per-thread context model; falsifier: 2-8 concurrent pipelines behind a barrier under switchinterval 1e-6 vs solo runs, and calls from a fresh worker thread",
         "partial: CPython's real interleavings, GIL, third-party caches cannot be exhibited by the model; they are exercised, not proved"),
 "C16": ("8.16", "J2M.C16.lookup_path(_any) / assemble_closed_form / assemble_concat / split_doc / split_arg / wrap_list / opts_table and J2M.C16A.* (kwargs items, pattern split, -m tuple shapes of Cli.set_args); tie: assemble/lookup/parsemerge ops vs Cli.setup_models_data / dict_lookup / merge-policy table; falsifier: real CLI subprocess vs in-process library call with the mapped options, -o file bytes",
         "globbing and file parsing are inputs of the model; process boundary observed by the falsifier"),
 "C17": ("8.17", "J2M.C17.fail_is_clean / success_iff / success_is_complete / fault_classes over the effect-trace model of main(); falsifier: 30+ fault kinds x position x existing -o target in real subprocesses (exit status, stdout, SHA-256 of the target)",
         "the trace model is tied to the code by the fault-injection runs; half-written files (OS faults) outside the model"),
 "C18": ("8.18", "J2M.C18.path_of_type / convert_correct / others_untouched / post_init_correct / attrs_field_converter_iff over the model of get_string_field_paths and _process_string_field_value; tie: render stage (decorator text); falsifier constructs the generated attrs/dataclass classes from the samples and compares converted values",
         "attrs per-field converters for boolean/date-like kinds are a listed known finding (F3)"),
 "C19": ("8.19", "J2M.C19.header_is_one_string / header_ok (for every argv the header lexes as exactly one raw string token and nothing spills) / preamble_placement / preamble_blank; tie: header op byte-for-byte + raw-string lexer vs ast.parse; falsifier: ast of real CLI output",
         "argv valid UTF-8; version/ctime without quotes or backslashes (Clean hypothesis)"),
}

checks = []
for pid in sorted(props):
    ref, text, note = TABLE[pid]
    n = len(ob.get(pid, {}).get("theorems", []))
    checks.append({
        "property_id": pid,
        "quick_cmd": f"./check {pid} quick",
        "thorough_cmd": f"./check {pid} thorough",
        "evidence_file": f"evidence/{pid}.json",
        "replay_cmd_template": "./check --replay {path}",
        "engine": "lean4-model+correspondence",
        "level_claimed": {"category": "proof", "text": text + f" ({n} kernel-checked theorems audited per run)", "design_ref": f"DESIGN.md §{ref}, §14"},
        "level_note": "trusted base T1–T6 of DESIGN.md §9 (Lean kernel + axioms propext/Classical.choice/Quot.sound only; the hand-written model tied to the code by differential execution on every run; third-party functions as recorded oracles; CPython/pydantic behaviour validated per explored program). " + note,
        "technique": "Lean 4 theorems over an executable model + differential correspondence check + real-code falsifier for replays",
    })

manifest = {
    "version": 1,
    "setup_cmd": "cd lean && lake build",
    "hooks": {
        "guard": "J2M_VERIF",
        "enable": "no source hooks: every observation point is public API or the process boundary; third-party calls are recorded by wrapping them from the harness",
        "baseline_off_cmd": "cd /repo && /venv/bin/python -m pytest -ra -q -p no:cacheprovider --timeout=900 --continue-on-collection-errors",
        "source_commits": [],
        "add_only": True,
    },
    "engines": [{"name": "lean4-model+correspondence", "path": "check", "serves_properties": sorted(props),
                 "kind_free_text": "hand-written executable Lean 4 model of the pipeline with per-property theorems (lean/J2M/Props), tied to /repo on every run by a differential line-protocol check (harness/j2m) plus constants regenerated from the live modules (Extracted.lean); falsifiers on the real code produce replays"}],
    "checks": checks,
    "not_applicable": [],
    "notes": "All 19 properties are claimed at level proof with the partial parts named in level_note. known_findings.json lists repaired defects (fix: commits in /repo) and the known findings the property texts themselves list.",
}
json.dump(manifest, open(os.path.join(HERE, "MANIFEST.json"), "w"), indent=1, ensure_ascii=False)
print("written", len(checks))
