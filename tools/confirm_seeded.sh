#!/bin/bash
# usage: tools/confirm_seeded.sh <worktree> <name>  — confirm a seeded change independently in a fresh scratch worktree,
# then store it under /verif/seeded/<name>/ (patch.diff, demo.py, meta.json + confirmation record)
set -u
SRC="$1"; NAME="$2"
W=$(mktemp -d /tmp/confirm_XXXX); rmdir "$W"
git -C /repo worktree add -q "$W" HEAD || exit 2
cd "$W"
cp "$SRC/demo.py" "$W/demo.py"      # the script's directory is first on sys.path: run the copy inside this worktree
/venv/bin/python demo.py > /tmp/confirm_demo_clean.txt 2>&1; CLEAN=$?
git apply "$SRC/patch.diff" || { echo "patch does not apply"; git -C /repo worktree remove --force "$W"; exit 2; }
WHERE=$(/venv/bin/python -c "import json_to_models; print(json_to_models.__file__)" 2>/dev/null)
SUITE=$(/venv/bin/python -m pytest -q -p no:cacheprovider --timeout=900 -n 8 2>&1 | grep -v conda | tail -1)
/venv/bin/python demo.py > /tmp/confirm_demo_mut.txt 2>&1; MUT=$?
cd /; git -C /repo worktree remove --force "$W"
echo "package under test: $WHERE"
echo "suite with change: $SUITE"
echo "demo exit without change: $CLEAN   with change: $MUT"
if [ "$CLEAN" = "0" ] && [ "$MUT" != "0" ] && echo "$SUITE" | grep -q "428 passed"; then
  mkdir -p /verif/seeded/"$NAME"
  cp "$SRC/patch.diff" "$SRC/demo.py" /verif/seeded/"$NAME"/
  python3 - "$SRC/meta.json" /verif/seeded/"$NAME"/meta.json "$SUITE" "$CLEAN" "$MUT" <<'PY'
import json, sys
m = json.load(open(sys.argv[1]))
m["confirmed"] = {"suite_with_change": sys.argv[3], "demo_exit_without_change": int(sys.argv[4]),
                  "demo_exit_with_change": int(sys.argv[5]),
                  "how": "fresh scratch worktree of /repo HEAD: demo on clean tree, git apply patch.diff, full suite (-n 8), demo again"}
json.dump(m, open(sys.argv[2], "w"), indent=1)
PY
  echo "CONFIRMED -> /verif/seeded/$NAME"
else
  echo "NOT CONFIRMED"
fi
