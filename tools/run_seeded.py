#!/usr/bin/env python3
"""Runs every stored seeded change (seeded/<name>/patch.diff) against the quick check of its property and writes
seeded/RESULTS.md. /repo must be clean; each patch is applied and undone (git checkout) around the run."""
import json
import os
import re
import subprocess
import sys

HERE = os.path.dirname(os.path.dirname(os.path.abspath(__file__)))
SEEDS = [int(x) for x in os.environ.get("SEEDS", "0").split(",")]     # SEEDS=0,1,2 tools/run_seeded.py
ONLY = sys.argv[1:]                                                    # optional: names of changes to run
rows = []
for name in sorted(os.listdir(os.path.join(HERE, "seeded"))):
    d = os.path.join(HERE, "seeded", name)
    if not os.path.isdir(d) or (ONLY and name not in ONLY):
        continue
    meta = json.load(open(os.path.join(d, "meta.json")))
    pid = meta["property"]
    extra = meta.get("also_check", [])
    if subprocess.run(["git", "-C", "/repo", "diff", "--quiet"]).returncode != 0:
        sys.exit("/repo is not clean")
    if subprocess.run(["git", "-C", "/repo", "apply", os.path.join(d, "patch.diff")]).returncode != 0:
        rows.append((name, pid, "patch no longer applies", ""))
        continue
    try:
        outs = []
        for p, seed in [(p, seed) for p in [pid] + extra for seed in SEEDS]:
            r = subprocess.run([os.path.join(HERE, "check"), p, "quick"], cwd=HERE, stdout=subprocess.PIPE,
                               stderr=subprocess.STDOUT, timeout=3000, env=dict(os.environ, VERIF_SEED=str(seed)))
            text = r.stdout.decode("utf-8", "replace")
            viol = [l for l in text.split("\n") if l.startswith("VIOLATION")]
            last = [l for l in text.split("\n") if "-> exit" in l][-1:]
            m = re.search(r"(\d+) disagreements, falsifier \d+ cases / (\d+) hits", last[0]) if last else None
            verdict = ("caught with replay on the real code" if viol and "no-failing-input-found" not in viol[0]
                       else "caught (broken correspondence, no failing input found)" if viol else "MISSED")
            outs.append(f"{p} seed {seed}: {verdict}" + (f" [{m.group(1)} disagreements, {m.group(2)} falsifier hits]" if m else ""))
        if meta.get("neutralised"):
            outs = ["(no longer property-breaking: " + meta["neutralised"][:160] + "…) " + o for o in outs]
        rows.append((name, pid, "<br>".join(outs), meta["summary"]))
    finally:
        subprocess.run(["git", "-C", "/repo", "checkout", "--", "."])
if ONLY:
    for r in rows:
        print(r[0], r[2])
    sys.exit(0)
with open(os.path.join(HERE, "seeded", "RESULTS.md"), "w") as f:
    f.write("# Seeded changes vs. checks (quick tier, VERIF_SEED in %s)\n\n"
            "Each change was written by an independent sub-agent that saw only the property text and a scratch worktree;\n"
            "it passes the unchanged 428-test suite and comes with a demonstration (demo.py) — both confirmed in a fresh\n"
            "worktree (meta.json `confirmed`). Regenerate with `tools/run_seeded.py`.\n\n"
            "| change | property | result | what the change does |\n|---|---|---|---|\n" % SEEDS)
    for name, pid, res, summ in rows:
        f.write(f"| {name} | {pid} | {res} | {summ.replace('|', '/')[:300]} |\n")
print(open(os.path.join(HERE, "seeded", "RESULTS.md")).read())
