#!/usr/bin/env python3
"""Rebuild lean/obligations.json: every `theorem` of lean/J2M/Props/<ID>.lean is an obligation of property <ID>.
(Props/HashInj.lean is shared by C01, C06, C07.)  Reviewed by hand; committed."""
import json
import os
import re

LEAN = os.path.join(os.path.dirname(os.path.dirname(os.path.abspath(__file__))), "lean")
SHARED = {"HashInj": ["C01", "C07"], "C10b": ["C10"], "C01R": ["C01"], "C05R": ["C05"], "C07P": ["C07"], "C10R": ["C10"], "C02T": ["C02"], "C06R": ["C06"], "C12R": ["C12"], "C14R": ["C14"], "C16A": ["C16"], "C01S": ["C01"], "C03S": ["C03"], "C13S": ["C13"], "C03N": ["C03", "C11"], "C03T": ["C03"], "C07R": ["C07", "C05"], "C09X": ["C09", "C01"], "C02R": ["C02"], "C16S": ["C16", "C13", "C19"], "C15O": ["C15", "C14"], "C08M": ["C08"], "C08I": ["C08"], "C03W": ["C03"], "C05T": ["C05", "C01", "C08"], "C16M": ["C16"]}


def theorems(path):
    text = open(path, encoding="utf-8").read()
    text = re.sub(r"/-.*?-/", "", text, flags=re.S)
    ns = []
    out = []
    for line in text.split("\n"):
        line = line.split("--", 1)[0]
        m = re.match(r"\s*namespace\s+(\S+)", line)
        if m:
            ns.append(m.group(1))
            continue
        m = re.match(r"\s*end\s+(\S+)", line)
        if m and ns and ns[-1].endswith(m.group(1).split(".")[-1]):
            ns.pop()
            continue
        m = re.match(r"\s*(?:@\[[^\]]*\]\s*)?(?:protected\s+)?theorem\s+([^\s:({\[]+)", line)
        if m:
            out.append(".".join(ns + [m.group(1)]))
    return out


def main():
    res = {}
    props = os.path.join(LEAN, "J2M", "Props")
    for f in sorted(os.listdir(props)):
        if not f.endswith(".lean"):
            continue
        name = f[:-5]
        ths = theorems(os.path.join(props, f))
        for pid in ([name] if name not in SHARED else SHARED[name]):
            e = res.setdefault(pid, {"imports": [], "theorems": []})
            e["imports"].append(f"J2M.Props.{name}")
            e["theorems"].extend(ths)
    with open(os.path.join(LEAN, "obligations.json"), "w") as fp:
        json.dump(res, fp, indent=1)
    for k, v in res.items():
        print(k, len(v["theorems"]))


if __name__ == "__main__":
    main()
