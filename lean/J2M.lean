import J2M.Json
import J2M.Ty
import J2M.PyStr
import J2M.Hash
import J2M.Union
import J2M.StrTypes
import J2M.Generator
import J2M.Codec
import J2M.Sem
import J2M.Closure
import J2M.Names
import J2M.Registry
import J2M.Structure
import J2M.Pipeline
import J2M.Render
import J2M.Lex
import J2M.Header
import J2M.Props.HashInj
-- import J2M.Props.C01  -- (being repaired after the mergeOne change)
-- import J2M.Props.C02
import J2M.Props.C05
-- import J2M.Props.C07
-- import J2M.Props.C08
-- import J2M.Props.C09
import J2M.Props.C10
import J2M.Props.C13
import J2M.Props.C19
import J2M.Cli
import J2M.Runtime
import J2M.Converters
import J2M.LexRepr
import J2M.Props.C04
import J2M.Props.C10b
import J2M.Props.C14
import J2M.Props.C15
import J2M.Props.C16
import J2M.Props.C17
import J2M.Props.C18
import J2M.Props.C03
import J2M.Props.C06
import J2M.Props.C11
import J2M.Props.C12
