/-
  Line-protocol driver: one JSON request per line on stdin, one JSON response per line on stdout.
  Run with `lake env lean --run Main.lean`.
-/
import J2M.Codec
import J2M.Runtime
open J2M J2M.Codec

def okJ (j : J) : J := Lean.Json.mkObj [("ok", j)]
def errJ (e : PyErr) : J := Lean.Json.mkObj [("err", .str e.toString)]
def resJ {α} (enc : α → J) : Except PyErr α → J
  | .ok a => okJ (enc a)
  | .error e => errJ e

def eqEnvOf (o : GenOracles) : EqEnv := ⟨o.str, fun i => "Model#" ++ i, fun _ => none, 1000000⟩

/-- `["read"] | ["raise"] | ["seq", a, b] | ["inject", [[key, prefix], …] , body]` -/
partial def decBody (j : J) : Except String Runtime.Body := do
  match (← asArr j).toList with
  | [.str "read"] => pure .read
  | [.str "raise"] => pure .raise
  | [.str "seq", a, b] => do pure (.seq (← decBody a) (← decBody b))
  | [.str "inject", ps, b] => do
    let ps ← (← asArr ps).toList.mapM (fun p => do
      match (← asArr p).toList with
      | [.str k, .str v] => pure (k, v)
      | _ => err "bad patch")
    pure (.inject ps (← decBody b))
  | _ => err s!"bad body {j.compress}"

/-- what a reference to the probe model `P` shows under a context: its path prefix, or "" -/
def probePrefix (c : Runtime.Ctx) : String :=
  match c with
  | none => ""
  | some ps => ((ps.find? (·.1 == "P")).map (·.2)).getD ""

def handle (req : J) : Except String J := do
  let op ← asStr (← field req "op")
  match op with
  | "ping" => pure (okJ (.str "pong"))
  | "detect" => do
    let cfg ← decCfg (← field req "cfg")
    let o ← decOracles (fieldD req "orc" (Lean.Json.mkObj []))
    let v ← decJson (← field req "in")
    let cd ← asBool (fieldD req "convertDict" (.bool true))
    pure (resJ encTy (detect cfg o cd v))
  | "mkunion" => do
    let cfg ← decCfg (← field req "cfg")
    let ts ← (← asArr (← field req "in")).toList.mapM decTy
    pure (okJ (.arr ((mkUnionMembers cfg.lit ts).map encTy).toArray))
  | "hash" => do
    let ts ← (← asArr (← field req "in")).toList.mapM decTy
    pure (okJ (encStrs (ts.map hashStr)))
  | "pyeq" => do
    let o ← decOracles (fieldD req "orc" (Lean.Json.mkObj []))
    let a ← decTy (← field req "a")
    let b ← decTy (← field req "b")
    pure (resJ (fun b => Lean.Json.bool b) ((eqEnvOf o).eq a b))
  | "mergefs" => do
    let cfg ← decCfg (← field req "cfg")
    let o ← decOracles (fieldD req "orc" (Lean.Json.mkObj []))
    let sets ← (← asArr (← field req "in")).toList.mapM decFields
    pure (resJ encFields (mergeFieldSets cfg.lit (eqEnvOf o) sets))
  | "optimize" => do
    let cfg ← decCfg (← field req "cfg")
    let o ← decOracles (fieldD req "orc" (Lean.Json.mkObj []))
    let t ← decTy (← field req "in")
    let n ← asNat (fieldD req "times" (.num 1))
    let rec go : Nat → Ty → Except PyErr Ty
      | 0, t => pure t
      | k + 1, t => do
        let t' ← optimize cfg (eqEnvOf o) (Ty.fuelFor t) t
        go k t'
    pure (resJ encTy (go n t))
  | "resolve" => do
    let reg ← decReg (← field req "reg")
    let ks ← decStrs (← field req "in")
    pure (resJ encStrs (resolve reg ks (ks.length + 2)))
  | "generate" => do
    let cfg ← decCfg (← field req "cfg")
    let o ← decOracles (fieldD req "orc" (Lean.Json.mkObj []))
    let samples ← (← asArr (← field req "in")).toList.mapM decJson
    pure (resJ encTy (generate cfg o samples))
  | "pipeline" => do
    let cfg ← decCfg (← field req "cfg")
    let orc := fieldD req "orc" (Lean.Json.mkObj [])
    let o : PipeOracles := { gen := ← decOracles orc, names := ← decNameOracles orc }
    let cmps ← decCmps (← field req "cmps")
    let inputs ← (← asArr (← field req "in")).toList.mapM (fun e => do
      match (← asArr e).toList with
      | [.str name, .arr samples] => do pure (name, ← samples.toList.mapM decJson)
      | _ => err "bad input")
    let encE {α} (enc : α → J) : Except PyErr α → J := fun r => match r with
      | .ok a => enc a
      | .error e => Lean.Json.mkObj [("err", .str e.toString)]
    let firstPhase ← (match req.getObjVal? "first" with
      | .ok (.arr xs) => xs.toList.mapM (fun e => do
          match (← asArr e).toList with
          | [.str name, .arr samples] => do pure (name, ← samples.toList.mapM decJson)
          | _ => err "bad input")
      | _ => pure [])
    match (if firstPhase.isEmpty then pipeline cfg o cmps inputs else pipelineTwo cfg o cmps firstPhase inputs) with
    | .error e => pure (errJ e)
    | .ok r =>
      -- optional render jobs, run in sequence on the same graph (class names are converted in place)
      let jobs ← asArr (fieldD req "render" (.arr #[]))
      let consts := fieldD req "consts" (Lean.Json.mkObj [])
      let lo ← decLabelOracles orc
      let ro : RenderOracles := { label := lo, isPrintable := o.gen.str.isPrintable }
      let mut g := r.named
      let mut outs : Array J := #[]
      for job in jobs do
        let rc ← decRenderCfg job consts
        let layout ← asStr (fieldD job "layout" (.str "flat"))
        let pre := match fieldD job "preamble" .null with | .str p => some p | _ => none
        let fresh ← asBool (fieldD job "fresh" (.bool true))
        let g0 := if fresh then r.named else g
        let res : Except PyErr (String × NameMap) := do
          let (roots, inj) ← (if layout == "nested" then composeNested g0
            else do pure ((← composeFlat g0).map (fun i => Node.mk i []), []))
          generateCode rc ro g0 roots inj pre
        match res with
        | .ok (text, names) =>
          g := { g0 with models := g0.models.map (fun m => { m with name := ((names.find? (·.1 == m.idx)).map (·.2)).join }) }
          outs := outs.push (Lean.Json.mkObj [("text", .str text)])
        | .error e =>
          g := g0
          outs := outs.push (Lean.Json.mkObj [("err", .str e.toString)])
      pure (okJ (Lean.Json.mkObj [
        ("render", .arr outs),
        ("process", encGraph r.afterProcess),
        ("merge", encGraph r.afterMerge),
        ("replaces", encRepl r.replaces),
        ("named", encGraph r.named),
        ("flat", encE encStrs (composeFlat r.named)),
        ("nested", encE (fun (p : List Node × List (String × String)) =>
            Lean.Json.arr #[.arr (p.1.map encNode).toArray,
              .arr (p.2.map (fun (a, b) => Lean.Json.arr #[.str a, .str b])).toArray]) (composeNested r.named))]))
  | "strtype" => do
    let s ← asStr (← field req "in")
    let lower ← asStr (← field req "lower")
    let i := parseInt s.toList
    let b := parseBool (fun _ => lower) s
    pure (okJ (Lean.Json.mkObj [
      ("int", match i with | some v => .str (String.ofList (renderInt v)) | none => .null),
      ("bool", match b with | some v => .bool v | none => .null)]))
  | "pylex" => do
    let s ← asStr (← field req "in")
    pure (okJ (match pyLexStr s.toList with
      | some cps => .arr (cps.map (fun (n : Nat) => Lean.Json.num (Lean.JsonNumber.fromNat n))).toArray
      | none => .null))
  | "header" => do
    let version ← asStr (← field req "version")
    let ctime ← asStr (← field req "ctime")
    let argv ← decStrs (← field req "argv")
    let old ← asBool (fieldD req "old" (.bool false))
    let text := if old then Header.versionStringOld version.toList ctime.toList (argv.map String.toList)
                else Header.versionString version.toList ctime.toList (argv.map String.toList)
    pure (okJ (Lean.Json.mkObj [
      ("text", .str (String.ofList text)),
      ("ok", .bool (Header.headerOk text)),
      ("value", match Header.headerValue text with | some v => .str (String.ofList v) | none => .null)]))
  | "headerok" => do
    let text ← asStr (← field req "in")
    pure (okJ (Lean.Json.mkObj [
      ("ok", .bool (Header.headerOk text.toList)),
      ("value", match Header.headerValue text.toList with | some v => .str (String.ofList v) | none => .null)]))
  | "assemble" => do
    let args ← (← asArr (← field req "in")).toList.mapM (fun e => do
      match (← asArr e).toList with
      | [.str name, .str lookup, .arr docs] => do
        pure ({ name := name, lookup := lookup, docs := ← docs.toList.mapM decJson } : Cli.Arg)
      | _ => err "bad arg")
    pure (resJ (fun (r : List (String × List J2M.Json)) =>
      Lean.Json.arr (r.map (fun (n, xs) => Lean.Json.arr #[.str n, .num (Lean.JsonNumber.fromNat xs.length),
        .arr (xs.map encJsonV).toArray])).toArray) (Cli.assemble args))
  | "lookup" => do
    let d ← decJson (← field req "doc")
    let l ← asStr (← field req "lookup")
    pure (resJ (fun (xs : List J2M.Json) => Lean.Json.arr (xs.map encJsonV).toArray) (Cli.iterJsonFile d l))
  | "parsemerge" => do
    let m ← asStr (← field req "in")
    let pt ← (← asArr (fieldD req "percent" (.arr #[]))).toList.mapM (fun e => do
      match (← asArr e).toList with
      | [.str s, .null] => pure (s, (none : Option (Nat × Nat)))
      | [.str s, n, d] => do pure (s, some ((← asNat n), (← asNat d)))
      | _ => err "bad percent")
    let it ← (← asArr (fieldD req "int" (.arr #[]))).toList.mapM (fun e => do
      match (← asArr e).toList with
      | [.str s, .null] => pure (s, (none : Option Int))
      | [.str s, n] => do pure (s, some (← asInt n))
      | _ => err "bad int")
    let dp ← asArr (← field req "defaultPercent")
    let dn ← asNat (← field req "defaultNumber")
    let po : Cli.PercentOracle := fun s => (pt.find? (·.1 == s)).map (·.2)
    let io : Cli.IntOracle := fun s => (it.find? (·.1 == s)).map (·.2)
    let r := Cli.parseMerge po io ((← asNat dp[0]!), (← asNat dp[1]!)) dn m
    pure (resJ (fun (c : Cmp) => match c with
      | .exact => Lean.Json.arr #[.str "exact"]
      | .percent n d => Lean.Json.arr #[.str "percent", .num (Lean.JsonNumber.fromNat n), .num (Lean.JsonNumber.fromNat d)]
      | .number n => Lean.Json.arr #[.str "number", .num (Lean.JsonNumber.fromNat n)]
      | .table _ => Lean.Json.arr #[.str "table"]) r)
  | "parsemergelist" => do
    let ms ← (← asArr (← field req "in")).toList.mapM asStr
    let pt ← (← asArr (fieldD req "percent" (.arr #[]))).toList.mapM (fun e => do
      match (← asArr e).toList with
      | [.str s, .null] => pure (s, (none : Option (Nat × Nat)))
      | [.str s, n, d] => do pure (s, some ((← asNat n), (← asNat d)))
      | _ => err "bad percent")
    let it ← (← asArr (fieldD req "int" (.arr #[]))).toList.mapM (fun e => do
      match (← asArr e).toList with
      | [.str s, .null] => pure (s, (none : Option Int))
      | [.str s, n] => do pure (s, some (← asInt n))
      | _ => err "bad int")
    let dp ← asArr (← field req "defaultPercent")
    let dn ← asNat (← field req "defaultNumber")
    let po : Cli.PercentOracle := fun s => (pt.find? (·.1 == s)).map (·.2)
    let io : Cli.IntOracle := fun s => (it.find? (·.1 == s)).map (·.2)
    let r := Cli.parseMergeList po io ((← asNat dp[0]!), (← asNat dp[1]!)) dn ms
    pure (resJ (fun (cs : List Cmp) => Lean.Json.arr (cs.map (fun c => match c with
      | .exact => Lean.Json.arr #[.str "exact"]
      | .percent n d => Lean.Json.arr #[.str "percent", .num (Lean.JsonNumber.fromNat n), .num (Lean.JsonNumber.fromNat d)]
      | .number n => Lean.Json.arr #[.str "number", .num (Lean.JsonNumber.fromNat n)]
      | .table _ => Lean.Json.arr #[.str "table"])).toArray) r)
  | "clirun" => do
    -- effect-trace model of `main()`: which step fails (if any) and what the world looks like afterwards
    let stepErr (k : String) : Except String (Option PyErr) := do
      match fieldD req k .null with
      | .null => pure none
      | .str _ => pure (some PyErr.valueError)
      | _ => err "bad step"
    let argOk ← asBool (fieldD req "argparseOk" (.bool true))
    let loadE ← stepErr "loadErr"
    let valE ← stepErr "validateErr"
    let pipeE ← stepErr "pipelineErr"
    let code ← asStr (fieldD req "code" (.str ""))
    let header ← asStr (fieldD req "header" (.str ""))
    let output := match fieldD req "output" .null with | .str p => some p | _ => none
    let files ← decPairs (fieldD req "files" (.arr #[]))
    let r : Cli.Run := {
      argparseOk := argOk,
      load := match loadE with | some e => .error e | none => .ok [],
      validate := match valE with | some e => .error e | none => .ok (),
      pipeline := fun _ => match pipeE with | some e => .error e | none => .ok code,
      header := header, output := output }
    let o := Cli.runCli r files
    pure (okJ (Lean.Json.mkObj [("exit", .num (Lean.JsonNumber.fromNat o.exit)), ("stdout", .str o.stdout),
      ("files", .arr (o.files.map (fun (p, t) => Lean.Json.arr #[.str p, .str t])).toArray)]))
  | "convert" => do
    let o ← decOracles (fieldD req "orc" (Lean.Json.mkObj []))
    let t ← decTy (← field req "ty")
    let v ← decJson (← field req "in")
    let path ← decStrs (← field req "path")
    let optional ← asBool (fieldD req "optional" (.bool false))
    pure (resJ encPVal (processValue o.accepts path v t optional))
  | "paths" => do
    let fs ← decFields (← field req "in")
    pure (resJ (fun (ps : List (String × String)) =>
      Lean.Json.arr (ps.map (fun (k, p) => Lean.Json.arr #[.str k, .str p])).toArray) (stringFieldPaths fs))
  | "kwargs" => do
    let items ← decStrs (← field req "in")
    pure (resJ (fun (kv : List (String × String)) =>
      Lean.Json.arr (kv.map (fun (k, v) => Lean.Json.arr #[.str k, .str v])).toArray) (CliArgs.parseKwargs items))
  | "splitpattern" => do
    let parts ← decStrs (← field req "in")
    let r := CliArgs.splitPattern parts
    pure (okJ (Lean.Json.arr #[encStrs r.1, encStrs r.2]))
  | "modeltuple" => do
    let xs ← decStrs (← field req "in")
    pure (resJ (fun (t : String × String × String) => Lean.Json.arr #[.str t.1, .str t.2.1, .str t.2.2]) (CliArgs.modelTuple xs))
  | "ctxexec" => do
    let items ← (← asArr (← field req "schedule")).toList.mapM (fun it => do
      match (← asArr it).toList with
      | [t, b] => do pure ((← asNat t), (← decBody b))
      | _ => err "bad schedule item")
    let threads ← (← asArr (← field req "threads")).toList.mapM asNat
    let (st, outs) := items.foldl (fun (acc : Runtime.CtxState × List J) (it : Nat × Runtime.Body) =>
      let (s1, ok, reads) := Runtime.exec it.1 it.2 acc.1
      (s1, acc.2 ++ [Lean.Json.mkObj [("ok", .bool ok), ("reads", encStrs (reads.map probePrefix))]])) (({} : Runtime.CtxState), [])
    pure (okJ (Lean.Json.mkObj [("items", .arr outs.toArray),
      ("final", encStrs (threads.map (fun t => probePrefix (st.get t))))]))
  | "ctxops" => do
    let ops ← (← asArr (← field req "ops")).toList.mapM (fun o => do
      match (← asArr o).toList with
      | [.str "enter", t, ps] => do
        let ps ← (← asArr ps).toList.mapM (fun p => do
          match (← asArr p).toList with
          | [.str k, .str v] => pure (k, v)
          | _ => err "bad patch")
        pure (Runtime.Op.enter (← asNat t) ps)
      | [.str "exit", t] => do pure (Runtime.Op.exit (← asNat t))
      | [.str "read", t] => do pure (Runtime.Op.read (← asNat t))
      | _ => err "bad op")
    pure (okJ (encStrs ((Runtime.runOps ops).2.map probePrefix)))
  | "setargs" => do
    let kw ← decStrs (← field req "kw")
    let dkr ← decStrs (← field req "dkr")
    let dkf ← decStrs (← field req "dkf")
    let dis ← asBool (← field req "disableUnicode")
    let pre ← (match req.getObjVal? "preamble" with
      | .ok (.str p) => pure (some p)
      | _ => pure none)
    pure (resJ (fun (r : CliArgs.SetArgs) => Lean.Json.mkObj [("dkr", encStrs r.dictKeysRegex), ("dkf", encStrs r.dictKeysFields),
      ("preamble", match r.preamble with | some p => .str p | none => .null), ("convert_unicode", .bool r.convertUnicode),
      ("kwargs", Lean.Json.arr (r.kwargs.map (fun (k, v) => Lean.Json.arr #[.str k, .str v])).toArray)])
      (CliArgs.setArgs kw dkr dkf dis pre))
  | "spaces" => do
    let lim ← asNat (← field req "limit")
    pure (okJ (Lean.Json.arr (((List.range lim).filter (fun n => CliArgs.pyIsSpace (Char.ofNat n))).map
      (fun n => Lean.Json.num (Lean.JsonNumber.fromNat n))).toArray))
  | "removebyname" => do
    let reg ← decReg (← field req "reg")
    let name ← asStr (← field req "name")
    let r := reg.removeByName name
    pure (okJ (Lean.Json.mkObj [("types", encStrs r.types),
      ("replaces", .arr (r.replaces.map (fun (a, b) => Lean.Json.arr #[.str a, .str b])).toArray)]))
  | "closure" => do
    let n ← asNat (← field req "n")
    let edges ← (← asArr (← field req "edges")).toList.mapM (fun e => do
      match (← asArr e).toList with
      | [a, b] => do pure ((← asNat a), (← asNat b))
      | _ => err "bad edge")
    let sim : Nat → Nat → Bool := fun a b => edges.contains (a, b) || edges.contains (b, a)
    pure (match Closure.mergeGroups sim n with
      | some gs => okJ (.arr (gs.map (fun g => Lean.Json.arr (g.map (fun (x : Nat) => Lean.Json.num (Lean.JsonNumber.fromNat x))).toArray)).toArray)
      | none => errJ .outOfFuel)
  | _ => err s!"unknown op {op}"

partial def loop (h : IO.FS.Stream) (out : IO.FS.Stream) : IO Unit := do
  let line ← h.getLine
  if line.isEmpty then return ()
  let resp : J := match Lean.Json.parse line with
    | .error e => Lean.Json.mkObj [("bad", .str e)]
    | .ok req => match handle req with
      | .ok j => j
      | .error e => Lean.Json.mkObj [("bad", .str e)]
  out.putStrLn resp.compress
  loop h out

def main : IO Unit := do
  let out ← IO.getStdout
  loop (← IO.getStdin) out
  out.flush
