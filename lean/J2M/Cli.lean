/-
  The command line front end (json_to_models/cli.py): `dict_lookup`, `iter_json_file`, `setup_models_data`,
  merge-policy parsing, and `run` as an effect trace over a world (files, stdout, exit status).
  Globbing and file parsing are inputs: the model starts at the parsed documents in argument order.
-/
import J2M.Registry
namespace J2M.Cli

/-- `str.split('.', 1)` -/
def splitDot1 (s : List Char) : List Char × Option (List Char) :=
  match s.span (· != '.') with
  | (a, []) => (a, none)
  | (a, _ :: rest) => (a, some rest)

/-- `d[key]` for a string key on a parsed document -/
def subscript (d : Json) (key : String) : Except PyErr Json :=
  match d with
  | .obj kvs => match kvs.find? (·.1 == key) with
    | some (_, v) => pure v
    | none => .error .keyError
  | _ => .error .typeError          -- list / str indices must be integers; int / None are not subscriptable

/-- `dict_lookup(d, lookup)`; structural recursion on the remaining lookup length via fuel = its length + 1 -/
def dictLookupAux : Nat → Json → List Char → Except PyErr Json
  | 0, d, _ => pure d
  | fuel + 1, d, lookup =>
    if lookup.isEmpty || lookup == ['-'] then pure d else
    match splitDot1 lookup with
    | (k, none) => subscript d (String.ofList k)
    | (k, some rest) => do
      let d' ← subscript d (String.ofList k)
      dictLookupAux fuel d' rest

def dictLookup (d : Json) (lookup : String) : Except PyErr Json :=
  dictLookupAux (lookup.length + 1) d lookup.toList

/-- `iter_json_file(data, lookup)` -/
def iterJsonFile (data : Json) (lookup : String) : Except PyErr (List Json) := do
  match ← dictLookup data lookup with
  | .arr xs => pure xs
  | .obj kvs => pure [.obj kvs]
  | _ => .error .typeError

/-- one `-m` / `-l` tuple after path expansion and parsing: (model name, lookup, documents in order) -/
structure Arg where
  name : String
  lookup : String
  docs : List Json

/-- `models_dict[name].extend(...)` on an insertion-ordered defaultdict(list) -/
def extend : List (String × List Json) → String → List Json → List (String × List Json)
  | [], n, xs => [(n, xs)]
  | (n', ys) :: rest, n, xs => if n' == n then (n', ys ++ xs) :: rest else (n', ys) :: extend rest n xs

/-- `setup_models_data(models, models_lists, parser)` with `args = models ++ lists` -/
def assemble (args : List Arg) : Except PyErr (List (String × List Json)) :=
  args.foldlM (fun acc (a : Arg) => do
    -- an argument whose pattern matched no file never touches `models_dict[name]`: no entry is created
    a.docs.foldlM (fun acc d => do
      let items ← iterJsonFile d a.lookup
      pure (extend acc a.name items)) acc) []

/-- `float(s) / 100` as an exact fraction, or failure: an oracle (CPython's float parser) -/
abbrev PercentOracle := String → Option (Option (Nat × Nat))
/-- `int(s)` for the number policy: `none` = oracle miss, `some none` = ValueError -/
abbrev IntOracle := String → Option (Option Int)

def splitUnderscore (s : String) : List String := s.splitOn "_"

/-- one `--merge` item: `validate` then `MODEL_CMP_MAPPING[name](*args)` -/
def parseMerge (po : PercentOracle) (io : IntOracle) (defaultPercent : Nat × Nat) (defaultNumber : Nat) (m : String) :
    Except PyErr Cmp :=
  let parts := if m.contains '_' then splitUnderscore m else [m]
  match parts with
  | ["percent"] => pure (.percent defaultPercent.1 defaultPercent.2)
  | ["percent", a] => match po a with
    | none => .error (.oracleMiss ("percent " ++ a))
    | some none => .error .valueError
    | some (some (n, d)) => pure (.percent n d)
  | ["number"] => pure (.number defaultNumber)
  | ["number", a] => match io a with
    | none => .error (.oracleMiss ("int " ++ a))
    | some none => .error .valueError
    | some (some i) => pure (.number i.toNat)
  | ["exact"] => pure .exact
  | "percent" :: a :: _ :: _ => match po a with        -- the argument converter runs before the constructor's arity check
    | none => .error (.oracleMiss ("percent " ++ a))
    | some none => .error .valueError
    | some (some _) => .error .typeError
  | "number" :: a :: _ :: _ => match io a with
    | none => .error (.oracleMiss ("int " ++ a))
    | some none => .error .valueError
    | some (some _) => .error .typeError
  | name :: _ => if name == "percent" || name == "number" || name == "exact" then .error .typeError   -- too many arguments
                 else .error .valueError                                                          -- invalid merge policy
  | [] => .error .valueError

/-- the name part of one `--merge` item, as `parse_args` splits it -/
def mergeName (m : String) : String :=
  match (if m.contains '_' then splitUnderscore m else [m]) with
  | name :: _ => name
  | [] => m

/-- `validate` over the whole `--merge` list: the first item whose name is not a policy name raises, before anything is
  converted -/
def validateMerge : List String → Except PyErr Unit
  | [] => pure ()
  | m :: rest =>
    if mergeName m == "percent" || mergeName m == "number" || mergeName m == "exact" then validateMerge rest
    else .error .valueError

/-- `set_args` over the `--merge` list: one comparator per item, in the order given (nothing is dropped or re-ordered; a
  kind may occur several times) -/
def convertMerge (po : PercentOracle) (io : IntOracle) (dp : Nat × Nat) (dn : Nat) : List String → Except PyErr (List Cmp)
  | [] => pure []
  | m :: rest => do
    let c ← parseMerge po io dp dn m
    let cs ← convertMerge po io dp dn rest
    pure (c :: cs)

/-- `validate` then `set_args` -/
def parseMergeList (po : PercentOracle) (io : IntOracle) (dp : Nat × Nat) (dn : Nat) (items : List String) :
    Except PyErr (List Cmp) := do
  validateMerge items
  convertMerge po io dp dn items

/-- observable result of a CLI process -/
structure Outcome where
  exit : Nat
  stdout : String
  files : List (String × String)
  deriving Repr, BEq

def writeFile (files : List (String × String)) (path text : String) : List (String × String) :=
  (path, text) :: files.filter (·.1 != path)

/-- what `parse_args` + `run` need from the outside world, each step as a result -/
structure Run where
  argparseOk : Bool                              -- argparse accepted the command line (else exit 2, usage on stderr)
  load : Except PyErr (List (String × List Json))   -- remove_by_name, loading + lookups (`setup_models_data`)
  validate : Except PyErr Unit                   -- `validate` + `set_args` (merge policies, framework/generator, regex compile)
  pipeline : List (String × List Json) → Except PyErr String   -- generate … generate_code (the library pipeline)
  header : String
  output : Option String                         -- `-o FILE` ("" = not given)

/-- `main()`: every fallible step precedes the write; an exception anywhere means exit status 1 and a traceback on stderr -/
def runCli (r : Run) (files : List (String × String)) : Outcome :=
  if !r.argparseOk then ⟨2, "", files⟩ else
  match r.load with
  | .error _ => ⟨1, "", files⟩
  | .ok data =>
    match r.validate with
    | .error _ => ⟨1, "", files⟩
    | .ok () =>
      match r.pipeline data with
      | .error _ => ⟨1, "", files⟩
      | .ok code =>
        let text := r.header ++ code
        match r.output with
        | some path => if path.isEmpty then ⟨0, text ++ "\n", files⟩
                       else ⟨0, "Output is written to " ++ path ++ "\n", writeFile files path text⟩
        | none => ⟨0, text ++ "\n", files⟩

end J2M.Cli
