/-
  Python/JSON string printers that carry user text into source or into sort keys:
  `json.dumps(s)` (both `ensure_ascii` modes) and `repr(s)`.
  `isPrintable` (str.isprintable per character, non-ASCII only) is an oracle parameter.
-/
namespace J2M

def hexDigit (n : Nat) : Char :=
  if n < 10 then Char.ofNat (48 + n) else Char.ofNat (87 + n)

/-- lower-case hex of `n`, left-padded with zeros to `w` digits -/
def hexPad (w : Nat) (n : Nat) : List Char :=
  let rec go : Nat → Nat → List Char → List Char
    | 0, _, acc => acc
    | w + 1, n, acc => go w (n / 16) (hexDigit (n % 16) :: acc)
  go w n []

def u4 (n : Nat) : List Char := '\\' :: 'u' :: hexPad 4 n

/-- one character of `json.dumps(s, ensure_ascii=ascii)` (py_encode_basestring[_ascii]) -/
def jsonEscChar (ascii : Bool) (c : Char) : List Char :=
  if c = '"' then ['\\', '"']
  else if c = '\\' then ['\\', '\\']
  else if c = '\n' then ['\\', 'n']
  else if c = '\r' then ['\\', 'r']
  else if c = '\t' then ['\\', 't']
  else if c.toNat = 8 then ['\\', 'b']
  else if c.toNat = 12 then ['\\', 'f']
  else if c.toNat < 32 then u4 c.toNat
  else if c.toNat < 127 ∨ c.toNat = 127 then [c]
  else if !ascii then [c]
  else if c.toNat < 0x10000 then u4 c.toNat
  else
    let v := c.toNat - 0x10000
    u4 (0xd800 + v / 1024) ++ u4 (0xdc00 + v % 1024)

def jsonDumpsChars (ascii : Bool) (s : List Char) : List Char :=
  '"' :: (s.flatMap (jsonEscChar ascii)) ++ ['"']

def jsonDumps (ascii : Bool) (s : String) : String := String.ofList (jsonDumpsChars ascii s.toList)

/-- `json.dumps(list_of_str)` with default separators -/
def jsonDumpsList (ascii : Bool) (xs : List String) : String :=
  "[" ++ ", ".intercalate (xs.map (jsonDumps ascii)) ++ "]"

/-- one character of `repr(str)`; `q` is the chosen quote -/
def reprEscChar (isPrintable : Char → Bool) (q : Char) (c : Char) : List Char :=
  if c = q ∨ c = '\\' then ['\\', c]
  else if c = '\t' then ['\\', 't']
  else if c = '\n' then ['\\', 'n']
  else if c = '\r' then ['\\', 'r']
  else if c.toNat < 32 ∨ c.toNat = 127 then '\\' :: 'x' :: hexPad 2 c.toNat
  else if c.toNat < 127 then [c]
  else if isPrintable c then [c]
  else if c.toNat < 256 then '\\' :: 'x' :: hexPad 2 c.toNat
  else if c.toNat < 0x10000 then '\\' :: 'u' :: hexPad 4 c.toNat
  else '\\' :: 'U' :: hexPad 8 c.toNat

def reprQuote (s : List Char) : Char :=
  if s.contains '\'' && !s.contains '"' then '"' else '\''

def pyReprChars (isPrintable : Char → Bool) (s : List Char) : List Char :=
  let q := reprQuote s
  q :: (s.flatMap (reprEscChar isPrintable q)) ++ [q]

def pyRepr (isPrintable : Char → Bool) (s : String) : String :=
  String.ofList (pyReprChars isPrintable s.toList)

/-- `repr(list_of_str)` -/
def pyReprList (isPrintable : Char → Bool) (xs : List String) : String :=
  "[" ++ ", ".intercalate (xs.map (pyRepr isPrintable)) ++ "]"

/-- insertion sort of strings by code point order (Python `sorted` on str); stable -/
def insertSorted (x : String) : List String → List String
  | [] => [x]
  | y :: ys => if x < y then x :: y :: ys else y :: insertSorted x ys   -- equal keys: after (stable)
def sortStrings (xs : List String) : List String := xs.foldl (fun acc x => insertSorted x acc) []

/-- sorted union of two duplicate-free sorted lists: insert if absent -/
def insertUniq (x : String) : List String → List String
  | [] => [x]
  | y :: ys => if x < y then x :: y :: ys else if x == y then y :: ys else y :: insertUniq x ys
def sortUniq (xs : List String) : List String := xs.foldl (fun acc x => insertUniq x acc) []

/-- stable insertion sort by a string key (Python `sorted(xs, key=f)`) -/
def insertByKey {α} (key : α → String) (x : α) : List α → List α
  | [] => [x]
  | y :: ys => if key x < key y then x :: y :: ys else y :: insertByKey key x ys
def sortByKey {α} (key : α → String) (xs : List α) : List α :=
  xs.foldl (fun acc x => insertByKey key x acc) []

end J2M
