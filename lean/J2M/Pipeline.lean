/-
  The library pipeline as the CLI drives it (cli.py:113-126): per model name `generate` + `process_meta_data`,
  then `merge_models`, `generate_names`, and a layout.
-/
import J2M.Structure
namespace J2M

structure PipeOracles where
  gen : GenOracles
  names : NameOracles

/-- registry after `process_meta_data` of every named sample list -/
def buildGraph (cfg : GenCfg) (o : GenOracles) (inputs : List (String × List Json)) : Except PyErr Graph :=
  inputs.foldlM (fun g (inp : String × List Json) => do
    match ← generate cfg o inp.2 with
    | .obj fs => pure (processMetaData g fs (some inp.1)).1
    | _ => throw PyErr.typeError) {}

structure PipeResult where
  afterProcess : Graph
  afterMerge : Graph
  replaces : List (String × List String)
  named : Graph

def pipeline (cfg : GenCfg) (o : PipeOracles) (cmps : List Cmp) (inputs : List (String × List Json)) :
    Except PyErr PipeResult := do
  let g0 ← buildGraph cfg o.gen inputs
  let (g1, repl) ← mergeModels cfg o.gen.str cmps g0
  let g2 ← generateNames o.names g1
  pure ⟨g0, g1, repl, g2⟩

/-- `process_meta_data` of further named sample lists into an existing registry -/
def buildGraphFrom (cfg : GenCfg) (o : GenOracles) (g0 : Graph) (inputs : List (String × List Json)) : Except PyErr Graph :=
  inputs.foldlM (fun g (inp : String × List Json) => do
    match ← generate cfg o inp.2 with
    | .obj fs => pure (processMetaData g fs (some inp.1)).1
    | _ => throw PyErr.typeError) g0

/-- a registry that is merged, receives more data and is merged again (library use: several `merge_models()` calls) -/
def pipelineTwo (cfg : GenCfg) (o : PipeOracles) (cmps : List Cmp) (first more : List (String × List Json)) :
    Except PyErr PipeResult := do
  let g0 ← buildGraph cfg o.gen first
  let (g1, _) ← mergeModels cfg o.gen.str cmps g0
  let g2 ← buildGraphFrom cfg o.gen g1 more
  let (g3, repl) ← mergeModels cfg o.gen.str cmps g2
  let g4 ← generateNames o.names g3
  pure ⟨g2, g3, repl, g4⟩

end J2M
