/-
  Rendering: `metadata_to_typing` / `to_typing_code` (dynamic_typing/*), `compile_imports`,
  `get_string_field_paths` (models/string_converters.py), the class body template and the framework field bodies
  (models/base.py, pydantic.py, sqlmodel.py, attr.py, dataclasses.py), `generate_code`.
-/
import J2M.Structure
namespace J2M

inductive Framework where
  | base | pydantic | sqlmodel | attrs | dataclasses
  deriving Repr, BEq, DecidableEq, Inhabited

structure Imp where
  module : String
  names : Option (List String)       -- `None` = `import module`
  deriving Repr, BEq, Inhabited

structure RenderCfg where
  fw : Framework
  maxLiterals : Int                  -- `int(max_literals)`
  postInit : Bool                    -- post_init_converters as passed (pydantic/sqlmodel force False)
  convertUnicode : Bool
  withMeta : Bool                        -- attrs/dataclasses `meta`
  decoKwargs : List (String × String)  -- attrs_kwargs / dataclass_kwargs, values already rendered
  literalModule : String             -- `Literal.__module__`
  blacklist : List String
  serInfo : List (String × String × String)   -- kind ↦ (actual type name, its module)
  metadataFieldName : String
  deriving Repr

def RenderCfg.useLiterals (c : RenderCfg) : Bool := c.fw != .attrs
def RenderCfg.useActual (c : RenderCfg) : Bool := c.fw == .pydantic || c.fw == .sqlmodel
def RenderCfg.postInitEff (c : RenderCfg) : Bool := c.postInit && !(c.fw == .pydantic || c.fw == .sqlmodel)

/-- current class names by model index, and path injections (child ↦ root index) -/
structure RefEnv where
  names : List (String × Option String)
  pathInj : List (String × String)

def RefEnv.name? (e : RefEnv) (i : String) : Option String := ((e.names.find? (·.1 == i)).map (·.2)).join

mutual
/-- `metadata_to_typing(t, types_style)` → (imports, code) -/
def typingCode (c : RenderCfg) (e : RefEnv) : Ty → Except PyErr (List Imp × String)
  | .int => pure ([], "int") | .float => pure ([], "float") | .bool => pure ([], "bool") | .str => pure ([], "str")
  | .null => pure ([], "None")
  | .unknown => pure ([⟨"typing", some ["Any"]⟩], "Any")
  | .ser k =>
    if c.useActual then
      match c.serInfo.find? (·.1 == k) with
      | some (_, an, am) => pure (if am != "builtins" then [⟨am, some [an]⟩] else [], an)
      | none => .error (.oracleMiss ("serInfo " ++ k))
    else pure ([⟨"json_to_models.dynamic_typing", some [k]⟩], k)
  | .lit _ vs =>
    if c.useLiterals && decide ((vs.length : Int) < c.maxLiterals) then
      pure ([⟨c.literalModule, some ["Literal"]⟩], "Literal[" ++ ", ".intercalate (vs.map (jsonDumps false)) ++ "]")
    else pure ([], "str")
  | .list t => do let (i, s) ← typingCode c e t; pure (i ++ [⟨"typing", some ["List"]⟩], "List[" ++ s ++ "]")
  | .dict t => do let (i, s) ← typingCode c e t; pure (i ++ [⟨"typing", some ["Dict"]⟩], "Dict[str, " ++ s ++ "]")
  | .opt t => do let (i, s) ← typingCode c e t; pure (i ++ [⟨"typing", some ["Optional"]⟩], "Optional[" ++ s ++ "]")
  | .union ts => do
    let (i, ss) ← typingCodes c e ts
    if ts.isEmpty then .error .valueError else
    pure (i ++ [⟨"typing", some ["Union"]⟩], "Union[" ++ ", ".intercalate ss ++ "]")
  | .tuple ts => do
    let (i, ss) ← typingCodes c e ts
    if ts.isEmpty then .error .valueError else
    pure (i ++ [⟨"typing", some ["Tuple"]⟩], "Tuple[" ++ ", ".intercalate ss ++ "]")
  | .obj _ => .error .valueError
  | .ptr i =>
    match e.name? i with
    | none => .error .valueError               -- 'Model without name can not be typed'
    | some n =>
      let path := match e.pathInj.find? (·.1 == i) with
        | some (_, r) => (e.name? r).getD ""
        | none => ""
      let parts := [path, n].filter (fun s => !s.isEmpty)
      pure ([], "'" ++ ".".intercalate parts ++ "'")
def typingCodes (c : RenderCfg) (e : RefEnv) : List Ty → Except PyErr (List Imp × List String)
  | [] => pure ([], [])
  | t :: ts => do
    let (i, s) ← typingCode c e t
    let (is, ss) ← typingCodes c e ts
    pure (i ++ is, s :: ss)
end

/-- `compile_imports(imports)` -/
def compileImports (imps : List Imp) : String :=
  let pkgs := sortUniq ((imps.filter (·.names.isNone)).map (·.module))
  let mods := sortUniq ((imps.filter (·.names.isSome)).map (·.module))
  let classLines := mods.map (fun m =>
    let names := sortUniq ((imps.filter (fun i => i.module == m)).flatMap (fun i => i.names.getD []))
    "from " ++ m ++ " import " ++ ", ".intercalate names)
  let pkgLines := pkgs.map (fun m => "import " ++ m)
  "\n".intercalate ([("\n".intercalate pkgLines), ("\n".intercalate classLines)].filter (fun s => !s.isEmpty))

/-- one field of `get_string_field_paths`: the converter path, if the type is a chain of Optional/List/Dict
    over exactly one pseudo-type leaf -/
def stringFieldPath : Ty → Except PyErr (Option (List String))
  | .ser _ => pure (some ["S"])
  | .opt t => do pure ((← stringFieldPath t).map ("O" :: ·))
  | .list t => do pure ((← stringFieldPath t).map ("L" :: ·))
  | .dict t => do pure ((← stringFieldPath t).map ("D" :: ·))
  | .union _ | .ptr _ => pure none
  | .null | .unknown | .lit _ _ => pure none
  | .int | .float | .bool | .str => pure none
  | .tuple _ | .obj _ => .error .typeError

/-- `get_string_field_paths(model)` → (raw field name, dotted path or "" for a bare pseudo-type) -/
def stringFieldPaths (fields : Fields) : Except PyErr (List (String × String)) := do
  let r ← fields.mapM (fun (kv : String × Ty) => do
    match ← stringFieldPath kv.2 with
    | some ["S"] => pure (some (kv.1, ""))
    | some p => pure (some (kv.1, ".".intercalate p))
    | none => pure none)
  pure (r.filterMap id)

def renderKwargs (kw : List (String × String)) : String := ", ".intercalate (kw.map (fun (k, v) => k ++ "=" ++ v))

/-- `sort_kwargs(kwargs, ordering)` with `first` groups before and `last` groups after the rest -/
def sortKwargs (kw : List (String × String)) (first last : List String) : List (String × String) :=
  let f := first.filterMap (fun k => kw.find? (·.1 == k))
  let l := last.filterMap (fun k => kw.find? (·.1 == k))
  f ++ kw.filter (fun p => !first.contains p.1 && !last.contains p.1) ++ l

structure RenderOracles where
  label : LabelOracles
  isPrintable : Char → Bool

def convertFieldName (c : RenderCfg) (o : RenderOracles) (name : String) : Except PyErr String :=
  if c.fw == .sqlmodel && (name == "id" || name == "pk") then pure name
  else prepareLabel o.label c.blacklist c.convertUnicode true name

def convertClassName (c : RenderCfg) (o : RenderOracles) (name : String) : Except PyErr String :=
  prepareLabel o.label c.blacklist c.convertUnicode false name

/-- one field line: `name: type[ = body]` plus its imports -/
def fieldLine (c : RenderCfg) (o : RenderOracles) (e : RefEnv) (key : String) (t : Ty) (optional : Bool) :
    Except PyErr (List Imp × String) := do
  let (imps, typing) ← typingCode c e t
  let name ← convertFieldName c o key
  let inner := match t with | .opt x => x | x => x
  let line := name ++ ": " ++ typing
  match c.fw with
  | .base => pure (imps, line)
  | .pydantic | .sqlmodel =>
    let default : Option String :=
      if optional then some (if inner.isList then "[]" else if inner.isDict then "{}" else "None") else none
    let kw := (if key != name then [("alias", jsonDumps false key)] else []) ++
      (if c.fw == .sqlmodel && (name == "id" || name == "pk") && t.isInt then [("primary_key", "True")] else [])
    if !kw.isEmpty then
      pure (imps, line ++ " = Field(" ++ default.getD "..." ++ ", " ++ renderKwargs kw ++ ")")
    else match default with
      | some d => pure (imps, line ++ " = " ++ d)
      | none => pure (imps, line)
  | .attrs =>
    let (kw, imps) :=
      if optional then
        if inner.isList then ([("factory", "list")], imps)
        else if inner.isDict then ([("factory", "dict")], imps)
        else match inner with
          | .ser k => if !c.postInitEff then
              ([("default", "None"), ("converter", "optional(" ++ k ++ ")")], imps ++ [⟨"attr.converters", some ["optional"]⟩])
            else ([("default", "None")], imps)
          | _ => ([("default", "None")], imps)
      else match t with
        | .ser k => if !c.postInitEff then ([("converter", k)], imps) else ([], imps)
        | _ => ([], imps)
    let kw := kw ++ (if c.withMeta && key != name then
      [("metadata", "{" ++ pyRepr o.isPrintable c.metadataFieldName ++ ": " ++ pyRepr o.isPrintable key ++ "}")] else [])
    pure (imps, line ++ " = attr.ib(" ++ renderKwargs (sortKwargs kw ["default", "converter", "factory"] ["metadata"]) ++ ")")
  | .dataclasses =>
    let kw :=
      if optional then
        if inner.isList then [("default_factory", "list")]
        else if inner.isDict then [("default_factory", "dict")]
        else [("default", "None")]
      else []
    let kw := kw ++ (if c.withMeta && key != name then
      [("metadata", "{" ++ pyRepr o.isPrintable c.metadataFieldName ++ ": " ++ pyRepr o.isPrintable key ++ "}")] else [])
    match kw with
    | [] => pure (imps, line)
    | [("default", d)] => pure (imps, line ++ " = " ++ d)
    | kw => pure (imps, line ++ " = field(" ++ renderKwargs (sortKwargs kw ["default", "default_factory"] ["metadata"]) ++ ")")

/-- pydantic's `_filter_fields`: fields whose type is exactly `Null` / `Unknown` are dropped -/
def filterFields (c : RenderCfg) (fields : Fields) (keys : List String) : List String :=
  if c.fw == .pydantic || c.fw == .sqlmodel then
    keys.filter (fun k => match fields.get? k with | some .null | some .unknown => false | _ => true)
  else keys

def indentBlock (s : String) : String := "\n".intercalate ((s.splitOn "\n").map (fun l => "    " ++ l))

/-- `GenericModelCodeGenerator.generate(nested_classes)` for one model → (imports, class text) -/
def genClass (c : RenderCfg) (o : RenderOracles) (e : RefEnv) (m : Model) (nested : List String) :
    Except PyErr (List Imp × String) := do
  let (req, opt) := sortFields m.fields (!c.convertUnicode)
  let reqLines ← (filterFields c m.fields req).mapM (fun k => fieldLine c o e k ((m.fields.get? k).getD .unknown) false)
  let optLines ← (filterFields c m.fields opt).mapM (fun k => fieldLine c o e k ((m.fields.get? k).getD .unknown) true)
  let lines := reqLines ++ optLines
  let fieldImps := lines.flatMap (·.1)
  -- decorators
  let (decoImps, decos) ← (do
    let base : List Imp × List String ← (if c.postInitEff && (c.fw == .attrs || c.fw == .dataclasses) then do
        let paths ← stringFieldPaths m.fields
        let strFields ← paths.mapM (fun (p : String × String) => do
          let n ← convertFieldName c o p.1
          pure (n ++ (if p.2.isEmpty then "" else "#" ++ p.2)))
        if strFields.isEmpty then pure ([], []) else
          let ct := if c.fw == .attrs then "ClassType.Attrs" else "ClassType.Dataclass"
          pure ([⟨"json_to_models.models", some ["ClassType"]⟩,
                 ⟨"json_to_models.models.string_converters", some ["convert_strings"]⟩],
                ["convert_strings(" ++ pyReprList o.isPrintable strFields ++ ", class_type=" ++ ct ++ ")"])
      else if c.postInitEff then do
        -- base generator: paths are computed (and may raise) but no decorator is emitted
        let _ ← stringFieldPaths m.fields
        pure ([], [])
      else pure ([], []))
    match c.fw with
    | .attrs => pure (base.1 ++ [⟨"attr", none⟩],
        ("attr.s" ++ (if c.decoKwargs.isEmpty then "" else "(" ++ renderKwargs c.decoKwargs ++ ")")) :: base.2)
    | .dataclasses => pure (base.1 ++ [⟨"dataclasses", some ["dataclass", "field"]⟩],
        ("dataclass" ++ (if c.decoKwargs.isEmpty then "" else "(" ++ renderKwargs c.decoKwargs ++ ")")) :: base.2)
    | _ => pure base)
  let bases := match c.fw with
    | .pydantic => "(BaseModel)" | .sqlmodel => "(SQLModel, table=True)" | _ => ""
  let name := m.name.getD "None"
  let body := String.join (decos.map (fun d => "@" ++ d ++ "\n")) ++ "class " ++ name ++ bases ++ ":" ++
    String.join (nested.map (fun code => "\n" ++ indentBlock code ++ "\n")) ++
    (if lines.isEmpty then "\n    pass" else String.join (lines.map (fun l => "\n    " ++ l.2)))
  let (extraImps, body) := match c.fw with
    | .pydantic => ([(⟨"pydantic.v1", some ["BaseModel", "Field"]⟩ : Imp)], body)
    | .sqlmodel => ([(⟨"sqlmodel", some ["SQLModel", "Field"]⟩ : Imp)],
        "# Warn! This generated code does not respect SQLModel Relationship and foreign_key, please add them manually.\n" ++ body)
    | _ => ([], body)
  pure (fieldImps ++ decoImps ++ extraImps, body)

abbrev NameMap := List (String × Option String)

def NameMap.set (n : NameMap) (i : String) (v : Option String) : NameMap :=
  n.map (fun p => if p.1 == i then (i, v) else p)

/-- `class_generator(model, **kwargs)`: the constructor converts the model's class name in place -/
def convertNameAt (c : RenderCfg) (o : RenderOracles) (names : NameMap) (i : String) : Except PyErr NameMap := do
  match ((names.find? (·.1 == i)).map (·.2)).join with
  | none => .error .typeError        -- `unidecode(None)` / `re.sub` on None
  | some n => do pure (names.set i (some (← convertClassName c o n)))

/-- `_generate_code(structure)`: first pass creates the generators level by level (nested levels are rendered
    completely before the enclosing generator exists), second pass renders the classes of the level -/
def renderLevel (c : RenderCfg) (o : RenderOracles) (g : Graph) (pathInj : List (String × String)) :
    Nat → NameMap → List Node → Except PyErr (NameMap × List Imp × List (String × List String))
  | 0, _, _ => .error .outOfFuel
  | _, names, [] => pure (names, [], [])
  | fuel + 1, names, .mk idx nested :: rest => do
    let (names, imps1, gens) ← renderLevel c o g pathInj fuel names nested
    let rs ← gens.mapM (fun (p : String × List String) =>
      genClass c o ⟨names, pathInj⟩ { (g.find? p.1).getD default with name := ((names.find? (·.1 == p.1)).map (·.2)).join } p.2)
    let names ← convertNameAt c o names idx
    let (names, imps3, restR) ← renderLevel c o g pathInj fuel names rest
    pure (names, imps1 ++ rs.flatMap (·.1) ++ imps3, (idx, rs.map (·.2)) :: restR)

/-- the models of a structure in pre-order (`walk` of `_prepare_class_names`) -/
def preorder : Nat → List Node → Except PyErr (List String)
  | 0, _ => .error .outOfFuel
  | _, [] => pure []
  | fuel + 1, .mk idx nested :: rest => do
    let a ← preorder fuel nested
    let b ← preorder fuel rest
    pure (idx :: a ++ b)

def nameOf (names : NameMap) (i : String) : Option String := ((names.find? (·.1 == i)).map (·.2)).join

/-- one round of the `while True` loop: every model whose current name is shared gets its index appended -/
def dedupRound (names : NameMap) (idxs : List String) : NameMap × Bool :=
  let cur := idxs.map (nameOf names)
  let dups := idxs.filter (fun i => (cur.filter (· == nameOf names i)).length > 1)
  (dups.foldl (fun acc i => acc.set i (some ((nameOf acc i).getD "None" ++ "_" ++ i))) names, dups.isEmpty)

def dedupLoop (idxs : List String) : Nat → NameMap → Except PyErr NameMap
  | 0, _ => .error .outOfFuel
  | fuel + 1, names =>
    let r := dedupRound names idxs
    if r.2 then pure names else dedupLoop idxs fuel r.1

/-- `_prepare_class_names(structure, …)`: before anything is rendered every class name of the structure is converted,
    then converted names that are not unique get the model index appended (all of them: independent of the layout) -/
def prepareNames (c : RenderCfg) (o : RenderOracles) (names : NameMap) (roots : List Node) : Except PyErr NameMap := do
  let idxs ← preorder (names.length + 2) roots
  let names ← idxs.foldlM (fun acc i => convertNameAt c o acc i) names
  dedupLoop idxs (idxs.length * idxs.length + 1) names

/-- `generate_code(structure, class_generator, kwargs, preamble=...)`; also returns the names after rendering -/
def generateCode (c : RenderCfg) (o : RenderOracles) (g : Graph) (roots : List Node) (pathInj : List (String × String))
    (preamble : Option String) : Except PyErr (String × NameMap) := do
  let names0 : NameMap := g.models.map (fun m => (m.idx, m.name))
  let names0 ← prepareNames c o names0 roots
  let (names, imps1, gens) ← renderLevel c o g pathInj (g.models.length + 2) names0 roots
  let rs ← gens.mapM (fun (p : String × List String) =>
    genClass c o ⟨names, pathInj⟩ { (g.find? p.1).getD default with name := ((names.find? (·.1 == p.1)).map (·.2)).join } p.2)
  let imps := imps1 ++ rs.flatMap (·.1)
  let delim := "\n\n\n"
  let importsStr := if imps.isEmpty then "" else compileImports imps ++ delim
  let importsStr := match preamble with
    | some p => if p.isEmpty then importsStr else importsStr ++ p ++ delim
    | none => importsStr
  pure (importsStr ++ delim.intercalate (rs.map (·.2)) ++ "\n", names)

end J2M
