/-
  JSON values as Python sees them after `json.load`.
  * `int` carries the integer; `float` carries only a tag: the pipeline inspects `type(value)` only.
  * `obj` is a Python dict: distinct keys, insertion order.
-/
namespace J2M

inductive Json where
  | null
  | bool (b : Bool)
  | int (i : Int)
  | float (tag : Nat)
  | str (s : String)
  | arr (xs : List Json)
  | obj (kvs : List (String × Json))
  deriving Repr, Inhabited

/-- Errors of the modelled Python code, as a small enum (what `except` clauses and the CLI distinguish). -/
inductive PyErr where
  | indexError | valueError | typeError | zeroDivision | noPointers | keyError
  | stopIteration | recursion | oracleMiss (what : String) | outOfFuel
  deriving Repr, BEq, DecidableEq, Inhabited

def PyErr.toString : PyErr → String
  | .indexError => "IndexError" | .valueError => "ValueError" | .typeError => "TypeError"
  | .zeroDivision => "ZeroDivisionError" | .noPointers => "NoPointers" | .keyError => "KeyError"
  | .stopIteration => "StopIteration" | .recursion => "RecursionError"
  | .oracleMiss w => "oracle-miss:" ++ w | .outOfFuel => "out-of-fuel"

mutual
def Json.size : Json → Nat
  | .arr xs => 1 + Json.sizeList xs
  | .obj kvs => 1 + Json.sizeKvs kvs
  | _ => 1
def Json.sizeList : List Json → Nat
  | [] => 0
  | x :: xs => Json.size x + Json.sizeList xs
def Json.sizeKvs : List (String × Json) → Nat
  | [] => 0
  | (_, v) :: kvs => Json.size v + Json.sizeKvs kvs
end

end J2M
