/-
  Line-protocol codec for the correspondence driver (not part of the model; nothing here is used by a theorem).
  Tagged values: Json  ["n"] ["b",true] ["i","12"] ["f"] ["s","x"] ["a",[..]] ["o",[[k,v],..]]
                 Ty    "int" .. | ["ser",k] ["lit",ov,[..]] ["list",t] ["dict",t] ["opt",t] ["union",[..]] ["tuple",[..]]
                       ["obj",[[k,t],..]] ["ptr",idx]
-/
import Lean.Data.Json
import J2M.Pipeline
import J2M.Render
import J2M.Lex
import J2M.Header
import J2M.Cli
import J2M.Converters
import J2M.CliArgs
namespace J2M.Codec
open Lean (Json)

abbrev J := Lean.Json

def err {α} (msg : String) : Except String α := .error msg

def asArr (j : J) : Except String (Array J) := match j with | .arr a => pure a | _ => err s!"array expected: {j.compress}"
def asStr (j : J) : Except String String := match j with | .str s => pure s | _ => err s!"string expected: {j.compress}"
def asBool (j : J) : Except String Bool := match j with | .bool b => pure b | _ => err s!"bool expected: {j.compress}"
def asNat (j : J) : Except String Nat := match j.getNat? with | .ok n => pure n | _ => err s!"nat expected: {j.compress}"
def field (j : J) (k : String) : Except String J := match j.getObjVal? k with | .ok v => pure v | _ => err s!"missing field {k}"
def fieldD (j : J) (k : String) (d : J) : J := match j.getObjVal? k with | .ok v => v | _ => d

partial def decJson (j : J) : Except String J2M.Json := do
  let a ← asArr j
  match a.toList with
  | [.str "n"] => pure .null
  | [.str "b", .bool b] => pure (.bool b)
  | [.str "i", .str s] => match s.toInt? with | some i => pure (.int i) | none => err "bad int"
  | [.str "f"] => pure (.float 0)
  | [.str "s", .str s] => pure (.str s)
  | [.str "a", .arr xs] => do pure (.arr (← xs.toList.mapM decJson))
  | [.str "o", .arr kvs] => do
    let l ← kvs.toList.mapM (fun kv => do
      let p ← asArr kv
      match p.toList with
      | [.str k, v] => do pure (k, ← decJson v)
      | _ => err "bad kv")
    pure (.obj l)
  | _ => err s!"bad json value {j.compress}"

partial def decTy (j : J) : Except String Ty := do
  match j with
  | .str "int" => pure .int | .str "float" => pure .float | .str "bool" => pure .bool
  | .str "str" => pure .str | .str "null" => pure .null | .str "unknown" => pure .unknown
  | .arr a =>
    match a.toList with
    | [.str "ser", .str k] => pure (.ser k)
    | [.str "lit", .bool ov, .arr vs] => do pure (.lit ov (← vs.toList.mapM asStr))
    | [.str "list", t] => do pure (.list (← decTy t))
    | [.str "dict", t] => do pure (.dict (← decTy t))
    | [.str "opt", t] => do pure (.opt (← decTy t))
    | [.str "union", .arr ts] => do pure (.union (← ts.toList.mapM decTy))
    | [.str "tuple", .arr ts] => do pure (.tuple (← ts.toList.mapM decTy))
    | [.str "obj", .arr fs] => do pure (.obj (← decFieldsArr fs))
    | [.str "ptr", .str i] => pure (.ptr i)
    | _ => err s!"bad ty {j.compress}"
  | _ => err s!"bad ty {j.compress}"
where
  decFieldsArr (fs : Array J) : Except String Fields :=
    fs.toList.mapM (fun kv => do
      let p ← asArr kv
      match p.toList with
      | [.str k, v] => do pure (k, ← decTy v)
      | _ => err "bad field")

partial def encJsonV : J2M.Json → J
  | .null => .arr #[.str "n"]
  | .bool b => .arr #[.str "b", .bool b]
  | .int i => .arr #[.str "i", .str (toString i)]
  | .float _ => .arr #[.str "f"]
  | .str s => .arr #[.str "s", .str s]
  | .arr xs => .arr #[.str "a", .arr (xs.map encJsonV).toArray]
  | .obj kvs => .arr #[.str "o", .arr (kvs.map (fun (k, v) => Lean.Json.arr #[.str k, encJsonV v])).toArray]

def decFields (j : J) : Except String Fields := do
  match ← decTy (.arr #[.str "obj", j]) with
  | .obj fs => pure fs
  | _ => err "bad fields"

partial def encTy : Ty → J
  | .int => .str "int" | .float => .str "float" | .bool => .str "bool"
  | .str => .str "str" | .null => .str "null" | .unknown => .str "unknown"
  | .ser k => .arr #[.str "ser", .str k]
  | .lit ov vs => .arr #[.str "lit", .bool ov, .arr (vs.map Lean.Json.str).toArray]
  | .list t => .arr #[.str "list", encTy t]
  | .dict t => .arr #[.str "dict", encTy t]
  | .opt t => .arr #[.str "opt", encTy t]
  | .union ts => .arr #[.str "union", .arr (ts.map encTy).toArray]
  | .tuple ts => .arr #[.str "tuple", .arr (ts.map encTy).toArray]
  | .obj fs => .arr #[.str "obj", .arr (fs.map (fun (k, t) => Lean.Json.arr #[.str k, encTy t])).toArray]
  | .ptr i => .arr #[.str "ptr", .str i]

def encFields (fs : Fields) : J := .arr (fs.map (fun (k, t) => Lean.Json.arr #[.str k, encTy t])).toArray
def encStrs (xs : List String) : J := .arr (xs.map Lean.Json.str).toArray

def decStrs (j : J) : Except String (List String) := do (← asArr j).toList.mapM asStr
def decPairs (j : J) : Except String (List (String × String)) := do
  (← asArr j).toList.mapM (fun p => do
    match (← asArr p).toList with
    | [.str a, .str b] => pure (a, b)
    | _ => err "bad pair")

def decReg (j : J) : Except String StrRegistry := do
  pure { types := ← decStrs (← field j "types"),
         replaces := ← decPairs (← field j "replaces"),
         actual := ← decPairs (fieldD j "actual" (.arr #[])) }

def decCfg (j : J) : Except String GenCfg := do
  pure { lit := { maxLiterals := ← asNat (← field j "maxLit"), maxStrLen := ← asNat (← field j "maxLen") },
         reg := ← decReg (← field j "reg"),
         dictFields := ← decStrs (fieldD j "dictFields" (.arr #[])),
         dictRegex := ← decStrs (fieldD j "dictRegex" (.arr #[])) }

/-- oracle tables: {"acc": [[kind, s, bool]], "re": [[pattern, key, bool]], "nonprint": [cp], "serStr": [[k, s]]} -/
def decOracles (j : J) : Except String GenOracles := do
  let mut acc : Std.HashMap (String × String) Bool := {}
  for e in ← asArr (fieldD j "acc" (.arr #[])) do
    match (← asArr e).toList with
    | [.str k, .str s, .bool b] => acc := acc.insert (k, s) b
    | _ => throw "bad acc"
  let mut re : Std.HashMap (String × String) Bool := {}
  for e in ← asArr (fieldD j "re" (.arr #[])) do
    match (← asArr e).toList with
    | [.str p, .str s, .bool b] => re := re.insert (p, s) b
    | _ => throw "bad re"
  let np ← (← asArr (fieldD j "nonprint" (.arr #[]))).toList.mapM asNat
  let ss ← decPairs (fieldD j "serStr" (.arr #[]))
  let acc' := acc
  let re' := re
  pure { accepts := fun k s => acc'.get? (k, s),
         reMatch := fun p s => re'.get? (p, s),
         str := { isPrintable := fun c => !np.contains c.toNat,
                  serStr := fun k => match ss.find? (·.1 == k) with
                    | some (_, s) => s
                    | none => StrOracle.default.serStr k } }


def decTable (j : J) (what : String) : Except String (String → Option String) := do
  let mut m : Std.HashMap String String := {}
  for e in ← asArr (fieldD j what (.arr #[])) do
    match (← asArr e).toList with
    | [.str k, .str v] => m := m.insert k v
    | _ => throw s!"bad table {what}"
  let m' := m
  pure (fun k => m'.get? k)

def decNameOracles (j : J) : Except String NameOracles := do
  pure { singUnder := ← decTable j "singUnder", camelize := ← decTable j "camelize" }

def decLabelOracles (j : J) : Except String LabelOracles := do
  let laz ← (← asArr (fieldD j "lowerAz" (.arr #[]))).toList.mapM (fun e => do
    match (← asArr e).toList with
    | [c, .bool b] => do pure ((← asNat c), b)
    | _ => err "bad lowerAz")
  pure { unidecode := ← decTable j "unidecode", stripW := ← decTable j "stripW",
         underscore := ← decTable j "underscore",
         lowerAz := fun c => (laz.find? (·.1 == c.toNat)).map (·.2) }

def decCmps (j : J) : Except String (List Cmp) := do
  (← asArr j).toList.mapM (fun e => do
    match (← asArr e).toList with
    | [.str "exact"] => pure Cmp.exact
    | [.str "percent", n, d] => do pure (Cmp.percent (← asNat n) (← asNat d))
    | [.str "number", n] => do pure (Cmp.number (← asNat n))
    | [.str "table", e] => do pure (Cmp.table (← decPairs e))
    | _ => err "bad cmp")

def optStr : Option String → J
  | some s => .str s
  | none => .null

def encGraph (g : Graph) : J :=
  Lean.Json.mkObj [
    ("models", .arr (g.models.map (fun m => Lean.Json.arr #[.str m.idx, encFields m.fields, optStr m.name,
        match m.nameGen with | some b => .bool b | none => .null])).toArray),
    ("ptrs", .arr (g.ptrs.map (fun p => Lean.Json.arr #[.str p.target, optStr p.parent, optStr p.field])).toArray),
    ("counter", .num (Lean.JsonNumber.fromNat g.counter))]

partial def encNode : Node → J
  | .mk i ns => .arr #[.str i, .arr (ns.map encNode).toArray]

def encRepl (r : List (String × List String)) : J :=
  .arr (r.map (fun (i, ms) => Lean.Json.arr #[.str i, encStrs ms])).toArray


def asInt (j : J) : Except String Int := match j.getInt? with | .ok n => pure n | _ => err s!"int expected: {j.compress}"

def decFramework (s : String) : Except String Framework :=
  match s with
  | "base" => pure .base | "pydantic" => pure .pydantic | "sqlmodel" => pure .sqlmodel
  | "attrs" => pure .attrs | "dataclasses" => pure .dataclasses
  | _ => err s!"bad framework {s}"

/-- render job: per-call options + constants extracted from the live modules -/
def decRenderCfg (j : J) (consts : J) : Except String RenderCfg := do
  let serInfo ← (← asArr (← field consts "serInfo")).toList.mapM (fun e => do
    match (← asArr e).toList with
    | [.str k, .str an, .str am] => pure (k, an, am)
    | _ => err "bad serInfo")
  pure { fw := ← decFramework (← asStr (← field j "fw")),
         maxLiterals := ← asInt (← field j "maxLit"),
         postInit := ← asBool (fieldD j "postInit" (.bool false)),
         convertUnicode := ← asBool (fieldD j "convertUnicode" (.bool true)),
         withMeta := ← asBool (fieldD j "meta" (.bool false)),
         decoKwargs := ← decPairs (fieldD j "decoKwargs" (.arr #[])),
         literalModule := ← asStr (← field consts "literalModule"),
         blacklist := ← decStrs (← field consts "blacklist"),
         serInfo := serInfo,
         metadataFieldName := ← asStr (← field consts "metadataFieldName") }


partial def encPVal : PVal → J
  | .raw j => .arr #[.str "raw", encJsonV j]
  | .parsed k _ => .arr #[.str "parsed", .str k]
  | .list xs => .arr #[.str "list", .arr (xs.map encPVal).toArray]
  | .dict kvs => .arr #[.str "dict", .arr (kvs.map (fun (k, v) => Lean.Json.arr #[.str k, encPVal v])).toArray]

end J2M.Codec
