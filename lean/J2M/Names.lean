/-
  Naming: `prepare_label` (models/base.py:287-298), `distinct_words` (utils.py:26-48),
  `Index` (utils.py:6-19).  Third-party string functions are oracle parameters.
-/
import J2M.PyStr
import J2M.Json
namespace J2M

structure LabelOracles where
  unidecode : String → Option String
  /-- `re.sub(r"\W", "", s)` -/
  stripW : String → Option String
  /-- `inflection.underscore` -/
  underscore : String → Option String
  /-- `'a' <= c.lower() <= 'z'` for a non-ASCII first character -/
  lowerAz : Char → Option Bool

def onesTable : List String := ["", "one", "two", "three", "four", "five", "six", "seven", "eight", "nine"]

def orc {α} (what : String) : Option α → Except PyErr α
  | some a => .ok a
  | none => .error (.oracleMiss what)

/-- `prepare_label(s, convert_unicode, to_snake_case)` -/
def prepareLabel (o : LabelOracles) (blacklist : List String) (convertUnicode toSnake : Bool) (s : String) :
    Except PyErr String := do
  let s ← if convertUnicode then orc ("unidecode " ++ s) (o.unidecode s) else pure s
  let s ← orc ("stripW " ++ s) (o.stripW s)
  match s.toList with
  | [] => .error .indexError
  | c :: rest =>
    let az ← (if c.toNat < 128 then pure (decide ('a' ≤ c.toLower ∧ c.toLower ≤ 'z')) else orc "lowerAz" (o.lowerAz c))
    let s := if !az && decide ('0' ≤ c ∧ c ≤ '9')
             then onesTable.getD (c.toNat - 48) "" ++ "_" ++ String.ofList rest else s
    let s ← if toSnake then orc ("underscore " ++ s) (o.underscore s) else pure s
    pure (if blacklist.contains s then s ++ "_" else s)

/-- Python `a in b` for strings: `a` is a (contiguous) substring of `b` -/
def isInfix (a b : List Char) : Bool :=
  match b with
  | [] => a.isEmpty
  | _ :: bs => a.isPrefixOf b || isInfix a bs

def strIn (a b : String) : Bool := isInfix a.toList b.toList

/-- the inner `for other in list(filtered)` of `distinct_words` for one `name` -/
def dwInner (name : String) (filtered : List String) : List String × Bool :=
  filtered.foldl (fun (st : List String × Bool) other =>
    if !st.1.contains other then st            -- removed meanwhile (cannot happen: snapshot is of distinct words)
    else if strIn name other then
      ((if st.1.contains name then st.1 else st.1 ++ [name]).erase other, false)
    else if strIn other name then (st.1, false)
    else st) (filtered, true)

/-- `distinct_words(*words)`: `words` in the (arbitrary) iteration order of the Python set -/
def distinctWords (words : List String) : List String :=
  (words.eraseDups).foldl (fun filtered name =>
    let r := dwInner name filtered
    if r.2 then r.1 ++ [name] else r.1) []

/-- `Index.__call__` after `n` earlier calls -/
def indexOf (n : Nat) : String := toString (n / 26 + 1) ++ String.singleton (Char.ofNat (65 + n % 26))

end J2M
