/-
  Post-init string converters: `_process_string_field_value(path, value, current_type, optional)` and
  `post_init_converters(str_fields)(self)`      (models/string_converters.py:77-146, as repaired: the `O`
  token returns `None` for a `None` value before descending).

  The path itself is computed by `stringFieldPath` / `stringFieldPaths` in `Render.lean`.
  Values: the raw attribute value is a `Json` (what `json.load` gave and the caller passed to the class);
  the converted value is a `PVal`.
-/
import J2M.Sem
namespace J2M

/-- a field value after the post-init method ran -/
inductive PVal where
  | raw (j : Json)                          -- left as it was
  | parsed (kind : String) (s : String)     -- `kind.to_internal_value(s)` for a string `s` the parser accepts
  | list (xs : List PVal)                   -- list comprehension result
  | dict (kvs : List (String × PVal))       -- dict comprehension result (same keys, same order)
  deriving Repr, Inhabited

/--
  `_process_string_field_value(path, value, current_type, optional)`.

  * `current_type` is the annotation object; the model passes the IR type it was printed from
    (`List[X].__args__[0]` = `X`, `Dict[str, X].__args__[1]` = `X`, `Optional[X].__args__[0]` = `X`).
    A type that does not have the constructor the token asks for has no such `__args__` / no
    `to_internal_value`: `AttributeError`/`TypeError`, modelled as `typeError` (never swallowed: only the
    call `to_internal_value(value)` is inside the `try`).
  * token `S`, value a string: `to_internal_value` is the `accepts` oracle (`some true` = returns the parsed
    value, `some false` = `ValueError`, `none` = the driver's table has no answer: `oracleMiss`).
    A value that is not a string is modelled as `TypeError` (true for `None`, lists, dicts; `int(True)`,
    `int(3)`, `float(3)` succeed in Python and `BooleanString` raises `AttributeError` on a number: bool and
    number inputs at an `S` position are OUTSIDE the modelled domain).
  * token `L`: the value must be an array (Python iterates anything iterable, e.g. the characters of a
    string or the keys of a dict: outside the modelled domain, `typeError` here).
  * token `D`: the value must be an object (`value.items()` on anything else: `AttributeError`, `typeError` here).
  * the empty path: `token, *path = path` raises `ValueError`.
-/
def processValue (acc : Accepts) : List String → Json → Ty → Bool → Except PyErr PVal
  | [], _, _, _ => .error .valueError
  | tok :: path, v, t, optional =>
    if tok = "S" then
      match t with
      | .ser k =>
        match v with
        | .str s =>
          match acc k s with
          | some true => .ok (.parsed k s)
          | some false => if optional then .ok (.raw v) else .error .valueError
          | none => .error (.oracleMiss ("accepts " ++ k))
        | _ => if optional then .ok (.raw v) else .error .typeError
      | _ => .error .typeError
    else if tok = "O" then
      match v with
      | .null => .ok (.raw .null)
      | _ =>
        match t with
        | .opt t' => processValue acc path v t' true
        | _ => .error .typeError
    else if tok = "L" then
      match t with
      | .list t' =>
        match v with
        | .arr xs => (xs.mapM (fun item => processValue acc path item t' optional)).map PVal.list
        | _ => .error .typeError
      | _ => .error .typeError
    else if tok = "D" then
      match t with
      | .dict t' =>
        match v with
        | .obj kvs =>
          (kvs.mapM (fun (kv : String × Json) =>
            (processValue acc path kv.2 t' optional).map (fun r => (kv.1, r)))).map PVal.dict
        | _ => .error .typeError
      | _ => .error .typeError
    else .error .valueError               -- `raise ValueError(f"Unknown token {token}")`

/-- `s.split('.')`, on characters; `cur` = the current piece, reversed -/
def splitDotsGo : List Char → List Char → List String
  | [], cur => [String.ofList cur.reverse]
  | c :: cs, cur => if c = '.' then String.ofList cur.reverse :: splitDotsGo cs [] else splitDotsGo cs (c :: cur)

/-- one entry of the decorator's `str_fields`: `'name'` ↦ `["S"]`, `'name#O.L.S'` ↦ `["O","L","S"]`
    (`p` = the text after `#`, empty when there is no `#`) -/
def splitPathStr (p : String) : List String := if p.isEmpty then ["S"] else splitDotsGo p.toList []

/-- `setattr(self, name, v)` on the instance dict -/
def setAttr (self : List (String × PVal)) (name : String) (v : PVal) : List (String × PVal) :=
  self.map (fun p => if p.1 = name then (name, v) else p)

/--
  `post_init_converters(str_fields)(self)`: for every `(name, path)` the attribute is read, converted under the
  class annotation of `name`, and written back. `ann` = `self.__annotations__` (IR types by attribute name),
  `self` = the instance attributes. A missing attribute / annotation: `AttributeError`/`KeyError` (`keyError`).
  An attribute that was already converted (the same name listed twice) is outside the modelled domain (`typeError`).
-/
def postInit (acc : Accepts) (ann : Fields) :
    List (String × List String) → List (String × PVal) → Except PyErr (List (String × PVal))
  | [], self => .ok self
  | (name, path) :: rest, self =>
    match (self.find? (·.1 = name)).map (·.2), Fields.get? ann name with
    | some (PVal.raw j), some t =>
      match processValue acc path j t false with
      | .ok nv => postInit acc ann rest (setAttr self name nv)
      | .error e => .error e
    | some _, some _ => .error .typeError
    | _, _ => .error .keyError

/-! ## Specification side: what the conversion is meant to produce -/

mutual
/-- every string leaf `s` becomes `parsed k s`; lists and dicts keep their shape (empty ones stay empty);
    `null` (and any other non-string scalar) stays as it is -/
def mapLeaves (k : String) : Json → PVal
  | .str s => .parsed k s
  | .arr xs => .list (mapLeavesList k xs)
  | .obj kvs => .dict (mapLeavesKvs k kvs)
  | j => .raw j
def mapLeavesList (k : String) : List Json → List PVal
  | [] => []
  | x :: xs => mapLeaves k x :: mapLeavesList k xs
def mapLeavesKvs (k : String) : List (String × Json) → List (String × PVal)
  | [] => []
  | (key, v) :: kvs => (key, mapLeaves k v) :: mapLeavesKvs k kvs
end

/-- the converter path spelled by a type: one token per `Optional`/`List`/`Dict` wrapper, then `S` -/
def pathOf : Ty → List String
  | .ser _ => ["S"]
  | .opt t => "O" :: pathOf t
  | .list t => "L" :: pathOf t
  | .dict t => "D" :: pathOf t
  | _ => []

/-- the leaf below the `Optional`/`List`/`Dict` wrappers -/
def spineLeaf : Ty → Ty
  | .opt t | .list t | .dict t => spineLeaf t
  | t => t

/-- `t` is a chain of `Optional`/`List`/`Dict` over the pseudo-type `k` -/
def isChain (k : String) (t : Ty) : Bool :=
  match spineLeaf t with
  | .ser k' => k' = k
  | _ => false

end J2M
