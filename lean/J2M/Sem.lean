/-
  Meaning functions the property theorems talk about (specification side; trusted-base item T2).
  * `Inh`  — strict inhabitation "JSON value v lies in type t" (`unknown` admits nothing).
  * `nf`   — the normal form of C08, as a decidable predicate.
-/
import J2M.Generator
namespace J2M

/-- field lookup by key as a relation (first binding wins, as in a Python dict there is only one) -/
def Fields.lookup (fs : Fields) (k : String) : Option Ty := Fields.get? fs k

/--
  Strict inhabitation. `acc k s = some true` is "the parser of pseudo-type k accepts s";
  `g` resolves model pointers to their field dicts.
  An object lies in a field dict iff every key is a field whose type holds the value and
  every non-optional field is present. (The key condition is split into "is a field" and
  "for the type found there" because a nested inductive may not occur under `∃`.)
-/
inductive Inh (acc : Accepts) (g : ModelLookup) : Ty → Json → Prop
  | int {i} : Inh acc g .int (.int i)
  | floatF {x} : Inh acc g .float (.float x)
  | floatI {i} : Inh acc g .float (.int i)
  | bool {b} : Inh acc g .bool (.bool b)
  | str {s} : Inh acc g .str (.str s)
  | null : Inh acc g .null .null
  | ser {k s} : acc k s = some true → Inh acc g (.ser k) (.str s)
  | lit {vs s} : s ∈ vs → Inh acc g (.lit false vs) (.str s)
  | list {t xs} : (∀ x ∈ xs, Inh acc g t x) → Inh acc g (.list t) (.arr xs)
  | dict {t kvs} : (∀ kv ∈ kvs, Inh acc g t kv.2) → Inh acc g (.dict t) (.obj kvs)
  | optNull {t} : Inh acc g (.opt t) .null
  | optSome {t v} : Inh acc g t v → Inh acc g (.opt t) v
  | union {ts t v} : t ∈ ts → Inh acc g t v → Inh acc g (.union ts) v
  | obj {fs kvs} :
      (∀ kv ∈ kvs, (Fields.get? fs kv.1).isSome = true) →
      (∀ kv ∈ kvs, ∀ t, Fields.get? fs kv.1 = some t → Inh acc g t kv.2) →
      (∀ ft ∈ fs, ft.2.isOpt = false → ∃ kv ∈ kvs, kv.1 = ft.1) →
      Inh acc g (.obj fs) (.obj kvs)
  | ptr {i fs kvs} : g i = some fs →
      (∀ kv ∈ kvs, (Fields.get? fs kv.1).isSome = true) →
      (∀ kv ∈ kvs, ∀ t, Fields.get? fs kv.1 = some t → Inh acc g t kv.2) →
      (∀ ft ∈ fs, ft.2.isOpt = false → ∃ kv ∈ kvs, kv.1 = ft.1) →
      Inh acc g (.ptr i) (.obj kvs)

/-- "object `kvs` lies in field dict `fs`" -/
def InhFields (acc : Accepts) (g : ModelLookup) (fs : Fields) (kvs : List (String × Json)) : Prop :=
  (∀ kv ∈ kvs, (Fields.get? fs kv.1).isSome = true) ∧
  (∀ kv ∈ kvs, ∀ t, Fields.get? fs kv.1 = some t → Inh acc g t kv.2) ∧
  (∀ ft ∈ fs, ft.2.isOpt = false → ∃ kv ∈ kvs, kv.1 = ft.1)

def Ty.isSer : Ty → Bool | .ser _ => true | _ => false
def Ty.isTuple : Ty → Bool | .tuple _ => true | _ => false

def nodupStr : List String → Bool
  | [] => true
  | x :: xs => !xs.contains x && nodupStr xs

/-- the union-level conditions of the normal form, on an already member-wise normal list -/
def nfUnionMembers (ts : List Ty) : Bool :=
  decide (ts.length ≥ 2) &&
  ts.all (fun t => !t.isUnion && !t.isOpt && !t.isNull && !t.isUnknown) &&
  nodupStr (ts.map hashStr) &&
  !(ts.any Ty.isInt && ts.any Ty.isFloat) &&
  !(ts.any Ty.isStr && (ts.any Ty.isLit || ts.any Ty.isSer)) &&
  decide ((ts.filter Ty.isLit).length ≤ 1) &&
  decide ((ts.filter Ty.isList).length ≤ 1) &&
  decide ((ts.filter Ty.isDict).length ≤ 1) &&
  decide ((ts.filter Ty.isObj).length ≤ 1)

mutual
/-- C08's normal form -/
def nf : Ty → Bool
  | .lit ov vs => !ov && !vs.isEmpty
  | .list t | .dict t => nf t
  | .opt t => !t.isOpt && nf t
  | .union ts => nfUnionMembers ts && nfList ts
  | .tuple ts => nfList ts
  | .obj fs => nfFields fs
  | _ => true
def nfList : List Ty → Bool
  | [] => true
  | t :: ts => nf t && nfList ts
def nfFields : List (String × Ty) → Bool
  | [] => true
  | (_, t) :: fs => nf t && nfFields fs
end

end J2M
