/-
  `ModelRegistry` (registry.py) and `ModelMeta`/`ModelPtr` bookkeeping (dynamic_typing/models_meta.py):
  `process_meta_data`, comparators, `merge_models` (grouping in Closure.lean), `_merge`,
  `generate_names`, `fix_name_duplicates`.
-/
import J2M.Generator
import J2M.Closure
import J2M.Names
namespace J2M

structure Model where
  idx : String
  fields : Fields
  name : Option String := none
  nameGen : Option Bool := none        -- `_name_generated`: None / True / False
  deriving Repr, Inhabited

/-- one `ModelPtr` object -/
structure PtrRec where
  target : String
  parent : Option String
  field : Option String
  deriving Repr, BEq, Inhabited

structure Graph where
  models : List Model := []            -- `_registry` in insertion order
  ptrs : List PtrRec := []             -- every ModelPtr ever created, creation order
  counter : Nat := 0                   -- state of `Index`
  deriving Repr, Inhabited

def Graph.find? (g : Graph) (i : String) : Option Model := g.models.find? (·.idx == i)
def Graph.look (g : Graph) : ModelLookup := fun i => (g.find? i).map (·.fields)
def Graph.modelStr (g : Graph) : ModelStr := fun i =>
  match g.find? i with
  | some m => "Model#" ++ i ++ (match m.name with | some n => if n.isEmpty then "" else "-" ++ n | none => "")
  | none => "Model#" ++ i
def Graph.setFields (g : Graph) (i : String) (fs : Fields) : Graph :=
  { g with models := g.models.map (fun m => if m.idx == i then { m with fields := fs } else m) }

mutual
/-- `process_meta_data` on a non-root position: inline objects become registered models + pointers -/
def processTy (g : Graph) (pm : Option (String × String)) : Ty → Graph × Ty
  | .obj fs =>
    let idx := indexOf g.counter
    let g := { g with models := g.models ++ [{ idx := idx, fields := fs }], counter := g.counter + 1,
                      ptrs := g.ptrs ++ [⟨idx, pm.map (·.1), pm.map (·.2)⟩] }
    let (g, fs') := processFields g idx fs
    (g.setFields idx fs', .ptr idx)
  | .list t => let (g, t') := processTy g pm t; (g, .list t')
  | .dict t => let (g, t') := processTy g pm t; (g, .dict t')
  | .opt t => let (g, t') := processTy g pm t; (g, .opt t')
  | .union ts => let (g, ts') := processList g pm ts; (g, .union ts')
  | .tuple ts => let (g, ts') := processList g pm ts; (g, .tuple ts')
  | t => (g, t)
def processList (g : Graph) (pm : Option (String × String)) : List Ty → Graph × List Ty
  | [] => (g, [])
  | t :: ts =>
    let (g, t') := processTy g pm t
    let (g, ts') := processList g pm ts
    (g, t' :: ts')
def processFields (g : Graph) (idx : String) : List (String × Ty) → Graph × List (String × Ty)
  | [] => (g, [])
  | (k, t) :: fs =>
    let (g, t') := processTy g (some (idx, k)) t
    let (g, fs') := processFields g idx fs
    (g, (k, t') :: fs')
end

/-- `process_meta_data(meta, model_name)` for a top-level metadata dict; returns the root model's index -/
def processMetaData (g : Graph) (fields : Fields) (name : Option String) : Graph × String :=
  let idx := indexOf g.counter
  let (g, _) := processTy g none (.obj fields)
  let g := match name with
    | some n => { g with models := g.models.map (fun m => if m.idx == idx then { m with name := some n, nameGen := some false } else m) }
    | none => g
  (g, idx)

/-- comparators (registry.py:11-42); `percent` holds the exact value of the float threshold as a fraction -/
inductive Cmp where
  | exact
  | percent (num den : Nat)
  | number (n : Nat)
  /-- test comparator: a symmetric table on the first key of each model (harness `TableCmp`) -/
  | table (edges : List (String × String))
  deriving Repr, BEq

def keySetInter (a b : List String) : Nat := (a.eraseDups.filter (fun k => b.contains k)).length
def keySetUnion (a b : List String) : Nat := (a ++ b).eraseDups.length

def Cmp.holds (c : Cmp) (a b : List String) : Except PyErr Bool :=
  match c with
  | .exact => pure (a.all (fun k => b.contains k) && b.all (fun k => a.contains k))
  | .percent num den =>
    let u := keySetUnion a b
    if u = 0 then .error .zeroDivision else pure (decide (keySetInter a b * den ≥ num * u))
  | .number n => pure (decide (keySetInter a b ≥ n))
  | .table edges =>
    let x := a.headD ""; let y := b.headD ""
    pure (edges.contains (x, y) || edges.contains (y, x))

/-- `_models_cmp_fn`: `any(cmp.cmp(a, b) for cmp in cmps)` — short-circuits -/
def modelsCmp (cmps : List Cmp) (a b : List String) : Except PyErr Bool :=
  cmps.foldlM (fun acc c => if acc then pure true else c.holds a b) false

-- substitute a pointer target everywhere in a type
mutual
def retarget (old new : String) : Ty → Ty
  | .ptr i => if i == old then .ptr new else .ptr i
  | .list t => .list (retarget old new t)
  | .dict t => .dict (retarget old new t)
  | .opt t => .opt (retarget old new t)
  | .union ts => .union (retargetList old new ts)
  | .tuple ts => .tuple (retargetList old new ts)
  | .obj fs => .obj (retargetFields old new fs)
  | t => t
def retargetList (old new : String) : List Ty → List Ty
  | [] => []
  | t :: ts => retarget old new t :: retargetList old new ts
def retargetFields (old new : String) : List (String × Ty) → List (String × Ty)
  | [] => []
  | (k, t) :: fs => (k, retarget old new t) :: retargetFields old new fs
end

def Graph.retarget (g : Graph) (old new : String) (extra : Fields) : Graph × Fields :=
  ({ g with
     models := g.models.map (fun m => { m with fields := retargetFields old new m.fields }),
     ptrs := g.ptrs.map (fun p =>
       { p with target := if p.target == old then new else p.target,
                parent := if p.parent == some old then some new else p.parent }) },
   retargetFields old new extra)

def Graph.eqEnv (g : Graph) (so : StrOracle) : EqEnv := ⟨so, g.modelStr, g.look, 200⟩

/-- `_merge(generator, *models)`; `members` are indices in the order the group is iterated -/
def mergeGroup (cfg : GenCfg) (so : StrOracle) (g : Graph) (members : List String) : Except PyErr (Graph × String) := do
  let ms := members.filterMap g.find?
  let names := ms.filterMap (fun m => if m.nameGen != some true then (match m.name with | some n => if n.isEmpty then none else some n | none => none) else none)
  let names := sortStrings (distinctWords names)
  let fields ← mergeFieldSets cfg.lit (g.eqEnv so) (ms.map (·.fields))
  let idx := indexOf g.counter
  let newModel : Model :=
    { idx := idx, fields := fields,
      name := if names.isEmpty then none else some ("_".intercalate names),
      nameGen := if names.isEmpty then none else some false }
  -- unregister members, retarget their pointers and child pointers, register the merged model
  let g := { g with counter := g.counter + 1, models := g.models.filter (fun m => !members.contains m.idx) }
  let (g, fields) := members.foldl (fun (st : Graph × Fields) old => st.1.retarget old idx st.2) (g, newModel.fields)
  pure ({ g with models := g.models ++ [{ newModel with fields := fields }] }, idx)

/-- `generator.optimize_type(model_meta)` on a registered model -/
def optimizeModel (cfg : GenCfg) (so : StrOracle) (g : Graph) (i : String) : Except PyErr Graph := do
  match g.find? i with
  | none => pure g
  | some m =>
    match ← optimize cfg (g.eqEnv so) (Ty.fuelFor (.obj m.fields)) (.obj m.fields) with
    | .obj fs => pure (g.setFields i fs)
    | _ => pure g

/-- the similarity table of the registry, by position -/
def simTable (cmps : List Cmp) (g : Graph) : Except PyErr (List (List Bool)) :=
  let keys := g.models.map (fun m => m.fields.keys)
  let n := keys.length
  -- evaluated in `combinations` order, so that the first raising pair raises
  (List.range n).mapM (fun i => (List.range n).mapM (fun j =>
    if i < j then modelsCmp cmps (keys.getD i []) (keys.getD j []) else pure false))

/-- `merge_models(generator)`: returns the graph and the replacement list `[(new index, group members)]` -/
def mergeModels (cfg : GenCfg) (so : StrOracle) (cmps : List Cmp) (g : Graph) :
    Except PyErr (Graph × List (String × List String)) := do
  let tbl ← simTable cmps g
  let n := g.models.length
  let sim : Nat → Nat → Bool := fun a b =>
    let lo := min a b; let hi := max a b
    (tbl.getD lo []).getD hi false
  let idxs := g.models.map (·.idx)
  match Closure.mergeGroups sim n with
  | none => .error .outOfFuel
  | some groups =>
    let (g, repl) ← groups.foldlM (fun (st : Graph × List (String × List String)) (grp : List Nat) => do
      let members := grp.map (fun p => idxs.getD p "")
      let (g', idx) ← mergeGroup cfg so st.1 members
      let g' ← optimizeModel cfg so g' idx
      pure (g', st.2 ++ [(idx, members)])) (g, [])
    let g ← (g.models.map (·.idx)).foldlM (fun g i => optimizeModel cfg so g i) g
    pure (g, repl)

structure NameOracles where
  /-- `inflection.singularize(inflection.underscore(field))` -/
  singUnder : String → Option String
  camelize : String → Option String

/-- `ModelMeta.generate_name`; pointers in arbitrary order (a set) — the result is sorted -/
def generateName (no : NameOracles) (g : Graph) (m : Model) : Except PyErr Model := do
  let fieldNames := (g.ptrs.filter (fun p => p.target == m.idx && p.parent.isSome)).filterMap (·.field)
  let base ← fieldNames.mapM (fun f => orc "singUnder" (no.singUnder f))
  let filtered := sortStrings (distinctWords base)
  let parts ← filtered.mapM (fun w => orc "camelize" (no.camelize w))
  let newName := "_".intercalate parts
  pure (if newName.isEmpty then m else { m with name := some newName, nameGen := some true })

/-- `fix_name_duplicates` -/
def fixNameDuplicates (models : List Model) : List Model :=
  (models.foldl (fun (st : List Model × List (String × Nat)) m =>
    let key := match m.name with | some n => if n.isEmpty then m.idx else n | none => m.idx
    let cnt := ((st.2.find? (·.1 == key)).map (·.2)).getD 0 + 1
    let counter := (key, cnt) :: st.2.filter (·.1 != key)
    -- `counter[model.name]` (a read of a defaultdict; creating a zero entry is unobservable)
    let cntName : Nat := match m.name with
      | some n => ((counter.find? (·.1 == n)).map (·.2)).getD 0
      | none => 0
    let m' := if cntName > 1 then { m with name := some ((m.name.getD "") ++ "_" ++ m.idx), nameGen := some true } else m
    (st.1 ++ [m'], counter)) ([], [])).1

/-- `generate_names()` -/
def generateNames (no : NameOracles) (g : Graph) : Except PyErr Graph := do
  let models ← g.models.mapM (fun m => do
    let m ← if m.nameGen.isNone then generateName no g m else pure m
    pure (if m.name.isNone then { m with name := some ("Unknown_" ++ m.idx), nameGen := some true } else m))
  pure { g with models := fixNameDuplicates models }

end J2M
