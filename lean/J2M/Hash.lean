/-
  `get_hash_string`, `__str__`/`__repr__` (sort keys of `ComplexType.sorted`) and Python `==` on metadata.
  The hash string is modelled in the *delimited* form (members of a ComplexType in brackets,
  literal sets as `json.dumps(sorted(...))`); the hash of an inline dict (`str(hash(tuple))` in Python,
  opaque) is modelled by an injective bracketed encoding — only the induced partition is compared.
-/
import J2M.Ty
import J2M.PyStr
namespace J2M

structure StrOracle where
  isPrintable : Char → Bool
  /-- `str(cls)` of a StringSerializable class (module path + name) -/
  serStr : String → String

def StrOracle.default : StrOracle :=
  { isPrintable := fun _ => true,
    serStr := fun k => "<class 'json_to_models.dynamic_typing.string_serializable." ++ k ++ "'>" }

def litRepr (ov : Bool) (vals : List String) : String :=
  if ov then "..." else jsonDumpsList true vals

mutual
def hashStr : Ty → String
  | .int => "<class 'int'>" | .float => "<class 'float'>" | .bool => "<class 'bool'>"
  | .str => "<class 'str'>" | .null => "NoneType" | .unknown => "Unknown"
  | .ser k => "<class '" ++ k ++ "'>"
  | .lit o vs => "StringLiteral/" ++ litRepr o vs
  | .list t => "DList/" ++ hashStr t
  | .dict t => "DDict/" ++ hashStr t
  | .opt t => "DOptional/" ++ hashStr t
  | .union ts => "DUnion/[" ++ ",".intercalate (hashStrs ts) ++ "]"
  | .tuple ts => "DTuple/[" ++ ",".intercalate (hashStrs ts) ++ "]"
  | .obj fs => "{" ++ ",".intercalate (hashFields fs) ++ "}"
  | .ptr i => "ModelPtr_#" ++ i
def hashStrs : List Ty → List String
  | [] => []
  | t :: ts => hashStr t :: hashStrs ts
def hashFields : List (String × Ty) → List String
  | [] => []
  | (k, t) :: fs => (jsonDumps true k ++ ":" ++ hashStr t) :: hashFields fs
end

/-- how `str()` shows the model a pointer refers to: `Model#<idx>[-<name>]` -/
abbrev ModelStr := String → String

mutual
/-- Python `str(t)` -/
def pyStr (o : StrOracle) (ms : ModelStr) : Ty → String
  | .int => "<class 'int'>" | .float => "<class 'float'>" | .bool => "<class 'bool'>"
  | .str => "<class 'str'>" | .null => "NoneType" | .unknown => "Unknown"
  | .ser k => o.serStr k
  | .lit ov vs => "StringLiteral[" ++ litRepr ov vs ++ "]"
  | .list t => "DList[" ++ pyStr o ms t ++ "]"
  | .dict t => "DDict[" ++ pyStr o ms t ++ "]"
  | .opt t => "DOptional[" ++ pyStr o ms t ++ "]"
  | .union ts => "DUnion[" ++ ", ".intercalate (pyStrs o ms ts) ++ "]"
  | .tuple ts => "DTuple[" ++ ", ".intercalate (pyStrs o ms ts) ++ "]"
  | .obj fs => "{" ++ ", ".intercalate (pyReprFields o ms fs) ++ "}"
  | .ptr i => "ModelPtr[" ++ ms i ++ "]"
def pyStrs (o : StrOracle) (ms : ModelStr) : List Ty → List String
  | [] => []
  | t :: ts => pyStr o ms t :: pyStrs o ms ts
/-- Python `repr(t)` (what `str(dict)` shows for its values) -/
def pyReprTy (o : StrOracle) (ms : ModelStr) : Ty → String
  | .int => "<class 'int'>" | .float => "<class 'float'>" | .bool => "<class 'bool'>"
  | .str => "<class 'str'>"
  | .null => "<json_to_models.dynamic_typing.base.NoneType object at 0x0>"
  | .unknown => "<json_to_models.dynamic_typing.base.UnknownType object at 0x0>"
  | .ser k => o.serStr k
  | .lit ov vs => "<StringLiteral [" ++ litRepr ov vs ++ "]>"
  | .list t => "<DList [" ++ pyStr o ms t ++ "]>"
  | .dict t => "<DDict [" ++ pyStr o ms t ++ "]>"
  | .opt t => "<DOptional [" ++ pyStr o ms t ++ "]>"
  | .union ts => "<DUnion [" ++ ", ".intercalate (pyStrs o ms ts) ++ "]>"
  | .tuple ts => "<DTuple [" ++ ", ".intercalate (pyStrs o ms ts) ++ "]>"
  | .obj fs => "{" ++ ", ".intercalate (pyReprFields o ms fs) ++ "}"
  | .ptr i => "<ModelPtr [" ++ ms i ++ "]>"
def pyReprFields (o : StrOracle) (ms : ModelStr) : List (String × Ty) → List String
  | [] => []
  | (k, t) :: fs => (pyRepr o.isPrintable k ++ ": " ++ pyReprTy o ms t) :: pyReprFields o ms fs
end

/-- `ComplexType._sort_key` -/
def sortKey (o : StrOracle) (ms : ModelStr) : Ty → String
  | .obj fs => pyReprList o.isPrintable (sortStrings (fs.map (·.1)))
  | t => pyStr o ms t

/-- `ComplexType.sorted` -/
def sortedMembers (o : StrOracle) (ms : ModelStr) (ts : List Ty) : List Ty := sortByKey (sortKey o ms) ts

/-- resolve a model index to its field dict (for `ModelPtr == ModelPtr`, which compares the models' dicts) -/
abbrev ModelLookup := String → Option Fields

/--
  Python `a == b` on metadata. Fuel bounds the recursion through model pointers
  (Python would raise `RecursionError` on a cyclic comparison; the model returns `none`).
-/
def pyEq (o : StrOracle) (ms : ModelStr) (g : ModelLookup) : Nat → Ty → Ty → Option Bool
  | 0, _, _ => none
  | fuel + 1, a, b =>
    let eqList : List Ty → List Ty → Option Bool := fun xs ys =>
      if xs.length != ys.length then some false else
      (xs.zip ys).foldl (fun acc (p : Ty × Ty) =>
        match acc with
        | some true => pyEq o ms g fuel p.1 p.2
        | r => r) (some true)
    let eqFields : Fields → Fields → Option Bool := fun fa fb =>
      if fa.length != fb.length then some false else
      fa.foldl (fun acc (kv : String × Ty) =>
        match acc with
        | some true =>
          match fb.get? kv.1 with
          | none => some false
          | some tb => pyEq o ms g fuel kv.2 tb
        | r => r) (some true)
    match a, b with
    | .int, .int | .float, .float | .bool, .bool | .str, .str | .null, .null | .unknown, .unknown => some true
    | .ser x, .ser y => some (x == y)
    | .lit _ v1, .lit _ v2 => some (v1 == v2)
    | .list x, .list y | .dict x, .dict y | .opt x, .opt y => pyEq o ms g fuel x y
    | .union xs, .union ys | .tuple xs, .tuple ys =>
      eqList (sortedMembers o ms xs) (sortedMembers o ms ys)
    | .obj fa, .obj fb => eqFields fa fb
    | .ptr i, .ptr j =>
      -- the same ModelMeta on both sides: dict comparison short-cuts on identical values (`v1 is v2`), no descent
      if i == j then some true else
      match g i, g j with
      | some fa, some fb => eqFields fa fb
      | _, _ => some (i == j)
    | _, _ => some false

end J2M
