/-
  Reader-side models used by the round-trip theorems of C09/C10 (specification side, core Lean only):

  * `pyLexStr`        — how CPython evaluates a double-quoted, non-raw, non-triple string literal token
                        (tokenizer + `unicode_escape` decoding, Parser/string_parser.c, Objects/unicodeobject.c
                        `_PyUnicode_DecodeUnicodeEscapeInternal`), restricted to the escapes listed below.
  * `lexLiteralArgs`  — the inside of `Literal[...]`: string tokens separated by `, `.
  * `parseBool`/`renderBool` — `BooleanString.to_internal_value` / `to_representation`.
  * `parseInt`/`renderInt`   — Python `int(str)` (base 10, ASCII) / `str(int)`.
-/
namespace J2M

/-! ## Python string literal tokens -/

/-- value of one hexadecimal digit (both cases), as `unicode_escape` reads it -/
def hexVal (c : Char) : Option Nat :=
  if 48 ≤ c.toNat ∧ c.toNat ≤ 57 then some (c.toNat - 48)        -- '0'..'9'
  else if 97 ≤ c.toNat ∧ c.toNat ≤ 102 then some (c.toNat - 87)  -- 'a'..'f'
  else if 65 ≤ c.toNat ∧ c.toNat ≤ 70 then some (c.toNat - 55)   -- 'A'..'F'
  else none

/-- state of the literal reader: plain text, just after a backslash, or inside `\x`/`\u`/`\U` with
    `more + 1` hex digits still to read and `acc` the value read so far -/
inductive LexSt where
  | normal
  | esc
  | hex (more : Nat) (acc : Nat)

/-- prepend a code point to the value of the token being read -/
def lexCons (n : Nat) (r : Option (List Nat × List Char)) : Option (List Nat × List Char) :=
  r.map (fun p => (n :: p.1, p.2))

/--
  Reads the body of a `"`-delimited literal (the opening quote already consumed) up to and including the
  closing quote. Result: code points of the value and the input that follows the closing quote.
  `none` = not a literal this model covers (unterminated, raw newline / CR / NUL inside, octal escapes,
  `\N{..}`, backslash-newline, unknown escapes, truncated hex, `\U` above 0x10FFFF).
  Code points are `Nat`: `\udXXX` yields lone surrogates, which are not `Char`s.
-/
def lexGo : LexSt → List Char → Option (List Nat × List Char)
  | _, [] => none
  | .normal, c :: cs =>
    if c = '"' then some ([], cs)
    else if c = '\\' then lexGo .esc cs
    else if c = '\n' ∨ c = '\r' ∨ c.toNat = 0 then none
    else lexCons c.toNat (lexGo .normal cs)
  | .esc, c :: cs =>
    if c = '"' then lexCons 34 (lexGo .normal cs)
    else if c = '\\' then lexCons 92 (lexGo .normal cs)
    else if c = '\'' then lexCons 39 (lexGo .normal cs)
    else if c = 'n' then lexCons 10 (lexGo .normal cs)
    else if c = 'r' then lexCons 13 (lexGo .normal cs)
    else if c = 't' then lexCons 9 (lexGo .normal cs)
    else if c = 'b' then lexCons 8 (lexGo .normal cs)
    else if c = 'f' then lexCons 12 (lexGo .normal cs)
    else if c = 'a' then lexCons 7 (lexGo .normal cs)
    else if c = 'v' then lexCons 11 (lexGo .normal cs)
    else if c = 'x' then lexGo (.hex 1 0) cs
    else if c = 'u' then lexGo (.hex 3 0) cs
    else if c = 'U' then lexGo (.hex 7 0) cs
    else none
  | .hex more acc, c :: cs =>
    match hexVal c with
    | none => none
    | some d =>
      let v := acc * 16 + d
      match more with
      | 0 => if v ≤ 0x10FFFF then lexCons v (lexGo .normal cs) else none
      | m + 1 => lexGo (.hex m v) cs

/-- one string token at the front of the input: value and the rest of the input -/
def lexStrTok : List Char → Option (List Nat × List Char)
  | '"' :: cs => lexGo .normal cs
  | _ => none

/-- the full token `"..."` (both quotes included, nothing after the closing quote) ↦ its value -/
def pyLexStr (tok : List Char) : Option (List Nat) :=
  match lexStrTok tok with
  | some (v, []) => some v
  | _ => none

/-- `tok`, or `tok, tok`, ... ; fuel bounds the number of tokens -/
def lexArgsGo : Nat → List Char → Option (List (List Nat))
  | 0, _ => none
  | fuel + 1, cs =>
    match lexStrTok cs with
    | some (v, []) => some [v]
    | some (v, ',' :: ' ' :: rest) => (lexArgsGo fuel rest).map (v :: ·)
    | _ => none

/-- the text between the brackets of `Literal[...]` as the generator writes it: one or more string
    tokens separated by `, ` (the empty text is a syntax error in Python: `none`) -/
def lexLiteralArgs (cs : List Char) : Option (List (List Nat)) := lexArgsGo cs.length cs

/-! ## BooleanString -/

/-- `{"true": True, "false": False}.get(value.lower())`; `str.lower` is a parameter (Unicode tables) -/
def parseBool (lower : String → String) (s : String) : Option Bool :=
  let l := lower s
  if l = "true" then some true else if l = "false" then some false else none

/-- `str(bool(self)).lower()` -/
def renderBool (b : Bool) : String := if b then "true" else "false"

/-! ## IntString: `int(str)` / `str(int)`

  ASCII only: Python also accepts any Unicode decimal digit and strips Unicode whitespace
  (`_PyUnicode_TransformDecimalAndSpaceToASCII`); those inputs are answered by the `accepts` oracle
  recorded by the harness, not by this model. CPython's `sys.int_max_str_digits` limit (4300 digits,
  `ValueError` on both `int(str)` and `str(int)`) is not modelled either.
-/

/-- `Py_ISSPACE` -/
def isPySpace (c : Char) : Bool :=
  c = ' ' || c = '\t' || c = '\n' || c = '\r' || c.toNat = 11 || c.toNat = 12

def isAsciiDigit (c : Char) : Bool := decide (48 ≤ c.toNat) && decide (c.toNat ≤ 57)

/-- `str.strip()` restricted to ASCII whitespace -/
def pyStrip (cs : List Char) : List Char :=
  ((cs.dropWhile isPySpace).reverse.dropWhile isPySpace).reverse

/-- decimal digits in which single underscores may stand between two digits.
    `prev` = the previous character was a digit; `acc` = value so far. -/
def parseDigits : Bool → Nat → List Char → Option Nat
  | prev, acc, [] => if prev then some acc else none
  | prev, acc, c :: cs =>
    if isAsciiDigit c then parseDigits true (acc * 10 + (c.toNat - 48)) cs
    else if c = '_' && prev then parseDigits false acc cs
    else none

/-- `int(s)` -/
def parseInt (s : List Char) : Option Int :=
  match pyStrip s with
  | [] => none
  | c :: ds =>
    if c = '-' then (parseDigits false 0 ds).map (fun n => -(n : Int))
    else if c = '+' then (parseDigits false 0 ds).map (fun n => (n : Int))
    else (parseDigits false 0 (c :: ds)).map (fun n => (n : Int))

/-- `str(i)` -/
def renderInt : Int → List Char
  | .ofNat n => Nat.toDigits 10 n
  | .negSucc n => '-' :: Nat.toDigits 10 (n + 1)

end J2M
