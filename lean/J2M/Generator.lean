/-
  `MetadataGenerator`: `_convert`, `_detect_type`, `merge_field_sets`, `optimize_type`, `_optimize_union`,
  `generate`.          json_to_models/generator.py
-/
import J2M.Union
import J2M.StrTypes
namespace J2M

structure GenCfg where
  lit : LitCfg
  reg : StrRegistry
  dictFields : List String                -- dict_keys_fields
  dictRegex : List String                 -- dict_keys_regex (pattern sources)
  deriving Repr

structure GenOracles where
  accepts : Accepts
  /-- `re.compile(p).match(key) is not None` -/
  reMatch : String → String → Option Bool
  str : StrOracle

def allKeysMatch (o : GenOracles) (p : String) (keys : List String) : Except PyErr Bool :=
  keys.foldlM (fun acc k =>
    if !acc then pure false else
    match o.reMatch p k with
    | none => .error (.oracleMiss ("reMatch " ++ p))
    | some b => pure b) true

/-- `for reg in dict_keys_regex: if all(map(reg.match, keys)): convert_dict = False; break` -/
def anyRegexMatches (o : GenOracles) (ps : List String) (keys : List String) : Except PyErr Bool :=
  ps.foldlM (fun acc p => if acc then pure true else allKeysMatch o p keys) false

/-- wrap the element types of a non-empty list / dict-like object (generator.py:80-87, 103-110) -/
def wrapElems (c : LitCfg) (wrap : Ty → Ty) (types : List Ty) : Ty :=
  match types with
  | [t] => wrap t
  | ts =>
    match mkUnionMembers c ts with
    | [u] => wrap u
    | us => wrap (.union us)

mutual
/-- `_detect_type(value, convert_dict)` -/
def detect (cfg : GenCfg) (o : GenOracles) (convertDict : Bool) : Json → Except PyErr Ty
  | .bool _ => pure .bool
  | .int _ => pure .int
  | .float _ => pure .float
  | .null => pure .null
  | .arr [] => pure (.list .unknown)
  | .arr (x :: xs) => do
    let ts ← detectList cfg o (x :: xs)
    pure (wrapElems cfg.lit .list ts)
  | .obj [] => pure (.dict .unknown)
  | .obj (kv :: kvs) => do
    let keys := (kv :: kvs).map (·.1)
    let rx ← anyRegexMatches o cfg.dictRegex keys
    let convertDict := if rx then false else convertDict
    if convertDict then do
      let fs ← convertFields cfg o (kv :: kvs)
      pure (.obj fs)
    else do
      let ts ← detectVals cfg o (kv :: kvs)
      pure (wrapElems cfg.lit .dict ts)
  | .str s => do
    match ← detectStr cfg.reg o.accepts s with
    | some k => pure (.ser k)
    | none => pure (mkLit cfg.lit [s])
def detectList (cfg : GenCfg) (o : GenOracles) : List Json → Except PyErr (List Ty)
  | [] => pure []
  | x :: xs => do
    let t ← detect cfg o true x
    let ts ← detectList cfg o xs
    pure (t :: ts)
def detectVals (cfg : GenCfg) (o : GenOracles) : List (String × Json) → Except PyErr (List Ty)
  | [] => pure []
  | (_, x) :: xs => do
    let t ← detect cfg o true x
    let ts ← detectVals cfg o xs
    pure (t :: ts)
/-- `_convert(data)`: keys are strings by construction of `Json`; duplicate keys cannot occur -/
def convertFields (cfg : GenCfg) (o : GenOracles) : List (String × Json) → Except PyErr Fields
  | [] => pure []
  | (k, x) :: xs => do
    let t ← detect cfg o (!cfg.dictFields.contains k) x
    let ts ← convertFields cfg o xs
    pure ((k, t) :: ts)
end

/-- `_convert` on a top-level sample (must be an object; anything else has no `.items()`) -/
def convert (cfg : GenCfg) (o : GenOracles) : Json → Except PyErr Fields
  | .obj kvs => convertFields cfg o kvs
  | _ => .error .typeError

/-- the comparison environment of the generator stage (no model pointers yet / or the registry's) -/
structure EqEnv where
  so : StrOracle
  ms : ModelStr
  look : ModelLookup
  fuel : Nat

def EqEnv.eq (e : EqEnv) (a b : Ty) : Except PyErr Bool :=
  match pyEq e.so e.ms e.look e.fuel a b with
  | some r => pure r
  | none => .error .recursion

/-- merge one incoming `(name, field)` into `fields` (generator.py:136-164); returns the new dict -/
def mergeOne (c : LitCfg) (e : EqEnv) (first : Bool) (fields : Fields) (name : String) (field : Ty) :
    Except PyErr Fields :=
  match fields.get? name with
  | none =>
    let f := if first || field.isOpt then field else .opt field
    pure (fields.set name f)
  | some orig =>
    match orig with
    | .opt origInner => do
      -- `field_original == field or field_original.type == field` (Python `or` short-circuits)
      if (← e.eq orig field) then pure fields else
      if (← e.eq origInner field) then pure fields else
      let u := mkUnionMembers c (field.unionMembers ++ origInner.unionMembers)
      let inner := match u with | [x] => x | us => .union us
      pure (fields.set name (.opt inner))
    | _ => do
      if (← e.eq orig field) then pure fields else
      let sameInner ← (match field with | .opt fi => e.eq orig fi | _ => pure false)
      -- same type, but optional in this model: the merged field is optional too
      if sameInner then pure (fields.set name field) else
      let u := mkUnionMembers c (field.unionMembers ++ orig.unionMembers)
      let f := match u with | [x] => x | us => .union us
      pure (fields.set name f)

/-- one `for model in field_sets` iteration -/
def mergeStep (c : LitCfg) (e : EqEnv) (first : Bool) (fields : Fields) (model : Fields) : Except PyErr Fields := do
  let before := fields.keys
  let fields ← model.foldlM (fun fs (kv : String × Ty) => mergeOne c e first fs kv.1 kv.2) fields
  -- missing fields become optional (`fields_diff`): keys present before and not in this model
  pure (fields.map (fun (kv : String × Ty) =>
    if before.contains kv.1 && !model.has kv.1 && !kv.2.isOpt then (kv.1, .opt kv.2) else kv))

/-- `merge_field_sets(field_sets)` -/
def mergeFieldSets (c : LitCfg) (e : EqEnv) (sets : List Fields) : Except PyErr Fields :=
  let rec go : Bool → Fields → List Fields → Except PyErr Fields
    | _, fields, [] => pure fields
    | first, fields, m :: ms => do
      let fields ← mergeStep c e first fields m
      go false fields ms
  go true [] sets

/-- remove the first element satisfying `p` (`list.remove(x)` with `==` being `p`) -/
def removeFirst {α} (p : α → Bool) : List α → List α
  | [] => []
  | x :: xs => if p x then xs else x :: removeFirst p xs

structure Split where
  strTypes : List Ty := []
  toMerge : List Fields := []
  lists : List Ty := []
  dicts : List Ty := []
  other : List Ty := []

/-- the category split of `_optimize_union` (generator.py:220-240) as its worklist: an `Optional[X]` member contributes
    `Null` and `X`; a union met there (it can only hide under `Optional`: `DUnion` flattens directly nested unions) has
    its members spliced in at the front, so that they take part in the split. `fuel` bounds the splicing. -/
def splitMembersAux (reg : StrRegistry) : Nat → List Ty → Split → Split
  | 0, _, s => s
  | _, [], s => s
  | fuel + 1, item :: rest, s =>
    let (item, s) := match item with
      | .opt x => (x, { s with other := s.other ++ [Ty.null] })
      | x => (x, s)
    match item with
    | .union ms => splitMembersAux reg fuel (ms ++ rest) s
    | .obj fs => splitMembersAux reg fuel rest { s with toMerge := s.toMerge ++ [fs] }
    | .str => splitMembersAux reg fuel rest { s with strTypes := s.strTypes ++ [item] }
    | .ser k => splitMembersAux reg fuel rest
        (if reg.types.contains k then { s with strTypes := s.strTypes ++ [item] } else { s with other := s.other ++ [item] })
    | .list x => splitMembersAux reg fuel rest { s with lists := s.lists ++ [x] }
    | .dict x => splitMembersAux reg fuel rest { s with dicts := s.dicts ++ [x] }
    | x => splitMembersAux reg fuel rest { s with other := s.other ++ [x] }

def splitMembers (reg : StrRegistry) (ts : List Ty) : Split :=
  splitMembersAux reg ((ts.map Ty.size).sum + ts.length + 1) ts {}

mutual
/-- `optimize_type(meta)`; fuel bounds the recursion into freshly built terms -/
def optimize (cfg : GenCfg) (e : EqEnv) : Nat → Ty → Except PyErr Ty
  | 0, _ => .error .outOfFuel
  | fuel + 1, t =>
    match t with
    | .obj fs => do
      let fs' ← fs.mapM (fun (kv : String × Ty) => do
        let v ← optimize cfg e fuel kv.2
        pure (kv.1, v))
      pure (.obj fs')
    | .union ts => optimizeUnion cfg e fuel ts
    | .opt x => do
      let t' ← optimize cfg e fuel x
      match t' with
      | .opt y => pure (.opt y)
      | y => pure (.opt y)
    | .list x => do pure (.list (← optimize cfg e fuel x))
    | .dict x => do pure (.dict (← optimize cfg e fuel x))
    | .tuple ts => do pure (.tuple (← ts.mapM (optimize cfg e fuel)))
    | .lit ov vs => if ov || vs.isEmpty then pure .str else pure t
    | t => pure t
/-- `_optimize_union(t)` on the member list -/
def optimizeUnion (cfg : GenCfg) (e : EqEnv) : Nat → List Ty → Except PyErr Ty
  | 0, _ => .error .outOfFuel
  | fuel + 1, members => do
    let s := splitMembers cfg.reg members
    let other := s.other
    let other := if other.any Ty.isInt && other.any Ty.isFloat then removeFirst Ty.isInt other else other
    let other ← (if s.toMerge.isEmpty then pure other else do
      let m ← mergeFieldSets cfg.lit e s.toMerge
      pure (other ++ [.obj m]))
    let other := if s.lists.isEmpty then other else other ++ [.list (mkUnion cfg.lit s.lists)]
    let other := if s.dicts.isEmpty then other else other ++ [.dict (mkUnion cfg.lit s.dicts)]
    let other ← (if s.strTypes.any Ty.isStr then pure (other ++ [.str])
      else if s.strTypes.isEmpty then pure other
      else do
        let kinds := s.strTypes.filterMap (fun t => match t with | .ser k => some k | _ => none)
        let r ← resolve cfg.reg kinds (kinds.length + 2)
        match r with
        | [k] => pure (other ++ [.ser k])
        | [] => .error .stopIteration
        | _ => pure (other ++ [.str]))
    let types ← other.mapM (optimize cfg e fuel)
    match types with
    | [] => .error .indexError
    | [t] => pure t
    | types =>
      let types := if types.any Ty.isUnknown then removeFirst Ty.isUnknown types else types
      let optional := types.any Ty.isNull
      let types := types.filter (fun t => !t.isNull)
      let mt := match mkUnionMembers cfg.lit types with
        | [] => .unknown
        | [t] => t
        | us => .union us
      pure (if optional then .opt mt else mt)
end

def Ty.fuelFor (t : Ty) : Nat := 10 * t.size + 10

/-- `generate(*data_variants)` -/
def generate (cfg : GenCfg) (o : GenOracles) (samples : List Json) : Except PyErr Ty := do
  let sets ← samples.mapM (convert cfg o)
  let e : EqEnv := ⟨o.str, fun i => "Model#" ++ i, fun _ => none, 1000000⟩
  let fields ← mergeFieldSets cfg.lit e sets
  optimize cfg e (Ty.fuelFor (.obj fields)) (.obj fields)

end J2M
