/-
  The only ways `optimize_type` can fail on raw metadata.
-/
import J2M.Proofs.OptimizeNF
namespace J2M.C08P

/-- the errors `optimize_type` can end with on raw metadata -/
def OptErr (err : PyErr) : Prop := err = .outOfFuel ∨ err = .recursion ∨ err = .stopIteration

theorem mapM_error_inv {α β ε} (f : α → Except ε β) (l : List α) (err : ε) (h : l.mapM f = .error err) :
    ∃ x ∈ l, f x = .error err := by
  induction l with
  | nil => simp [List.mapM_nil, pure, Except.pure] at h
  | cons x l ih =>
    rw [List.mapM_cons] at h
    simp only [bind, Except.bind] at h
    split at h
    · rename_i e' he'
      cases h; exact ⟨x, by simp, he'⟩
    · split at h
      · rename_i e' he'
        cases h
        obtain ⟨y, hy, hy'⟩ := ih he'
        exact ⟨y, by simp [hy], hy'⟩
      · simp [pure, Except.pure] at h

theorem eq_error {e : EqEnv} {a b : Ty} {err : PyErr} (h : e.eq a b = .error err) : err = .recursion := by
  unfold EqEnv.eq at h
  split at h
  · simp [pure, Except.pure] at h
  · cases h; rfl

theorem mergeOne_error {c : LitCfg} {e : EqEnv} {first : Bool} {fields : Fields} {name : String} {field : Ty}
    {err : PyErr} (h : mergeOne c e first fields name field = .error err) : err = .recursion := by
  unfold mergeOne at h
  split at h
  · simp [pure, Except.pure] at h
  · split at h
    · simp only [bind, Except.bind] at h
      split at h
      · rename_i he; cases h; exact eq_error he
      · split at h
        · simp [pure, Except.pure] at h
        · split at h
          · rename_i he; cases h; exact eq_error he
          · split at h <;> simp [pure, Except.pure] at h
    · simp only [bind, Except.bind] at h
      split at h
      · rename_i he; cases h; exact eq_error he
      · split at h
        · simp [pure, Except.pure] at h
        · split at h
          · rename_i he
            cases h
            split at he
            · exact eq_error he
            · simp [pure, Except.pure] at he
          · split at h <;> simp [pure, Except.pure] at h

theorem foldlM_error {α β} (f : β → α → Except PyErr β) (P : PyErr → Prop)
    (hf : ∀ b a err, f b a = .error err → P err) :
    ∀ (l : List α) (b : β) (err : PyErr), l.foldlM f b = .error err → P err := by
  intro l
  induction l with
  | nil => intro b err h; simp [List.foldlM_nil, pure, Except.pure] at h
  | cons a l ih =>
    intro b err h
    rw [List.foldlM_cons] at h
    simp only [bind, Except.bind] at h
    split at h
    · rename_i he; cases h; exact hf _ _ _ he
    · exact ih _ _ h

theorem mergeStep_error {c : LitCfg} {e : EqEnv} {first : Bool} {fields model : Fields} {err : PyErr}
    (h : mergeStep c e first fields model = .error err) : err = .recursion := by
  unfold mergeStep at h
  simp only [bind, Except.bind] at h
  split at h
  · rename_i he
    cases h
    exact foldlM_error _ (fun err => err = .recursion) (fun b a err h' => mergeOne_error h') _ _ _ he
  · simp [pure, Except.pure] at h

theorem mergeGo_error {c : LitCfg} {e : EqEnv} (sets : List Fields) :
    ∀ (first : Bool) (fields : Fields) (err : PyErr),
      mergeFieldSets.go c e first fields sets = .error err → err = .recursion := by
  induction sets with
  | nil => intro first fields err h; simp [mergeFieldSets.go, pure, Except.pure] at h
  | cons m ms ih =>
    intro first fields err h
    simp only [mergeFieldSets.go, bind, Except.bind] at h
    split at h
    · rename_i he; cases h; exact mergeStep_error he
    · exact ih _ _ _ h

theorem mergeFieldSets_error {c : LitCfg} {e : EqEnv} {sets : List Fields} {err : PyErr}
    (h : mergeFieldSets c e sets = .error err) : err = .recursion :=
  mergeGo_error sets true [] err h

theorem resolve_error (reg : StrRegistry) : ∀ (fuel : Nat) (ts : List String) (err : PyErr),
    resolve reg ts fuel = .error err → err = .outOfFuel := by
  intro fuel
  induction fuel with
  | zero => intro ts err h; simp [resolve] at h; exact h.symm
  | succ n ih =>
    intro ts err h
    simp only [resolve] at h
    split at h
    · cases h
    · exact ih _ _ h

theorem stageMerge_error {c : LitCfg} {e : EqEnv} {X : List Ty} {tm : List Fields} {err : PyErr}
    (h : stageMerge c e X tm = .error err) : err = .recursion := by
  unfold stageMerge at h
  split at h
  · simp [pure, Except.pure] at h
  · simp only [bind, Except.bind] at h
    split at h
    · rename_i he; cases h; exact mergeFieldSets_error he
    · simp [pure, Except.pure] at h

theorem stageStr_error {reg : StrRegistry} {X S : List Ty} {err : PyErr}
    (h : stageStr reg X S = .error err) : err = .outOfFuel ∨ err = .stopIteration := by
  unfold stageStr at h
  split at h
  · simp [pure, Except.pure] at h
  · split at h
    · simp [pure, Except.pure] at h
    · simp only [bind, Except.bind] at h
      split at h
      · rename_i he; cases h; exact Or.inl (resolve_error _ _ _ _ he)
      · split at h
        · simp [pure, Except.pure] at h
        · cases h; exact Or.inr rfl
        · simp [pure, Except.pure] at h

theorem finishOpt_error {c : LitCfg} {types : List Ty} {err : PyErr} (h : finishOpt c types = .error err) :
    types = [] := by
  match types, h with
  | [], _ => rfl
  | [t], h => simp [finishOpt, pure, Except.pure] at h
  | a :: b :: rest, h => rw [finishOpt_ge2 _ _ (by simp)] at h; cases h

theorem optimize_zero (cfg : GenCfg) (e : EqEnv) (t : Ty) : optimize cfg e 0 t = .error .outOfFuel := by
  simp [optimize]

theorem removeFirst_mem {α} (p : α → Bool) (l : List α) (x : α) (hx : x ∈ l) (hp : p x = false) :
    x ∈ removeFirst p l := by
  induction l with
  | nil => cases hx
  | cons y l ih =>
    simp only [removeFirst]
    split
    · rename_i hpy
      rcases List.mem_cons.mp hx with rfl | h
      · rw [hp] at hpy; cases hpy
      · exact h
    · rcases List.mem_cons.mp hx with rfl | h
      · simp
      · exact List.mem_cons_of_mem _ (ih h)

theorem stageInt_ne_nil (l : List Ty) (h : l ≠ []) : stageInt l ≠ [] := by
  unfold stageInt
  split
  · rename_i hc
    simp only [Bool.and_eq_true, List.any_eq_true] at hc
    obtain ⟨_, ⟨x, hx, hx'⟩⟩ := hc
    have : x ∈ removeFirst Ty.isInt l := removeFirst_mem _ _ x hx (by cases x <;> simp_all [Ty.isFloat, Ty.isInt])
    intro e; rw [e] at this; cases this
  · exact h

theorem stageStr_inv' {reg : StrRegistry} {X o : List Ty} {S : List Ty} (h : stageStr reg X S = .ok o) :
    (o = X ∧ S = []) ∨ o = X ++ [.str] ∨ ∃ k, o = X ++ [.ser k] := by
  unfold stageStr at h
  split at h
  · simp only [pure, Except.pure, Except.ok.injEq] at h; exact Or.inr (Or.inl h.symm)
  · split at h
    · rename_i he
      simp only [pure, Except.pure, Except.ok.injEq] at h; exact Or.inl ⟨h.symm, by simpa using he⟩
    · simp only [bind, Except.bind] at h
      split at h
      · cases h
      · split at h
        · simp only [pure, Except.pure, Except.ok.injEq] at h; exact Or.inr (Or.inr ⟨_, h.symm⟩)
        · cases h
        · simp only [pure, Except.pure, Except.ok.injEq] at h; exact Or.inr (Or.inl h.symm)

theorem mem_objFs_of {ms : List Ty} {fs : Fields} (h : Ty.obj fs ∈ ms) : fs ∈ objFs ms := by
  unfold objFs; rw [List.mem_filterMap]; exact ⟨_, h, rfl⟩
theorem mem_listEs_of {ms : List Ty} {x : Ty} (h : Ty.list x ∈ ms) : x ∈ listEs ms := by
  unfold listEs; rw [List.mem_filterMap]; exact ⟨_, h, rfl⟩
theorem mem_dictEs_of {ms : List Ty} {x : Ty} (h : Ty.dict x ∈ ms) : x ∈ dictEs ms := by
  unfold dictEs; rw [List.mem_filterMap]; exact ⟨_, h, rfl⟩

theorem optimizeUnion_err_step {cfg : GenCfg} {e : EqEnv} {f : Nat} (P : PyErr → Prop)
    (hP1 : P .outOfFuel) (hP2 : P .recursion)
    (hP3 : ∀ X S err, (∀ t ∈ S, isStrCls t = true) → stageStr cfg.reg X S = .error err → P err)
    (ih : ∀ t err, Raw cfg t = true → optimize cfg e f t = .error err → P err)
    {ms : List Ty} {err : PyErr} (hr : rawD cfg (.union ms) = true)
    (h : optimizeUnion cfg e (f + 1) ms = .error err) : P err := by
  obtain ⟨sh, hm⟩ := rawD_union hr
  rw [optimizeUnion_body _ _ _ _ (raw_hidden sh hm), split_optFree cfg.reg ms {} (fun t ht => ⟨rawD_not_opt (hm t ht), fun k hk => by
    have := hm t ht; rw [hk] at this; simpa [rawD] using this⟩)] at h
  unfold unionBody at h
  simp only [List.nil_append, bind, Except.bind] at h
  split at h
  · rename_i he; cases h; rw [stageMerge_error he]; exact hP2
  · rename_i o1 hmerge
    split at h
    · rename_i he; cases h
      exact hP3 _ _ _ (fun t ht => (List.mem_filter.mp ht).2) he
    · rename_i o4 hstr
      rw [stageList_eq, stageDict_eq] at hstr
      obtain ⟨Jx, ho1, hJx⟩ : ∃ Jx, o1 = stageInt (ms.filter isOtherCls) ++ Jx ∧
          ((Jx = [] ∧ objFs ms = []) ∨ ∃ m, Jx = [.obj m] ∧ AllRawF cfg m) := by
        rcases stageMerge_inv hmerge with ⟨h0, h1⟩ | ⟨m, hm', h1⟩
        · exact ⟨[], by simpa using h1, Or.inl ⟨rfl, h0⟩⟩
        · refine ⟨[.obj m], h1, Or.inr ⟨m, rfl, ?_⟩⟩
          apply mergeFieldSets_rawF _ hm'
          intro fs hfs kv hkv
          have := hm _ (mem_objFs hfs)
          simp only [rawD] at this
          exact (rawDFields_iff cfg fs).mp this kv hkv
      obtain ⟨Sx, ho4, hSx⟩ : ∃ Sx, o4 = o1 ++ (if (listEs ms).isEmpty then [] else [.list (mkUnion cfg.lit (listEs ms))])
          ++ (if (dictEs ms).isEmpty then [] else [.dict (mkUnion cfg.lit (dictEs ms))]) ++ Sx ∧
          ((Sx = [] ∧ ms.filter isStrCls = []) ∨ Sx = [.str] ∨ ∃ k, Sx = [.ser k]) := by
        rcases stageStr_inv' hstr with ⟨h1, h0⟩ | h1 | ⟨k, h1⟩
        · exact ⟨[], by simpa using h1, Or.inl ⟨rfl, h0⟩⟩
        · exact ⟨[.str], h1, Or.inr (Or.inl rfl)⟩
        · exact ⟨[.ser k], h1, Or.inr (Or.inr ⟨k, rfl⟩)⟩
      subst ho1
      generalize hLx : (if (listEs ms).isEmpty then [] else [Ty.list (mkUnion cfg.lit (listEs ms))]) = Lx at ho4
      generalize hDx : (if (dictEs ms).isEmpty then [] else [Ty.dict (mkUnion cfg.lit (dictEs ms))]) = Dx at ho4
      obtain ⟨_, hOopt⟩ := oPre_of_raw sh hm
      split at h
      · -- a member failed
        rename_i he
        cases h
        obtain ⟨x, hx, hxe⟩ := mapM_error_inv _ _ _ he
        cases f with
        | zero => rw [optimize_zero] at hxe; cases hxe; exact hP1
        | succ f' =>
          subst ho4
          simp only [List.mem_append] at hx
          rcases hx with (((hx | hx) | hx) | hx) | hx
          · rw [hOopt x hx e f'] at hxe; cases hxe
          · rcases hJx with ⟨rfl, _⟩ | ⟨m, rfl, hmr⟩
            · cases hx
            · simp at hx; subst hx; exact ih _ _ hmr.Raw hxe
          · rw [← hLx] at hx
            split at hx
            · cases hx
            · rename_i hne
              simp at hx; subst hx
              refine ih _ _ (rawD_Raw ?_) hxe
              simp only [rawD]
              apply mkUnion_rawD
              · simpa using hne
              · intro t ht
                have := hm _ (mem_listEs ht)
                simpa [rawD] using this
          · rw [← hDx] at hx
            split at hx
            · cases hx
            · rename_i hne
              simp at hx; subst hx
              refine ih _ _ (rawD_Raw ?_) hxe
              simp only [rawD]
              apply mkUnion_rawD
              · simpa using hne
              · intro t ht
                have := hm _ (mem_dictEs ht)
                simpa [rawD] using this
          · rcases hSx with ⟨rfl, _⟩ | rfl | ⟨k, rfl⟩
            · cases hx
            · simp at hx; subst hx; simp [optimize, pure, Except.pure] at hxe
            · simp at hx; subst hx; simp [optimize, pure, Except.pure] at hxe
      · -- all members fine: `finishOpt` cannot fail because the list is not empty
        rename_i types hmap
        exfalso
        have hnil := finishOpt_error h
        have hlen := mapM_length _ _ _ hmap
        rw [hnil] at hlen
        have ho4nil : o4 = [] := List.eq_nil_of_length_eq_zero hlen.symm
        rw [ho4] at ho4nil
        simp only [List.append_eq_nil_iff] at ho4nil
        obtain ⟨⟨⟨⟨hO, hJ⟩, hL⟩, hD⟩, hS⟩ := ho4nil
        -- but `ms` has a member, which falls into one category
        obtain ⟨m, hmm⟩ := List.exists_mem_of_ne_nil ms sh.ne
        by_cases hc : isOtherCls m = true
        · exact stageInt_ne_nil _ (List.ne_nil_of_mem (List.mem_filter.mpr ⟨hmm, hc⟩)) hO
        · have hmr := hm m hmm
          cases m with
          | obj fs =>
            rcases hJx with ⟨_, h0⟩ | ⟨m', h1, _⟩
            · have := mem_objFs_of hmm; rw [h0] at this; cases this
            · rw [h1] at hJ; cases hJ
          | list x =>
            rw [← hLx] at hL
            have : (listEs ms).isEmpty = false := by
              have := mem_listEs_of hmm
              cases hh : listEs ms with
              | nil => rw [hh] at this; cases this
              | cons _ _ => rfl
            simp [this] at hL
          | dict x =>
            rw [← hDx] at hD
            have : (dictEs ms).isEmpty = false := by
              have := mem_dictEs_of hmm
              cases hh : dictEs ms with
              | nil => rw [hh] at this; cases this
              | cons _ _ => rfl
            simp [this] at hD
          | str =>
            rcases hSx with ⟨_, h0⟩ | h1 | ⟨k, h1⟩
            · have : Ty.str ∈ ms.filter isStrCls := List.mem_filter.mpr ⟨hmm, by simp [isStrCls, Ty.cls]⟩
              rw [h0] at this; cases this
            · rw [h1] at hS; cases hS
            · rw [h1] at hS; cases hS
          | ser k' =>
            rcases hSx with ⟨_, h0⟩ | h1 | ⟨k, h1⟩
            · have : Ty.ser k' ∈ ms.filter isStrCls := List.mem_filter.mpr ⟨hmm, by simp [isStrCls, Ty.cls]⟩
              rw [h0] at this; cases this
            · rw [h1] at hS; cases hS
            · rw [h1] at hS; cases hS
          | _ => simp [isOtherCls, Ty.cls] at hc

theorem optimize_err_rawF {cfg : GenCfg} {e : EqEnv} {f : Nat} (P : PyErr → Prop)
    (ih : ∀ t err, Raw cfg t = true → optimize cfg e f t = .error err → P err)
    (ihU : ∀ ms err, rawD cfg (.union ms) = true → optimizeUnion cfg e f ms = .error err → P err)
    {t : Ty} {err : PyErr} (hr : rawF cfg t = true) (h : optimize cfg e (f + 1) t = .error err) : P err := by
  cases t with
  | int | float | bool | str | null | unknown | ser _ =>
    simp [optimize, pure, Except.pure] at h
  | ptr _ | tuple _ => simp [rawF, rawD] at hr
  | lit ov vs =>
    rw [optimize] at h
    split at h <;> simp [pure, Except.pure] at h
  | list x =>
    rw [optimize] at h
    simp only [bind, Except.bind] at h
    split at h
    · rename_i he; cases h
      exact ih x _ (rawD_Raw (by simpa [rawF, rawD] using hr)) he
    · simp [pure, Except.pure] at h
  | dict x =>
    rw [optimize] at h
    simp only [bind, Except.bind] at h
    split at h
    · rename_i he; cases h
      exact ih x _ (rawD_Raw (by simpa [rawF, rawD] using hr)) he
    · simp [pure, Except.pure] at h
  | opt x =>
    rw [optimize] at h
    simp only [bind, Except.bind] at h
    split at h
    · rename_i he; cases h
      exact ih x _ (rawD_Raw (by simpa [rawF] using hr)) he
    · split at h <;> simp [pure, Except.pure] at h
  | union ms =>
    rw [optimize] at h
    exact ihU ms err (by simpa [rawF] using hr) h
  | obj fs =>
    have hfs : ∀ kv ∈ fs, rawD cfg kv.2 = true := by
      have : rawD cfg (.obj fs) = true := by simpa [rawF] using hr
      simp only [rawD] at this
      exact (rawDFields_iff cfg fs).mp this
    rw [optimize] at h
    simp only [bind, Except.bind] at h
    split at h
    · rename_i he; cases h
      obtain ⟨kv, hkv, hopt⟩ := mapM_error_inv _ _ _ he
      split at hopt
      · rename_i he'; cases hopt
        exact ih kv.2 _ (rawD_Raw (hfs kv hkv)) he'
      · simp [pure, Except.pure] at hopt
    · simp [pure, Except.pure] at h

theorem optimize_err_all (cfg : GenCfg) (e : EqEnv) (P : PyErr → Prop)
    (hP1 : P .outOfFuel) (hP2 : P .recursion)
    (hP3 : ∀ X S err, (∀ t ∈ S, isStrCls t = true) → stageStr cfg.reg X S = .error err → P err) : ∀ fuel,
    (∀ t err, Raw cfg t = true → optimize cfg e fuel t = .error err → P err) ∧
    (∀ ms err, rawD cfg (.union ms) = true → optimizeUnion cfg e fuel ms = .error err → P err) := by
  intro fuel
  induction fuel with
  | zero =>
    constructor
    · intro t err _ h; simp [optimize] at h; rw [← h]; exact hP1
    · intro ms err _ h; simp [optimizeUnion] at h; rw [← h]; exact hP1
  | succ f ih =>
    refine ⟨?_, fun ms err hr h => optimizeUnion_err_step P hP1 hP2 hP3 ih.1 hr h⟩
    intro t err hr h
    cases t with
    | obj fs =>
      simp only [Raw, List.all_eq_true] at hr
      rw [optimize] at h
      simp only [bind, Except.bind] at h
      split at h
      · rename_i he; cases h
        obtain ⟨kv, hkv, hopt⟩ := mapM_error_inv _ _ _ he
        split at hopt
        · rename_i he'; cases hopt
          exact ih.1 kv.2 _ (rawF_Raw (hr kv hkv)) he'
        · simp [pure, Except.pure] at hopt
      · simp [pure, Except.pure] at h
    | _ => exact optimize_err_rawF P ih.1 ih.2 (by simpa [Raw] using hr) h

/-- on raw metadata `optimize_type` can only fail by running out of fuel, by a `RecursionError` of `==`,
    or by `StopIteration` (an empty `resolve` result) -/
theorem optimize_errors_raw (cfg : GenCfg) (e : EqEnv) (fuel : Nat) (t : Ty) (err : PyErr)
    (hr : Raw cfg t = true) (h : optimize cfg e fuel t = .error err) : OptErr err :=
  (optimize_err_all cfg e OptErr (Or.inl rfl) (Or.inr (Or.inl rfl))
    (fun X S err _ h => by
      rcases stageStr_error h with h' | h'
      · exact Or.inl h'
      · exact Or.inr (Or.inr h')) fuel).1 t err hr h

/-! ### the registry -/

/-- the `replaces` relation is acyclic: some rank strictly increases along every pair -/
def RegRanked (reg : StrRegistry) : Prop :=
  ∃ rank : String → Nat, ∀ a b, (a, b) ∈ reg.replaces → rank a < rank b

theorem dedup_fold_length (l acc : List String) :
    (l.foldl (fun acc x => if acc.contains x then acc else acc ++ [x]) acc).length ≤ acc.length + l.length := by
  induction l generalizing acc with
  | nil => simp
  | cons x l ih =>
    rw [List.foldl_cons]
    refine Nat.le_trans (ih _) ?_
    split <;> simp <;> omega

theorem dedupStr_length (l : List String) : (dedupStr l).length ≤ l.length := by
  have := dedup_fold_length l []; simpa [dedupStr] using this

theorem dedup_fold_ne_nil (l acc : List String) (h : acc ≠ [] ∨ l ≠ []) :
    l.foldl (fun acc x => if acc.contains x then acc else acc ++ [x]) acc ≠ [] := by
  induction l generalizing acc with
  | nil => simpa using h
  | cons x l ih =>
    rw [List.foldl_cons]
    apply ih; left
    split
    · rename_i hc; intro e; rw [e] at hc; simp at hc
    · simp

theorem dedupStr_ne_nil (l : List String) (h : l ≠ []) : dedupStr l ≠ [] :=
  dedup_fold_ne_nil l [] (Or.inr h)

theorem resolve_ok (reg : StrRegistry) : ∀ (fuel : Nat) (ts : List String), ts.length < fuel →
    ∃ r, resolve reg ts fuel = .ok r := by
  intro fuel
  induction fuel with
  | zero => intro ts h; omega
  | succ n ih =>
    intro ts h
    simp only [resolve]
    split
    · exact ⟨_, rfl⟩
    · rename_i hne
      apply ih
      have h1 := dedupStr_length ts
      have : ((dedupStr ts).filter (fun t => !(replacedIn reg (dedupStr ts)).contains t)).length
          < (dedupStr ts).length := by
        cases hrep : replacedIn reg (dedupStr ts) with
        | nil => rw [hrep] at hne; simp at hne
        | cons x xs =>
          have hx : x ∈ replacedIn reg (dedupStr ts) := by rw [hrep]; simp
          have hx' : x ∈ dedupStr ts := (List.mem_filter.mp hx).1
          rw [← hrep]
          apply List.length_filter_lt_length_iff_exists.mpr
          exact ⟨x, hx', by simp [hx]⟩
      omega

theorem exists_max_rank (rank : String → Nat) (l : List String) (h : l ≠ []) :
    ∃ m ∈ l, ∀ x ∈ l, rank x ≤ rank m := by
  induction l with
  | nil => exact absurd rfl h
  | cons a l ih =>
    cases l with
    | nil => exact ⟨a, by simp, by simp⟩
    | cons b l' =>
      obtain ⟨m, hm, hmax⟩ := ih (by simp)
      by_cases hc : rank m ≤ rank a
      · refine ⟨a, by simp, ?_⟩
        intro x hx
        rcases List.mem_cons.mp hx with rfl | hx
        · exact Nat.le_refl _
        · exact Nat.le_trans (hmax x hx) hc
      · refine ⟨m, List.mem_cons_of_mem _ hm, ?_⟩
        intro x hx
        rcases List.mem_cons.mp hx with rfl | hx
        · omega
        · exact hmax x hx

theorem resolve_ne_nil {reg : StrRegistry} (hreg : RegRanked reg) : ∀ (fuel : Nat) (ts r : List String),
    ts ≠ [] → resolve reg ts fuel = .ok r → r ≠ [] := by
  obtain ⟨rank, hrank⟩ := hreg
  intro fuel
  induction fuel with
  | zero => intro ts r _ h; simp [resolve] at h
  | succ n ih =>
    intro ts r hne h
    simp only [resolve] at h
    have hd := dedupStr_ne_nil ts hne
    split at h
    · cases h; exact hd
    · apply ih _ r _ h
      obtain ⟨m, hm, hmax⟩ := exists_max_rank rank (dedupStr ts) hd
      apply List.ne_nil_of_mem (a := m)
      rw [List.mem_filter]
      refine ⟨hm, ?_⟩
      simp only [Bool.not_eq_true', List.contains_eq_mem, decide_eq_false_iff_not]
      intro hrep
      unfold replacedIn at hrep
      rw [List.mem_filter] at hrep
      obtain ⟨_, hany⟩ := hrep
      rw [List.any_eq_true] at hany
      obtain ⟨t2, ht2, hc⟩ := hany
      simp only [Bool.and_eq_true, List.contains_eq_mem, decide_eq_true_eq] at hc
      have := hrank m t2 hc.2
      have := hmax t2 ht2
      omega

/-- with an acyclic registry the pseudo-type stage of `_optimize_union` never fails -/
theorem stageStr_ok_ranked {reg : StrRegistry} (hreg : RegRanked reg) (X S : List Ty)
    (hS : ∀ t ∈ S, isStrCls t = true) (err : PyErr) : stageStr reg X S ≠ .error err := by
  intro h
  unfold stageStr at h
  split at h
  · simp [pure, Except.pure] at h
  · rename_i hstr
    split at h
    · simp [pure, Except.pure] at h
    · rename_i hne
      simp only [bind, Except.bind] at h
      generalize hk : S.filterMap (fun t => match t with | .ser k => some k | _ => none) = kinds at h
      have hkne : kinds ≠ [] := by
        cases S with
        | nil => simp at hne
        | cons t S' =>
          have ht := hS t (by simp)
          have hns : t.isStr = false := by
            cases hh : t.isStr with
            | false => rfl
            | true => exfalso; apply hstr; simp [hh]
          cases t <;> simp [isStrCls, Ty.cls, Ty.isStr] at ht hns
          rw [← hk]; simp
      obtain ⟨r, hr⟩ := resolve_ok reg (kinds.length + 2) kinds (by omega)
      rw [hr] at h
      have := resolve_ne_nil hreg _ _ _ hkne hr
      cases r with
      | nil => exact this rfl
      | cons a r' => cases r' <;> simp [pure, Except.pure] at h

/-- with an acyclic registry: only out-of-fuel and `RecursionError` remain -/
theorem optimize_errors_ranked (cfg : GenCfg) (e : EqEnv) (hreg : RegRanked cfg.reg) (fuel : Nat) (t : Ty)
    (err : PyErr) (hr : Raw cfg t = true) (h : optimize cfg e fuel t = .error err) :
    err = .outOfFuel ∨ err = .recursion :=
  (optimize_err_all cfg e (fun err => err = .outOfFuel ∨ err = .recursion) (Or.inl rfl) (Or.inr rfl)
    (fun X S err hS h => absurd h (stageStr_ok_ranked hreg X S hS err)) fuel).1 t err hr h

end J2M.C08P
