/-
  Termination of the `while True` loop of `_prepare_class_names` (`dedupLoop`): the fuel `n * n + 1` is never
  exhausted when the enumeration lists no model twice, the indices contain no underscore, and every listed model has
  an entry in the name table.

  Argument: in every round each renamed model `i` gets the token `"_" ++ i` appended, so at any later time its name is
  `name ++ ("_" ++ i)^a`.  Two models `i ≠ j` that share a name `s` in some round become `s_i…`, `s_j…`; because
  indices contain no underscore, `s ++ ("_" ++ i)^(a+1) = s ++ ("_" ++ j)^(b+1)` forces `i = j`.  So an (ordered) pair
  collides at most once, every round that is not the last one has a colliding pair, and there are at most `n * n`
  pairs.
-/
import J2M.Proofs.PrepNames
import J2M.Proofs.Names
namespace J2M.DedupTerm
open J2M J2M.Rend2 J2M.PrepNames

/-! ## 1. indices -/

/-- the property of model indices that the termination argument uses: no underscore -/
def IdxShape (i : String) : Prop := '_' ∉ i.toList

theorem indexOf_shape (k : Nat) : IdxShape (indexOf k) := NamesP.indexOf_no_underscore k

/-- two words without underscore, each followed by nothing or by an underscore: equal texts, equal words -/
theorem word_eq : ∀ (l1 l2 r1 r2 : List Char), '_' ∉ l1 → '_' ∉ l2 →
    (r1 = [] ∨ ∃ t, r1 = '_' :: t) → (r2 = [] ∨ ∃ t, r2 = '_' :: t) → l1 ++ r1 = l2 ++ r2 → l1 = l2 := by
  intro l1
  induction l1 with
  | nil =>
    intro l2 r1 r2 _ h2 hr1 _ h
    cases l2 with
    | nil => rfl
    | cons c t =>
      exfalso
      simp only [List.nil_append, List.cons_append] at h
      rcases hr1 with e | ⟨u, e⟩
      · rw [e] at h; cases h
      · rw [e] at h
        injection h with hc _
        exact h2 (by rw [← hc]; simp)
  | cons c t ih =>
    intro l2 r1 r2 h1 h2 hr1 hr2 h
    cases l2 with
    | nil =>
      exfalso
      simp only [List.nil_append, List.cons_append] at h
      rcases hr2 with e | ⟨u, e⟩
      · rw [e] at h; cases h
      · rw [e] at h
        injection h with hc _
        exact h1 (by rw [hc]; simp)
    | cons d u =>
      simp only [List.cons_append] at h
      injection h with hc ht
      subst hc
      have := ih u r1 r2 (fun hm => h1 (List.mem_cons_of_mem _ hm)) (fun hm => h2 (List.mem_cons_of_mem _ hm))
        hr1 hr2 ht
      rw [this]

/-! ## 2. the names a model can get -/

/-- `model.name_joiner(model.name, model.index)` -/
def step (o : Option String) (i : String) : Option String := some (o.getD "None" ++ "_" ++ i)

/-- the name after `a` renamings -/
def ext (o : Option String) (i : String) : Nat → Option String
  | 0 => o
  | a + 1 => ext (step o i) i a

/-- `a` copies of the token `"_" ++ i` -/
def rep (i : String) : Nat → String
  | 0 => ""
  | a + 1 => "_" ++ i ++ rep i a

theorem ext_step (o : Option String) (i : String) (a : Nat) : ext (step o i) i a = ext o i (a + 1) := rfl

theorem ext_some (i : String) : ∀ (a : Nat) (s : String), ext (some s) i a = some (s ++ rep i a) := by
  intro a
  induction a with
  | zero => intro s; simp [ext, rep]
  | succ a ih =>
    intro s
    simp only [ext, step, Option.getD_some, ih, rep]
    congr 1
    simp only [String.append_assoc]

theorem rep_toList (i : String) (a : Nat) : (rep i a).toList = [] ∨ ∃ t, (rep i a).toList = '_' :: t := by
  cases a with
  | zero => left; simp [rep]
  | succ a => right; exact ⟨i.toList ++ (rep i a).toList, by simp [rep, String.toList_append]⟩

/-- **the key fact**: two models that were renamed from the same name in the same round never get equal names again -/
theorem step_ext_ne {o : Option String} {i j : String} (hi : IdxShape i) (hj : IdxShape j) (hij : i ≠ j)
    (a b : Nat) : ext (step o i) i a ≠ ext (step o j) j b := by
  unfold step
  rw [ext_some, ext_some]
  intro h
  have h := congrArg String.toList (Option.some.inj h)
  simp only [String.toList_append, List.append_assoc, List.append_cancel_left_eq] at h
  exact hij (String.toList_inj.mp (word_eq _ _ _ _ hi hj (rep_toList i a) (rep_toList j b) h))

/-! ## 3. one round -/

/-- `Sep N i j`: whatever is appended later, the names of `i` and `j` stay different -/
def Sep (N : NameMap) (i j : String) : Prop := ∀ a b, ext (nameOf N i) i a ≠ ext (nameOf N j) j b

/-- `i` has an entry in the name table -/
def HasKey (N : NameMap) (i : String) : Prop := i ∈ N.map (·.1)

theorem any_of_hasKey {N : NameMap} {i : String} (h : HasKey N i) : N.any (·.1 == i) = true := by
  obtain ⟨p, hp, e⟩ := List.mem_map.mp h
  exact List.any_eq_true.mpr ⟨p, hp, by simp [e]⟩

theorem hasKey_of_name {N : NameMap} {i n : String} (h : nameOf N i = some n) : HasKey N i := by
  have := any_of_lookup (names := N) (i := i) (n := n) h
  obtain ⟨p, hp, e⟩ := List.any_eq_true.mp this
  exact List.mem_map.mpr ⟨p, hp, by simpa using e⟩

theorem hasKey_congr {N N' : NameMap} (h : N'.map (·.1) = N.map (·.1)) (i : String) : HasKey N' i ↔ HasKey N i := by
  unfold HasKey; rw [h]

/-- what the renamings of one round do to the name of a model with an entry -/
theorem nameOf_foldl_renameStep : ∀ (ds : List String), ds.Nodup → ∀ (N : NameMap) (i : String), HasKey N i →
    nameOf (ds.foldl renameStep N) i = if i ∈ ds then step (nameOf N i) i else nameOf N i := by
  intro ds
  induction ds with
  | nil => intro _ N i _; simp
  | cons d ds ih =>
    intro hnd N i hk
    simp only [List.nodup_cons] at hnd
    rw [List.foldl_cons]
    have hk' : HasKey (renameStep N d) i := (hasKey_congr (renameStep_keys N d) i).mpr hk
    rw [ih hnd.2 _ _ hk']
    by_cases hid : i = d
    · subst hid
      have : nameOf (renameStep N i) i = step (nameOf N i) i := by
        unfold renameStep
        rw [nameOf_eq, lookup_set_self, any_of_hasKey hk]
        rfl
      simp [hnd.1, this]
    · have : nameOf (renameStep N d) i = nameOf N i := lookup_set_ne _ _ hid
      simp [hid, this]

theorem nameOf_round {N : NameMap} {idxs : List String} (hnd : idxs.Nodup) {i : String} (hk : HasKey N i) :
    nameOf (dedupRound N idxs).1 i = if i ∈ dupsOf N idxs then step (nameOf N i) i else nameOf N i := by
  rw [dedupRound_eq]
  exact nameOf_foldl_renameStep _ (dupsOf_nodup hnd) N i hk

theorem hasKey_round {N : NameMap} {idxs : List String} {i : String} (hk : HasKey N i) :
    HasKey (dedupRound N idxs).1 i := (hasKey_congr (dedupRound_keys N idxs) i).mpr hk

/-- the name after a round is the old name after zero or one renaming -/
theorem nameOf_round_ext {N : NameMap} {idxs : List String} (hnd : idxs.Nodup) {i : String} (hk : HasKey N i) :
    ∃ e, ∀ a, ext (nameOf (dedupRound N idxs).1 i) i a = ext (nameOf N i) i (a + e) := by
  rw [nameOf_round hnd hk]
  by_cases h : i ∈ dupsOf N idxs
  · exact ⟨1, fun a => by rw [if_pos h]; rfl⟩
  · exact ⟨0, fun a => by rw [if_neg h]; rfl⟩

/-- separated names stay separated -/
theorem sep_round {N : NameMap} {idxs : List String} (hnd : idxs.Nodup) {i j : String} (hi : HasKey N i)
    (hj : HasKey N j) (h : Sep N i j) : Sep (dedupRound N idxs).1 i j := by
  obtain ⟨e1, h1⟩ := nameOf_round_ext hnd hi
  obtain ⟨e2, h2⟩ := nameOf_round_ext hnd hj
  intro a b
  rw [h1, h2]
  exact h _ _

theorem two_le_length_of_mem {α : Type} {l : List α} {x y : α} (hx : x ∈ l) (hy : y ∈ l) (hxy : x ≠ y) :
    2 ≤ l.length := by
  match l, hx, hy with
  | [], hx, _ => cases hx
  | [a], hx, hy =>
    simp only [List.mem_singleton] at hx hy
    exact absurd (hx.trans hy.symm) hxy
  | _ :: _ :: _, _, _ => simp

/-- a model that shares its name with another listed model is renamed -/
theorem mem_dupsOf {N : NameMap} {idxs : List String} {i j : String} (hi : i ∈ idxs) (hj : j ∈ idxs) (hij : i ≠ j)
    (e : nameOf N i = nameOf N j) : i ∈ dupsOf N idxs := by
  unfold dupsOf
  rw [List.mem_filter]
  refine ⟨hi, ?_⟩
  simp only [gt_iff_lt, decide_eq_true_eq]
  unfold cnt
  rw [List.filter_map, List.length_map]
  apply two_le_length_of_mem (x := i) (y := j) _ _ hij
  · exact List.mem_filter.mpr ⟨hi, by simp⟩
  · exact List.mem_filter.mpr ⟨hj, by simp [e]⟩

/-- a pair that shares a name in this round is separated from now on -/
theorem sep_of_collide {N : NameMap} {idxs : List String} (hnd : idxs.Nodup) {i j : String} (hi : i ∈ idxs)
    (hj : j ∈ idxs) (hij : i ≠ j) (si : IdxShape i) (sj : IdxShape j) (ki : HasKey N i) (kj : HasKey N j)
    (e : nameOf N i = nameOf N j) : Sep (dedupRound N idxs).1 i j := by
  intro a b
  rw [nameOf_round hnd ki, nameOf_round hnd kj, if_pos (mem_dupsOf hi hj hij e),
    if_pos (mem_dupsOf hj hi (Ne.symm hij) e.symm), e]
  exact step_ext_ne si sj hij a b

/-- a round that does not end the loop has a colliding pair -/
theorem exists_collision {N : NameMap} {idxs : List String} (hnd : idxs.Nodup)
    (hf : ¬ (dedupRound N idxs).2 = true) : ∃ i ∈ idxs, ∃ j ∈ idxs, i ≠ j ∧ nameOf N i = nameOf N j := by
  apply Classical.byContradiction
  intro hcon
  apply hf
  rw [dedupRound_flag, nodup_map_distinct]
  exact ⟨hnd, fun i hi j hj hij e => hcon ⟨i, hi, j, hj, hij, e⟩⟩

/-! ## 4. the loop -/

/-- the invariant: `P` lists the ordered pairs that may still collide -/
theorem dedupLoop_terminates_aux {idxs : List String} (hnd : idxs.Nodup) (hs : ∀ i ∈ idxs, IdxShape i) :
    ∀ (fuel : Nat) (N : NameMap) (P : List (String × String)), (∀ i ∈ idxs, HasKey N i) →
      (∀ i ∈ idxs, ∀ j ∈ idxs, i ≠ j → (i, j) ∉ P → Sep N i j) → P.length < fuel →
      ∃ R, dedupLoop idxs fuel N = .ok R := by
  intro fuel
  induction fuel with
  | zero => intro N P _ _ h; omega
  | succ fuel ih =>
    intro N P hk hP hlen
    rw [dedupLoop_succ]
    by_cases hf : (dedupRound N idxs).2 = true
    · exact ⟨N, by rw [if_pos hf]⟩
    · rw [if_neg hf]
      obtain ⟨i, hi, j, hj, hij, e⟩ := exists_collision hnd hf
      have hmem : (i, j) ∈ P := by
        apply Classical.byContradiction
        intro hn
        exact hP i hi j hj hij hn 0 0 e
      apply ih _ (P.erase (i, j)) (fun k hk' => hasKey_round (hk k hk'))
      · intro k hk' l hl hkl hn
        by_cases hp : (k, l) = (i, j)
        · injection hp with e1 e2
          subst e1; subst e2
          exact sep_of_collide hnd hi hj hij (hs _ hi) (hs _ hj) (hk _ hi) (hk _ hj) e
        · apply sep_round hnd (hk k hk') (hk l hl)
          apply hP k hk' l hl hkl
          intro hm
          exact hn ((List.mem_erase_of_ne hp).mpr hm)
      · rw [List.length_erase_of_mem hmem]
        have : 0 < P.length := List.length_pos_of_mem hmem
        omega

/-- the ordered pairs of listed models -/
def pairs (idxs : List String) : List (String × String) := idxs.flatMap (fun i => idxs.map (fun j => (i, j)))

theorem mem_pairs {idxs : List String} {i j : String} (hi : i ∈ idxs) (hj : j ∈ idxs) : (i, j) ∈ pairs idxs :=
  List.mem_flatMap.mpr ⟨i, hi, List.mem_map.mpr ⟨j, hj, rfl⟩⟩

theorem length_pairs (idxs : List String) : (pairs idxs).length = idxs.length * idxs.length := by
  have : ∀ (l : List String), (l.flatMap (fun i => idxs.map (fun j => (i, j)))).length = l.length * idxs.length := by
    intro l
    induction l with
    | nil => simp
    | cons a l ih =>
      simp only [List.flatMap_cons, List.length_append, List.length_map, ih, List.length_cons]
      rw [Nat.succ_mul]; omega
  exact this idxs

/-- **dedupLoop_terminates** (any sufficient fuel) -/
theorem dedupLoop_terminates_fuel {idxs : List String} (hnd : idxs.Nodup) (hs : ∀ i ∈ idxs, IdxShape i)
    {N : NameMap} (hk : ∀ i ∈ idxs, HasKey N i) {fuel : Nat} (hfuel : idxs.length * idxs.length < fuel) :
    ∃ R, dedupLoop idxs fuel N = .ok R :=
  dedupLoop_terminates_aux hnd hs fuel N (pairs idxs) hk
    (fun _ hi _ hj _ hn => absurd (mem_pairs hi hj) hn) (by rw [length_pairs]; exact hfuel)

/-- more fuel does not change the result -/
theorem dedupLoop_mono {idxs : List String} : ∀ (fuel fuel' : Nat) (N R : NameMap), fuel ≤ fuel' →
    dedupLoop idxs fuel N = .ok R → dedupLoop idxs fuel' N = .ok R := by
  intro fuel
  induction fuel with
  | zero => intro _ _ _ _ h; cases h
  | succ fuel ih =>
    intro fuel' N R hle h
    obtain ⟨f, rfl⟩ : ∃ f, fuel' = f + 1 := ⟨fuel' - 1, by omega⟩
    rw [dedupLoop_succ] at h ⊢
    by_cases hf : (dedupRound N idxs).2 = true
    · rw [if_pos hf] at h ⊢; exact h
    · rw [if_neg hf] at h ⊢
      exact ih f _ _ (by omega) h

end J2M.DedupTerm
