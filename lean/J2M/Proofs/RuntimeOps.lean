/-
  Helper development for C15O: the op-level machine of the reference context (`J2M.Runtime.stepOp`, `runOps`)
  is a product of independent per-thread machines.

  * `view t s`      — what thread `t` can observe of an `OpState`: its context slot and its stack of saved `_old`s
  * `stepLoc`       — one step of the per-thread machine on a `view`
  * `view_stepOp`   — `stepOp` acts as `stepLoc` on the view of the op's own thread and not at all on other views
  * `run`           — `runOps` from an arbitrary start state, with every read tagged by the reading thread
  * `flattenWith`, `flattenExcAt`, `flatten` — compilation of structured bodies into ops
  * `stepOpShared`  — the broken variant with ONE process-wide context value
-/
import J2M.Proofs.Runtime

namespace J2M.Runtime

/-- the thread that executes an op -/
def Op.thread : Op → ThreadId
  | .enter t _ => t
  | .exit t => t
  | .read t => t

deriving instance DecidableEq for Op

end J2M.Runtime

namespace J2M.RuntimeOps
open J2M J2M.Runtime

/-! ## `OpState.stack` / `setStack` behave like a map -/

@[simp] theorem stack_empty (t : ThreadId) : ({} : OpState).stack t = [] := rfl

@[simp] theorem stack_setStack_same (s : OpState) (t : ThreadId) (st : List Ctx) :
    (s.setStack t st).stack t = st := by
  simp [OpState.stack, OpState.setStack]

theorem stack_setStack_other (s : OpState) {t t' : ThreadId} (st : List Ctx) (h : t' ≠ t) :
    (s.setStack t st).stack t' = s.stack t' := by
  have h1 : (t == t') = false := by simpa using fun e => h e.symm
  have h2 : (fun a : ThreadId × List Ctx => decide ((a.1 != t) = true ∧ (a.1 == t') = true))
      = (fun a : ThreadId × List Ctx => a.1 == t') := by
    funext a
    by_cases ha : a.1 = t' <;> simp [ha, h]
  simp only [OpState.stack, OpState.setStack, List.find?_cons, h1, List.find?_filter, h2]

@[simp] theorem setStack_ctx (s : OpState) (t : ThreadId) (st : List Ctx) :
    (s.setStack t st).ctx = s.ctx := rfl

@[simp] theorem stack_with_ctx (s : OpState) (c : CtxState) (t : ThreadId) :
    ({ s with ctx := c } : OpState).stack t = s.stack t := rfl

/-! ## the per-thread machine -/

/-- what one thread can see of the state: (its context slot, its stack of saved `_old` values) -/
abbrev Loc := Ctx × List Ctx

def view (t : ThreadId) (s : OpState) : Loc := (s.ctx.get t, s.stack t)

/-- one step of a single thread's machine (the thread id carried by the op is ignored) -/
def stepLoc (l : Loc) : Op → Loc × Option Ctx
  | .enter _ p => ((some p, l.1 :: l.2), none)
  | .exit _ =>
    match l.2 with
    | [] => (l, none)
    | old :: rest => ((old, rest), none)
  | .read _ => (l, some l.1)

/-- **product decomposition, state part**: an op acts as `stepLoc` on the view of its own thread and leaves
    every other thread's view untouched -/
theorem view_stepOp (s : OpState) (op : Op) (t : ThreadId) :
    view t (stepOp s op).1 = if op.thread = t then (stepLoc (view t s) op).1 else view t s := by
  cases op with
  | enter t0 p =>
    by_cases h : t0 = t
    · subst h
      simp [view, stepOp, stepLoc, Op.thread]
    · have h' : t ≠ t0 := fun e => h e.symm
      simp [view, stepOp, Op.thread, h, CtxState.get_set_other _ _ h', stack_setStack_other _ _ h']
  | exit t0 =>
    by_cases h : t0 = t
    · subst h
      simp only [view, stepOp, stepLoc, Op.thread, if_true]
      cases hst : s.stack t0 with
      | nil => simp [hst]
      | cons old rest => simp
    · have h' : t ≠ t0 := fun e => h e.symm
      simp only [view, stepOp, Op.thread, h, if_false]
      cases hst : s.stack t0 with
      | nil => simp
      | cons old rest => simp [CtxState.get_set_other _ _ h', stack_setStack_other _ _ h']
  | read t0 =>
    by_cases h : t0 = t
    · subst h; simp [view, stepOp, stepLoc, Op.thread]
    · simp [view, stepOp, Op.thread, h]

/-- **product decomposition, output part**: what an op returns is what `stepLoc` returns on its own thread's view -/
theorem stepOp_snd (s : OpState) (op : Op) :
    (stepOp s op).2 = (stepLoc (view op.thread s) op).2 := by
  cases op with
  | enter t0 p => rfl
  | exit t0 =>
    simp only [view, stepOp, stepLoc, Op.thread]
    cases hst : s.stack t0 <;> rfl
  | read t0 => rfl

theorem view_stepOp_same (s : OpState) (op : Op) :
    view op.thread (stepOp s op).1 = (stepLoc (view op.thread s) op).1 := by
  rw [view_stepOp]; simp

theorem view_stepOp_other (s : OpState) (op : Op) {t : ThreadId} (h : op.thread ≠ t) :
    view t (stepOp s op).1 = view t s := by
  rw [view_stepOp]; simp [h]

/-! ## running op lists from any state, reads tagged by thread -/

/-- the accumulator step of `runOps` -/
def stepAcc (acc : OpState × List Ctx) (op : Op) : OpState × List Ctx :=
  let (s', r) := stepOp acc.1 op
  (s', match r with | some c => acc.2 ++ [c] | none => acc.2)

/-- `runOps` from an arbitrary start state -/
def runFrom (σ : OpState) (ops : List Op) : OpState × List Ctx := ops.foldl stepAcc (σ, [])

theorem runOps_eq_runFrom (ops : List Op) : runOps ops = runFrom {} ops := rfl

/-- the same run, every read tagged with the thread that performed it -/
def run (σ : OpState) : List Op → OpState × List (ThreadId × Ctx)
  | [] => (σ, [])
  | op :: rest =>
    let r := run (stepOp σ op).1 rest
    (r.1, ((stepOp σ op).2.map (fun c => (op.thread, c))).toList ++ r.2)

theorem foldl_stepAcc (ops : List Op) (σ : OpState) (acc : List Ctx) :
    ops.foldl stepAcc (σ, acc) = ((run σ ops).1, acc ++ (run σ ops).2.map (·.2)) := by
  induction ops generalizing σ acc with
  | nil => simp [run]
  | cons op rest ih =>
    simp only [List.foldl_cons, run]
    have : stepAcc (σ, acc) op
        = ((stepOp σ op).1, acc ++ ((stepOp σ op).2.map (fun c => (op.thread, c))).toList.map (·.2)) := by
      simp only [stepAcc]
      cases (stepOp σ op).2 <;> simp
    rw [this, ih]
    simp

/-- forgetting the tags of `run` gives `runFrom` -/
theorem runFrom_eq (σ : OpState) (ops : List Op) :
    runFrom σ ops = ((run σ ops).1, (run σ ops).2.map (·.2)) := by
  simp [runFrom, foldl_stepAcc]

/-- forgetting the tags of `run {}` gives the model's `runOps` -/
theorem runOps_eq (ops : List Op) :
    runOps ops = ((run {} ops).1, (run {} ops).2.map (·.2)) := by
  rw [runOps_eq_runFrom, runFrom_eq]

theorem run_append (σ : OpState) (a b : List Op) :
    run σ (a ++ b) = ((run (run σ a).1 b).1, (run σ a).2 ++ (run (run σ a).1 b).2) := by
  induction a generalizing σ with
  | nil => simp [run]
  | cons op rest ih => simp [run, ih]

/-- every tag in the output is the thread of one of the ops -/
theorem run_tags (σ : OpState) (ops : List Op) :
    ∀ x ∈ (run σ ops).2, ∃ op ∈ ops, op.thread = x.1 := by
  induction ops generalizing σ with
  | nil => simp [run]
  | cons op rest ih =>
    intro x hx
    simp only [run, List.mem_append] at hx
    rcases hx with hx | hx
    · refine ⟨op, by simp, ?_⟩
      cases h : (stepOp σ op).2 with
      | none => simp [h] at hx
      | some c => simp [h] at hx; simp [hx]
    · obtain ⟨o, ho, e⟩ := ih _ x hx
      exact ⟨o, by simp [ho], e⟩

/-- the values read by thread `t`, in order -/
def readsOfFrom (t : ThreadId) (σ : OpState) (ops : List Op) : List Ctx :=
  ((run σ ops).2.filter (·.1 == t)).map (·.2)

/-- the per-thread machine run on a list of ops -/
def runLoc (l : Loc) : List Op → Loc × List Ctx
  | [] => (l, [])
  | op :: rest =>
    let r := runLoc (stepLoc l op).1 rest
    (r.1, (stepLoc l op).2.toList ++ r.2)

/-- **projection lemma**: thread `t`'s view after any run, and the values it read, are those of the
    per-thread machine run on `t`'s own ops from `t`'s own initial view -/
theorem run_project (t : ThreadId) (ops : List Op) (σ : OpState) :
    view t (run σ ops).1 = (runLoc (view t σ) (ops.filter (·.thread == t))).1 ∧
    readsOfFrom t σ ops = (runLoc (view t σ) (ops.filter (·.thread == t))).2 := by
  induction ops generalizing σ with
  | nil => simp [run, runLoc, readsOfFrom]
  | cons op rest ih =>
    have ih' := ih (stepOp σ op).1
    unfold readsOfFrom at ih' ⊢
    by_cases h : op.thread = t
    · have hb : (op.thread == t) = true := by simp [h]
      simp only [List.filter_cons, hb, if_true, run, runLoc]
      subst h
      rw [view_stepOp_same] at ih'
      refine ⟨ih'.1, ?_⟩
      rw [List.filter_append, List.map_append, ih'.2, stepOp_snd]
      cases (stepLoc (view op.thread σ) op).2 <;> simp
    · have hb : (op.thread == t) = false := by simp [h]
      simp only [List.filter_cons, hb, run]
      rw [view_stepOp_other _ _ h] at ih'
      refine ⟨ih'.1, ?_⟩
      rw [List.filter_append, List.map_append, ih'.2]
      cases (stepOp σ op).2 <;> simp [h]

/-- when every op belongs to `t`, all reads are `t`'s -/
theorem readsOfFrom_own (t : ThreadId) (σ : OpState) (ops : List Op) (h : ∀ op ∈ ops, op.thread = t) :
    readsOfFrom t σ ops = (run σ ops).2.map (·.2) := by
  unfold readsOfFrom
  rw [List.filter_eq_self.mpr]
  intro x hx
  obtain ⟨op, ho, e⟩ := run_tags σ ops x hx
  simp [← e, h op ho]

theorem filter_thread_own (t : ThreadId) (ops : List Op) :
    ∀ op ∈ ops.filter (·.thread == t), op.thread = t := by
  intro op h
  simpa using (List.mem_filter.mp h).2

/-- thread-locality over two start states that agree on `t`'s view -/
theorem run_thread_local (t : ThreadId) (ops : List Op) (σ σ' : OpState) (h : view t σ = view t σ') :
    view t (run σ ops).1 = view t (run σ' (ops.filter (·.thread == t))).1 ∧
    readsOfFrom t σ ops = (run σ' (ops.filter (·.thread == t))).2.map (·.2) := by
  have a := run_project t ops σ
  have b := run_project t (ops.filter (·.thread == t)) σ'
  rw [List.filter_filter] at b
  simp only [Bool.and_self] at b
  rw [readsOfFrom_own t σ' _ (filter_thread_own t ops)] at b
  rw [a.1, a.2, b.1, b.2, h]
  exact ⟨rfl, rfl⟩

theorem runFrom_append (σ : OpState) (a b : List Op) :
    runFrom σ (a ++ b)
      = ((runFrom (runFrom σ a).1 b).1, (runFrom σ a).2 ++ (runFrom (runFrom σ a).1 b).2) := by
  simp [runFrom_eq, run_append]

/-! ## compiling structured bodies to ops -/

/-- compilation where every `with` block emits its own `__enter__`/`__exit__` pair — also when its body
    raises — and a `seq` stops after a raising first part.  Returns (ops, completed normally?). -/
def flattenWith (t : ThreadId) : Body → List Op × Bool
  | .read => ([.read t], true)
  | .raise => ([], false)
  | .seq a b =>
    let fa := flattenWith t a
    if fa.2 then
      let fb := flattenWith t b
      (fa.1 ++ fb.1, fb.2)
    else (fa.1, false)
  | .inject p body =>
    let fb := flattenWith t body
    (.enter t p :: fb.1 ++ [.exit t], fb.2)

/-- compilation as the interpreter performs it: `depth` = number of enclosing `inject` blocks; at a `raise` the
    `exit` of every enclosing block is emitted (the `__exit__` calls made while the exception propagates)
    and nothing after it -/
def flattenExcAt (t : ThreadId) (depth : Nat) : Body → List Op × Bool
  | .read => ([.read t], true)
  | .raise => (List.replicate depth (.exit t), false)
  | .seq a b =>
    let fa := flattenExcAt t depth a
    if fa.2 then
      let fb := flattenExcAt t depth b
      (fa.1 ++ fb.1, fb.2)
    else (fa.1, false)
  | .inject p body =>
    let fb := flattenExcAt t (depth + 1) body
    if fb.2 then (.enter t p :: fb.1 ++ [.exit t], true) else (.enter t p :: fb.1, false)

/-- compilation of raise-free bodies -/
def flatten (t : ThreadId) : Body → List Op
  | .read => [.read t]
  | .raise => []
  | .seq a b => flatten t a ++ flatten t b
  | .inject p body => .enter t p :: flatten t body ++ [.exit t]

def RaiseFree : Body → Prop
  | .read => True
  | .raise => False
  | .seq a b => RaiseFree a ∧ RaiseFree b
  | .inject _ body => RaiseFree body

instance : (b : Body) → Decidable (RaiseFree b)
  | .read => isTrue trivial
  | .raise => isFalse id
  | .seq a b =>
    have := instDecidableRaiseFree a
    have := instDecidableRaiseFree b
    inferInstanceAs (Decidable (_ ∧ _))
  | .inject _ body => instDecidableRaiseFree body

theorem flattenWith_raiseFree (t : ThreadId) (b : Body) (h : RaiseFree b) :
    flattenWith t b = (flatten t b, true) := by
  induction b with
  | read => rfl
  | raise => exact h.elim
  | seq a b iha ihb => simp [flattenWith, flatten, iha h.1, ihb h.2]
  | inject p body ih => simp [flattenWith, flatten, ih h]

/-- the two compilations agree: unwinding at the `raise` = every block emitting its own `exit` -/
theorem flattenExcAt_eq (t : ThreadId) (d : Nat) (b : Body) :
    flattenExcAt t d b
      = ((flattenWith t b).1 ++ (if (flattenWith t b).2 then [] else List.replicate d (.exit t)),
         (flattenWith t b).2) := by
  induction b generalizing d with
  | read => simp [flattenExcAt, flattenWith]
  | raise => simp [flattenExcAt, flattenWith]
  | seq a b iha ihb =>
    simp only [flattenExcAt, flattenWith, iha d, ihb d]
    rcases Bool.eq_false_or_eq_true (flattenWith t a).2 with ha | ha <;>
      rcases Bool.eq_false_or_eq_true (flattenWith t b).2 with hb | hb <;> simp [ha, hb]
  | inject p body ih =>
    simp only [flattenExcAt, flattenWith, ih (d + 1)]
    rcases Bool.eq_false_or_eq_true (flattenWith t body).2 with hb | hb <;>
      simp [hb, List.replicate_succ]

/-- the op machine refines the structured semantics (core statement, over tagged runs) -/
theorem run_flattenWith (t : ThreadId) (b : Body) (σ : OpState) :
    (run σ (flattenWith t b).1).1.ctx = (exec t b σ.ctx).1 ∧
    (∀ t', (run σ (flattenWith t b).1).1.stack t' = σ.stack t') ∧
    (run σ (flattenWith t b).1).2 = (exec t b σ.ctx).2.2.map (fun c => (t, c)) ∧
    (flattenWith t b).2 = (exec t b σ.ctx).2.1 := by
  induction b generalizing σ with
  | read => simp [flattenWith, run, exec, stepOp, Op.thread]
  | raise => simp [flattenWith, run, exec]
  | seq a b iha ihb =>
    obtain ⟨a1, a2, a3, a4⟩ := iha σ
    simp only [flattenWith, exec]
    cases hok : (flattenWith t a).2 with
    | false =>
      rw [hok] at a4
      simp [← a4, a1, a2, a3]
    | true =>
      rw [hok] at a4
      obtain ⟨b1, b2, b3, b4⟩ := ihb (run σ (flattenWith t a).1).1
      rw [a1] at b1 b3 b4
      simp only [← a4, if_true, run_append]
      refine ⟨b1, fun t' => by rw [b2, a2], ?_, b4⟩
      rw [a3, b3]; simp
  | inject p body ih =>
    have hc1 : (stepOp σ (.enter t p)).1.ctx = σ.ctx.set t (some p) := rfl
    have hs1 : (stepOp σ (.enter t p)).1.stack t = σ.ctx.get t :: σ.stack t := by simp [stepOp]
    have hs1' : ∀ t', t' ≠ t → (stepOp σ (.enter t p)).1.stack t' = σ.stack t' := by
      intro t' h; simp [stepOp, stack_setStack_other _ _ h]
    obtain ⟨i1, i2, i3, i4⟩ := ih (stepOp σ (.enter t p)).1
    rw [hc1] at i1 i3 i4
    simp only [flattenWith, exec, run, List.cons_append]
    rw [run_append]
    generalize (run (stepOp σ (.enter t p)).1 (flattenWith t body).1) = r2 at i1 i2 i3 ⊢
    obtain ⟨σ2, rd2⟩ := r2
    simp only at i1 i2 i3 ⊢
    have hst2 : σ2.stack t = σ.ctx.get t :: σ.stack t := by rw [i2, hs1]
    have hstep : stepOp σ2 (.exit t)
        = ({ (σ2.setStack t (σ.stack t)) with ctx := σ2.ctx.set t (σ.ctx.get t) }, none) := by
      simp [stepOp, hst2]
    simp only [run, hstep]
    refine ⟨by simp [i1], ?_, by simp [i3, stepOp], i4⟩
    intro t'
    by_cases h : t' = t
    · subst h; simp
    · simp [stack_setStack_other _ _ h, i2, hs1' t' h]

/-! ## nesting depth, balance -/

/-- the nesting depth of thread `t` after `ops`, starting at depth `d`: `enter` opens a block, `exit` closes the
    innermost open one (an `exit` with nothing open closes nothing); other threads' ops do not count -/
def depth (t : ThreadId) : List Op → Nat → Nat
  | [], d => d
  | .enter t' _ :: rest, d => depth t rest (if t' = t then d + 1 else d)
  | .exit t' :: rest, d => depth t rest (if t' = t then d - 1 else d)
  | .read _ :: rest, d => depth t rest d

theorem depth_filter (t : ThreadId) (ops : List Op) (d : Nat) :
    depth t (ops.filter (·.thread == t)) d = depth t ops d := by
  induction ops generalizing d with
  | nil => rfl
  | cons op rest ih =>
    by_cases h : op.thread = t
    · have hb : (op.thread == t) = true := by simp [h]
      rw [List.filter_cons, hb, if_pos rfl]
      cases op <;> simp [depth, ih]
    · have hb : (op.thread == t) = false := by simp [h]
      rw [List.filter_cons, hb]
      cases op with
      | enter t' p => have h' : ¬ t' = t := h; simp [depth, h', ih]
      | exit t' => have h' : ¬ t' = t := h; simp [depth, h', ih]
      | read t' => simp [depth, ih]

theorem depth_append (t : ThreadId) (a b : List Op) (d : Nat) :
    depth t (a ++ b) d = depth t b (depth t a d) := by
  induction a generalizing d with
  | nil => rfl
  | cons op rest ih => cases op <;> simp [depth, ih]

/-- a compiled body, raising or not, leaves the nesting depth where it was -/
theorem depth_flattenWith (t t' : ThreadId) (b : Body) (d : Nat) :
    depth t' (flattenWith t b).1 d = d := by
  induction b generalizing d with
  | read => simp [flattenWith, depth]
  | raise => simp [flattenWith, depth]
  | seq a b iha ihb =>
    simp only [flattenWith]
    split
    · simp [depth_append, iha, ihb]
    · exact iha d
  | inject p body ih =>
    simp only [flattenWith, depth, List.cons_append, depth_append, ih]
    split <;> simp

/-- the value at the bottom of a thread's stack: what its slot will be once every open block is closed -/
def bottom (l : Loc) : Option Ctx := (l.1 :: l.2).getLast?

theorem bottom_stepLoc (l : Loc) (op : Op) : bottom (stepLoc l op).1 = bottom l := by
  obtain ⟨c, st⟩ := l
  cases op with
  | enter t p => simp [stepLoc, bottom, List.getLast?_cons_cons]
  | exit t =>
    cases st with
    | nil => simp [stepLoc]
    | cons old rest => simp [stepLoc, bottom, List.getLast?_cons_cons]
  | read t => simp [stepLoc]

theorem stack_len_stepLoc (t : ThreadId) (l : Loc) (op : Op) (h : op.thread = t) (rest : List Op) :
    depth t (op :: rest) l.2.length = depth t rest (stepLoc l op).1.2.length := by
  obtain ⟨c, st⟩ := l
  cases op with
  | enter t' p => simp [Op.thread] at h; simp [depth, stepLoc, h]
  | exit t' =>
    simp [Op.thread] at h
    cases st <;> simp [depth, stepLoc, h]
  | read t' => simp [depth, stepLoc]

/-- invariants of any run, for any thread: the bottom value never changes and the stack height is the
    nesting depth -/
theorem run_invariants (t : ThreadId) (ops : List Op) (σ : OpState) :
    bottom (view t (run σ ops).1) = bottom (view t σ) ∧
    ((run σ ops).1.stack t).length = depth t ops (σ.stack t).length := by
  induction ops generalizing σ with
  | nil => simp [run, depth]
  | cons op rest ih =>
    obtain ⟨h1, h2⟩ := ih (stepOp σ op).1
    simp only [run]
    by_cases h : op.thread = t
    · have hv := view_stepOp_same σ op
      rw [h] at hv
      rw [h1, h2, hv, bottom_stepLoc]
      refine ⟨rfl, ?_⟩
      have := stack_len_stepLoc t (view t σ) op h rest
      have e : (stepOp σ op).1.stack t = (stepLoc (view t σ) op).1.2 := congrArg Prod.snd hv
      rw [e, ← this]; rfl
    · have hv := view_stepOp_other σ op h
      rw [h1, h2, hv]
      refine ⟨rfl, ?_⟩
      have e : (stepOp σ op).1.stack t = σ.stack t := congrArg Prod.snd hv
      rw [e]
      cases op with
      | enter t' p => simp [Op.thread] at h; simp [depth, h]
      | exit t' => simp [Op.thread] at h; simp [depth, h]
      | read t' => simp [depth]

/-- a thread that performs no `enter` keeps an empty stack and its slot -/
theorem run_no_enter (t : ThreadId) (ops : List Op) (σ : OpState)
    (hno : ∀ p, Op.enter t p ∉ ops) (hst : σ.stack t = []) :
    view t (run σ ops).1 = view t σ ∧ ∀ c ∈ readsOfFrom t σ ops, c = σ.ctx.get t := by
  induction ops generalizing σ with
  | nil => simp [run, readsOfFrom]
  | cons op rest ih =>
    have hno' : ∀ p, Op.enter t p ∉ rest := fun p hp => hno p (by simp [hp])
    have hv : view t (stepOp σ op).1 = view t σ := by
      by_cases h : op.thread = t
      · rw [view_stepOp, if_pos h]
        cases op with
        | enter t' p => simp [Op.thread] at h; subst h; exact absurd (by simp) (hno p)
        | exit t' => simp [stepLoc, view, hst]
        | read t' => simp [stepLoc]
      · exact view_stepOp_other σ op h
    have hst' : (stepOp σ op).1.stack t = [] := by
      have := congrArg Prod.snd hv; simpa [view, hst] using this
    have hc' : (stepOp σ op).1.ctx.get t = σ.ctx.get t := congrArg Prod.fst hv
    obtain ⟨h1, h2⟩ := ih (stepOp σ op).1 hno' hst'
    refine ⟨by simp only [run]; rw [h1, hv], ?_⟩
    intro c hc
    unfold readsOfFrom at hc h2
    simp only [run, List.filter_append, List.map_append, List.mem_append] at hc
    rcases hc with hc | hc
    · rw [stepOp_snd] at hc
      cases op with
      | enter t' p => simp [stepLoc] at hc
      | exit t' => cases hs : (view t' σ).2 <;> simp [stepLoc, hs, Op.thread] at hc
      | read t' =>
        simp [stepLoc, Op.thread] at hc
        obtain ⟨e, rfl⟩ := hc
        subst e; rfl
    · rw [← hc']; exact h2 c hc

/-! ## the broken variant: ONE process-wide context value -/

/-- the state when `Context.data` is an ordinary object shared by all threads: a single context value;
    the `_old` values still live in the per-manager objects, i.e. per thread -/
structure SharedState where
  ctx : Ctx := none
  olds : List (ThreadId × List Ctx) := []
  deriving Repr, DecidableEq

def SharedState.stack (s : SharedState) (t : ThreadId) : List Ctx :=
  ((s.olds.find? (·.1 == t)).map (·.2)).getD []
def SharedState.setStack (s : SharedState) (t : ThreadId) (st : List Ctx) : SharedState :=
  { s with olds := (t, st) :: s.olds.filter (·.1 != t) }

def stepOpShared (s : SharedState) : Op → SharedState × Option Ctx
  | .enter t p => ({ (s.setStack t (s.ctx :: s.stack t)) with ctx := some p }, none)
  | .exit t =>
    match s.stack t with
    | [] => (s, none)
    | old :: rest => ({ (s.setStack t rest) with ctx := old }, none)
  | .read _ => (s, some s.ctx)

/-- run of the shared variant from the initial state, reads tagged by thread -/
def runShared (σ : SharedState) : List Op → SharedState × List (ThreadId × Ctx)
  | [] => (σ, [])
  | op :: rest =>
    let r := runShared (stepOpShared σ op).1 rest
    (r.1, ((stepOpShared σ op).2.map (fun c => (op.thread, c))).toList ++ r.2)

def readsOfShared (t : ThreadId) (ops : List Op) : List Ctx :=
  ((runShared {} ops).2.filter (·.1 == t)).map (·.2)

end J2M.RuntimeOps
