/-
  C01 helpers, part 8: `MetadataGenerator.generate` — assembly of detect / merge / optimize.
-/
import J2M.Proofs.InhOptimize
import J2M.Proofs.GenEnv
namespace J2M

/-- the comparison environment `generate` uses: no model pointers yet -/

theorem generate_eq (cfg : GenCfg) (o : GenOracles) (samples : List Json) :
    generate cfg o samples = (do
      let sets ← samples.mapM (convert cfg o)
      let fields ← mergeFieldSets cfg.lit (genEnv o) sets
      optimize cfg (genEnv o) (Ty.fuelFor (.obj fields)) (.obj fields)) := rfl

/-- every sample lies (raw relation) in the generated type, which has no overflowed literal -/
theorem generate_spec {cfg : GenCfg} {o : GenOracles} {K : String → Prop} {samples : List Json} {t : Ty}
    (wf : ∀ s ∈ samples, Json.WF s) (hK : ∀ k ∈ cfg.reg.types, K k)
    (hs : HashSoundOn true o.accepts (fun _ => none) (Ty.Good K))
    (hrep : ReplacesSound o.accepts cfg.reg) (hrank : ReplacesRanked cfg.reg)
    (h : generate cfg o samples = .ok t) :
    Ty.Good K t ∧ Ty.NoOv t ∧ ∀ s ∈ samples, InhR o.accepts (fun _ => none) t s := by
  rw [generate_eq, Except.bind_eq_ok] at h
  obtain ⟨sets, hsets, h⟩ := h
  rw [Except.bind_eq_ok] at h
  obtain ⟨fields, hfields, h⟩ := h
  obtain ⟨hm1, hm2⟩ := mapM_ok_memX samples sets hsets
  have he : EqSoundOn true o.accepts (fun _ => none) (genEnv o) (Ty.Good K) := pyEq_sound (genEnv o) rfl
  have hmem : ∀ fs ∈ sets, Mem K (.obj fs) := by
    intro fs hfs
    obtain ⟨s, hs', hc⟩ := hm2 fs hfs
    obtain ⟨kvs, _, _, hg, hms⟩ := convert_spec cfg o (fun _ => none) K hK hs (wf s hs') hc
    exact hg
  obtain ⟨hin, hcov⟩ := stage_merge (ov := true) (acc := o.accepts) (g := fun _ => none) hs he cfg.lit hmem hfields
  obtain ⟨hout, _, hopt⟩ := (optimize_spec_all hs he hrep hrank _).1 _ t hin h
  refine ⟨hout.1, hout.2, ?_⟩
  intro s hs'
  obtain ⟨fs, hfs, hc⟩ := hm1 s hs'
  obtain ⟨kvs, rfl, hi, _, _⟩ := convert_spec cfg o (fun _ => none) K hK hs (wf s hs') hc
  exact hopt _ (hcov fs hfs _ (InhX.toLT (inh_obj_iff.2 hi)))

end J2M
