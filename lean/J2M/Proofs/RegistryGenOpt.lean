/-
  `optimize_type` on registry-stage types (`GoodP K I`: model pointers allowed, no inline field dict).

  The per-type core is the copy of `optimize_spec_all` (Proofs/InhOptimize.lean) for the class `GoodP K I`.
  No inline dict is left below the top-level field dict, so `_optimize_union` never fills `to_merge`,
  `merge_field_sets` (hence `==`) is never consulted: no `EqSoundOn` hypothesis, any comparison environment.
  Model pointers are atoms of `optimize_type`; in `_optimize_union` they land in `other`.

  Since `_optimize_union` splices the unions hidden under `Optional` members (and directly nested unions), the
  test "this type is optimised to a `DOptional`" is `Ty.optLikeS` (Proofs/MergeRho.lean), not `Ty.optLike`:
  `Union[Optional[Union[]]]` is `Ty.optLike` and is optimised to `Null`.  The lax reading of required fields in
  the statements below is therefore `InhFieldsLXS` (a field may be absent when its type is `Ty.optLikeS`).

  Results:
  * `optimize_spec_allP`  — per-type core (result registry-stage, no overflowed literal, `Ty.optLikeS` ↦
                            `DOptional`, every inhabitant kept)
  * `optSoundP_false`     — `OptSoundP` (Proofs/RegistryDefs.lean, lax reading with `Ty.optLike`) is FALSE for
                            every choice of parameters: `{}` lies laxly in `{a: Union[Optional[Union[]]]}`, which is
                            optimised to `{a: Null}` (`optimize_degenerate_witness`)
  * `optSoundPS`          — `OptSoundPS`: `OptSoundP` with the refined lax reading, TRUE with no extra hypothesis
                            (the clause "optional-like result fields are `DOptional`s" holds for every input now
                            that nested unions are spliced: `optimize_optShape`)
  * `optSoundP_partial`   — `OptSoundPFlat` (hypothesis `FlatTopF F`, conclusion `FlatTopF F'`), refined lax reading
  * `optSoundP_weak`      — `OptSoundPWeak`: `OptSoundPS` minus the clause "optional-like result fields are
                            `DOptional`s"
  * `optimize_optShape` / `optimizeUnion_optShape` — the shape fact alone, for arbitrary types
  (`Proofs/RegistryGenOptFlat.lean`: every result of `optimize_type` is hereditarily flat.)
-/
import J2M.Proofs.RegistryDefs
import J2M.Proofs.RegistryGenHash
import J2M.Proofs.InhOptimize
import J2M.Proofs.MergeRho
namespace J2M.Reg
open J2M

/-! ## closure of `GoodP` under the union constructor -/

theorem goodP_flatten {K I} {ts : List Ty} (h : ∀ t ∈ ts, GoodP K I t) : ∀ t ∈ flattenUnion ts, GoodP K I t :=
  flattenUnion_forall (P := GoodP K I) (fun _ hu => goodP_union.1 hu) h

theorem goodP_mkUnionMembers {K I c} {ts : List Ty} (h : ∀ t ∈ ts, GoodP K I t) :
    ∀ u ∈ mkUnionMembers c ts, GoodP K I u :=
  mkUnionMembers_forall (goodP_flatten h) (by simp) (by simp)

theorem hashSound_of_goodP {ov acc g K I} (hs : HashSoundOn ov acc g (GoodP K I)) {ts : List Ty}
    (h : ∀ t ∈ ts, GoodP K I t) : HashSoundX ov acc g ts :=
  HashSoundX.of_on hs (by simp) (goodP_flatten h)

section
variable {ov : Bool} {acc : Accepts} {g : ModelLookup} {K I : String → Prop}

/-- what `optimize` returns on a registry-stage type: a registry-stage type without overflowed literals -/
abbrev OptOutP (K I : String → Prop) (t : Ty) : Prop := GoodP K I t ∧ Ty.NoOv t

/-! ## the stages of `_optimize_union` -/

/-- `DList(DUnion(*element types))` -/
theorem stage_listP (hs : HashSoundOn ov acc g (GoodP K I)) (c : LitCfg) {lists : List Ty}
    (hl : ∀ x ∈ lists, GoodP K I x) :
    GoodP K I (.list (mkUnion c lists)) ∧
    ∀ x ∈ lists, ∀ v, InhX ov acc g (.list x) v → InhX ov acc g (.list (mkUnion c lists)) v := by
  refine ⟨?_, ?_⟩
  · simp only [mkUnion, goodP_list, goodP_union]; exact goodP_mkUnionMembers hl
  · intro x hx v hv
    obtain ⟨xs, rfl, hxs⟩ := inh_list_iff.1 hv
    exact InhX.list (fun y hy => mkUnion_sound' (hashSound_of_goodP hs hl) hx (hxs y hy))

theorem stage_dictP (hs : HashSoundOn ov acc g (GoodP K I)) (c : LitCfg) {dicts : List Ty}
    (hl : ∀ x ∈ dicts, GoodP K I x) :
    GoodP K I (.dict (mkUnion c dicts)) ∧
    ∀ x ∈ dicts, ∀ v, InhX ov acc g (.dict x) v → InhX ov acc g (.dict (mkUnion c dicts)) v := by
  refine ⟨?_, ?_⟩
  · simp only [mkUnion, goodP_dict, goodP_union]; exact goodP_mkUnionMembers hl
  · intro x hx v hv
    obtain ⟨xs, rfl, hxs⟩ := inh_dict_iff.1 hv
    exact InhX.dict (fun y hy => mkUnion_sound' (hashSound_of_goodP hs hl) hx (hxs y hy))

/-- pseudo-types: `str` if present, else the resolved kind, else `str` -/
theorem stage_strP {reg : StrRegistry} (hrep : ReplacesSound acc reg) (hrank : ReplacesRanked reg)
    {strTypes other other' : List Ty}
    (hst : ∀ st ∈ strTypes, st = .str ∨ ∃ k, st = .ser k ∧ GoodP K I st)
    (h : (if strTypes.any Ty.isStr = true then pure (other ++ [Ty.str])
          else if strTypes.isEmpty = true then pure other
          else
            let kinds := strTypes.filterMap (fun t => match t with | .ser k => some k | _ => none)
            do
              let r ← resolve reg kinds (kinds.length + 2)
              match r with
              | [k] => pure (other ++ [Ty.ser k])
              | [] => Except.error PyErr.stopIteration
              | _ => pure (other ++ [Ty.str]) : Except PyErr (List Ty)) = .ok other') :
    (∀ o ∈ other, o ∈ other') ∧ (∀ o ∈ other', o ∈ other ∨ GoodP K I o) ∧
    ∀ st ∈ strTypes, ∀ v, InhX ov acc g st v → ∃ o ∈ other', InhX ov acc g o v := by
  have hstr : ∀ st ∈ strTypes, ∀ v, InhX ov acc g st v → InhX ov acc g .str v := by
    intro st hst' v hv
    rcases hst st hst' with rfl | ⟨k, rfl, _⟩
    · exact hv
    · cases hv; exact InhX.str
  split at h
  · rw [Except.pure_eq_ok] at h; subst h
    refine ⟨fun o ho => by simp [ho], ?_, ?_⟩
    · intro o ho
      rcases List.mem_append.1 ho with h | h
      · exact Or.inl h
      · simp at h; subst h; exact Or.inr (by simp)
    · intro st hst' v hv
      exact ⟨.str, by simp, hstr st hst' v hv⟩
  · rename_i hnostr
    split at h
    · rename_i hempty
      rw [Except.pure_eq_ok] at h; subst h
      have : strTypes = [] := by simpa using hempty
      subst this
      exact ⟨fun _ h => h, fun _ h => Or.inl h, by simp⟩
    · simp only at h
      rw [Except.bind_eq_ok] at h
      obtain ⟨r, hr, h⟩ := h
      have hkinds : ∀ st ∈ strTypes, ∃ k, st = .ser k ∧
          k ∈ strTypes.filterMap (fun t => match t with | .ser k => some k | _ => none) := by
        intro st hst'
        rcases hst st hst' with rfl | ⟨k, rfl, _⟩
        · exfalso; apply hnostr; simp only [List.any_eq_true]; exact ⟨.str, hst', rfl⟩
        · exact ⟨k, rfl, List.mem_filterMap.2 ⟨.ser k, hst', rfl⟩⟩
      have hsub : ∀ k ∈ r, GoodP K I (.ser k) := by
        intro k hk
        have := resolve_subsetX _ _ _ hr k hk
        obtain ⟨st, hst', hm⟩ := List.mem_filterMap.1 this
        rcases hst st hst' with rfl | ⟨k', rfl, hmem⟩
        · simp at hm
        · simp at hm; subst hm; exact hmem
      have hcovr : ∀ st ∈ strTypes, ∀ v, InhX ov acc g st v → ∃ k' ∈ r, InhX ov acc g (.ser k') v := by
        intro st hst' v hv
        obtain ⟨k, rfl, hk⟩ := hkinds st hst'
        obtain ⟨k', hk', hstar⟩ := resolve_covers hrank _ _ _ hr k hk
        cases hv with
        | ser ha => exact ⟨k', hk', InhX.ser (hstar.accepts hrep ha)⟩
      match r, h, hsub, hcovr with
      | [k], h, hsub, hcovr =>
        simp only [Except.pure_eq_ok] at h; subst h
        refine ⟨fun o ho => by simp [ho], ?_, ?_⟩
        · intro o ho
          rcases List.mem_append.1 ho with h | h
          · exact Or.inl h
          · simp at h; subst h
            exact Or.inr (hsub k (by simp))
        · intro st hst' v hv
          obtain ⟨k', hk', hi⟩ := hcovr st hst' v hv
          simp at hk'; subst hk'
          exact ⟨.ser k', by simp, hi⟩
      | [], h, _, _ => simp at h
      | _ :: _ :: _, h, _, _ =>
        simp only [Except.pure_eq_ok] at h; subst h
        refine ⟨fun o ho => by simp [ho], ?_, ?_⟩
        · intro o ho
          rcases List.mem_append.1 ho with h | h
          · exact Or.inl h
          · simp at h; subst h; exact Or.inr (by simp)
        · intro st hst' v hv
          exact ⟨.str, by simp, hstr st hst' v hv⟩

/-- the end of `_optimize_union`: drop `Unknown`, fold `Null` into `DOptional`, rebuild the union -/
theorem stage_finalP (hs : HashSoundOn ov acc g (GoodP K I)) (c : LitCfg) {types : List Ty} {t' : Ty}
    (h : (match types with
          | [] => Except.error PyErr.indexError
          | [t] => pure t
          | types =>
            let types := if types.any Ty.isUnknown = true then removeFirst Ty.isUnknown types else types
            let optional := types.any Ty.isNull
            let types := types.filter (fun t => !t.isNull)
            let mt := match mkUnionMembers c types with
              | [] => Ty.unknown
              | [t] => t
              | us => Ty.union us
            pure (if optional = true then mt.opt else mt) : Except PyErr Ty) = .ok t')
    (hty : ∀ t ∈ types, OptOutP K I t) :
    OptOutP K I t' ∧ ∀ t ∈ types, ∀ v, InhX ov acc g t v → InhX ov acc g t' v := by
  match types, hty, h with
  | [], _, h => simp at h
  | [t], hty, h =>
    simp only [Except.pure_eq_ok] at h; subst h
    exact ⟨hty t (by simp), by simp⟩
  | t1 :: t2 :: rest, hty, h =>
    simp only [Except.pure_eq_ok] at h
    generalize hL : t1 :: t2 :: rest = L at h hty
    generalize hT1 : (if L.any Ty.isUnknown = true then removeFirst Ty.isUnknown L else L) = T1 at h
    have hT1sub : ∀ t ∈ T1, t ∈ L := by
      intro t ht; rw [← hT1] at ht
      split at ht
      · exact mem_of_mem_removeFirst ht
      · exact ht
    have hT1keep : ∀ t ∈ L, t.isUnknown = false → t ∈ T1 := by
      intro t ht hu; rw [← hT1]
      split
      · exact mem_removeFirst_of_not ht hu
      · exact ht
    have hT2 : ∀ t ∈ T1.filter (fun t => !t.isNull), OptOutP K I t := by
      intro t ht; exact hty t (hT1sub t (List.mem_filter.1 ht).1)
    have hmt : (match mkUnionMembers c (T1.filter (fun t => !t.isNull)) with
              | [] => Ty.unknown
              | [t] => t
              | us => Ty.union us) = collapse0 (mkUnionMembers c (T1.filter (fun t => !t.isNull))) := rfl
    rw [hmt] at h
    have hgood : ∀ u ∈ mkUnionMembers c (T1.filter (fun t => !t.isNull)), OptOutP K I u := by
      intro u hu
      exact ⟨goodP_mkUnionMembers (fun t ht => (hT2 t ht).1) u hu,
        mkUnionMembers_forall (P := Ty.NoOv)
          (flattenUnion_forall (P := Ty.NoOv) (fun _ h => Ty.noOv_union.1 h) (fun t ht => (hT2 t ht).2))
          (by simp) (by simp) u hu⟩
    have hmtout : OptOutP K I (collapse0 (mkUnionMembers c (T1.filter (fun t => !t.isNull)))) :=
      ⟨forall_collapse0 (P := GoodP K I) (by simp) (fun _ h => goodP_union.2 h) (fun u hu => (hgood u hu).1),
       forall_collapse0 (P := Ty.NoOv) (by simp) (fun _ h => Ty.noOv_union.2 h) (fun u hu => (hgood u hu).2)⟩
    have hcov : ∀ t ∈ L, ∀ v, InhX ov acc g t v → t.isNull = false →
        InhX ov acc g (collapse0 (mkUnionMembers c (T1.filter (fun t => !t.isNull)))) v := by
      intro t ht v hv hn
      have hu : t.isUnknown = false := by
        cases t <;> simp [Ty.isUnknown]
        exact not_inh_unknown hv
      have hmem : t ∈ T1.filter (fun t => !t.isNull) := List.mem_filter.2 ⟨hT1keep t ht hu, by simp [hn]⟩
      exact inh_collapse0 (mkUnion_sound' (hashSound_of_goodP hs (fun t ht => (hT2 t ht).1)) hmem hv)
    subst h
    refine ⟨?_, ?_⟩
    · split
      · exact ⟨by simpa using hmtout.1, by simpa using hmtout.2⟩
      · exact hmtout
    · intro t ht v hv
      by_cases hn : t.isNull = true
      · have hte : t = .null := by cases t <;> simp [Ty.isNull] at hn; rfl
        subst hte
        have hu : Ty.null.isUnknown = false := rfl
        have hopt : T1.any Ty.isNull = true := by
          simp only [List.any_eq_true]; exact ⟨.null, hT1keep _ ht hu, rfl⟩
        rw [hopt]; simp only [if_true]
        cases hv; exact InhX.optNull
      · have := hcov t ht v hv (by simpa using hn)
        split
        · exact InhX.optSome this
        · exact this

end

/-! ## the main induction on fuel -/

section
variable (cfg : GenCfg) (e : EqEnv) (ov : Bool) (acc : Accepts) (g : ModelLookup) (K I : String → Prop)

/-- `optimize_type` on a registry-stage type: the result is a registry-stage type without overflowed literal;
    an optional-like type becomes a `DOptional`; every inhabitant is kept -/
def OptSpecP (fuel : Nat) : Prop :=
  ∀ t t', GoodP K I t → optimize cfg e fuel t = .ok t' →
    OptOutP K I t' ∧ (t.optLikeS = true → t'.isOpt = true) ∧ Covers ov acc g t t'

def OptUSpecP (fuel : Nat) : Prop :=
  ∀ ms t', (∀ m ∈ ms, GoodP K I m) → optimizeUnion cfg e fuel ms = .ok t' →
    OptOutP K I t' ∧ Covers ov acc g (.union ms) t'

variable {cfg e ov acc g K I}

/-- no member of a registry-stage union is an inline field dict: `to_merge` stays empty -/
theorem splitMembers_toMerge_nil (reg : StrRegistry) {ms : List Ty} (hms : ∀ m ∈ ms, GoodP K I m) :
    (splitMembers reg ms).toMerge = [] := by
  obtain ⟨hprov, _⟩ := splitMembers_spec (ov := true) (acc := fun _ _ => none) (g := fun _ => none)
    (Q := GoodP K I) (by simp) (fun x h => by simpa using h) (fun us h => goodP_union.1 h) reg ms hms
  obtain ⟨_, p2, _⟩ := hprov
  cases hm : (splitMembers reg ms).toMerge with
  | nil => rfl
  | cons fs rest =>
    exact absurd (p2 fs (by rw [hm]; simp)) (by simp)

theorem optimizeUnion_stepP (hs : HashSoundOn ov acc g (GoodP K I))
    (hrep : ReplacesSound acc cfg.reg) (hrank : ReplacesRanked cfg.reg)
    (fuel : Nat) (ih : OptSpecP cfg e ov acc g K I fuel) : OptUSpecP cfg e ov acc g K I (fuel + 1) := by
  intro ms t' hms h
  rw [optimizeUnion.eq_2] at h
  obtain ⟨hprov, hcov⟩ := splitMembers_spec (ov := ov) (acc := acc) (g := g) (Q := GoodP K I)
    (by simp) (fun x h => by simpa using h) (fun us h => goodP_union.1 h) cfg.reg ms hms
  have hnil := splitMembers_toMerge_nil (K := K) (I := I) cfg.reg hms
  generalize splitMembers cfg.reg ms = s at h hprov hcov hnil
  obtain ⟨p1, p2, p3, p4, p5⟩ := hprov
  rw [Except.bind_eq_ok] at h
  obtain ⟨other2, ho2, h⟩ := h
  simp only at h
  rw [Except.bind_eq_ok] at h
  obtain ⟨other5, ho5, h⟩ := h
  rw [Except.bind_eq_ok] at h
  obtain ⟨types, hty, h⟩ := h
  -- stage 1/2: int absorbed by float; there is no inline object to merge
  obtain ⟨hi1, hi2⟩ := stage_int (ov := ov) (acc := acc) (g := g) s.other
  have h2 : (∀ o ∈ other2, GoodP K I o) ∧
      (∀ v, (∃ o ∈ s.other, InhX ov acc g o v) → ∃ o ∈ other2, InhX ov acc g o v) := by
    have hin1 : ∀ o ∈ (if (s.other.any Ty.isInt && s.other.any Ty.isFloat) = true
        then removeFirst Ty.isInt s.other else s.other), GoodP K I o := by
      intro o ho
      exact p1 o (hi1 o ho)
    rw [hnil] at ho2
    simp only [List.isEmpty_nil, if_true] at ho2
    rw [Except.pure_eq_ok] at ho2; subst ho2
    exact ⟨hin1, hi2⟩
  obtain ⟨h2in, h2cov⟩ := h2
  -- stage 3: lists
  have h3 : (∀ o ∈ (if s.lists.isEmpty = true then other2 else other2 ++ [(mkUnion cfg.lit s.lists).list]),
        GoodP K I o) ∧
      (∀ o ∈ other2, o ∈ (if s.lists.isEmpty = true then other2
        else other2 ++ [(mkUnion cfg.lit s.lists).list])) ∧
      (∀ v, (∃ x ∈ s.lists, InhX ov acc g (.list x) v) →
        ∃ o ∈ (if s.lists.isEmpty = true then other2 else other2 ++ [(mkUnion cfg.lit s.lists).list]),
          InhX ov acc g o v) := by
    obtain ⟨hlin, hlcov⟩ := stage_listP hs cfg.lit (lists := s.lists) (fun x hx => by simpa using p3 x hx)
    split
    · rename_i hempty
      have : s.lists = [] := by simpa using hempty
      refine ⟨h2in, fun _ h => h, ?_⟩
      rintro v ⟨x, hx, _⟩; rw [this] at hx; simp at hx
    · refine ⟨?_, fun o ho => List.mem_append_left _ ho, ?_⟩
      · intro o ho
        rcases List.mem_append.1 ho with h | h
        · exact h2in o h
        · simp at h; subst h; exact hlin
      · rintro v ⟨x, hx, hv⟩
        exact ⟨_, by simp, hlcov x hx v hv⟩
  generalize (if s.lists.isEmpty = true then other2 else other2 ++ [(mkUnion cfg.lit s.lists).list]) = other3
    at h3 ho5
  obtain ⟨h3in, h3sub, h3cov⟩ := h3
  -- stage 4: dicts
  have h4 : (∀ o ∈ (if s.dicts.isEmpty = true then other3 else other3 ++ [(mkUnion cfg.lit s.dicts).dict]),
        GoodP K I o) ∧
      (∀ o ∈ other3, o ∈ (if s.dicts.isEmpty = true then other3
        else other3 ++ [(mkUnion cfg.lit s.dicts).dict])) ∧
      (∀ v, (∃ x ∈ s.dicts, InhX ov acc g (.dict x) v) →
        ∃ o ∈ (if s.dicts.isEmpty = true then other3 else other3 ++ [(mkUnion cfg.lit s.dicts).dict]),
          InhX ov acc g o v) := by
    obtain ⟨hlin, hlcov⟩ := stage_dictP hs cfg.lit (dicts := s.dicts) (fun x hx => by simpa using p4 x hx)
    split
    · rename_i hempty
      have : s.dicts = [] := by simpa using hempty
      refine ⟨h3in, fun _ h => h, ?_⟩
      rintro v ⟨x, hx, _⟩; rw [this] at hx; simp at hx
    · refine ⟨?_, fun o ho => List.mem_append_left _ ho, ?_⟩
      · intro o ho
        rcases List.mem_append.1 ho with h | h
        · exact h3in o h
        · simp at h; subst h; exact hlin
      · rintro v ⟨x, hx, hv⟩
        exact ⟨_, by simp, hlcov x hx v hv⟩
  generalize (if s.dicts.isEmpty = true then other3 else other3 ++ [(mkUnion cfg.lit s.dicts).dict]) = other4
    at h4 ho5
  obtain ⟨h4in, h4sub, h4cov⟩ := h4
  -- stage 5: pseudo-types
  obtain ⟨h5sub, h5in, h5cov⟩ := stage_strP (ov := ov) (g := g) (K := K) (I := I) hrep hrank p5 ho5
  have h5in' : ∀ o ∈ other5, GoodP K I o := by
    intro o ho
    rcases h5in o ho with h | h
    · exact h4in o h
    · exact h
  have hcov5 : ∀ v, SCov ov acc g s v → ∃ o ∈ other5, InhX ov acc g o v := by
    intro v hv
    have lift2 : (∃ o ∈ other2, InhX ov acc g o v) → ∃ o ∈ other5, InhX ov acc g o v := by
      rintro ⟨o, ho, hi⟩; exact ⟨o, h5sub o (h4sub o (h3sub o ho)), hi⟩
    have lift3 : (∃ o ∈ other3, InhX ov acc g o v) → ∃ o ∈ other5, InhX ov acc g o v := by
      rintro ⟨o, ho, hi⟩; exact ⟨o, h5sub o (h4sub o ho), hi⟩
    have lift4 : (∃ o ∈ other4, InhX ov acc g o v) → ∃ o ∈ other5, InhX ov acc g o v := by
      rintro ⟨o, ho, hi⟩; exact ⟨o, h5sub o ho, hi⟩
    rcases hv with h | h | h | h | h
    · exact lift2 (h2cov v h)
    · obtain ⟨fs, hfs, _⟩ := h
      rw [hnil] at hfs; simp at hfs
    · exact lift3 (h3cov v h)
    · exact lift4 (h4cov v h)
    · obtain ⟨st, hst, hi⟩ := h
      exact h5cov st hst v hi
  -- stage 6: members optimised recursively
  obtain ⟨hm1, hm2⟩ := mapM_ok_memX other5 types hty
  have htypes : ∀ t ∈ types, OptOutP K I t := by
    intro t ht
    obtain ⟨o, ho, hf⟩ := hm2 t ht
    exact (ih o t (h5in' o ho) hf).1
  have hcov6 : ∀ v, SCov ov acc g s v → ∃ t ∈ types, InhX ov acc g t v := by
    intro v hv
    obtain ⟨o, ho, hi⟩ := hcov5 v hv
    obtain ⟨t, ht, hf⟩ := hm1 o ho
    exact ⟨t, ht, (ih o t (h5in' o ho) hf).2.2 v hi⟩
  -- stage 7
  obtain ⟨hout, hfin⟩ := stage_finalP hs cfg.lit h htypes
  refine ⟨hout, ?_⟩
  intro v hv
  obtain ⟨m, hm, hi⟩ := inh_union_iff.1 hv
  obtain ⟨t, ht, hi'⟩ := hcov6 v (hcov m hm v hi)
  exact hfin t ht v hi'

theorem optimize_stepP (fuel : Nat) (ih : OptSpecP cfg e ov acc g K I fuel)
    (ihU : OptUSpecP cfg e ov acc g K I fuel) : OptSpecP cfg e ov acc g K I (fuel + 1) := by
  intro t t' hg h
  have hnl : ∀ {x : Ty}, x.isUnion = false → x.isOpt = false → x.optLikeS = true → t'.isOpt = true := by
    intro x hu ho hl
    rw [Ty.optLikeS_eq_isOpt hu, ho] at hl; cases hl
  cases t
  case obj fs => simp at hg
  case tuple ts => simp at hg
  case union ts =>
    rw [optimize.eq_3] at h
    obtain ⟨hout, hcov⟩ := ihU ts t' (fun m hm' => goodP_union.1 hg m hm') h
    exact ⟨hout, fun hl => optimizeUnion_isOpt (Ty.optLikeS_union.1 hl).1 (Ty.optLikeS_union.1 hl).2.1
      (Ty.optLikeS_union.1 hl).2.2 h, hcov⟩
  case opt x =>
    rw [optimize.eq_4, Except.bind_eq_ok] at h
    obtain ⟨y, hy, h⟩ := h
    obtain ⟨hout, _, hcov⟩ := ih x y (by simpa using hg) hy
    have key : ∀ r, (match y with | .opt z => (pure (Ty.opt z) : Except PyErr Ty) | z => pure (Ty.opt z)) = .ok r →
        OptOutP K I r ∧ r.isOpt = true ∧ ∀ v, InhX ov acc g y v → InhX ov acc g r v := by
      intro r hr
      cases y <;> simp only [Except.pure_eq_ok] at hr <;> subst hr
      case opt z =>
        exact ⟨hout, rfl, fun v h => h⟩
      all_goals exact ⟨⟨by simp [hout.1], by simp [hout.2]⟩, rfl, fun v h => InhX.optSome h⟩
    obtain ⟨ho, hopt, hc⟩ := key t' h
    refine ⟨ho, fun _ => hopt, ?_⟩
    intro v hv
    rcases inh_opt_iff.1 hv with rfl | hv
    · cases t' <;> simp [Ty.isOpt] at hopt
      exact InhX.optNull
    · exact hc v (hcov v hv)
  case list x =>
    simp only [optimize] at h
    rw [Except.bind_eq_ok] at h
    obtain ⟨y, hy, h⟩ := h
    rw [Except.pure_eq_ok] at h; subst h
    obtain ⟨hout, _, hcov⟩ := ih x y (by simpa using hg) hy
    refine ⟨⟨by simpa using hout.1, by simpa using hout.2⟩, hnl rfl rfl, ?_⟩
    intro v hv
    obtain ⟨xs, rfl, hxs⟩ := inh_list_iff.1 hv
    exact InhX.list (fun z hz => hcov z (hxs z hz))
  case dict x =>
    simp only [optimize] at h
    rw [Except.bind_eq_ok] at h
    obtain ⟨y, hy, h⟩ := h
    rw [Except.pure_eq_ok] at h; subst h
    obtain ⟨hout, _, hcov⟩ := ih x y (by simpa using hg) hy
    refine ⟨⟨by simpa using hout.1, by simpa using hout.2⟩, hnl rfl rfl, ?_⟩
    intro v hv
    obtain ⟨xs, rfl, hxs⟩ := inh_dict_iff.1 hv
    exact InhX.dict (fun z hz => hcov z.2 (hxs z hz))
  case lit o vs =>
    rw [optimize.eq_8] at h
    split at h
    · rw [Except.pure_eq_ok] at h; subst h
      refine ⟨⟨by simp, by simp⟩, hnl rfl rfl, ?_⟩
      intro v hv
      cases hv <;> exact InhX.str
    · rename_i hc
      rw [Except.pure_eq_ok] at h; subst h
      have : o = false := by
        cases o <;> simp at hc ⊢
      subst this
      exact ⟨⟨hg, by simp⟩, hnl rfl rfl, fun v h => h⟩
  all_goals
    simp only [optimize, Except.pure_eq_ok] at h
    subst h
    exact ⟨⟨hg, by simp⟩, hnl rfl rfl, fun v h => h⟩

theorem optimize_spec_allP (hs : HashSoundOn ov acc g (GoodP K I))
    (hrep : ReplacesSound acc cfg.reg) (hrank : ReplacesRanked cfg.reg) :
    ∀ fuel, OptSpecP cfg e ov acc g K I fuel ∧ OptUSpecP cfg e ov acc g K I fuel := by
  intro fuel
  induction fuel with
  | zero =>
    exact ⟨fun t t' _ h => by simp [optimize] at h, fun ms t' _ h => by simp [optimizeUnion] at h⟩
  | succ fuel ih =>
    exact ⟨optimize_stepP fuel ih.1 ih.2, optimizeUnion_stepP hs hrep hrank fuel ih.1⟩

end

/-! ## the shape of the result: `DUnion`s with a `DOptional` member do not survive (for flat unions) -/

/-- neither `DOptional` nor `DUnion` -/
def Simple (t : Ty) : Prop := t.isOpt = false ∧ t.isUnion = false

/-- the top-level `DUnion` (if the type is one) has no `DUnion` member — what `DUnion.__init__` guarantees -/
def FlatTop (t : Ty) : Prop := ∀ ts, t = .union ts → ∀ u ∈ ts, u.isUnion = false

def FlatTopF (F : Fields) : Prop := ∀ f ∈ F, FlatTop f.2

/-- what the registry wants of an optimised field type: optional-like means `DOptional`; a `DUnion` is flat -/
def OptShape (t : Ty) : Prop := (t.optLike = true → t.isOpt = true) ∧ FlatTop t

theorem Simple.optShape {t : Ty} (h : Simple t) : OptShape t := by
  refine ⟨fun hl => ?_, fun ts e => ?_⟩
  · rw [Ty.optLike_eq_isOpt h.2, h.1] at hl; cases hl
  · rw [e] at h; simp [Simple, Ty.isUnion] at h

theorem optShape_of_isOpt {t : Ty} (h : t.isOpt = true) : OptShape t := by
  refine ⟨fun _ => h, fun ts e => ?_⟩
  rw [e] at h; simp [Ty.isOpt] at h

theorem optimize_simple {cfg : GenCfg} {e : EqEnv} {fuel : Nat} {t t' : Ty} (hs : Simple t)
    (h : optimize cfg e fuel t = .ok t') : Simple t' := by
  cases fuel with
  | zero => simp [optimize] at h
  | succ fuel =>
    cases t
    case opt x => simp [Simple, Ty.isOpt] at hs
    case union ts => simp [Simple, Ty.isUnion] at hs
    case obj fs =>
      rw [optimize.eq_2, Except.bind_eq_ok] at h
      obtain ⟨fs', _, h⟩ := h
      rw [Except.pure_eq_ok] at h; subst h; exact ⟨rfl, rfl⟩
    case list x =>
      simp only [optimize] at h
      rw [Except.bind_eq_ok] at h
      obtain ⟨y, _, h⟩ := h
      rw [Except.pure_eq_ok] at h; subst h; exact ⟨rfl, rfl⟩
    case dict x =>
      simp only [optimize] at h
      rw [Except.bind_eq_ok] at h
      obtain ⟨y, _, h⟩ := h
      rw [Except.pure_eq_ok] at h; subst h; exact ⟨rfl, rfl⟩
    case tuple ts =>
      simp only [optimize] at h
      rw [Except.bind_eq_ok] at h
      obtain ⟨y, _, h⟩ := h
      rw [Except.pure_eq_ok] at h; subst h; exact ⟨rfl, rfl⟩
    case lit o vs =>
      rw [optimize.eq_8] at h
      split at h <;> (rw [Except.pure_eq_ok] at h; subst h; exact ⟨rfl, rfl⟩)
    all_goals
      simp only [optimize, Except.pure_eq_ok] at h
      subst h
      exact ⟨rfl, rfl⟩

theorem stage_str_simple {reg : StrRegistry} {strTypes other other' : List Ty}
    (h : (if strTypes.any Ty.isStr = true then pure (other ++ [Ty.str])
          else if strTypes.isEmpty = true then pure other
          else
            let kinds := strTypes.filterMap (fun t => match t with | .ser k => some k | _ => none)
            do
              let r ← resolve reg kinds (kinds.length + 2)
              match r with
              | [k] => pure (other ++ [Ty.ser k])
              | [] => Except.error PyErr.stopIteration
              | _ => pure (other ++ [Ty.str]) : Except PyErr (List Ty)) = .ok other') :
    ∀ o ∈ other', o ∈ other ∨ Simple o := by
  have app : ∀ (x : Ty), Simple x → ∀ o ∈ other ++ [x], o ∈ other ∨ Simple o := by
    intro x hx o ho
    rcases List.mem_append.1 ho with h | h
    · exact Or.inl h
    · simp at h; subst h; exact Or.inr hx
  split at h
  · rw [Except.pure_eq_ok] at h; subst h
    exact app _ ⟨rfl, rfl⟩
  · split at h
    · rw [Except.pure_eq_ok] at h; subst h
      exact fun _ h => Or.inl h
    · simp only at h
      rw [Except.bind_eq_ok] at h
      obtain ⟨r, _, h⟩ := h
      match r, h with
      | [k], h =>
        simp only [Except.pure_eq_ok] at h; subst h
        exact app _ ⟨rfl, rfl⟩
      | [], h => simp at h
      | _ :: _ :: _, h =>
        simp only [Except.pure_eq_ok] at h; subst h
        exact app _ ⟨rfl, rfl⟩

theorem optShape_collapse0 {us : List Ty} (h : ∀ u ∈ us, Simple u) : OptShape (collapse0 us) := by
  unfold collapse0
  split
  · exact Simple.optShape ⟨rfl, rfl⟩
  · exact (h _ (by simp)).optShape
  · refine ⟨fun hl => ?_, fun ts e => ?_⟩
    · obtain ⟨m, hm, ho⟩ := Ty.optLike_union.1 hl
      rw [(h m hm).1] at ho; cases ho
    · cases e; exact fun u hu => (h u hu).2

/-- `_optimize_union` whose split leaves only simple entries in `other` returns a type that is a `DOptional` or
    not optional-like; a returned `DUnion` has no `DUnion` member -/
theorem optimizeUnion_optShape_of_simple {cfg : GenCfg} {e : EqEnv} {fuel : Nat} {ms : List Ty} {t' : Ty}
    (p1 : ∀ o ∈ (splitMembers cfg.reg ms).other, Simple o)
    (h : optimizeUnion cfg e fuel ms = .ok t') : OptShape t' := by
  cases fuel with
  | zero => simp [optimizeUnion] at h
  | succ fuel =>
  rw [optimizeUnion.eq_2] at h
  generalize splitMembers cfg.reg ms = s at h p1
  rw [Except.bind_eq_ok] at h
  obtain ⟨other2, ho2, h⟩ := h
  simp only at h
  rw [Except.bind_eq_ok] at h
  obtain ⟨other5, ho5, h⟩ := h
  rw [Except.bind_eq_ok] at h
  obtain ⟨types, hty, h⟩ := h
  have app : ∀ (l : List Ty) (x : Ty), (∀ o ∈ l, Simple o) → Simple x → ∀ o ∈ l ++ [x], Simple o := by
    intro l x hl hx o ho
    rcases List.mem_append.1 ho with h | h
    · exact hl o h
    · simp at h; subst h; exact hx
  -- stage 1: int absorbed by float
  have h1 : ∀ o ∈ (if (s.other.any Ty.isInt && s.other.any Ty.isFloat) = true
        then removeFirst Ty.isInt s.other else s.other), Simple o := by
    intro o ho
    split at ho
    · exact p1 o (mem_of_mem_removeFirst ho)
    · exact p1 o ho
  generalize (if (s.other.any Ty.isInt && s.other.any Ty.isFloat) = true
        then removeFirst Ty.isInt s.other else s.other) = other1 at h1 ho2
  -- stage 2: merged inline objects
  have h2 : ∀ o ∈ other2, Simple o := by
    split at ho2
    · rw [Except.pure_eq_ok] at ho2; subst ho2; exact h1
    · rw [Except.bind_eq_ok] at ho2
      obtain ⟨m, _, ho2⟩ := ho2
      rw [Except.pure_eq_ok] at ho2; subst ho2
      exact app _ _ h1 ⟨rfl, rfl⟩
  -- stage 3/4: lists, dicts
  have h3 : ∀ o ∈ (if s.lists.isEmpty = true then other2 else other2 ++ [(mkUnion cfg.lit s.lists).list]),
      Simple o := by
    split
    · exact h2
    · exact app _ _ h2 ⟨rfl, rfl⟩
  generalize (if s.lists.isEmpty = true then other2 else other2 ++ [(mkUnion cfg.lit s.lists).list]) = other3
    at h3 ho5
  have h4 : ∀ o ∈ (if s.dicts.isEmpty = true then other3 else other3 ++ [(mkUnion cfg.lit s.dicts).dict]),
      Simple o := by
    split
    · exact h3
    · exact app _ _ h3 ⟨rfl, rfl⟩
  generalize (if s.dicts.isEmpty = true then other3 else other3 ++ [(mkUnion cfg.lit s.dicts).dict]) = other4
    at h4 ho5
  -- stage 5: pseudo-types
  have h5 : ∀ o ∈ other5, Simple o := by
    intro o ho
    rcases stage_str_simple ho5 o ho with h | h
    · exact h4 o h
    · exact h
  -- stage 6: the members are optimised
  have h6 : ∀ t ∈ types, Simple t := by
    intro t ht
    obtain ⟨o, ho, hf⟩ := (mapM_ok_memX other5 types hty).2 t ht
    exact optimize_simple (h5 o ho) hf
  -- stage 7
  match types, h6, h with
  | [], _, h => simp at h
  | [t], h6, h =>
    simp only [Except.pure_eq_ok] at h; subst h
    exact (h6 t (by simp)).optShape
  | t1 :: t2 :: rest, h6, h =>
    simp only [Except.pure_eq_ok] at h
    generalize hL : t1 :: t2 :: rest = L at h h6
    generalize hT1 : (if L.any Ty.isUnknown = true then removeFirst Ty.isUnknown L else L) = T1 at h
    have hT1sub : ∀ t ∈ T1, t ∈ L := by
      intro t ht; rw [← hT1] at ht
      split at ht
      · exact mem_of_mem_removeFirst ht
      · exact ht
    have hT2 : ∀ t ∈ T1.filter (fun t => !t.isNull), Simple t := by
      intro t ht; exact h6 t (hT1sub t (List.mem_filter.1 ht).1)
    change (if T1.any Ty.isNull = true
        then (collapse0 (mkUnionMembers cfg.lit (T1.filter (fun t => !t.isNull)))).opt
        else collapse0 (mkUnionMembers cfg.lit (T1.filter (fun t => !t.isNull)))) = t' at h
    have hus : ∀ u ∈ mkUnionMembers cfg.lit (T1.filter (fun t => !t.isNull)), Simple u := by
      refine mkUnionMembers_forall (P := Simple) ?_ ⟨rfl, rfl⟩ (fun _ _ => ⟨rfl, rfl⟩)
      rw [flattenUnion_eq_self (fun t ht => (hT2 t ht).2)]
      exact hT2
    subst h
    split
    · exact optShape_of_isOpt rfl
    · exact optShape_collapse0 hus

/-- `_optimize_union` returns either a `DOptional`, or a type that is not optional-like; a returned `DUnion` has
    no `DUnion` member. (No assumption on the members: nested unions are spliced by the split, so that no
    `DUnion` — and a `DOptional` only next to a `Null` — ever reaches `other`.) -/
theorem optimizeUnion_optShape {cfg : GenCfg} {e : EqEnv} {fuel : Nat} {ms : List Ty} {t' : Ty}
    (h : optimizeUnion cfg e fuel ms = .ok t') : OptShape t' := by
  by_cases hs : ∀ o ∈ (splitMembers cfg.reg ms).other, Simple o
  · exact optimizeUnion_optShape_of_simple hs h
  · -- an entry of `other` that is not simple is a `DOptional` taken off a `DOptional`: `Null` is there too
    obtain ⟨o, ho⟩ := Classical.not_forall.1 hs
    obtain ⟨hmem, hns⟩ := Classical.not_imp.1 ho
    have hnu : o.isUnion = false := by
      cases o <;> first | rfl | exact absurd rfl (SplitW.other_ne_union hmem _)
    have hop : o.isOpt = true := by
      cases hoo : o.isOpt with
      | true => rfl
      | false => exact absurd ⟨hoo, hnu⟩ hns
    rcases SplitW.mem_other.1 hmem with ⟨rfl, _⟩ | ⟨_, ⟨_, hno⟩ | hopt⟩
    · simp [Ty.isOpt] at hop
    · rw [hno] at hop; cases hop
    · have hnull : Ty.null ∈ (splitMembers cfg.reg ms).other :=
        SplitW.split_other_null_iff.2 ⟨.opt o, hopt, Or.inl rfl⟩
      have hne : Ty.null ≠ o := by intro e; rw [← e] at hop; simp [Ty.isOpt] at hop
      exact optShape_of_isOpt (optimizeUnion_isOpt_of_big ⟨hnull, Or.inl (two_le_length_of_ne hnull hmem hne)⟩ h)

/-- `optimize_type`: the result is a `DOptional` or not optional-like, and flat at the top.
    (No assumption on the type.) -/
theorem optimize_optShape {cfg : GenCfg} {e : EqEnv} {fuel : Nat} {t t' : Ty}
    (h : optimize cfg e fuel t = .ok t') : OptShape t' := by
  by_cases hs : Simple t
  · exact (optimize_simple hs h).optShape
  cases fuel with
  | zero => simp [optimize] at h
  | succ fuel =>
    cases t
    case union ts =>
      rw [optimize.eq_3] at h
      exact optimizeUnion_optShape h
    case opt x =>
      rw [optimize.eq_4, Except.bind_eq_ok] at h
      obtain ⟨y, _, h⟩ := h
      apply optShape_of_isOpt
      cases y <;> simp only [Except.pure_eq_ok] at h <;> subst h <;> rfl
    all_goals exact absurd ⟨rfl, rfl⟩ hs

/-! ## the top level: the field dict of a registered model -/

/-- `optimize_type` on the field dict of a registered model (field types are registry-stage: model pointers,
    no inline dict), for every comparison environment `e` and every lookup `L`: the result is again such a
    field dict with the same keys, free of overflowed literals, every result field is a `DOptional` or not
    optional-like and flat at the top, and every object lying *laxly* (refined lax reading) in the input lies
    *strictly* in it. -/
theorem optSoundP_core {ov : Bool} {acc : Accepts} {K I : String → Prop} {cfg : GenCfg}
    (hK : ∀ k, K k → wfSerName k = true) (hI : IdxAlnum I)
    (hrep : ReplacesSound acc cfg.reg) (hrank : ReplacesRanked cfg.reg)
    (L : ModelLookup) (e : EqEnv) (fuel : Nat) (F : Fields) (t' : Ty)
    (hF : GoodPF K I F) (h : optimize cfg e fuel (.obj F) = .ok t') :
    ∃ F', t' = .obj F' ∧ GoodPF K I F' ∧ F'.map (·.1) = F.map (·.1) ∧
      (∀ f ∈ F', Ty.NoOv f.2) ∧ (∀ f ∈ F', OptShape f.2) ∧
      ∀ kvs, InhFieldsLXS ov acc L F kvs → InhFieldsX ov acc L F' kvs := by
  cases fuel with
  | zero => simp [optimize] at h
  | succ fuel =>
  have ih : OptSpecP cfg e ov acc L K I fuel :=
    (optimize_spec_allP (e := e) (hashSoundOn_goodP (ov := ov) (acc := acc) (g := L) hK hI) hrep hrank fuel).1
  rw [optimize.eq_2, Except.bind_eq_ok] at h
  obtain ⟨fs', hfs', h⟩ := h
  rw [Except.pure_eq_ok] at h; subst h
  obtain ⟨hkeys, hfw, hbw⟩ := mapM_fields_ok F fs' hfs'
  obtain ⟨nd, hgF⟩ := hF
  have nd' : (fs'.map (·.1)).Nodup := by rw [hkeys]; exact nd
  have hfield : ∀ k t, Fields.get? F k = some t → GoodP K I t :=
    fun k t hk => hgF _ (Fields.mem_of_get? hk)
  have hout : ∀ f ∈ fs', OptOutP K I f.2 := by
    intro f hf
    obtain ⟨t, ht, hopt⟩ := hbw f.1 f.2 (Fields.get?_of_mem nd' hf)
    exact (ih t f.2 (hfield _ _ ht) hopt).1
  refine ⟨fs', rfl, ⟨nd', fun f hf => (hout f hf).1⟩, hkeys, fun f hf => (hout f hf).2, ?_, ?_⟩
  · intro f hf
    obtain ⟨t, ht, hopt⟩ := hbw f.1 f.2 (Fields.get?_of_mem nd' hf)
    exact optimize_optShape hopt
  · intro kvs hi
    refine InhF.toInhFields nd' ⟨?_, ?_⟩
    · intro kv hkv
      obtain ⟨t, ht, hti⟩ := hi.toInhFLS.1 kv hkv
      obtain ⟨t2, ht2, hopt⟩ := hfw _ _ ht
      exact ⟨t2, ht2, (ih t t2 (hfield _ _ ht) hopt).2.2 _ hti⟩
    · intro k t2 hk hno
      obtain ⟨t, ht, hopt⟩ := hbw k t2 hk
      have := (ih t t2 (hfield _ _ ht) hopt).2.1
      have hno' : t.optLikeS = false := by
        cases ho : t.optLikeS with
        | false => rfl
        | true => rw [this ho] at hno; simp at hno
      exact hi.toInhFLS.2 k t ht hno'

/-- **the true form of `OptSoundP`** (Proofs/RegistryDefs.lean): the same with the refined lax reading
    (`InhFieldsLXS`: a field may be absent when its type is `Ty.optLikeS`) in place of `InhFieldsLX` -/
def OptSoundPS (ov : Bool) (acc : Accepts) (K I : String → Prop) (cfg : GenCfg) : Prop :=
  ∀ (L : ModelLookup) (e : EqEnv) (fuel : Nat) (F : Fields) (t' : Ty),
    GoodPF K I F → optimize cfg e fuel (.obj F) = .ok t' →
    ∃ F', t' = .obj F' ∧ GoodPF K I F' ∧ F'.map (·.1) = F.map (·.1) ∧
      (∀ f ∈ F', Ty.NoOv f.2 ∧ (f.2.optLike = true → f.2.isOpt = true)) ∧
      ∀ kvs, InhFieldsLXS ov acc L F kvs → InhFieldsX ov acc L F' kvs

theorem optSoundPS {ov : Bool} {acc : Accepts} {K I : String → Prop} {cfg : GenCfg}
    (hK : ∀ k, K k → wfSerName k = true) (hI : IdxAlnum I)
    (hrep : ReplacesSound acc cfg.reg) (hrank : ReplacesRanked cfg.reg) : OptSoundPS ov acc K I cfg := by
  intro L e fuel F t' hF h
  obtain ⟨F', e', hg, hkeys, hnoov, hshape, hinh⟩ := optSoundP_core hK hI hrep hrank L e fuel F t' hF h
  exact ⟨F', e', hg, hkeys, fun f hf => ⟨hnoov f hf, (hshape f hf).1⟩, hinh⟩

/-- `OptSoundPS` restricted to field dicts whose top-level `DUnion`s have no `DUnion` member
    (added hypothesis `FlatTopF F`); the result is again of this kind (added conclusion `FlatTopF F'`) -/
def OptSoundPFlat (ov : Bool) (acc : Accepts) (K I : String → Prop) (cfg : GenCfg) : Prop :=
  ∀ (L : ModelLookup) (e : EqEnv) (fuel : Nat) (F : Fields) (t' : Ty),
    GoodPF K I F → FlatTopF F → optimize cfg e fuel (.obj F) = .ok t' →
    ∃ F', t' = .obj F' ∧ GoodPF K I F' ∧ FlatTopF F' ∧ F'.map (·.1) = F.map (·.1) ∧
      (∀ f ∈ F', Ty.NoOv f.2 ∧ (f.2.optLike = true → f.2.isOpt = true)) ∧
      ∀ kvs, InhFieldsLXS ov acc L F kvs → InhFieldsX ov acc L F' kvs

/-- the flat form (`DUnion.__init__` flattens, so the registry only meets such field dicts); the hypothesis
    `FlatTopF F` is not needed any more (`optSoundPS`), the conclusion `FlatTopF F'` holds for every input -/
theorem optSoundP_partial {ov : Bool} {acc : Accepts} {K I : String → Prop} {cfg : GenCfg}
    (hK : ∀ k, K k → wfSerName k = true) (hI : IdxAlnum I)
    (hrep : ReplacesSound acc cfg.reg) (hrank : ReplacesRanked cfg.reg) : OptSoundPFlat ov acc K I cfg := by
  intro L e fuel F t' hF _ h
  obtain ⟨F', e', hg, hkeys, hnoov, hshape, hinh⟩ := optSoundP_core hK hI hrep hrank L e fuel F t' hF h
  exact ⟨F', e', hg, fun f hf => (hshape f hf).2, hkeys,
    fun f hf => ⟨hnoov f hf, (hshape f hf).1⟩, hinh⟩

/-- `OptSoundPS` without the "optional-like fields are `DOptional`s" clause -/
def OptSoundPWeak (ov : Bool) (acc : Accepts) (K I : String → Prop) (cfg : GenCfg) : Prop :=
  ∀ (L : ModelLookup) (e : EqEnv) (fuel : Nat) (F : Fields) (t' : Ty),
    GoodPF K I F → optimize cfg e fuel (.obj F) = .ok t' →
    ∃ F', t' = .obj F' ∧ GoodPF K I F' ∧ F'.map (·.1) = F.map (·.1) ∧
      (∀ f ∈ F', Ty.NoOv f.2) ∧
      ∀ kvs, InhFieldsLXS ov acc L F kvs → InhFieldsX ov acc L F' kvs

theorem optSoundP_weak {ov : Bool} {acc : Accepts} {K I : String → Prop} {cfg : GenCfg}
    (hK : ∀ k, K k → wfSerName k = true) (hI : IdxAlnum I)
    (hrep : ReplacesSound acc cfg.reg) (hrank : ReplacesRanked cfg.reg) : OptSoundPWeak ov acc K I cfg := by
  intro L e fuel F t' hF h
  obtain ⟨F', e', hg, hkeys, hnoov, _, hinh⟩ := optSoundP_core hK hI hrep hrank L e fuel F t' hF h
  exact ⟨F', e', hg, hkeys, hnoov, hinh⟩

/-! ## `OptSoundP` itself (lax reading with `Ty.optLike`) is false: a degenerate `DUnion` -/

/-- the former witness against `OptSoundP` is none any more: `{a: Union[Union[Optional[int], str], float]}` is now
    optimised to `{a: Optional[Union[float, str]]}` (the directly nested `DUnion` is spliced; it used to give
    `{a: Union[Optional[Union[int, str]], float]}`) -/
theorem optimize_nested_union_witness (cfg : GenCfg) (e : EqEnv) :
    optimize cfg e 6 (.obj [("a", .union [.union [.opt .int, .str], .float])]) =
      .ok (.obj [("a", .opt (.union [.float, .str]))]) := by
  simp [optimize, optimizeUnion, splitMembers, splitMembersAux, Ty.size, Ty.sizeList, removeFirst,
    Ty.isInt, Ty.isFloat, Ty.isStr, Ty.isUnknown,
    Ty.isNull, bind, Except.bind, pure, Except.pure, mkUnionMembers, flattenUnion, handleType, hashStr]

/-- the witness: `{a: Union[Optional[Union[]]]}` is optimised to `{a: Null}` (for every configuration and
    comparison environment): the empty `DUnion` under the `Optional` is spliced away, `Null` is the only entry -/
theorem optimize_degenerate_witness (cfg : GenCfg) (e : EqEnv) :
    optimize cfg e 4 (.obj [("a", .union [.opt (.union [])])]) = .ok (.obj [("a", .null)]) := by
  simp [optimize, optimizeUnion, splitMembers, splitMembersAux, Ty.size, Ty.sizeList, Ty.isInt, Ty.isFloat,
    bind, Except.bind, pure, Except.pure]

/-- **`OptSoundP` is false for every choice of its parameters**: the field dict of the witness is registry-stage
    (`GoodP` allows the empty `DUnion`), `{}` lies laxly in it (the field is `Ty.optLike`) and not in its
    optimisation `{a: Null}`. -/
theorem optSoundP_false (ov : Bool) (acc : Accepts) (K I : String → Prop) (cfg : GenCfg) :
    ¬ OptSoundP ov acc K I cfg := by
  intro h
  obtain ⟨F', e', _, _, _, hinh⟩ :=
    h (fun _ => none) ⟨StrOracle.default, fun i => i, fun _ => none, 1⟩ 4
      [("a", .union [.opt (.union [])])] _
      ⟨by simp, by simp⟩ (optimize_degenerate_witness cfg _)
  cases e'
  have hlax : InhFieldsLX ov acc (fun _ => none) [("a", .union [.opt (.union [])])] [] := by
    refine ⟨by simp, by simp, ?_⟩
    intro ft hft hno; simp at hft; subst hft
    revert hno; decide
  obtain ⟨kv, hkv, _⟩ := (hinh [] hlax).2.2 ("a", .null) (by simp) rfl
  simp at hkv

/-- the statement asked for -/
def optSoundP_Statement : Prop :=
  ∀ (ov : Bool) (acc : Accepts) (K I : String → Prop) (cfg : GenCfg),
    (∀ k, K k → wfSerName k = true) → IdxAlnum I → ReplacesSound acc cfg.reg → ReplacesRanked cfg.reg →
    OptSoundP ov acc K I cfg

theorem optSoundP_Statement_false : ¬ optSoundP_Statement := by
  intro h
  refine optSoundP_false false (fun _ _ => none) (fun _ => False) (fun _ => False)
    ⟨⟨15, 20⟩, ⟨[], [], []⟩, [], []⟩ (h _ _ _ _ _ ?_ ?_ ?_ ?_)
  · intro k hk; exact hk.elim
  · intro i hi; exact hi.elim
  · intro a b hab; simp at hab
  · exact ⟨fun _ => 0, fun p hp => by simp at hp⟩

/-! ## non-vacuity -/

/-- a configuration with one pseudo-type that replaces nothing -/
def cfgEx : GenCfg := ⟨⟨15, 20⟩, ⟨["IsoDateString"], [], []⟩, [], []⟩
def envEx : EqEnv := ⟨StrOracle.default, fun i => i, fun _ => none, 1⟩
/-- `{a: Union[Optional[ModelPtr#1], int], b: List[IsoDateString]}` -/
def fieldsEx : Fields := [("a", .union [.opt (.ptr "1"), .int]), ("b", .list (.ser "IsoDateString"))]

/-- the hypotheses of `optSoundP_partial` hold for a concrete configuration and a concrete field dict with a
    model pointer, and `optimize_type` succeeds on it: the optional-like field `a` becomes a `DOptional` -/
example :
    (∀ k, k = "IsoDateString" → wfSerName k = true) ∧ IdxAlnum (· = "1") ∧
    ReplacesSound (fun _ _ => some true) cfgEx.reg ∧ ReplacesRanked cfgEx.reg ∧
    GoodPF (· = "IsoDateString") (· = "1") fieldsEx ∧ FlatTopF fieldsEx ∧
    optimize cfgEx envEx 6 (.obj fieldsEx) =
      .ok (.obj [("a", .opt (.union [.ptr "1", .int])), ("b", .list (.ser "IsoDateString"))]) := by
  refine ⟨?_, ?_, ?_, ?_, ?_, ?_, ?_⟩
  · intro k hk; subst hk; decide
  · intro i hi; subst hi; decide
  · intro a b hab; simp [cfgEx] at hab
  · exact ⟨fun _ => 0, fun p hp => by simp [cfgEx] at hp⟩
  · exact ⟨by simp [fieldsEx], by simp [fieldsEx]⟩
  · intro f hf ts e u hu
    simp [fieldsEx] at hf
    rcases hf with rfl | rfl
    · simp at e; subst e; simp at hu; rcases hu with rfl | rfl <;> rfl
    · simp at e
  · simp [optimize, optimizeUnion, splitMembers, splitMembersAux, Ty.size,
      Ty.isInt, Ty.isFloat, Ty.isStr, Ty.isUnknown,
      Ty.isNull, bind, Except.bind, pure, Except.pure, mkUnionMembers, flattenUnion, handleType, hashStr,
      fieldsEx, cfgEx]

#print axioms J2M.Reg.optimize_spec_allP
#print axioms J2M.Reg.optimizeUnion_optShape
#print axioms J2M.Reg.optimize_optShape
#print axioms J2M.Reg.optSoundP_core
#print axioms J2M.Reg.optSoundPS
#print axioms J2M.Reg.optSoundP_partial
#print axioms J2M.Reg.optSoundP_weak
#print axioms J2M.Reg.optimize_nested_union_witness
#print axioms J2M.Reg.optimize_degenerate_witness
#print axioms J2M.Reg.optSoundP_false
#print axioms J2M.Reg.optSoundP_Statement_false

end J2M.Reg
