/-
  Helper lemmas for C10: the overflow rule and the literal folding of `DUnion.__init__`.
-/
import J2M.Union
namespace J2M.Strings

open J2M

/-! ## the overflow rule -/

/-- the documented limits: more than `maxLiterals` values, or some value of `maxStrLen` or more characters -/
def Overflows (c : LitCfg) (vs : List String) : Prop :=
  vs.length > c.maxLiterals ∨ ∃ s ∈ vs, s.length ≥ c.maxStrLen

theorem mkLit_overflow_iff' (c : LitCfg) (vs : List String) :
    (mkLit c vs = .lit true [] ↔ Overflows c vs) ∧ (¬ Overflows c vs → mkLit c vs = .lit false vs) := by
  unfold Overflows mkLit
  by_cases h : (decide (vs.length > c.maxLiterals) || vs.any (fun s => decide (s.length ≥ c.maxStrLen))) = true
  · rw [if_pos h]
    have : vs.length > c.maxLiterals ∨ ∃ s ∈ vs, s.length ≥ c.maxStrLen := by simpa using h
    exact ⟨⟨fun _ => this, fun _ => rfl⟩, fun hn => absurd this hn⟩
  · rw [if_neg h]
    have : ¬ (vs.length > c.maxLiterals ∨ ∃ s ∈ vs, s.length ≥ c.maxStrLen) := by simpa using h
    exact ⟨⟨fun h' => by simp at h', fun h' => absurd h' this⟩, fun _ => rfl⟩

theorem mkLit_cases' (c : LitCfg) (vs : List String) :
    (Overflows c vs ∧ mkLit c vs = .lit true []) ∨ (¬ Overflows c vs ∧ mkLit c vs = .lit false vs) := by
  by_cases h : Overflows c vs
  · exact .inl ⟨h, (mkLit_overflow_iff' c vs).1.2 h⟩
  · exact .inr ⟨h, (mkLit_overflow_iff' c vs).2 h⟩

/-! ## insertUniq: sorted duplicate-free union -/

theorem lt_of_not_lt_of_ne {x y : String} (h1 : ¬ x < y) (h2 : x ≠ y) : y < x := by
  have hyx : y ≤ x := String.not_lt.mp h1
  refine Decidable.byContradiction fun h3 => ?_
  exact h2 (String.le_antisymm (String.not_lt.mp h3) hyx)

theorem mem_insertUniq {x s : String} {l : List String} : s ∈ insertUniq x l ↔ s = x ∨ s ∈ l := by
  induction l with
  | nil => simp [insertUniq]
  | cons y ys ih =>
    unfold insertUniq
    by_cases h1 : x < y
    · simp [h1]
    · by_cases h2 : x = y
      · subst h2; simp
      · have : (x == y) = false := by simpa using h2
        simp only [h1, this, if_false, List.mem_cons, ih, Bool.false_eq_true]
        constructor
        · rintro (h | h | h) <;> simp [h]
        · rintro (h | h | h) <;> simp [h]

theorem sorted_insertUniq {x : String} {l : List String} (h : l.Pairwise (· < ·)) :
    (insertUniq x l).Pairwise (· < ·) := by
  induction l with
  | nil => simp [insertUniq]
  | cons y ys ih =>
    have hy : ∀ z ∈ ys, y < z := (List.pairwise_cons.mp h).1
    have hys : ys.Pairwise (· < ·) := (List.pairwise_cons.mp h).2
    unfold insertUniq
    by_cases h1 : x < y
    · rw [if_pos h1]
      refine List.pairwise_cons.mpr ⟨?_, h⟩
      intro z hz
      rcases List.mem_cons.mp hz with rfl | hz
      · exact h1
      · exact String.lt_trans h1 (hy z hz)
    · rw [if_neg h1]
      by_cases h2 : x = y
      · subst h2; simpa using h
      · have : (x == y) = false := by simpa using h2
        rw [this]
        simp only [Bool.false_eq_true, if_false]
        refine List.pairwise_cons.mpr ⟨?_, ih hys⟩
        intro z hz
        rcases mem_insertUniq.mp hz with rfl | hz
        · exact lt_of_not_lt_of_ne h1 h2
        · exact hy z hz

/-- `str_literals.update(vs)` -/
def addVals (acc vs : List String) : List String := vs.foldl (fun a x => insertUniq x a) acc

theorem mem_addVals {s : String} {vs : List String} : ∀ {acc : List String},
    s ∈ addVals acc vs ↔ s ∈ acc ∨ s ∈ vs := by
  induction vs with
  | nil => simp [addVals]
  | cons v vs ih =>
    intro acc
    have := @ih (insertUniq v acc)
    simp only [addVals, List.foldl_cons] at this ⊢
    rw [this, mem_insertUniq]
    simp only [List.mem_cons]
    constructor
    · rintro ((h | h) | h) <;> simp [h]
    · rintro (h | h | h) <;> simp [h]

theorem sorted_addVals {vs : List String} : ∀ {acc : List String}, acc.Pairwise (· < ·) →
    (addVals acc vs).Pairwise (· < ·) := by
  induction vs with
  | nil => intro acc h; simpa [addVals] using h
  | cons v vs ih =>
    intro acc h
    have := @ih (insertUniq v acc) (sorted_insertUniq h)
    simpa [addVals] using this

/-- two strictly increasing lists with the same members are the same list -/
theorem sorted_ext : ∀ {l1 l2 : List String}, l1.Pairwise (· < ·) → l2.Pairwise (· < ·) →
    (∀ s, s ∈ l1 ↔ s ∈ l2) → l1 = l2 := by
  intro l1
  induction l1 with
  | nil =>
    intro l2 _ _ h
    cases l2 with
    | nil => rfl
    | cons b bs => exact absurd ((h b).2 (by simp)) (by simp)
  | cons a as ih =>
    intro l2 h1 h2 h
    cases l2 with
    | nil => exact absurd ((h a).1 (by simp)) (by simp)
    | cons b bs =>
      have ha : ∀ z ∈ as, a < z := (List.pairwise_cons.mp h1).1
      have hb : ∀ z ∈ bs, b < z := (List.pairwise_cons.mp h2).1
      have hab : a = b := by
        rcases List.mem_cons.mp ((h a).1 (by simp)) with e | e
        · exact e
        · rcases List.mem_cons.mp ((h b).2 (by simp)) with e' | e'
          · exact e'.symm
          · exact absurd (hb a e) (String.lt_asymm (ha b e'))
      subst hab
      congr 1
      apply ih (List.pairwise_cons.mp h1).2 (List.pairwise_cons.mp h2).2
      intro s
      constructor
      · intro hs
        rcases List.mem_cons.mp ((h s).1 (by simp [hs])) with e | e
        · subst e; exact absurd (ha s hs) (String.lt_irrefl s)
        · exact e
      · intro hs
        rcases List.mem_cons.mp ((h s).2 (by simp [hs])) with e | e
        · subst e; exact absurd (hb s hs) (String.lt_irrefl s)
        · exact e

theorem nodup_of_sorted {l : List String} (h : l.Pairwise (· < ·)) : l.Nodup :=
  h.imp (fun hab e => by subst e; exact String.lt_irrefl _ hab)

/-! ## the union of the value sets of the (non-overflowed) literal members -/

def unionStep (acc : List String) : Ty → List String
  | .lit false vs => addVals acc vs
  | _ => acc

/-- sorted duplicate-free union of the value lists of all `lit false _` members -/
def unionVals (F : List Ty) : List String := F.foldl unionStep []

theorem mem_foldl_unionStep {s : String} (F : List Ty) : ∀ acc : List String,
    s ∈ F.foldl unionStep acc ↔ s ∈ acc ∨ ∃ vs, Ty.lit false vs ∈ F ∧ s ∈ vs := by
  induction F with
  | nil => simp
  | cons t F ih =>
    intro acc
    rw [List.foldl_cons, ih]
    constructor
    · rintro (h | ⟨vs, hvs, hs⟩)
      · cases t with
        | lit o vs =>
          cases o with
          | false =>
            rcases mem_addVals.mp h with h | h
            · exact .inl h
            · exact .inr ⟨vs, by simp, h⟩
          | true => exact .inl h
        | _ => exact .inl h
      · exact .inr ⟨vs, by simp [hvs], hs⟩
    · rintro (h | ⟨vs, hvs, hs⟩)
      · left
        cases t with
        | lit o vs => cases o <;> simp [unionStep, mem_addVals, h]
        | _ => exact h
      · rcases List.mem_cons.mp hvs with e | e
        · left; subst e; simp [unionStep, mem_addVals, hs]
        · exact .inr ⟨vs, e, hs⟩

theorem sorted_foldl_unionStep (F : List Ty) : ∀ acc : List String, acc.Pairwise (· < ·) →
    (F.foldl unionStep acc).Pairwise (· < ·) := by
  induction F with
  | nil => intro acc h; simpa using h
  | cons t F ih =>
    intro acc h
    rw [List.foldl_cons]
    apply ih
    cases t with
    | lit o vs => cases o <;> simp [unionStep, sorted_addVals h, h]
    | _ => exact h

theorem mem_unionVals {F : List Ty} {s : String} :
    s ∈ unionVals F ↔ ∃ vs, Ty.lit false vs ∈ F ∧ s ∈ vs := by
  simp [unionVals, mem_foldl_unionStep]

theorem sorted_unionVals (F : List Ty) : (unionVals F).Pairwise (· < ·) :=
  sorted_foldl_unionStep F [] (by simp)

theorem unionVals_append_singleton (P : List Ty) (t : Ty) :
    unionVals (P ++ [t]) = unionStep (unionVals P) t := by
  simp [unionVals, List.foldl_append]

end J2M.Strings
