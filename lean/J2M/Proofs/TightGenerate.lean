/-
  C02 tightness, part 4: the induction on fuel for `optimize_type` / `_optimize_union` (`optimize_wit`,
  `optimizeUnion_wit`) and the composition for `generate` (`generate_wit`).
-/
import J2M.Proofs.TightOptimize
namespace J2M.Tight
open J2M J2M.C02T

/-- the two claims at one fuel level -/
structure OptWit (cfg : GenCfg) (e : EqEnv) (acc : Accepts) (f : Nat) : Prop where
  opt : ∀ (a u : Prop) t t' vs, C08P.Raw cfg t = true → Wit acc a u t vs →
      optimize cfg e f t = .ok t' → Wit acc a u t' vs
  uni : ∀ (u : Prop) ms t' vs, C08P.rawD cfg (.union ms) = true → (∀ m ∈ ms, WitM acc u m vs) →
      optimizeUnion cfg e f ms = .ok t' → Wit acc False u t' vs

/-- `optimize_type(DList(DUnion(ms)))` with (possibly `Unknown`) members over the elements -/
theorem optimize_list_union {cfg : GenCfg} {e : EqEnv} {acc : Accepts} {f : Nat}
    (ih : ∀ g, g ≤ f → OptWit cfg e acc g) {ms : List Ty} {t' : Ty} {vs : List Json}
    (hr : C08P.rawD cfg (.union ms) = true)
    (hw : ∀ m ∈ ms, WitM acc (Json.arr [] ∈ vs) m (elemsOf vs))
    (h : optimize cfg e f (.list (.union ms)) = .ok t') : Wit acc False False t' vs := by
  cases f with
  | zero => simp [optimize] at h
  | succ g =>
    rw [optimize] at h
    simp only [bind, Except.bind] at h
    split at h
    · cases h
    · rename_i y hy
      simp only [pure, Except.pure, Except.ok.injEq] at h; subst h
      cases g with
      | zero => simp [optimize] at hy
      | succ g' =>
        rw [optimize] at hy
        have := (ih g' (by omega)).uni _ ms y _ hr hw hy
        simpa only [Wit] using this

theorem optimize_dict_union {cfg : GenCfg} {e : EqEnv} {acc : Accepts} {f : Nat}
    (ih : ∀ g, g ≤ f → OptWit cfg e acc g) {ms : List Ty} {t' : Ty} {vs : List Json}
    (hr : C08P.rawD cfg (.union ms) = true)
    (hw : ∀ m ∈ ms, WitM acc (Json.obj [] ∈ vs) m (valsOf vs))
    (h : optimize cfg e f (.dict (.union ms)) = .ok t') : Wit acc False False t' vs := by
  cases f with
  | zero => simp [optimize] at h
  | succ g =>
    rw [optimize] at h
    simp only [bind, Except.bind] at h
    split at h
    · cases h
    · rename_i y hy
      simp only [pure, Except.pure, Except.ok.injEq] at h; subst h
      cases g with
      | zero => simp [optimize] at hy
      | succ g' =>
        rw [optimize] at hy
        have := (ih g' (by omega)).uni _ ms y _ hr hw hy
        simpa only [Wit] using this

/-- one level of `optimize_type` on a field-level raw type -/
theorem optimize_wit_rawF {cfg : GenCfg} {e : EqEnv} {acc : Accepts} {f : Nat} (ih : OptWit cfg e acc f)
    {a u : Prop} {t t' : Ty} {vs : List Json} (hr : C08P.rawF cfg t = true) (hw : Wit acc a u t vs)
    (h : optimize cfg e (f + 1) t = .ok t') : Wit acc a u t' vs := by
  cases t with
  | int | float | bool | str | null | unknown | ser _ =>
    simp [optimize, pure, Except.pure] at h; subst h; exact hw
  | ptr _ | tuple _ => simp [C08P.rawF, C08P.rawD] at hr
  | lit ov ws =>
    rw [optimize] at h
    split at h
    · rename_i hc
      simp only [pure, Except.pure, Except.ok.injEq] at h; subst h
      cases ov
      · simp only [Bool.false_or, List.isEmpty_iff] at hc
        subst hc
        simp [Wit] at hw
      · simpa [Wit] using hw
    · simp only [pure, Except.pure, Except.ok.injEq] at h; subst h; exact hw
  | list x =>
    rw [optimize] at h
    simp only [bind, Except.bind] at h
    split at h
    · cases h
    · rename_i y hy
      simp only [pure, Except.pure, Except.ok.injEq] at h; subst h
      simp only [Wit] at hw ⊢
      exact ih.opt _ _ x y _ (C08P.rawD_Raw (by simpa [C08P.rawF, C08P.rawD] using hr)) hw hy
  | dict x =>
    rw [optimize] at h
    simp only [bind, Except.bind] at h
    split at h
    · cases h
    · rename_i y hy
      simp only [pure, Except.pure, Except.ok.injEq] at h; subst h
      simp only [Wit] at hw ⊢
      exact ih.opt _ _ x y _ (C08P.rawD_Raw (by simpa [C08P.rawF, C08P.rawD] using hr)) hw hy
  | opt x =>
    rw [optimize] at h
    simp only [bind, Except.bind] at h
    split at h
    · cases h
    · rename_i y hy
      simp only [Wit] at hw
      have hy' := ih.opt a u x y _ (C08P.rawD_Raw (by simpa [C08P.rawF] using hr)) hw.2 hy
      split at h
      · simp only [pure, Except.pure, Except.ok.injEq] at h; subst h; exact hy'
      · simp only [pure, Except.pure, Except.ok.injEq] at h; subst h
        simp only [Wit]
        exact ⟨hw.1, hy'⟩
  | union ms =>
    rw [optimize] at h
    have hw' := wit_union.1 hw
    have := ih.uni False ms t' vs (by simpa [C08P.rawF] using hr) (fun m hm => .inr (hw'.2 m hm)) h
    exact Wit.mono _ False.elim False.elim (fun _ h => h) this
  | obj fs =>
    have hfs : ∀ kv ∈ fs, C08P.rawD cfg kv.2 = true := by
      have : C08P.rawD cfg (.obj fs) = true := by simpa [C08P.rawF] using hr
      simp only [C08P.rawD] at this
      exact (C08P.rawDFields_iff cfg fs).mp this
    obtain ⟨n, fs', hn, rfl, hk, hr'⟩ := optimize_obj h
    cases hn
    rw [wit_obj] at hw ⊢
    refine ⟨by unfold Fields.keys at hk; rw [hk]; exact hw.1, ?_⟩
    intro kv' hkv'
    obtain ⟨kv, hkv, hk1, hopt⟩ := forall₂_mem_right hr' hkv'
    rw [hk1]
    exact ih.opt _ _ _ _ _ (C08P.rawD_Raw (hfs kv hkv)) (hw.2 kv hkv) hopt

theorem optWit_all (cfg : GenCfg) (e : EqEnv) (acc : Accepts) : ∀ f, ∀ g, g ≤ f → OptWit cfg e acc g := by
  intro f
  induction f with
  | zero =>
    intro g hg
    have : g = 0 := by omega
    subst this
    exact ⟨fun _ _ _ _ _ _ _ h => by simp [optimize] at h, fun _ _ _ _ _ _ h => by simp [optimizeUnion] at h⟩
  | succ f ih =>
    intro g hg
    by_cases hle : g ≤ f
    · exact ih g hle
    · have : g = f + 1 := by omega
      subst this
      have ihf := ih f (Nat.le_refl _)
      refine ⟨?_, ?_⟩
      · intro a u t t' vs hr hw h
        cases t with
        | obj fs =>
          simp only [C08P.Raw, List.all_eq_true] at hr
          obtain ⟨n, fs', hn, rfl, hk, hr'⟩ := optimize_obj h
          cases hn
          rw [wit_obj] at hw ⊢
          refine ⟨by unfold Fields.keys at hk; rw [hk]; exact hw.1, ?_⟩
          intro kv' hkv'
          obtain ⟨kv, hkv, hk1, hopt⟩ := forall₂_mem_right hr' hkv'
          rw [hk1]
          exact ihf.opt _ _ _ _ _ (C08P.rawF_Raw (hr kv hkv)) (hw.2 kv hkv) hopt
        | _ => exact optimize_wit_rawF ihf (by simpa [C08P.Raw] using hr) hw h
      · intro u ms t' vs hr hw h
        exact optimizeUnion_wit_step ihf.opt
          (fun ms t' vs hr hw h => optimize_list_union ih hr hw h)
          (fun ms t' vs hr hw h => optimize_dict_union ih hr hw h) hr hw h

/-- **`optimize_wit`**: on raw metadata (a merged model, or a field type as `_detect_type` /
    `merge_field_sets` build it), whatever the fuel and the comparison environment, `optimize_type` keeps a
    witnessed type witnessed — under the same licences, over the same values. -/
theorem optimize_wit {cfg : GenCfg} {e : EqEnv} {acc : Accepts} {fuel : Nat} {a u : Prop} {t t' : Ty}
    {vs : List Json} (hr : C08P.Raw cfg t = true) (hw : Wit acc a u t vs)
    (h : optimize cfg e fuel t = .ok t') : Wit acc a u t' vs :=
  (optWit_all cfg e acc fuel fuel (Nat.le_refl _)).opt a u t t' vs hr hw h

/-- **`optimizeUnion_wit`**: `_optimize_union` on a raw member list whose members are witnessed, except
    possibly for an `Unknown` member licensed by `u` (an observed empty container): the result is witnessed,
    and it is `Unknown` / `Optional[Unknown]` only under that licence. -/
theorem optimizeUnion_wit {cfg : GenCfg} {e : EqEnv} {acc : Accepts} {fuel : Nat} {u : Prop} {ms : List Ty}
    {t' : Ty} {vs : List Json} (hr : C08P.rawD cfg (.union ms) = true) (hw : ∀ m ∈ ms, WitM acc u m vs)
    (h : optimizeUnion cfg e fuel ms = .ok t') : Wit acc False u t' vs :=
  (optWit_all cfg e acc fuel fuel (Nat.le_refl _)).uni u ms t' vs hr hw h

/-! ### `generate` -/

theorem convert_setOK {cfg : GenCfg} {o : GenOracles} {samples : List Json} {v : Json} {fs : Fields}
    (hv : v ∈ samples) (h : convert cfg o v = .ok fs) :
    SetOK o.accepts samples fs ∧ ∀ kv ∈ fs, C08P.rawD cfg kv.2 = true := by
  cases v with
  | obj kvs =>
    simp only [convert] at h
    have hraw := C08P.convertFields_rawD cfg o kvs fs h
    obtain ⟨hk, hall⟩ := convertFields_wit cfg o kvs fs h
    have hsub : ∀ x ∈ [Json.obj kvs], x ∈ samples := by intro x hx; simp at hx; subst hx; exact hv
    refine ⟨⟨⟨kvs, hv, fun k hk' => by unfold Fields.keys; rw [hk]; exact hk'⟩, ?_⟩, hraw⟩
    intro kv hkv
    refine ⟨C08P.rawD_not_opt (hraw kv hkv), ?_⟩
    have := hall kv hkv
    rw [← fieldVals_single_obj] at this
    exact Wit.mono _ id id (fieldVals_mono hsub) this
  | _ => simp [convert] at h

/-- **`generate_wit`**: the root model `generate` infers is witnessed by the samples. -/
theorem generate_wit {cfg : GenCfg} {o : GenOracles} {samples : List Json} {t : Ty}
    (hne : samples ≠ []) (h : generate cfg o samples = .ok t) : Wit o.accepts False False t samples := by
  unfold generate at h
  simp only [bind, Except.bind] at h
  split at h
  · cases h
  · rename_i sets hsets
    split at h
    · cases h
    · rename_i fields hfields
      have hall : ∀ m ∈ sets, SetOK o.accepts samples m ∧ ∀ kv ∈ m, C08P.rawD cfg kv.2 = true := by
        intro m hm
        obtain ⟨v, hv, hc⟩ := C08P.mapM_mem_inv _ _ _ hsets m hm
        exact convert_setOK hv hc
      have hsne : sets ≠ [] := by
        intro e
        have := C08P.mapM_length _ _ _ hsets
        rw [e] at this
        exact hne (List.eq_nil_of_length_eq_zero this.symm)
      have hraw : C08P.AllRawF cfg fields :=
        C08P.mergeFieldSets_rawF (fun m hm => (hall m hm).2) hfields
      have hw : Wit o.accepts False False (.obj fields) samples :=
        mergeFieldSets_wit hfields hsne (fun m hm => (hall m hm).1)
      exact optimize_wit hraw.Raw hw h

end J2M.Tight
