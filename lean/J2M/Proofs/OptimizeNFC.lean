/-
  `optimize` maps raw metadata to the *canonical* normal form `nfc` (so that a second pass is the identity).
-/
import J2M.Proofs.OptimizeNF
import J2M.Proofs.OptimizeIdem
namespace J2M.C08P

/-! ### sorted literal sets -/

def SSorted (l : List String) : Prop := l.Pairwise (· < ·)

theorem insertUniq_sorted (x : String) (l : List String) (h : SSorted l) : SSorted (insertUniq x l) := by
  induction l with
  | nil => simp [insertUniq, SSorted]
  | cons y ys ih =>
    unfold SSorted at h ih ⊢
    rw [List.pairwise_cons] at h
    simp only [insertUniq]
    split
    · rename_i hxy
      rw [List.pairwise_cons]
      refine ⟨?_, List.pairwise_cons.mpr h⟩
      intro z hz
      rcases List.mem_cons.mp hz with rfl | hz
      · exact hxy
      · exact String.lt_trans hxy (h.1 z hz)
    · rename_i hxy
      split
      · exact List.pairwise_cons.mpr h
      · rename_i hne
        have hyx : y < x := Std.lt_of_le_of_ne (String.not_lt.mp hxy) (by
          intro e; apply hne; simp [e])
        rw [List.pairwise_cons]
        refine ⟨?_, ih h.2⟩
        intro z hz
        rcases insertUniq_mem x ys z hz with rfl | hz'
        · exact hyx
        · exact h.1 z hz'

theorem fold_insertUniq_sorted (vs acc : List String) (h : SSorted acc) :
    SSorted (vs.foldl (fun acc x => insertUniq x acc) acc) := by
  induction vs generalizing acc with
  | nil => exact h
  | cons x vs ih => exact ih _ (insertUniq_sorted x acc h)

theorem insertUniq_append (x : String) (acc : List String) (h : ∀ y ∈ acc, y < x) :
    insertUniq x acc = acc ++ [x] := by
  induction acc with
  | nil => rfl
  | cons y ys ih =>
    have hyx : y < x := h y (by simp)
    have h1 : ¬ x < y := String.lt_asymm hyx
    have h2 : (x == y) = false := by
      simp only [beq_eq_false_iff_ne, ne_eq]
      intro e; subst e; exact String.lt_irrefl _ hyx
    simp only [insertUniq, h1, ↓reduceIte, h2, Bool.false_eq_true, List.cons_append, List.cons.injEq,
      true_and]
    exact ih (fun z hz => h z (by simp [hz]))

theorem fold_sorted_id (l acc : List String) (h : SSorted (acc ++ l)) :
    l.foldl (fun acc x => insertUniq x acc) acc = acc ++ l := by
  induction l generalizing acc with
  | nil => simp
  | cons x l ih =>
    rw [List.foldl_cons]
    unfold SSorted at h
    have hx : ∀ y ∈ acc, y < x := by
      intro y hy
      rw [List.pairwise_append] at h
      exact h.2.2 y hy x (by simp)
    rw [insertUniq_append x acc hx, ih]
    · simp
    · unfold SSorted; simpa using h

theorem handleType_lits_sorted (st : UState) (t : Ty) (h : SSorted st.lits) :
    SSorted (handleType st t).lits := by
  by_cases hl : t.isLit = true
  · cases t <;> simp [Ty.isLit] at hl
    rename_i o vs
    cases hu : st.useLit <;> cases o <;> simp [handleType, Ty.isStr, hu, h]
    exact fold_insertUniq_sorted vs st.lits h
  · rw [handleType_lits_nonlit st t (by simpa using hl)]; exact h

theorem fold_lits_sorted (ts : List Ty) (st : UState) (h : SSorted st.lits) :
    SSorted (ts.foldl handleType st).lits := by
  induction ts generalizing st with
  | nil => exact h
  | cons t ts ih => exact ih _ (handleType_lits_sorted st t h)

/-- the literal folded by `DUnion` is stable -/
theorem mkUM_lit_stable (c : LitCfg) (ts : List Ty) (o : Bool) (vs : List String)
    (hm : Ty.lit o vs ∈ mkUnionMembers c ts) : o = false ∧ litStable c vs = true := by
  have inv := foldSt_inv ts
  have hs : SSorted (foldSt ts).lits := fold_lits_sorted _ _ (by simp [SSorted])
  rw [mkUnionMembers_eq] at hm
  have hnotU : Ty.lit o vs ∉ (foldSt ts).unique.reverse := by
    intro h; have := inv.noLit _ (by simpa using h); simp [Ty.isLit] at this
  rcases finishU_cases c (foldSt ts) with ⟨hne, _, hmk, heq⟩ | ⟨heq, _⟩ | ⟨heq, _⟩
  · rw [heq, List.mem_append] at hm
    rcases hm with h | h
    · exact absurd h hnotU
    · simp at h
      obtain ⟨rfl, rfl⟩ := h
      refine ⟨rfl, ?_⟩
      unfold litStable
      have h1 := fold_sorted_id (foldSt ts).lits [] (by simpa using hs)
      simp only [List.nil_append] at h1
      rw [h1]
      unfold mkLit at hmk
      split at hmk
      · cases hmk
      · rename_i hc
        simp only [beq_self_eq_true, Bool.true_and, Bool.and_eq_true, Bool.not_eq_true',
          List.isEmpty_eq_false_iff]
        exact ⟨hne, by simpa using hc⟩
  · rw [heq] at hm; exact absurd hm hnotU
  · rw [heq, List.mem_append] at hm
    rcases hm with h | h
    · exact absurd h hnotU
    · simp at h

/-! ### what `nfc` adds to `nf` -/

mutual
/-- the part of `nfc` that is not in `nf` -/
def nfx (cfg : GenCfg) : Ty → Bool
  | .ser k => cfg.reg.types.contains k
  | .lit _ vs => litStable cfg.lit vs
  | .list t | .dict t => !t.isOptNull && nfx cfg t
  | .opt t => nfx cfg t
  | .union ts => canonOrder ts && nfxList cfg ts
  | .tuple ts => nfxList cfg ts
  | .obj fs => nodupStr (fs.map (·.1)) && nfxFields cfg fs
  | _ => true
def nfxList (cfg : GenCfg) : List Ty → Bool
  | [] => true
  | t :: ts => nfx cfg t && nfxList cfg ts
def nfxFields (cfg : GenCfg) : List (String × Ty) → Bool
  | [] => true
  | (_, t) :: fs => nfx cfg t && nfxFields cfg fs
end

theorem nfxList_iff (cfg : GenCfg) (ts : List Ty) : nfxList cfg ts = true ↔ ∀ t ∈ ts, nfx cfg t = true := by
  induction ts <;> simp_all [nfxList]

theorem nfxFields_iff (cfg : GenCfg) (fs : List (String × Ty)) :
    nfxFields cfg fs = true ↔ ∀ kv ∈ fs, nfx cfg kv.2 = true := by
  induction fs with
  | nil => simp [nfxFields]
  | cons kv fs ih => obtain ⟨k, t⟩ := kv; simp_all [nfxFields]

mutual
theorem nfc_of_nf_nfx (cfg : GenCfg) : ∀ t, nf t = true → nfx cfg t = true → nfc cfg t = true
  | .int, _, _ | .float, _, _ | .bool, _, _ | .str, _, _ | .null, _, _ | .unknown, _, _ | .ptr _, _, _ => by
    simp [nfc]
  | .ser k, _, h => by simpa [nfc, nfx] using h
  | .lit ov vs, h1, h2 => by
    simp only [nf, Bool.and_eq_true, Bool.not_eq_true'] at h1
    simp only [nfx] at h2
    simp [nfc, h1.1, h2]
  | .list t, h1, h2 | .dict t, h1, h2 => by
    simp only [nf] at h1
    simp only [nfx, Bool.and_eq_true] at h2
    simp only [nfc, Bool.and_eq_true]
    exact ⟨h2.1, nfc_of_nf_nfx cfg t h1 h2.2⟩
  | .opt t, h1, h2 => by
    simp only [nf, Bool.and_eq_true] at h1
    simp only [nfx] at h2
    simp only [nfc, Bool.and_eq_true]
    exact ⟨h1.1, nfc_of_nf_nfx cfg t h1.2 h2⟩
  | .union ts, h1, h2 => by
    simp only [nf, Bool.and_eq_true] at h1
    simp only [nfx, Bool.and_eq_true] at h2
    simp only [nfc, Bool.and_eq_true]
    exact ⟨⟨h1.1, h2.1⟩, nfcList_of cfg ts h1.2 h2.2⟩
  | .tuple ts, h1, h2 => by
    simp only [nf] at h1
    simp only [nfx] at h2
    simp only [nfc]
    exact nfcList_of cfg ts h1 h2
  | .obj fs, h1, h2 => by
    simp only [nf] at h1
    simp only [nfx, Bool.and_eq_true] at h2
    simp only [nfc, Bool.and_eq_true]
    exact ⟨h2.1, nfcFields_of cfg fs h1 h2.2⟩
theorem nfcList_of (cfg : GenCfg) : ∀ ts, nfList ts = true → nfxList cfg ts = true → nfcList cfg ts = true
  | [], _, _ => by simp [nfcList]
  | t :: ts, h1, h2 => by
    simp only [nfList, Bool.and_eq_true] at h1
    simp only [nfxList, Bool.and_eq_true] at h2
    simp only [nfcList, Bool.and_eq_true]
    exact ⟨nfc_of_nf_nfx cfg t h1.1 h2.1, nfcList_of cfg ts h1.2 h2.2⟩
theorem nfcFields_of (cfg : GenCfg) : ∀ fs, nfFields fs = true → nfxFields cfg fs = true → nfcFields cfg fs = true
  | [], _, _ => by simp [nfcFields]
  | (_, t) :: fs, h1, h2 => by
    simp only [nfFields, Bool.and_eq_true] at h1
    simp only [nfxFields, Bool.and_eq_true] at h2
    simp only [nfcFields, Bool.and_eq_true]
    exact ⟨nfc_of_nf_nfx cfg t h1.1 h2.1, nfcFields_of cfg fs h1.2 h2.2⟩
end

/-! ### the extra input conditions -/

mutual
/-- extra conditions on raw metadata needed for the canonical form: non-overflowed literals are sorted and
    duplicate-free (`litStable`; true for `StringLiteral({s})` and for every literal `DUnion` builds), and
    inline objects have distinct keys (true for Python dicts) -/
def rawK (cfg : GenCfg) : Ty → Bool
  | .lit ov vs => ov || litStable cfg.lit vs
  | .list t | .dict t | .opt t => rawK cfg t
  | .union ts | .tuple ts => rawKList cfg ts
  | .obj fs => nodupStr (fs.map (·.1)) && rawKFields cfg fs
  | _ => true
def rawKList (cfg : GenCfg) : List Ty → Bool
  | [] => true
  | t :: ts => rawK cfg t && rawKList cfg ts
def rawKFields (cfg : GenCfg) : List (String × Ty) → Bool
  | [] => true
  | (_, t) :: fs => rawK cfg t && rawKFields cfg fs
end

theorem rawKList_iff (cfg : GenCfg) (ts : List Ty) : rawKList cfg ts = true ↔ ∀ t ∈ ts, rawK cfg t = true := by
  induction ts <;> simp_all [rawKList]

theorem rawKFields_iff (cfg : GenCfg) (fs : List (String × Ty)) :
    rawKFields cfg fs = true ↔ ∀ kv ∈ fs, rawK cfg kv.2 = true := by
  induction fs with
  | nil => simp [rawKFields]
  | cons kv fs ih => obtain ⟨k, t⟩ := kv; simp_all [rawKFields]

theorem flatten_rawK {cfg : GenCfg} (ts : List Ty) (h : ∀ t ∈ ts, rawK cfg t = true) :
    ∀ t ∈ flattenUnion ts, rawK cfg t = true := by
  fun_induction flattenUnion ts with
  | case1 => simp
  | case2 us rest ih1 ih2 =>
    intro t ht
    rw [List.mem_append] at ht
    rcases ht with ht | ht
    · have : rawK cfg (.union us) = true := h _ (by simp)
      simp only [rawK] at this
      exact ih1 ((rawKList_iff cfg us).mp this) t ht
    · exact ih2 (fun u hu => h u (by simp [hu])) t ht
  | case3 rest u hne ih =>
    intro t ht
    rcases List.mem_cons.mp ht with rfl | ht
    · exact h _ (by simp)
    · exact ih (fun u hu => h u (by simp [hu])) t ht

theorem mkUM_rawK {cfg : GenCfg} (ts : List Ty) (h : ∀ t ∈ ts, rawK cfg t = true) :
    ∀ m ∈ mkUnionMembers cfg.lit ts, rawK cfg m = true := by
  intro m hm
  rcases mem_mkUM hm with ⟨h1, _⟩ | rfl | ⟨vs, rfl, _, _⟩
  · exact flatten_rawK ts h m h1
  · simp [rawK]
  · simp only [rawK, Bool.false_or]
    exact (mkUM_lit_stable cfg.lit ts false vs hm).2

theorem collapse1_rawK {cfg : GenCfg} (ts : List Ty) (h : ∀ t ∈ ts, rawK cfg t = true) :
    rawK cfg (collapse1 (mkUnionMembers cfg.lit ts)) = true := by
  have hm := mkUM_rawK ts h
  generalize mkUnionMembers cfg.lit ts = us at hm
  unfold collapse1
  split
  · exact hm _ (by simp)
  · simp only [rawK]; exact (rawKList_iff cfg us).mpr hm

theorem mkUnion_rawK {cfg : GenCfg} (ts : List Ty) (h : ∀ t ∈ ts, rawK cfg t = true) :
    rawK cfg (mkUnion cfg.lit ts) = true := by
  simp only [mkUnion, rawK]; exact (rawKList_iff cfg _).mpr (mkUM_rawK ts h)

theorem unionMembers_rawK {cfg : GenCfg} {t : Ty} (h : rawK cfg t = true) :
    ∀ u ∈ t.unionMembers, rawK cfg u = true := by
  cases t with
  | union ts => simp only [rawK] at h; exact (rawKList_iff cfg ts).mp h
  | _ => simpa [Ty.unionMembers] using h

theorem merged_rawK {cfg : GenCfg} {a b : Ty} (ha : rawK cfg a = true) (hb : rawK cfg b = true) :
    rawK cfg (collapse1 (mkUnionMembers cfg.lit (a.unionMembers ++ b.unionMembers))) = true := by
  apply collapse1_rawK
  intro t ht
  rcases List.mem_append.mp ht with h | h
  · exact unionMembers_rawK ha t h
  · exact unionMembers_rawK hb t h

/-! keys -/

theorem Fields.keys_set (fs : Fields) (k : String) (v : Ty) :
    (Fields.set fs k v).keys = if k ∈ fs.keys then fs.keys else fs.keys ++ [k] := by
  induction fs with
  | nil => simp [Fields.set, Fields.keys]
  | cons kv fs ih =>
    obtain ⟨k', v'⟩ := kv
    simp only [Fields.set]
    by_cases hk : k' = k
    · subst hk; simp [Fields.keys]
    · have : (k' == k) = false := by simpa using hk
      simp only [this, Bool.false_eq_true, ↓reduceIte]
      simp only [Fields.keys, List.map_cons] at ih ⊢
      rw [ih]
      have hk' : ¬ k = k' := fun e => hk e.symm
      by_cases hm : k ∈ fs.map (·.1) <;> simp [hm, hk']

theorem Fields.nodup_set {fs : Fields} (h : fs.keys.Nodup) (k : String) (v : Ty) :
    (Fields.set fs k v).keys.Nodup := by
  rw [Fields.keys_set]
  split
  · exact h
  · rename_i hk
    rw [List.nodup_append]
    refine ⟨h, by simp, ?_⟩
    intro a ha b hb; simp at hb; subst hb
    intro e; subst e; exact hk ha

/-- keys distinct and values `rawK` -/
def AllRawK (cfg : GenCfg) (fs : Fields) : Prop := fs.keys.Nodup ∧ ∀ kv ∈ fs, rawK cfg kv.2 = true

theorem AllRawK.set {cfg : GenCfg} {fs : Fields} (h : AllRawK cfg fs) (k : String) {v : Ty}
    (hv : rawK cfg v = true) : AllRawK cfg (Fields.set fs k v) := by
  refine ⟨Fields.nodup_set h.1 k v, ?_⟩
  intro kv hkv
  rcases Fields.mem_set hkv with h' | rfl
  · exact h.2 kv h'
  · exact hv

theorem mergeOne_rawK {cfg : GenCfg} {e : EqEnv} {first : Bool} {fields fields' : Fields} {name : String}
    {field : Ty} (hf : AllRawK cfg fields) (hd : rawK cfg field = true)
    (h : mergeOne cfg.lit e first fields name field = .ok fields') : AllRawK cfg fields' := by
  unfold mergeOne at h
  split at h
  · simp only [pure, Except.pure, Except.ok.injEq] at h
    subst h
    apply hf.set
    split
    · exact hd
    · simpa [rawK] using hd
  · rename_i orig hget
    obtain ⟨k', hmem⟩ := Fields.get?_mem hget
    have horig : rawK cfg orig = true := hf.2 _ hmem
    split at h
    · rename_i origInner
      have hin : rawK cfg origInner = true := by simpa [rawK] using horig
      simp only [bind, Except.bind] at h
      split at h
      · cases h
      · split at h
        · simp only [pure, Except.pure, Except.ok.injEq] at h; subst h; exact hf
        · split at h
          · cases h
          · split at h
            · simp only [pure, Except.pure, Except.ok.injEq] at h; subst h; exact hf
            · simp only [pure, Except.pure, Except.ok.injEq] at h; subst h
              apply hf.set
              simp only [rawK]
              exact merged_rawK hd hin
    · simp only [bind, Except.bind] at h
      split at h
      · cases h
      · split at h
        · simp only [pure, Except.pure, Except.ok.injEq] at h; subst h; exact hf
        · split at h
          · cases h
          · split at h
            · simp only [pure, Except.pure, Except.ok.injEq] at h; subst h
              apply hf.set
              exact hd
            · simp only [pure, Except.pure, Except.ok.injEq] at h; subst h
              apply hf.set
              exact merged_rawK hd horig

theorem foldlM_mergeOne_rawK {cfg : GenCfg} {e : EqEnv} {first : Bool} (model : Fields)
    (hmodel : ∀ kv ∈ model, rawK cfg kv.2 = true) :
    ∀ (fields fields' : Fields), AllRawK cfg fields →
      model.foldlM (fun fs (kv : String × Ty) => mergeOne cfg.lit e first fs kv.1 kv.2) fields = .ok fields' →
      AllRawK cfg fields' := by
  induction model with
  | nil =>
    intro fields fields' hf h
    simp only [List.foldlM_nil, pure, Except.pure, Except.ok.injEq] at h
    subst h; exact hf
  | cons kv model ih =>
    intro fields fields' hf h
    rw [List.foldlM_cons] at h
    simp only [bind, Except.bind] at h
    split at h
    · cases h
    · rename_i f1 h1
      exact ih (fun kv' h' => hmodel kv' (by simp [h'])) f1 fields'
        (mergeOne_rawK hf (hmodel kv (by simp)) h1) h

theorem keys_map_eq (f1 : Fields) (g : String × Ty → String × Ty) (hg : ∀ kv, (g kv).1 = kv.1) :
    Fields.keys (f1.map g) = Fields.keys f1 := by
  simp only [Fields.keys, List.map_map]
  apply List.map_congr_left
  intro kv _; exact hg kv

theorem mergeStep_rawK {cfg : GenCfg} {e : EqEnv} {first : Bool} {fields fields' model : Fields}
    (hf : AllRawK cfg fields) (hmodel : ∀ kv ∈ model, rawK cfg kv.2 = true)
    (h : mergeStep cfg.lit e first fields model = .ok fields') : AllRawK cfg fields' := by
  unfold mergeStep at h
  simp only [bind, Except.bind] at h
  split at h
  · cases h
  · rename_i f1 h1
    have hf1 := foldlM_mergeOne_rawK model hmodel fields f1 hf h1
    simp only [pure, Except.pure, Except.ok.injEq] at h
    subst h
    constructor
    · show (Fields.keys (f1.map _)).Nodup
      rw [keys_map_eq]
      · exact hf1.1
      · intro kv; split <;> rfl
    · intro kv hkv
      simp only [List.mem_map] at hkv
      obtain ⟨kv0, hkv0, rfl⟩ := hkv
      split
      · simpa [rawK] using hf1.2 kv0 hkv0
      · exact hf1.2 kv0 hkv0

theorem mergeGo_rawK {cfg : GenCfg} {e : EqEnv} (sets : List Fields)
    (hsets : ∀ m ∈ sets, ∀ kv ∈ m, rawK cfg kv.2 = true) :
    ∀ (first : Bool) (fields fields' : Fields), AllRawK cfg fields →
      mergeFieldSets.go cfg.lit e first fields sets = .ok fields' → AllRawK cfg fields' := by
  induction sets with
  | nil =>
    intro first fields fields' hf h
    simp only [mergeFieldSets.go, pure, Except.pure, Except.ok.injEq] at h
    subst h; exact hf
  | cons m ms ih =>
    intro first fields fields' hf h
    simp only [mergeFieldSets.go, bind, Except.bind] at h
    split at h
    · cases h
    · rename_i f1 h1
      exact ih (fun m' hm' => hsets m' (by simp [hm'])) false f1 fields'
        (mergeStep_rawK hf (hsets m (by simp)) h1) h

theorem mergeFieldSets_rawK {cfg : GenCfg} {e : EqEnv} {sets : List Fields} {fields' : Fields}
    (hsets : ∀ m ∈ sets, ∀ kv ∈ m, rawK cfg kv.2 = true)
    (h : mergeFieldSets cfg.lit e sets = .ok fields') : AllRawK cfg fields' :=
  mergeGo_rawK sets hsets true [] fields' ⟨by simp [Fields.keys], fun _ h => by cases h⟩ h

theorem AllRawK.rawK {cfg : GenCfg} {fs : Fields} (h : AllRawK cfg fs) : rawK cfg (.obj fs) = true := by
  simp only [C08P.rawK, Bool.and_eq_true]
  exact ⟨(nodupStr_iff _).mpr h.1, (rawKFields_iff cfg fs).mpr h.2⟩

/-! ### canonical order as a pairwise relation -/

def RC (a b : Ty) : Prop := a.cls < b.cls ∨ (a.cls = 0 ∧ b.cls = 0)

theorem canonOrder_iff (l : List Ty) : canonOrder l = true ↔ l.Pairwise RC := by
  induction l with
  | nil => simp [canonOrder]
  | cons t ts ih =>
    simp only [canonOrder, Bool.and_eq_true, List.all_eq_true, Bool.or_eq_true, decide_eq_true_eq,
      beq_iff_eq, List.pairwise_cons, ih, RC]

theorem pairwise_of_all {α} (R : α → α → Prop) (P : α → Prop) (l : List α) (hP : ∀ a ∈ l, P a)
    (hR : ∀ a b, P a → P b → R a b) : l.Pairwise R := by
  induction l with
  | nil => exact List.Pairwise.nil
  | cons x l ih =>
    rw [List.pairwise_cons]
    exact ⟨fun b hb => hR x b (hP x (by simp)) (hP b (by simp [hb])),
      ih (fun a ha => hP a (by simp [ha]))⟩

theorem pairwise_short {α} (R : α → α → Prop) (l : List α) (h : l.length ≤ 1) : l.Pairwise R := by
  match l, h with
  | [], _ => exact List.Pairwise.nil
  | [a], _ => simp

theorem cls_of_kind (t : Ty) :
    (t.kindN = 13 → t.cls = 1) ∧ (t.kindN = 8 → t.cls = 2) ∧ (t.kindN = 9 → t.cls = 3) ∧
    (t.kindN = 3 ∨ t.kindN = 6 → t.cls = 4) ∧ (t.kindN = 7 → t.cls = 5) ∧
    (t.kindN = 0 ∨ t.kindN = 1 ∨ t.kindN = 2 ∨ t.kindN = 4 ∨ t.kindN = 5 → t.cls = 0) := by
  cases t <;> simp [Ty.kindN, Ty.cls]

theorem cls_nonlit (t : Ty) (h : t.isLit = false) : t.cls < 5 := by
  cases t <;> simp_all [Ty.cls, Ty.isLit]

theorem pairwise_assemble (A B C D E : List Ty) (hA : ∀ a ∈ A, a.cls = 0)
    (hB : B.length ≤ 1 ∧ ∀ a ∈ B, a.cls = 1) (hC : C.length ≤ 1 ∧ ∀ a ∈ C, a.cls = 2)
    (hD : D.length ≤ 1 ∧ ∀ a ∈ D, a.cls = 3) (hE : E.length ≤ 1 ∧ ∀ a ∈ E, a.cls = 4) :
    (A ++ B ++ C ++ D ++ E).Pairwise RC := by
  have pA : A.Pairwise RC := pairwise_of_all RC (fun a => a.cls = 0) A hA (fun a b ha hb => Or.inr ⟨ha, hb⟩)
  have clsAB : ∀ a ∈ A ++ B, a.cls ≤ 1 := by
    intro a ha; rcases List.mem_append.mp ha with h | h
    · rw [hA a h]; omega
    · rw [hB.2 a h]; omega
  have clsABC : ∀ a ∈ A ++ B ++ C, a.cls ≤ 2 := by
    intro a ha; rcases List.mem_append.mp ha with h | h
    · have := clsAB a h; omega
    · rw [hC.2 a h]; omega
  have clsABCD : ∀ a ∈ A ++ B ++ C ++ D, a.cls ≤ 3 := by
    intro a ha; rcases List.mem_append.mp ha with h | h
    · have := clsABC a h; omega
    · rw [hD.2 a h]; omega
  have pAB : (A ++ B).Pairwise RC := by
    rw [List.pairwise_append]
    refine ⟨pA, pairwise_short RC B hB.1, ?_⟩
    intro a ha b hb; left; rw [hA a ha, hB.2 b hb]; omega
  have pABC : (A ++ B ++ C).Pairwise RC := by
    rw [List.pairwise_append]
    refine ⟨pAB, pairwise_short RC C hC.1, ?_⟩
    intro a ha b hb; left; have := clsAB a ha; rw [hC.2 b hb]; omega
  have pABCD : (A ++ B ++ C ++ D).Pairwise RC := by
    rw [List.pairwise_append]
    refine ⟨pABC, pairwise_short RC D hD.1, ?_⟩
    intro a ha b hb; left; have := clsABC a ha; rw [hD.2 b hb]; omega
  rw [List.pairwise_append]
  refine ⟨pABCD, pairwise_short RC E hE.1, ?_⟩
  intro a ha b hb; left; have := clsABCD a ha; rw [hE.2 b hb]; omega

/-! ### every non-literal input's hash is recorded -/

theorem handleType_hashes_mono (st : UState) (t : Ty) (h : String) (hh : h ∈ st.hashes) :
    h ∈ (handleType st t).hashes := by
  rcases handleType_step st t with ⟨_, h2, _⟩ | ⟨_, _, _, h2⟩ <;> rw [h2]
  · exact hh
  · exact List.mem_cons_of_mem _ hh

theorem handleType_hash_in (st : UState) (t : Ty) (hl : t.isLit = false) :
    hashStr t ∈ (handleType st t).hashes := by
  rcases handleType_step st t with ⟨_, h2, h3⟩ | ⟨_, _, _, h2⟩ <;> rw [h2]
  · exact h3 hl
  · simp

theorem fold_hashes_mono (ts : List Ty) (st : UState) (h : String) (hh : h ∈ st.hashes) :
    h ∈ (ts.foldl handleType st).hashes := by
  induction ts generalizing st with
  | nil => exact hh
  | cons t ts ih => exact ih _ (handleType_hashes_mono st t h hh)

theorem fold_hashes_complete (ts : List Ty) (st : UState) (t : Ty) (ht : t ∈ ts) (hl : t.isLit = false) :
    hashStr t ∈ (ts.foldl handleType st).hashes := by
  induction ts generalizing st with
  | nil => cases ht
  | cons u ts ih =>
    rw [List.foldl_cons]
    rcases List.mem_cons.mp ht with rfl | ht
    · exact fold_hashes_mono ts _ _ (handleType_hash_in st t hl)
    · exact ih _ ht

/-! ### the final `DUnion` yields a canonical member list -/

theorem union_nfx {cfg : GenCfg} {tys : List Ty} (ok : TysOK cfg.lit tys)
    (hnu : ∀ t ∈ tys, t.isNull = false ∧ t.isUnknown = false)
    (hx : ∀ t ∈ tys, nfx cfg t = true)
    (hord : (tys.filter (fun t => !t.isLit)).Pairwise RC) :
    nfx cfg (collapse (mkUnionMembers cfg.lit tys)) = true ∧
      (collapse (mkUnionMembers cfg.lit tys)).isNull = false := by
  have hfl := flattenUnion_of_flat tys ok.flat
  have inv := foldSt_inv tys
  have hst : foldSt tys = tys.foldl handleType ⟨[], [], true, []⟩ := by unfold foldSt; rw [hfl]
  -- members
  have hmem : ∀ m ∈ mkUnionMembers cfg.lit tys, nfx cfg m = true ∧ m.isNull = false := by
    intro m hm
    rcases mem_mkUM hm with ⟨h1, _⟩ | rfl | ⟨vs, rfl, _, _⟩
    · rw [hfl] at h1; exact ⟨hx m h1, (hnu m h1).1⟩
    · simp [nfx, Ty.isNull]
    · exact ⟨by simpa [nfx] using (mkUM_lit_stable cfg.lit tys false vs hm).2, rfl⟩
  -- order
  have hsub := fold_unique_sublist ⟨[], [], true, []⟩ tys
  rw [← hst] at hsub
  simp only [List.reverse_nil, List.nil_append] at hsub
  have pU : ((foldSt tys).unique.reverse).Pairwise RC := hord.sublist hsub
  have hord' : (mkUnionMembers cfg.lit tys).Pairwise RC := by
    rw [mkUnionMembers_eq]
    rcases finishU_cases cfg.lit (foldSt tys) with ⟨_, _, _, heq⟩ | ⟨heq, _⟩ | ⟨heq, hns, _⟩
    · rw [heq, List.pairwise_append]
      refine ⟨pU, by simp, ?_⟩
      intro a ha b hb
      simp at hb; subst hb
      left
      have := cls_nonlit a (inv.noLit a (by simpa using ha))
      simpa [Ty.cls] using this
    · rw [heq]; exact pU
    · -- `str` is never added here
      exfalso
      have hnostr : ∀ t ∈ tys, t.isStr = false := by
        intro t ht
        cases hs : t.isStr with
        | false => rfl
        | true =>
          exfalso
          cases t <;> simp [Ty.isStr] at hs
          apply hns
          rw [hst]
          exact fold_hashes_complete tys _ _ ht rfl
      have hno := mkUM_no_new_str cfg.lit tys ok.flat
        (fun t ht => ⟨hnostr t ht, fun o vs e => ok.goodLit o vs (e ▸ ht)⟩) ok.oneLit
      apply hno
      rw [mkUnionMembers_eq, heq]; simp
  generalize hM : mkUnionMembers cfg.lit tys = M at *
  match M, hM with
  | [], _ => simp [collapse, nfx, Ty.isNull]
  | [x], _ => exact hmem x (by simp)
  | a :: b :: rest, hM =>
    refine ⟨?_, rfl⟩
    show nfx cfg (.union (a :: b :: rest)) = true
    simp only [nfx, Bool.and_eq_true]
    exact ⟨(canonOrder_iff _).mpr hord', (nfxList_iff cfg _).mpr (fun t ht => (hmem t ht).1)⟩

/-! ### `resolve` only returns given kinds -/

theorem dedup_fold_subset (l acc : List String) :
    ∀ k ∈ l.foldl (fun acc x => if acc.contains x then acc else acc ++ [x]) acc, k ∈ acc ∨ k ∈ l := by
  induction l generalizing acc with
  | nil => intro k hk; exact Or.inl hk
  | cons x l ih =>
    intro k hk
    rw [List.foldl_cons] at hk
    rcases ih _ k hk with h | h
    · split at h
      · exact Or.inl h
      · rcases List.mem_append.mp h with h | h
        · exact Or.inl h
        · simp at h; subst h; exact Or.inr (by simp)
    · exact Or.inr (by simp [h])

theorem dedupStr_subset (l : List String) : ∀ k ∈ dedupStr l, k ∈ l := by
  intro k hk
  rcases dedup_fold_subset l [] k hk with h | h
  · cases h
  · exact h

theorem resolve_subset (reg : StrRegistry) : ∀ (fuel : Nat) (ts r : List String),
    resolve reg ts fuel = .ok r → ∀ k ∈ r, k ∈ ts := by
  intro fuel
  induction fuel with
  | zero => intro ts r h; simp [resolve] at h
  | succ n ih =>
    intro ts r h k hk
    simp only [resolve] at h
    split at h
    · cases h; exact dedupStr_subset ts k hk
    · have := ih _ r h k hk
      exact dedupStr_subset ts k (List.mem_filter.mp this).1

theorem stageStr_inv_reg {reg : StrRegistry} {X o : List Ty} {S : List Ty}
    (hS : ∀ k, Ty.ser k ∈ S → reg.types.contains k = true) (h : stageStr reg X S = .ok o) :
    o = X ∨ o = X ++ [.str] ∨ ∃ k, o = X ++ [.ser k] ∧ reg.types.contains k = true := by
  unfold stageStr at h
  split at h
  · simp only [pure, Except.pure, Except.ok.injEq] at h; exact Or.inr (Or.inl h.symm)
  · split at h
    · simp only [pure, Except.pure, Except.ok.injEq] at h; exact Or.inl h.symm
    · simp only [bind, Except.bind] at h
      split at h
      · cases h
      · rename_i r hr
        split at h
        · rename_i k
          simp only [pure, Except.pure, Except.ok.injEq] at h
          refine Or.inr (Or.inr ⟨k, h.symm, ?_⟩)
          have := resolve_subset reg _ _ _ hr k (by simp)
          rw [List.mem_filterMap] at this
          obtain ⟨t, ht, hk⟩ := this
          cases t <;> simp at hk
          subst hk
          exact hS _ ht
        · cases h
        · simp only [pure, Except.pure, Except.ok.injEq] at h; exact Or.inr (Or.inl h.symm)

/-! ### shape of `_optimize_union` -/

/-- the shape of a successful `_optimize_union` run on a raw union -/
theorem union_shape {cfg : GenCfg} {e : EqEnv} {f : Nat} {ms : List Ty} {t' : Ty}
    (hr : rawD cfg (.union ms) = true) (h : optimizeUnion cfg e (f + 1) ms = .ok t') :
    ∃ O Tj Tl Td Ts,
      OPre cfg.lit O ∧ (∀ t ∈ O, t ∈ ms) ∧
      Tj.length ≤ 1 ∧ (∀ b ∈ Tj, ∃ m, AllRawF cfg m ∧ ((∀ t ∈ ms, rawK cfg t = true) → AllRawK cfg m) ∧
        optimize cfg e f (.obj m) = .ok b) ∧
      Tl.length ≤ 1 ∧ (∀ b ∈ Tl, ∃ u, rawD cfg u = true ∧ ((∀ t ∈ ms, rawK cfg t = true) → rawK cfg u = true) ∧
        optimize cfg e f (.list u) = .ok b) ∧
      Td.length ≤ 1 ∧ (∀ b ∈ Td, ∃ u, rawD cfg u = true ∧ ((∀ t ∈ ms, rawK cfg t = true) → rawK cfg u = true) ∧
        optimize cfg e f (.dict u) = .ok b) ∧
      Ts.length ≤ 1 ∧ (∀ b ∈ Ts, b = .str ∨ ∃ k, b = .ser k ∧ cfg.reg.types.contains k = true) ∧
      finishOpt cfg.lit (O ++ Tj ++ Tl ++ Td ++ Ts) = .ok t' := by
  obtain ⟨sh, hm⟩ := rawD_union hr
  have hreg : ∀ t ∈ ms, ∀ k, t = .ser k → cfg.reg.types.contains k = true := by
    intro t ht k hk
    have := hm t ht; rw [hk] at this; simpa [rawD] using this
  rw [optimizeUnion_body _ _ _ _ (raw_hidden sh hm), split_optFree cfg.reg ms {} (fun t ht => ⟨rawD_not_opt (hm t ht), hreg t ht⟩)] at h
  unfold unionBody at h
  simp only [List.nil_append, bind, Except.bind] at h
  split at h
  · cases h
  · rename_i o1 hmerge
    split at h
    · cases h
    · rename_i o4 hstr
      split at h
      · cases h
      · rename_i types hmap
        rw [stageList_eq, stageDict_eq] at hstr
        obtain ⟨Jx, ho1, hJx⟩ : ∃ Jx, o1 = stageInt (ms.filter isOtherCls) ++ Jx ∧
            (Jx = [] ∨ ∃ m, Jx = [.obj m] ∧ AllRawF cfg m ∧
              ((∀ t ∈ ms, rawK cfg t = true) → AllRawK cfg m)) := by
          rcases stageMerge_inv hmerge with ⟨_, h1⟩ | ⟨m, hm', h1⟩
          · exact ⟨[], by simpa using h1, Or.inl rfl⟩
          · refine ⟨[.obj m], h1, Or.inr ⟨m, rfl, ?_, ?_⟩⟩
            · apply mergeFieldSets_rawF _ hm'
              intro fs hfs kv hkv
              have := hm _ (mem_objFs hfs)
              simp only [rawD] at this
              exact (rawDFields_iff cfg fs).mp this kv hkv
            · intro hk
              apply mergeFieldSets_rawK _ hm'
              intro fs hfs kv hkv
              have := hk _ (mem_objFs hfs)
              simp only [rawK, Bool.and_eq_true] at this
              exact (rawKFields_iff cfg fs).mp this.2 kv hkv
        obtain ⟨Sx, ho4, hSx⟩ : ∃ Sx, o4 = o1 ++ (if (listEs ms).isEmpty then [] else [.list (mkUnion cfg.lit (listEs ms))])
            ++ (if (dictEs ms).isEmpty then [] else [.dict (mkUnion cfg.lit (dictEs ms))]) ++ Sx ∧
            (Sx = [] ∨ Sx = [.str] ∨ ∃ k, Sx = [.ser k] ∧ cfg.reg.types.contains k = true) := by
          have hS : ∀ k, Ty.ser k ∈ ms.filter isStrCls → cfg.reg.types.contains k = true :=
            fun k hk => hreg _ (List.mem_filter.mp hk).1 k rfl
          rcases stageStr_inv_reg hS hstr with h1 | h1 | ⟨k, h1, hk⟩
          · exact ⟨[], by simpa using h1, Or.inl rfl⟩
          · exact ⟨[.str], h1, Or.inr (Or.inl rfl)⟩
          · exact ⟨[.ser k], h1, Or.inr (Or.inr ⟨k, rfl, hk⟩)⟩
        subst ho1
        generalize hLx : (if (listEs ms).isEmpty then [] else [Ty.list (mkUnion cfg.lit (listEs ms))]) = Lx at ho4
        generalize hDx : (if (dictEs ms).isEmpty then [] else [Ty.dict (mkUnion cfg.lit (dictEs ms))]) = Dx at ho4
        subst ho4
        obtain ⟨T4, Ts, hT4, hTs, rfl⟩ := mapM_append_inv _ _ _ _ hmap
        obtain ⟨T3, Td, hT3, hTd, rfl⟩ := mapM_append_inv _ _ _ _ hT4
        obtain ⟨T2, Tl, hT2, hTl, rfl⟩ := mapM_append_inv _ _ _ _ hT3
        obtain ⟨To, Tj, hTo, hTj, rfl⟩ := mapM_append_inv _ _ _ _ hT2
        obtain ⟨hOPre, hOopt⟩ := oPre_of_raw sh hm
        cases f with
        | zero =>
          exfalso
          have hnil : ∀ (X T : List Ty), X.mapM (optimize cfg e 0) = .ok T → T = [] := by
            intro X T hX
            cases T with
            | nil => rfl
            | cons y T =>
              obtain ⟨x, _, hx⟩ := mapM_mem_inv _ _ _ hX y (by simp)
              simp [optimize] at hx
          rw [hnil _ _ hTo, hnil _ _ hTj, hnil _ _ hTl, hnil _ _ hTd, hnil _ _ hTs] at h
          simp [finishOpt] at h
        | succ f' =>
          have hTo' : To = stageInt (ms.filter isOtherCls) := by
            have := mapM_ok_id (optimize cfg e (f' + 1)) _ (fun t ht => hOopt t ht e f')
            rw [this] at hTo; cases hTo; rfl
          subst hTo'
          refine ⟨_, Tj, Tl, Td, Ts, hOPre, ?_, ?_, ?_, ?_, ?_, ?_, ?_, ?_, ?_, h⟩
          · intro t ht
            exact (List.mem_filter.mp ((stageInt_sublist _).subset ht)).1
          · rw [mapM_length _ _ _ hTj]
            rcases hJx with rfl | ⟨m, rfl, _⟩ <;> simp
          · intro b hb
            obtain ⟨x, hx, hxb⟩ := mapM_mem_inv _ _ _ hTj b hb
            rcases hJx with rfl | ⟨m, rfl, hmr, hmk⟩
            · cases hx
            · simp at hx; subst hx; exact ⟨m, hmr, hmk, hxb⟩
          · rw [mapM_length _ _ _ hTl, ← hLx]; split <;> simp
          · intro b hb
            obtain ⟨x, hx, hxb⟩ := mapM_mem_inv _ _ _ hTl b hb
            rw [← hLx] at hx
            split at hx
            · cases hx
            · rename_i hne
              simp at hx; subst hx
              refine ⟨_, ?_, ?_, hxb⟩
              · apply mkUnion_rawD
                · simpa using hne
                · intro t ht
                  have := hm _ (mem_listEs ht)
                  simpa [rawD] using this
              · intro hk
                apply mkUnion_rawK
                intro t ht
                have := hk _ (mem_listEs ht)
                simpa [rawK] using this
          · rw [mapM_length _ _ _ hTd, ← hDx]; split <;> simp
          · intro b hb
            obtain ⟨x, hx, hxb⟩ := mapM_mem_inv _ _ _ hTd b hb
            rw [← hDx] at hx
            split at hx
            · cases hx
            · rename_i hne
              simp at hx; subst hx
              refine ⟨_, ?_, ?_, hxb⟩
              · apply mkUnion_rawD
                · simpa using hne
                · intro t ht
                  have := hm _ (mem_dictEs ht)
                  simpa [rawD] using this
              · intro hk
                apply mkUnion_rawK
                intro t ht
                have := hk _ (mem_dictEs ht)
                simpa [rawK] using this
          · rw [mapM_length _ _ _ hTs]
            rcases hSx with rfl | rfl | ⟨k, rfl, _⟩ <;> simp
          · intro b hb
            obtain ⟨x, hx, hxb⟩ := mapM_mem_inv _ _ _ hTs b hb
            rcases hSx with rfl | rfl | ⟨k, rfl, hk⟩
            · cases hx
            · simp at hx; subst hx
              simp [optimize, pure, Except.pure] at hxb; exact Or.inl hxb.symm
            · simp at hx; subst hx
              simp [optimize, pure, Except.pure] at hxb; exact Or.inr ⟨k, hxb.symm, hk⟩

theorem nfx_leaf {cfg : GenCfg} {t : Ty}
    (hk : t.kindN = 0 ∨ t.kindN = 1 ∨ t.kindN = 2 ∨ t.kindN = 4 ∨ t.kindN = 5 ∨ t.kindN = 7)
    (hr : rawK cfg t = true) (hl : ∀ o vs, t = .lit o vs → o = false) : nfx cfg t = true := by
  cases t with
  | lit o vs =>
    have := hl o vs rfl; subst this
    simpa [rawK, nfx] using hr
  | int | float | bool | null | unknown => simp [nfx]
  | _ => simp [Ty.kindN] at hk

theorem isOptNull_kind (t : Ty) (h : t.isOptNull = true) : t.kindN = 10 := by
  cases t <;> simp [Ty.isOptNull] at h ⊢
  all_goals rfl

theorem isOptNull_opt (x : Ty) (h : x.isNull = false) : (Ty.opt x).isOptNull = false := by
  cases x <;> simp [Ty.isOptNull, Ty.isNull] at h ⊢

theorem types_kind {c : LitCfg} {O Tj Tl Td Ts : List Ty} (hO : OPre c O)
    (hj : Seg 13 13 Tj) (hl : Seg 8 8 Tl) (hd : Seg 9 9 Td) (hs : Seg 3 6 Ts) :
    ∀ t ∈ O ++ Tj ++ Tl ++ Td ++ Ts, t.kindN ≠ 10 := by
  intro t ht
  simp only [List.mem_append] at ht
  rcases ht with (((h | h) | h) | h) | h
  · have := hO.kind t h; omega
  · have := hj.kind t h; omega
  · have := hl.kind t h; omega
  · have := hd.kind t h; omega
  · have := hs.kind t h; omega

theorem types_order {c : LitCfg} {O Tj Tl Td Ts : List Ty} (hO : OPre c O)
    (hj : Seg 13 13 Tj) (hl : Seg 8 8 Tl) (hd : Seg 9 9 Td) (hs : Seg 3 6 Ts) :
    ((O ++ Tj ++ Tl ++ Td ++ Ts).filter (fun t => !t.isLit)).Pairwise RC := by
  have hsub : ((O ++ Tj ++ Tl ++ Td ++ Ts).filter (fun t => !t.isLit)).Sublist
      (O.filter (fun t => !t.isLit) ++ Tj ++ Tl ++ Td ++ Ts) := by
    simp only [List.filter_append]
    exact ((((List.Sublist.refl _).append List.filter_sublist).append List.filter_sublist).append
      List.filter_sublist).append List.filter_sublist
  refine List.Pairwise.sublist hsub ?_
  apply pairwise_assemble
  · intro a ha
    rw [List.mem_filter] at ha
    have hk := hO.kind a ha.1
    have hnl : a.kindN ≠ 7 := by
      have := ha.2; rw [isLit_kind] at this; simpa using this
    exact (cls_of_kind a).2.2.2.2.2 (by omega)
  · exact ⟨hj.len, fun a ha => (cls_of_kind a).1 (by have := hj.kind a ha; omega)⟩
  · exact ⟨hl.len, fun a ha => (cls_of_kind a).2.1 (by have := hl.kind a ha; omega)⟩
  · exact ⟨hd.len, fun a ha => (cls_of_kind a).2.2.1 (by have := hd.kind a ha; omega)⟩
  · exact ⟨hs.len, fun a ha => (cls_of_kind a).2.2.2.1 (hs.kind a ha)⟩

/-- the tail of `_optimize_union`, canonical version -/
theorem finish_nfx {cfg : GenCfg} {O Tj Tl Td Ts : List Ty} {t' : Ty} (hO : OPre cfg.lit O)
    (hj : Seg 13 13 Tj) (hl : Seg 8 8 Tl) (hd : Seg 9 9 Td) (hs : Seg 3 6 Ts)
    (hx : ∀ t ∈ O ++ Tj ++ Tl ++ Td ++ Ts, nfx cfg t = true)
    (h : finishOpt cfg.lit (O ++ Tj ++ Tl ++ Td ++ Ts) = .ok t') :
    nfx cfg t' = true ∧ t'.isOptNull = false := by
  have ok := tysOK_assemble hO hj hl hd hs
  have hkind := types_kind hO hj hl hd hs
  have hordT := types_order hO hj hl hd hs
  generalize htys : O ++ Tj ++ Tl ++ Td ++ Ts = types at h ok hx hkind hordT
  have hunk : (types.filter Ty.isUnknown).length ≤ 1 := by
    rw [← htys]
    simp only [List.filter_append]
    have e : ∀ {k k' : Nat} {seg : List Ty} (_ : Seg k k' seg), k ≠ 5 → k' ≠ 5 →
        seg.filter Ty.isUnknown = [] := by
      intro k k' seg hseg _ _
      apply filter_nil_of_kind; intro t ht; rw [isUnknown_kind]
      have := hseg.kind t ht; simp; omega
    rw [e hj (by omega) (by omega), e hl (by omega) (by omega), e hd (by omega) (by omega),
      e hs (by omega) (by omega)]
    simpa using hO.oneUnknown
  match types, h with
  | [], h => simp [finishOpt] at h
  | [t], h =>
    simp only [finishOpt, pure, Except.pure, Except.ok.injEq] at h
    subst h
    refine ⟨hx _ (by simp), ?_⟩
    cases hh : t.isOptNull with
    | false => rfl
    | true => exact absurd (isOptNull_kind t hh) (hkind t (by simp))
  | a :: b :: rest, h =>
    rw [finishOpt_ge2 _ _ (by simp)] at h
    simp only [Except.ok.injEq] at h
    have hsub1 := dropUnknown_sublist (a :: b :: rest)
    have hsub2 : ((dropUnknown (a :: b :: rest)).filter (fun t => !t.isNull)).Sublist (a :: b :: rest) :=
      (List.filter_sublist).trans hsub1
    have ok' := ok.sublist hsub2
    have hnu : ∀ t ∈ (dropUnknown (a :: b :: rest)).filter (fun t => !t.isNull),
        t.isNull = false ∧ t.isUnknown = false := by
      intro t ht
      rw [List.mem_filter] at ht
      exact ⟨by simpa using ht.2, dropUnknown_none _ hunk t ht.1⟩
    have hord := hordT.sublist (hsub2.filter (fun t => !t.isLit))
    obtain ⟨h1, h2⟩ := union_nfx ok' hnu (fun t ht => hx t (hsub2.subset ht)) hord
    obtain ⟨_, h3⟩ := union_nf ok' hnu
    subst h
    split
    · exact ⟨by simpa [nfx] using h1, isOptNull_opt _ h2⟩
    · refine ⟨h1, ?_⟩
      cases hh : (collapse (mkUnionMembers cfg.lit
          ((dropUnknown (a :: b :: rest)).filter (fun t => !t.isNull)))).isOptNull with
      | false => rfl
      | true =>
        have := isOptNull_kind _ hh
        rw [isOpt_kind] at h3
        simp [this] at h3

/-! ### the induction -/

/-- the induction hypothesis of the canonical-form proof -/
def NfxIH (cfg : GenCfg) (e : EqEnv) (f : Nat) : Prop :=
  ∀ t t', Raw cfg t = true → rawK cfg t = true → optimize cfg e f t = .ok t' →
    nfx cfg t' = true ∧ (rawD cfg t = true → t'.isOptNull = false)

theorem optimizeUnion_nfx_step {cfg : GenCfg} {e : EqEnv} {f : Nat} (ih : NfxIH cfg e f)
    {ms : List Ty} {t' : Ty} (hr : rawD cfg (.union ms) = true) (hk : rawK cfg (.union ms) = true)
    (h : optimizeUnion cfg e (f + 1) ms = .ok t') : nfx cfg t' = true ∧ t'.isOptNull = false := by
  have hkm : ∀ t ∈ ms, rawK cfg t = true := by
    simp only [rawK] at hk; exact (rawKList_iff cfg ms).mp hk
  obtain ⟨O, Tj, Tl, Td, Ts, hO, hOms, lj, hTj, ll, hTl, ld, hTd, ls, hTs, hfin⟩ := union_shape hr h
  have nfAll := (optimize_nf_all cfg e f).1
  have segJ : Seg 13 13 Tj := by
    refine ⟨lj, fun b hb => ?_, fun b hb => ?_⟩
    · obtain ⟨m, _, _, hopt⟩ := hTj b hb
      left; rw [optimize_kind hopt (by simp [Ty.kindN])]; rfl
    · obtain ⟨m, hmr, _, hopt⟩ := hTj b hb
      exact nfAll _ b hmr.Raw hopt
  have segL : Seg 8 8 Tl := by
    refine ⟨ll, fun b hb => ?_, fun b hb => ?_⟩
    · obtain ⟨u, _, _, hopt⟩ := hTl b hb
      left; rw [optimize_kind hopt (by simp [Ty.kindN])]; rfl
    · obtain ⟨u, hu, _, hopt⟩ := hTl b hb
      exact nfAll _ b (rawD_Raw (by simpa [rawD] using hu)) hopt
  have segD : Seg 9 9 Td := by
    refine ⟨ld, fun b hb => ?_, fun b hb => ?_⟩
    · obtain ⟨u, _, _, hopt⟩ := hTd b hb
      left; rw [optimize_kind hopt (by simp [Ty.kindN])]; rfl
    · obtain ⟨u, hu, _, hopt⟩ := hTd b hb
      exact nfAll _ b (rawD_Raw (by simpa [rawD] using hu)) hopt
  have segS : Seg 3 6 Ts := by
    refine ⟨ls, fun b hb => ?_, fun b hb => ?_⟩
    · rcases hTs b hb with rfl | ⟨k, rfl, _⟩ <;> simp [Ty.kindN]
    · rcases hTs b hb with rfl | ⟨k, rfl, _⟩ <;> simp [nf]
  have hx : ∀ t ∈ O ++ Tj ++ Tl ++ Td ++ Ts, nfx cfg t = true := by
    intro t ht
    simp only [List.mem_append] at ht
    rcases ht with (((h | h) | h) | h) | h
    · exact nfx_leaf (hO.kind t h) (hkm t (hOms t h)) (fun o vs e => (hO.goodLit o vs (e ▸ h)).1)
    · obtain ⟨m, hmr, hmk, hopt⟩ := hTj t h
      exact (ih _ t hmr.Raw (hmk hkm).rawK hopt).1
    · obtain ⟨u, hu, huk, hopt⟩ := hTl t h
      exact (ih _ t (rawD_Raw (by simpa [rawD] using hu)) (by simpa [rawK] using huk hkm) hopt).1
    · obtain ⟨u, hu, huk, hopt⟩ := hTd t h
      exact (ih _ t (rawD_Raw (by simpa [rawD] using hu)) (by simpa [rawK] using huk hkm) hopt).1
    · rcases hTs t h with rfl | ⟨k, rfl, hk'⟩
      · simp [nfx]
      · simpa [nfx] using hk'
  exact finish_nfx hO segJ segL segD segS hx hfin

theorem mapM_fields_keys {ε} (g : Ty → Except ε Ty) (fs fs' : List (String × Ty))
    (h : fs.mapM (fun (kv : String × Ty) => do let v ← g kv.2; pure (kv.1, v)) = .ok fs') :
    fs'.map (·.1) = fs.map (·.1) := by
  induction fs generalizing fs' with
  | nil => rw [mapM_nil_inv _ _ h]
  | cons kv fs ih =>
    obtain ⟨y, r', hy, hr', rfl⟩ := mapM_cons_inv _ kv fs fs' h
    simp only [bind, Except.bind] at hy
    split at hy
    · cases hy
    · simp only [pure, Except.pure, Except.ok.injEq] at hy
      subst hy
      simp [ih r' hr']

theorem not_optNull_of_kind (t : Ty) (h : t.kindN ≠ 10) : t.isOptNull = false := by
  cases hh : t.isOptNull with
  | false => rfl
  | true => exact absurd (isOptNull_kind t hh) h

/-- fields of an object (detect level or merged): keys kept, values canonical -/
theorem optimize_obj_nfx {cfg : GenCfg} {e : EqEnv} {f : Nat} (ih : NfxIH cfg e f)
    {fs : Fields} {t' : Ty} (hraw : ∀ kv ∈ fs, Raw cfg kv.2 = true)
    (hk : rawK cfg (.obj fs) = true) (h : optimize cfg e (f + 1) (.obj fs) = .ok t') :
    nfx cfg t' = true ∧ t'.isOptNull = false := by
  simp only [rawK, Bool.and_eq_true] at hk
  have hkf := (rawKFields_iff cfg fs).mp hk.2
  rw [optimize] at h
  simp only [bind, Except.bind] at h
  split at h
  · cases h
  · rename_i fs' hfs'
    simp only [pure, Except.pure, Except.ok.injEq] at h; subst h
    refine ⟨?_, rfl⟩
    simp only [nfx, Bool.and_eq_true]
    constructor
    · have := mapM_fields_keys (optimize cfg e f) fs fs' hfs'
      rw [this]; exact hk.1
    · rw [nfxFields_iff]
      intro kv' hkv'
      obtain ⟨kv, hkv, hopt⟩ := mapM_mem_inv _ _ _ hfs' kv' hkv'
      split at hopt
      · cases hopt
      · rename_i v hv
        simp only [pure, Except.pure, Except.ok.injEq] at hopt; subst hopt
        exact (ih kv.2 v (hraw kv hkv) (hkf kv hkv) hv).1

theorem optimize_nfx_rawF {cfg : GenCfg} {e : EqEnv} {f : Nat} (ih : NfxIH cfg e f)
    (ihU : ∀ ms t', rawD cfg (.union ms) = true → rawK cfg (.union ms) = true →
      optimizeUnion cfg e f ms = .ok t' → nfx cfg t' = true ∧ t'.isOptNull = false)
    {t t' : Ty} (hr : rawF cfg t = true) (hk : rawK cfg t = true)
    (h : optimize cfg e (f + 1) t = .ok t') :
    nfx cfg t' = true ∧ (rawD cfg t = true → t'.isOptNull = false) := by
  cases t with
  | int | float | bool | str | null | unknown =>
    simp [optimize, pure, Except.pure] at h; subst h; simp [nfx, Ty.isOptNull]
  | ser k =>
    simp [optimize, pure, Except.pure] at h; subst h
    exact ⟨by simpa [nfx, rawF, rawD] using hr, fun _ => rfl⟩
  | ptr _ | tuple _ => simp [rawF, rawD] at hr
  | lit ov vs =>
    rw [optimize] at h
    split at h
    · simp only [pure, Except.pure, Except.ok.injEq] at h; subst h; simp [nfx, Ty.isOptNull]
    · rename_i hc
      simp only [pure, Except.pure, Except.ok.injEq] at h; subst h
      simp only [Bool.or_eq_true, not_or, Bool.not_eq_true] at hc
      refine ⟨?_, fun _ => rfl⟩
      simpa [rawK, nfx, hc.1] using hk
  | list x =>
    have hx : rawD cfg x = true := by simpa [rawF, rawD] using hr
    rw [optimize] at h
    simp only [bind, Except.bind] at h
    split at h
    · cases h
    · rename_i y hy
      simp only [pure, Except.pure, Except.ok.injEq] at h; subst h
      obtain ⟨h1, h2⟩ := ih x y (rawD_Raw hx) (by simpa [rawK] using hk) hy
      exact ⟨by simp [nfx, h1, h2 hx], fun _ => rfl⟩
  | dict x =>
    have hx : rawD cfg x = true := by simpa [rawF, rawD] using hr
    rw [optimize] at h
    simp only [bind, Except.bind] at h
    split at h
    · cases h
    · rename_i y hy
      simp only [pure, Except.pure, Except.ok.injEq] at h; subst h
      obtain ⟨h1, h2⟩ := ih x y (rawD_Raw hx) (by simpa [rawK] using hk) hy
      exact ⟨by simp [nfx, h1, h2 hx], fun _ => rfl⟩
  | opt x =>
    have hx : rawD cfg x = true := by simpa [rawF] using hr
    rw [optimize] at h
    simp only [bind, Except.bind] at h
    split at h
    · cases h
    · rename_i y hy
      obtain ⟨h1, _⟩ := ih x y (rawD_Raw hx) (by simpa [rawK] using hk) hy
      refine ⟨?_, fun hd => by simp [rawD] at hd⟩
      split at h
      · simp only [pure, Except.pure, Except.ok.injEq] at h; subst h
        simpa [nfx] using h1
      · simp only [pure, Except.pure, Except.ok.injEq] at h; subst h
        simpa [nfx] using h1
  | union ms =>
    rw [optimize] at h
    obtain ⟨h1, h2⟩ := ihU ms t' (by simpa [rawF] using hr) hk h
    exact ⟨h1, fun _ => h2⟩
  | obj fs =>
    have hfs : ∀ kv ∈ fs, rawD cfg kv.2 = true := by
      have : rawD cfg (.obj fs) = true := by simpa [rawF] using hr
      simp only [rawD] at this
      exact (rawDFields_iff cfg fs).mp this
    obtain ⟨h1, h2⟩ := optimize_obj_nfx ih (fun kv hkv => rawD_Raw (hfs kv hkv)) hk h
    exact ⟨h1, fun _ => h2⟩

theorem optimize_nfx_all (cfg : GenCfg) (e : EqEnv) : ∀ fuel,
    NfxIH cfg e fuel ∧
    (∀ ms t', rawD cfg (.union ms) = true → rawK cfg (.union ms) = true →
      optimizeUnion cfg e fuel ms = .ok t' → nfx cfg t' = true ∧ t'.isOptNull = false) := by
  intro fuel
  induction fuel with
  | zero =>
    constructor
    · intro t t' _ _ h; simp [optimize] at h
    · intro ms t' _ _ h; simp [optimizeUnion] at h
  | succ f ih =>
    refine ⟨?_, fun ms t' hr hk h => optimizeUnion_nfx_step ih.1 hr hk h⟩
    intro t t' hr hk h
    cases t with
    | obj fs =>
      simp only [Raw, List.all_eq_true] at hr
      obtain ⟨h1, h2⟩ := optimize_obj_nfx ih.1 (fun kv hkv => rawF_Raw (hr kv hkv)) hk h
      exact ⟨h1, fun _ => h2⟩
    | _ => exact optimize_nfx_rawF ih.1 ih.2 (by simpa [Raw] using hr) hk h

/-- **canonical form**: on raw metadata with sorted literals and distinct keys, `optimize_type` returns a
    canonical normal form -/
theorem optimize_nfc_raw (cfg : GenCfg) (e : EqEnv) (fuel : Nat) (t t' : Ty)
    (hr : Raw cfg t = true) (hk : rawK cfg t = true) (h : optimize cfg e fuel t = .ok t') :
    nfc cfg t' = true :=
  nfc_of_nf_nfx cfg t' ((optimize_nf_all cfg e fuel).1 t t' hr h)
    ((optimize_nfx_all cfg e fuel).1 t t' hr hk h).1

/-! ### `detect` gives sorted literals and distinct keys -/

mutual
/-- object keys are distinct at every level (as in any Python dict) -/
def keysOk : Json → Bool
  | .arr xs => keysOkList xs
  | .obj kvs => nodupStr (kvs.map (·.1)) && keysOkKvs kvs
  | _ => true
def keysOkList : List Json → Bool
  | [] => true
  | x :: xs => keysOk x && keysOkList xs
def keysOkKvs : List (String × Json) → Bool
  | [] => true
  | (_, x) :: xs => keysOk x && keysOkKvs xs
end

theorem mkLit_single_rawK (cfg : GenCfg) (s : String) : rawK cfg (mkLit cfg.lit [s]) = true := by
  rcases mkLit_cases cfg.lit [s] with h | h
  · rw [h]; simp [rawK]
  · rw [h]
    simp only [rawK, Bool.false_or]
    unfold litStable
    unfold mkLit at h
    split at h
    · cases h
    · rename_i hc
      simp only [List.foldl_cons, List.foldl_nil, insertUniq, beq_self_eq_true, List.isEmpty_cons,
        Bool.not_false, Bool.and_self, Bool.true_and, Bool.not_eq_true']
      simpa using hc

theorem wrapElems_rawK {cfg : GenCfg} (wrap : Ty → Ty) (hw : ∀ t, rawK cfg t = true → rawK cfg (wrap t) = true)
    (ts : List Ty) (h : ∀ t ∈ ts, rawK cfg t = true) : rawK cfg (wrapElems cfg.lit wrap ts) = true := by
  rw [wrapElems_eq]
  split
  · exact hw _ (h _ (by simp))
  · exact hw _ (collapse1_rawK ts h)

theorem convertFields_keys (cfg : GenCfg) (o : GenOracles) :
    ∀ (xs : List (String × Json)) (fs : Fields), convertFields cfg o xs = .ok fs →
      fs.map (·.1) = xs.map (·.1)
  | [], fs, h => by
    simp only [convertFields, pure, Except.pure, Except.ok.injEq] at h; subst h; rfl
  | (k, x) :: xs, fs, h => by
    simp only [convertFields, bind, Except.bind] at h
    split at h
    · cases h
    · split at h
      · cases h
      · rename_i fs' hfs'
        simp only [pure, Except.pure, Except.ok.injEq] at h; subst h
        simp [convertFields_keys cfg o xs fs' hfs']

mutual
theorem detect_rawK (cfg : GenCfg) (o : GenOracles) :
    ∀ (cd : Bool) (v : Json) (t : Ty), keysOk v = true → detect cfg o cd v = .ok t → rawK cfg t = true
  | cd, .bool _, t, _, h | cd, .int _, t, _, h | cd, .float _, t, _, h | cd, .null, t, _, h => by
    simp only [detect, pure, Except.pure, Except.ok.injEq] at h; subst h; simp [rawK]
  | cd, .arr [], t, _, h => by
    simp only [detect, pure, Except.pure, Except.ok.injEq] at h; subst h; simp [rawK]
  | cd, .arr (x :: xs), t, hv, h => by
    simp only [detect, bind, Except.bind] at h
    split at h
    · cases h
    · rename_i ts hts
      simp only [pure, Except.pure, Except.ok.injEq] at h; subst h
      exact wrapElems_rawK .list (fun t ht => by simpa [rawK] using ht) ts
        (detectList_rawK cfg o (x :: xs) ts (by simpa [keysOk] using hv) hts)
  | cd, .obj [], t, _, h => by
    simp only [detect, pure, Except.pure, Except.ok.injEq] at h; subst h; simp [rawK]
  | cd, .obj (kv :: kvs), t, hv, h => by
    simp only [keysOk, Bool.and_eq_true] at hv
    simp only [detect, bind, Except.bind] at h
    split at h
    · cases h
    · rename_i rx hrx
      generalize (if rx = true then false else cd) = cd' at h
      cases cd'
      · simp only [Bool.false_eq_true, ↓reduceIte] at h
        split at h
        · cases h
        · rename_i ts hts
          simp only [pure, Except.pure, Except.ok.injEq] at h; subst h
          exact wrapElems_rawK .dict (fun t ht => by simpa [rawK] using ht) ts
            (detectVals_rawK cfg o (kv :: kvs) ts hv.2 hts)
      · simp only [↓reduceIte] at h
        split at h
        · cases h
        · rename_i fs hfs
          simp only [pure, Except.pure, Except.ok.injEq] at h; subst h
          simp only [rawK, Bool.and_eq_true]
          refine ⟨?_, (rawKFields_iff cfg fs).mpr (convertFields_rawK cfg o (kv :: kvs) fs hv.2 hfs)⟩
          rw [convertFields_keys cfg o _ fs hfs]; exact hv.1
  | cd, .str s, t, _, h => by
    simp only [detect, bind, Except.bind] at h
    split at h
    · cases h
    · split at h
      · simp only [pure, Except.pure, Except.ok.injEq] at h; subst h; simp [rawK]
      · simp only [pure, Except.pure, Except.ok.injEq] at h; subst h
        exact mkLit_single_rawK cfg s
theorem detectList_rawK (cfg : GenCfg) (o : GenOracles) :
    ∀ (xs : List Json) (ts : List Ty), keysOkList xs = true → detectList cfg o xs = .ok ts →
      ∀ t ∈ ts, rawK cfg t = true
  | [], ts, _, h => by
    simp only [detectList, pure, Except.pure, Except.ok.injEq] at h; subst h; simp
  | x :: xs, ts, hv, h => by
    simp only [keysOkList, Bool.and_eq_true] at hv
    simp only [detectList, bind, Except.bind] at h
    split at h
    · cases h
    · rename_i t ht
      split at h
      · cases h
      · rename_i ts' hts'
        simp only [pure, Except.pure, Except.ok.injEq] at h; subst h
        intro u hu
        rcases List.mem_cons.mp hu with rfl | hu
        · exact detect_rawK cfg o true x _ hv.1 ht
        · exact detectList_rawK cfg o xs ts' hv.2 hts' u hu
theorem detectVals_rawK (cfg : GenCfg) (o : GenOracles) :
    ∀ (xs : List (String × Json)) (ts : List Ty), keysOkKvs xs = true → detectVals cfg o xs = .ok ts →
      ∀ t ∈ ts, rawK cfg t = true
  | [], ts, _, h => by
    simp only [detectVals, pure, Except.pure, Except.ok.injEq] at h; subst h; simp
  | (_, x) :: xs, ts, hv, h => by
    simp only [keysOkKvs, Bool.and_eq_true] at hv
    simp only [detectVals, bind, Except.bind] at h
    split at h
    · cases h
    · rename_i t ht
      split at h
      · cases h
      · rename_i ts' hts'
        simp only [pure, Except.pure, Except.ok.injEq] at h; subst h
        intro u hu
        rcases List.mem_cons.mp hu with rfl | hu
        · exact detect_rawK cfg o true x _ hv.1 ht
        · exact detectVals_rawK cfg o xs ts' hv.2 hts' u hu
theorem convertFields_rawK (cfg : GenCfg) (o : GenOracles) :
    ∀ (xs : List (String × Json)) (fs : Fields), keysOkKvs xs = true → convertFields cfg o xs = .ok fs →
      ∀ kv ∈ fs, rawK cfg kv.2 = true
  | [], fs, _, h => by
    simp only [convertFields, pure, Except.pure, Except.ok.injEq] at h; subst h; simp
  | (k, x) :: xs, fs, hv, h => by
    simp only [keysOkKvs, Bool.and_eq_true] at hv
    simp only [convertFields, bind, Except.bind] at h
    split at h
    · cases h
    · rename_i t ht
      split at h
      · cases h
      · rename_i fs' hfs'
        simp only [pure, Except.pure, Except.ok.injEq] at h; subst h
        intro u hu
        rcases List.mem_cons.mp hu with rfl | hu
        · exact detect_rawK cfg o _ x _ hv.1 ht
        · exact convertFields_rawK cfg o xs fs' hv.2 hfs' u hu
end

theorem generate_nfc_aux {cfg : GenCfg} {o : GenOracles} {samples : List Json} {t : Ty}
    (hs : ∀ v ∈ samples, keysOk v = true) (h : generate cfg o samples = .ok t) : nfc cfg t = true := by
  unfold generate at h
  simp only [bind, Except.bind] at h
  split at h
  · cases h
  · rename_i sets hsets
    split at h
    · cases h
    · rename_i fields hfields
      have hraw : AllRawF cfg fields := by
        apply mergeFieldSets_rawF _ hfields
        intro m hm
        obtain ⟨v, _, hv⟩ := mapM_mem_inv _ _ _ hsets m hm
        cases v <;> simp [convert] at hv
        exact convertFields_rawD cfg o _ m hv
      have hrawK : AllRawK cfg fields := by
        apply mergeFieldSets_rawK _ hfields
        intro m hm
        obtain ⟨v, hvs, hv⟩ := mapM_mem_inv _ _ _ hsets m hm
        have hkv := hs v hvs
        cases v <;> simp [convert] at hv
        simp only [keysOk, Bool.and_eq_true] at hkv
        exact convertFields_rawK cfg o _ m hkv.2 hv
      exact optimize_nfc_raw cfg _ _ _ t hraw.Raw hrawK.rawK h

end J2M.C08P
