/-
  `optimize` maps raw metadata to the *canonical* normal form `nfc` (so that a second pass is the identity).
-/
import J2M.Proofs.OptimizeNF
namespace J2M.C08P

/-! ### sorted literal sets -/

def SSorted (l : List String) : Prop := l.Pairwise (· < ·)

theorem insertUniq_sorted (x : String) (l : List String) (h : SSorted l) : SSorted (insertUniq x l) := by
  induction l with
  | nil => simp [insertUniq, SSorted]
  | cons y ys ih =>
    unfold SSorted at h ih ⊢
    rw [List.pairwise_cons] at h
    simp only [insertUniq]
    split
    · rename_i hxy
      rw [List.pairwise_cons]
      refine ⟨?_, List.pairwise_cons.mpr h⟩
      intro z hz
      rcases List.mem_cons.mp hz with rfl | hz
      · exact hxy
      · exact String.lt_trans hxy (h.1 z hz)
    · rename_i hxy
      split
      · exact List.pairwise_cons.mpr h
      · rename_i hne
        have hyx : y < x := Std.lt_of_le_of_ne (String.not_lt.mp hxy) (by
          intro e; apply hne; simp [e])
        rw [List.pairwise_cons]
        refine ⟨?_, ih h.2⟩
        intro z hz
        rcases insertUniq_mem x ys z hz with rfl | hz'
        · exact hyx
        · exact h.1 z hz'

theorem fold_insertUniq_sorted (vs acc : List String) (h : SSorted acc) :
    SSorted (vs.foldl (fun acc x => insertUniq x acc) acc) := by
  induction vs generalizing acc with
  | nil => exact h
  | cons x vs ih => exact ih _ (insertUniq_sorted x acc h)

theorem insertUniq_append (x : String) (acc : List String) (h : ∀ y ∈ acc, y < x) :
    insertUniq x acc = acc ++ [x] := by
  induction acc with
  | nil => rfl
  | cons y ys ih =>
    have hyx : y < x := h y (by simp)
    have h1 : ¬ x < y := String.lt_asymm hyx
    have h2 : (x == y) = false := by
      simp only [beq_eq_false_iff_ne, ne_eq]
      intro e; subst e; exact String.lt_irrefl _ hyx
    simp only [insertUniq, h1, ↓reduceIte, h2, Bool.false_eq_true, List.cons_append, List.cons.injEq,
      true_and]
    exact ih (fun z hz => h z (by simp [hz]))

theorem fold_sorted_id (l acc : List String) (h : SSorted (acc ++ l)) :
    l.foldl (fun acc x => insertUniq x acc) acc = acc ++ l := by
  induction l generalizing acc with
  | nil => simp
  | cons x l ih =>
    rw [List.foldl_cons]
    unfold SSorted at h
    have hx : ∀ y ∈ acc, y < x := by
      intro y hy
      rw [List.pairwise_append] at h
      exact h.2.2 y hy x (by simp)
    rw [insertUniq_append x acc hx, ih]
    · simp
    · unfold SSorted; simpa using h

theorem handleType_lits_sorted (st : UState) (t : Ty) (h : SSorted st.lits) :
    SSorted (handleType st t).lits := by
  by_cases hl : t.isLit = true
  · cases t <;> simp [Ty.isLit] at hl
    rename_i o vs
    cases hu : st.useLit <;> cases o <;> simp [handleType, Ty.isStr, hu, h]
    exact fold_insertUniq_sorted vs st.lits h
  · rw [handleType_lits_nonlit st t (by simpa using hl)]; exact h

theorem fold_lits_sorted (ts : List Ty) (st : UState) (h : SSorted st.lits) :
    SSorted (ts.foldl handleType st).lits := by
  induction ts generalizing st with
  | nil => exact h
  | cons t ts ih => exact ih _ (handleType_lits_sorted st t h)

/-- the literal folded by `DUnion` is stable -/
theorem mkUM_lit_stable (c : LitCfg) (ts : List Ty) (o : Bool) (vs : List String)
    (hm : Ty.lit o vs ∈ mkUnionMembers c ts) : o = false ∧ litStable c vs = true := by
  have inv := foldSt_inv ts
  have hs : SSorted (foldSt ts).lits := fold_lits_sorted _ _ (by simp [SSorted])
  rw [mkUnionMembers_eq] at hm
  have hnotU : Ty.lit o vs ∉ (foldSt ts).unique.reverse := by
    intro h; have := inv.noLit _ (by simpa using h); simp [Ty.isLit] at this
  rcases finishU_cases c (foldSt ts) with ⟨hne, _, hmk, heq⟩ | ⟨heq, _⟩ | ⟨heq, _⟩
  · rw [heq, List.mem_append] at hm
    rcases hm with h | h
    · exact absurd h hnotU
    · simp at h
      obtain ⟨rfl, rfl⟩ := h
      refine ⟨rfl, ?_⟩
      unfold litStable
      have h1 := fold_sorted_id (foldSt ts).lits [] (by simpa using hs)
      simp only [List.nil_append] at h1
      rw [h1]
      unfold mkLit at hmk
      split at hmk
      · cases hmk
      · rename_i hc
        simp only [beq_self_eq_true, Bool.true_and, Bool.and_eq_true, Bool.not_eq_true',
          List.isEmpty_eq_false_iff]
        exact ⟨hne, by simpa using hc⟩
  · rw [heq] at hm; exact absurd hm hnotU
  · rw [heq, List.mem_append] at hm
    rcases hm with h | h
    · exact absurd h hnotU
    · simp at h

end J2M.C08P
