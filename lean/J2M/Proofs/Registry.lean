/-
  Registry-level development, part 1: graph well-formedness (`WF`) and `process_meta_data`.
-/
import J2M.Proofs.RegistryDefs
import J2M.Proofs.Names
namespace J2M.Reg
open J2M

/-! ## basic graph vocabulary -/

/-- the registered indices, in registry order -/
def idxs (g : Graph) : List String := g.models.map (·.idx)

/-- every registered index was handed out by the graph's own `Index` counter -/
def Bounded (g : Graph) : Prop := ∀ m ∈ g.models, ∃ k, k < g.counter ∧ m.idx = indexOf k

/-- **well-formed graph**: indices pairwise distinct and below the counter; no dangling reference in any
    model's fields, in any `ModelPtr`'s target or parent. -/
structure WF (g : Graph) : Prop where
  nodup : (idxs g).Nodup
  bound : Bounded g
  fields : ∀ m ∈ g.models, ∀ i ∈ ptrsOfFields m.fields, i ∈ idxs g
  ptrs : ∀ p ∈ g.ptrs, p.target ∈ idxs g ∧ ∀ q, p.parent = some q → q ∈ idxs g

theorem wf_empty : WF {} := ⟨by simp [idxs], by simp [Bounded], by simp, by simp⟩

theorem indexOf_inj {a b : Nat} (h : indexOf a = indexOf b) : a = b := NamesP.indexOf_injective' h

/-- the next index is fresh -/
theorem Bounded.fresh {g : Graph} (hb : Bounded g) {k : Nat} (hk : g.counter ≤ k) : indexOf k ∉ idxs g := by
  intro h
  obtain ⟨m, hm, e⟩ := List.mem_map.1 h
  obtain ⟨k', hk', e'⟩ := hb m hm
  rw [e'] at e
  have := indexOf_inj e
  omega

/-! ## `find?` / `look` -/

theorem find?_eq_some {g : Graph} {i : String} {m : Model} (h : g.find? i = some m) : m ∈ g.models ∧ m.idx = i := by
  unfold Graph.find? at h
  exact ⟨List.mem_of_find?_eq_some h, by simpa using List.find?_some h⟩

theorem find?_isSome_iff {g : Graph} {i : String} : (g.find? i).isSome = true ↔ i ∈ idxs g := by
  unfold Graph.find? idxs
  rw [List.find?_isSome]
  simp

theorem find?_eq_none_iff {g : Graph} {i : String} : g.find? i = none ↔ i ∉ idxs g := by
  rw [← find?_isSome_iff]; cases g.find? i <;> simp

theorem list_find?_of_mem {ms : List Model} (nd : (ms.map (·.idx)).Nodup) {m : Model} (hm : m ∈ ms) :
    ms.find? (·.idx == m.idx) = some m := by
  induction ms with
  | nil => simp at hm
  | cons a ms ih =>
    rw [List.find?_cons]
    simp only [List.map_cons, List.nodup_cons] at nd
    rcases List.mem_cons.1 hm with e | hm'
    · subst e; simp
    · have : (a.idx == m.idx) = false := by
        simpa using fun e : a.idx = m.idx => nd.1 (e ▸ List.mem_map_of_mem hm')
      rw [this]; exact ih nd.2 hm'

theorem find?_of_mem {g : Graph} (nd : (idxs g).Nodup) {m : Model} (hm : m ∈ g.models) :
    g.find? m.idx = some m := list_find?_of_mem nd hm

theorem look_eq_some {g : Graph} {i : String} {fs : Fields} (h : g.look i = some fs) :
    ∃ m ∈ g.models, m.idx = i ∧ m.fields = fs := by
  unfold Graph.look at h
  cases hf : g.find? i with
  | none => simp [hf] at h
  | some m =>
    obtain ⟨hm, e⟩ := find?_eq_some hf
    simp [hf] at h
    exact ⟨m, hm, e, h⟩

theorem look_of_mem {g : Graph} (nd : (idxs g).Nodup) {m : Model} (hm : m ∈ g.models) :
    g.look m.idx = some m.fields := by
  unfold Graph.look; rw [find?_of_mem nd hm]; rfl

theorem look_isSome_iff {g : Graph} {i : String} : (g.look i).isSome = true ↔ i ∈ idxs g := by
  unfold Graph.look; rw [Option.isSome_map, find?_isSome_iff]

/-! ## `setFields` -/

/-- `setFields` on the model list -/
def setF (i : String) (fs : Fields) (ms : List Model) : List Model :=
  ms.map (fun m => if m.idx == i then { m with fields := fs } else m)

theorem setFields_models (g : Graph) (i : String) (fs : Fields) : (g.setFields i fs).models = setF i fs g.models := rfl
@[simp] theorem setFields_ptrs (g : Graph) (i : String) (fs : Fields) : (g.setFields i fs).ptrs = g.ptrs := rfl
@[simp] theorem setFields_counter (g : Graph) (i : String) (fs : Fields) : (g.setFields i fs).counter = g.counter := rfl

theorem setF_idx (i : String) (fs : Fields) (ms : List Model) : (setF i fs ms).map (·.idx) = ms.map (·.idx) := by
  unfold setF
  rw [List.map_map]
  apply List.map_congr_left
  intro m _
  simp only [Function.comp]
  split <;> rfl

@[simp] theorem idxs_setFields (g : Graph) (i : String) (fs : Fields) : idxs (g.setFields i fs) = idxs g :=
  setF_idx i fs g.models

theorem setF_of_not_mem {i : String} {fs : Fields} {ms : List Model} (h : i ∉ ms.map (·.idx)) : setF i fs ms = ms := by
  unfold setF
  conv => rhs; rw [← List.map_id ms]
  apply List.map_congr_left
  intro m hm
  have : ¬ m.idx = i := fun e => h (e ▸ List.mem_map_of_mem hm)
  simp [this]

theorem setF_append (i : String) (fs : Fields) (as bs : List Model) :
    setF i fs (as ++ bs) = setF i fs as ++ setF i fs bs := by simp [setF]

theorem mem_setF {i : String} {fs : Fields} {ms : List Model} {m : Model} (h : m ∈ setF i fs ms) :
    (m ∈ ms ∧ m.idx ≠ i) ∨ (∃ m0 ∈ ms, m0.idx = i ∧ m = { m0 with fields := fs }) := by
  unfold setF at h
  obtain ⟨m0, hm0, e⟩ := List.mem_map.1 h
  by_cases hi : m0.idx = i
  · right; refine ⟨m0, hm0, hi, ?_⟩; rw [if_pos (by simpa using hi)] at e; exact e.symm
  · left; simp [hi] at e; subst e; exact ⟨hm0, hi⟩

/-! ## graph extension by `process_meta_data` -/

/-- `g'` is `g` with the models `new` and the pointer records `newp` appended; the new indices come from the
    counter range `[g.counter, g'.counter)`; every reference of the new material goes to `S` or to a new model. -/
structure Ext (S : List String) (g g' : Graph) (new : List Model) (newp : List PtrRec) : Prop where
  models : g'.models = g.models ++ new
  ptrs : g'.ptrs = g.ptrs ++ newp
  counter : g.counter ≤ g'.counter
  range : ∀ m ∈ new, ∃ k, g.counter ≤ k ∧ k < g'.counter ∧ m.idx = indexOf k
  nodup : (new.map (·.idx)).Nodup
  closed : ∀ m ∈ new, ∀ i ∈ ptrsOfFields m.fields, i ∈ S ∨ i ∈ new.map (·.idx)
  pclosed : ∀ p ∈ newp, p.target ∈ new.map (·.idx) ∧ ∀ q, p.parent = some q → q ∈ S ∨ q ∈ new.map (·.idx)

theorem Ext.refl (S : List String) (g : Graph) : Ext S g g [] [] :=
  ⟨by simp, by simp, Nat.le_refl _, by simp, by simp, by simp, by simp⟩

theorem Ext.bounded {S g g' new newp} (h : Ext S g g' new newp) (hb : Bounded g) : Bounded g' := by
  intro m hm
  rw [h.models] at hm
  rcases List.mem_append.1 hm with hm | hm
  · obtain ⟨k, hk, e⟩ := hb m hm
    exact ⟨k, Nat.lt_of_lt_of_le hk h.counter, e⟩
  · obtain ⟨k, _, hk, e⟩ := h.range m hm
    exact ⟨k, hk, e⟩

theorem Ext.trans {S S' S'' g g1 g2 new1 newp1 new2 newp2}
    (h1 : Ext S g g1 new1 newp1) (h2 : Ext S' g1 g2 new2 newp2)
    (hS : ∀ i ∈ S, i ∈ S'') (hS' : ∀ i ∈ S', i ∈ S'' ∨ i ∈ new1.map (·.idx)) :
    Ext S'' g g2 (new1 ++ new2) (newp1 ++ newp2) := by
  refine ⟨by rw [h2.models, h1.models, List.append_assoc], by rw [h2.ptrs, h1.ptrs, List.append_assoc],
    Nat.le_trans h1.counter h2.counter, ?_, ?_, ?_, ?_⟩
  · intro m hm
    rcases List.mem_append.1 hm with hm | hm
    · obtain ⟨k, a, b, c⟩ := h1.range m hm
      exact ⟨k, a, Nat.lt_of_lt_of_le b h2.counter, c⟩
    · obtain ⟨k, a, b, c⟩ := h2.range m hm
      exact ⟨k, Nat.le_trans h1.counter a, b, c⟩
  · rw [List.map_append, List.nodup_append]
    refine ⟨h1.nodup, h2.nodup, ?_⟩
    intro a ha b hb hab
    obtain ⟨m1, hm1, e1⟩ := List.mem_map.1 ha
    obtain ⟨m2, hm2, e2⟩ := List.mem_map.1 hb
    obtain ⟨k1, _, b1, c1⟩ := h1.range m1 hm1
    obtain ⟨k2, a2, _, c2⟩ := h2.range m2 hm2
    have : indexOf k1 = indexOf k2 := by rw [← c1, ← c2, e1, e2, hab]
    have := indexOf_inj this
    omega
  · intro m hm i hi
    simp only [List.map_append, List.mem_append]
    rcases List.mem_append.1 hm with hm | hm
    · rcases h1.closed m hm i hi with h | h
      · exact Or.inl (hS i h)
      · exact Or.inr (Or.inl h)
    · rcases h2.closed m hm i hi with h | h
      · rcases hS' i h with h | h
        · exact Or.inl h
        · exact Or.inr (Or.inl h)
      · exact Or.inr (Or.inr h)
  · intro p hp
    simp only [List.map_append, List.mem_append]
    rcases List.mem_append.1 hp with hp | hp
    · obtain ⟨a, b⟩ := h1.pclosed p hp
      refine ⟨Or.inl a, fun q hq => ?_⟩
      rcases b q hq with h | h
      · exact Or.inl (hS q h)
      · exact Or.inr (Or.inl h)
    · obtain ⟨a, b⟩ := h2.pclosed p hp
      refine ⟨Or.inr a, fun q hq => ?_⟩
      rcases b q hq with h | h
      · rcases hS' q h with h | h
        · exact Or.inl h
        · exact Or.inr (Or.inl h)
      · exact Or.inr (Or.inr h)

theorem Ext.mono {S S' g g' new newp} (h : Ext S g g' new newp) (hS : ∀ i ∈ S, i ∈ S') : Ext S' g g' new newp := by
  have := Ext.trans h (Ext.refl [] g') hS (by simp)
  simpa using this

/-- the first step of `process_meta_data` on a dict: register the (raw) model and its pointer -/
def regNew (g : Graph) (pm : Option (String × String)) (fs : Fields) : Graph :=
  { g with models := g.models ++ [{ idx := indexOf g.counter, fields := fs }], counter := g.counter + 1,
           ptrs := g.ptrs ++ [⟨indexOf g.counter, pm.map (·.1), pm.map (·.2)⟩] }

theorem processTy_obj (g : Graph) (pm : Option (String × String)) (fs : Fields) :
    processTy g pm (.obj fs) =
      ((processFields (regNew g pm fs) (indexOf g.counter) fs).1.setFields (indexOf g.counter)
         (processFields (regNew g pm fs) (indexOf g.counter) fs).2, .ptr (indexOf g.counter)) := by
  simp [processTy, regNew]

/-- the parent index of a `parent_model` pair, as a list -/
def pmList (pm : Option (String × String)) : List String := (pm.map (·.1)).toList

theorem mem_pmList {pm : Option (String × String)} {q : String} : q ∈ pmList pm ↔ pm.map (·.1) = some q := by
  unfold pmList; cases pm <;> simp [eq_comm]


theorem Ext.regNew (g : Graph) (pm : Option (String × String)) (fs : Fields) :
    Ext (ptrsOfFields fs ++ pmList pm) g (regNew g pm fs) [{ idx := indexOf g.counter, fields := fs }]
      [⟨indexOf g.counter, pm.map (·.1), pm.map (·.2)⟩] := by
  refine ⟨rfl, rfl, by simp [Reg.regNew], ?_, by simp, ?_, ?_⟩
  · intro m hm
    simp only [List.mem_singleton] at hm
    subst hm
    exact ⟨g.counter, Nat.le_refl _, by simp [Reg.regNew], rfl⟩
  · intro m hm i hi
    simp only [List.mem_singleton] at hm
    subst hm
    exact Or.inl (List.mem_append_left _ hi)
  · intro p hp
    simp only [List.mem_singleton] at hp
    subst hp
    refine ⟨by simp, fun q hq => Or.inl (List.mem_append_right _ (mem_pmList.2 hq))⟩

/-- the last step of `process_meta_data` on a dict: store the processed fields in the model registered first -/
theorem Ext.setFields_head {S g g2 m0 new2 newp} {fs' : Fields} (h : Ext S g g2 (m0 :: new2) newp)
    (h0 : m0.idx ∉ idxs g) (h1 : m0.idx ∉ new2.map (·.idx))
    (hc : ∀ i ∈ ptrsOfFields fs', i ∈ S ∨ i ∈ (m0 :: new2).map (·.idx)) :
    Ext S g (g2.setFields m0.idx fs') ({ m0 with fields := fs' } :: new2) newp := by
  refine ⟨?_, by simp [h.ptrs], by simpa using h.counter, ?_, by simpa using h.nodup, ?_, ?_⟩
  · rw [setFields_models, h.models, setF_append, setF_of_not_mem h0]
    congr 1
    show setF m0.idx fs' ([m0] ++ new2) = _
    rw [setF_append, setF_of_not_mem h1]
    simp [setF]
  · intro m hm
    rcases List.mem_cons.1 hm with e | hm
    · subst e; simpa using h.range m0 (by simp)
    · simpa using h.range m (List.mem_cons_of_mem _ hm)
  · intro m hm i hi
    rcases List.mem_cons.1 hm with e | hm
    · subst e; simpa using hc i hi
    · simpa using h.closed m (List.mem_cons_of_mem _ hm) i hi
  · intro p hp
    simpa using h.pclosed p hp

mutual
theorem processTy_ext : ∀ (t : Ty) (g : Graph) (pm : Option (String × String)), Bounded g →
    ∃ new newp, Ext (ptrsOf t ++ pmList pm) g (processTy g pm t).1 new newp ∧
      ∀ i ∈ ptrsOf (processTy g pm t).2, i ∈ ptrsOf t ∨ i ∈ new.map (·.idx)
  | .obj fs, g, pm, hb => by
    rw [processTy_obj]
    have e1 := Ext.regNew g pm fs
    obtain ⟨new2, newp2, e2, hp2, _⟩ := processFields_ext fs (regNew g pm fs) (indexOf g.counter) (e1.bounded hb)
    have e12 := Ext.trans (S'' := ptrsOf (.obj fs) ++ pmList pm) e1 e2 (by simp [ptrsOf])
      (by
        intro i hi
        rcases List.mem_append.1 hi with hi | hi
        · exact Or.inl (List.mem_append_left _ (by simpa [ptrsOf] using hi))
        · right; simpa using hi)
    have hfresh : indexOf g.counter ∉ new2.map (·.idx) := by
      intro hm
      obtain ⟨m, hm, e⟩ := List.mem_map.1 hm
      obtain ⟨k, hk, _, e'⟩ := e2.range m hm
      rw [e'] at e
      have := indexOf_inj e
      simp [Reg.regNew] at hk
      omega
    have := Ext.setFields_head (fs' := (processFields (regNew g pm fs) (indexOf g.counter) fs).2) e12
      (hb.fresh (Nat.le_refl _)) hfresh
      (by
        intro i hi
        rcases hp2 i hi with h | h
        · exact Or.inl (List.mem_append_left _ (by simpa [ptrsOf] using h))
        · right; simp only [List.map_cons, List.mem_cons]; exact Or.inr h)
    refine ⟨_, _, this, ?_⟩
    intro i hi
    simp [ptrsOf] at hi
    right; simp [hi]
  | .list t, g, pm, hb => by simpa [processTy, ptrsOf] using processTy_ext t g pm hb
  | .dict t, g, pm, hb => by simpa [processTy, ptrsOf] using processTy_ext t g pm hb
  | .opt t, g, pm, hb => by simpa [processTy, ptrsOf] using processTy_ext t g pm hb
  | .union ts, g, pm, hb => by simpa [processTy, ptrsOf] using processList_ext ts g pm hb
  | .tuple ts, g, pm, hb => by simpa [processTy, ptrsOf] using processList_ext ts g pm hb
  | .int, g, pm, _ | .float, g, pm, _ | .bool, g, pm, _ | .str, g, pm, _ | .null, g, pm, _
  | .unknown, g, pm, _ | .ser _, g, pm, _ | .lit _ _, g, pm, _ =>
    ⟨[], [], by simpa [processTy] using Ext.refl _ g, by simp [processTy, ptrsOf]⟩
  | .ptr j, g, pm, _ => ⟨[], [], by simpa [processTy] using Ext.refl _ g, by simp [processTy]⟩
theorem processList_ext : ∀ (ts : List Ty) (g : Graph) (pm : Option (String × String)), Bounded g →
    ∃ new newp, Ext (ptrsOfList ts ++ pmList pm) g (processList g pm ts).1 new newp ∧
      ∀ i ∈ ptrsOfList (processList g pm ts).2, i ∈ ptrsOfList ts ∨ i ∈ new.map (·.idx)
  | [], g, pm, _ => ⟨[], [], by simpa [processList] using Ext.refl _ g, by simp [processList, ptrsOfList]⟩
  | t :: ts, g, pm, hb => by
    obtain ⟨new1, newp1, e1, hp1⟩ := processTy_ext t g pm hb
    obtain ⟨new2, newp2, e2, hp2⟩ := processList_ext ts (processTy g pm t).1 pm (e1.bounded hb)
    have e12 := Ext.trans (S'' := ptrsOfList (t :: ts) ++ pmList pm) e1 e2
      (by intro i hi; simp only [ptrsOfList, List.mem_append] at hi ⊢; grind)
      (by intro i hi; simp only [ptrsOfList, List.mem_append] at hi ⊢; grind)
    refine ⟨_, _, by simpa [processList] using e12, ?_⟩
    intro i hi
    simp only [processList, ptrsOfList, List.mem_append, List.map_append] at hi ⊢
    rcases hi with hi | hi
    · rcases hp1 i hi with h | h <;> grind
    · rcases hp2 i hi with h | h <;> grind
theorem processFields_ext : ∀ (fs : List (String × Ty)) (g : Graph) (idx : String), Bounded g →
    ∃ new newp, Ext (ptrsOfFields fs ++ [idx]) g (processFields g idx fs).1 new newp ∧
      (∀ i ∈ ptrsOfFields (processFields g idx fs).2, i ∈ ptrsOfFields fs ∨ i ∈ new.map (·.idx)) ∧
      (processFields g idx fs).2.map (·.1) = fs.map (·.1)
  | [], g, idx, _ => ⟨[], [], by simpa [processFields] using Ext.refl _ g, by simp [processFields, ptrsOfFields],
      by simp [processFields]⟩
  | (k, t) :: fs, g, idx, hb => by
    obtain ⟨new1, newp1, e1, hp1⟩ := processTy_ext t g (some (idx, k)) hb
    obtain ⟨new2, newp2, e2, hp2, hk2⟩ := processFields_ext fs (processTy g (some (idx, k)) t).1 idx (e1.bounded hb)
    have e12 := Ext.trans (S'' := ptrsOfFields ((k, t) :: fs) ++ [idx]) e1 e2
      (by intro i hi; simp only [ptrsOfFields, pmList, List.mem_append] at hi ⊢; simp at hi; simp; grind)
      (by intro i hi; simp only [ptrsOfFields, List.mem_append] at hi ⊢; grind)
    refine ⟨_, _, by simpa [processFields] using e12, ?_, by simp [processFields, hk2]⟩
    intro i hi
    simp only [processFields, ptrsOfFields, List.mem_append, List.map_append] at hi ⊢
    rcases hi with hi | hi
    · rcases hp1 i hi with h | h <;> grind
    · rcases hp2 i hi with h | h <;> grind
end


theorem Ext.idxs_eq {S g g' new newp} (h : Ext S g g' new newp) : idxs g' = idxs g ++ new.map (·.idx) := by
  simp [Reg.idxs, h.models]

/-- extension keeps the graph well-formed when the outside references `S` are registered -/
theorem Ext.wf {S g g' new newp} (h : Ext S g g' new newp) (wf : WF g) (hS : ∀ i ∈ S, i ∈ idxs g) : WF g' := by
  refine ⟨?_, h.bounded wf.bound, ?_, ?_⟩
  · rw [h.idxs_eq, List.nodup_append]
    refine ⟨wf.nodup, h.nodup, ?_⟩
    intro a ha b hb hab
    obtain ⟨m, hm, e⟩ := List.mem_map.1 hb
    obtain ⟨k, hk, _, e'⟩ := h.range m hm
    exact wf.bound.fresh hk (by rw [← e', e, ← hab]; exact ha)
  · intro m hm i hi
    rw [h.idxs_eq, List.mem_append]
    rw [h.models] at hm
    rcases List.mem_append.1 hm with hm | hm
    · exact Or.inl (wf.fields m hm i hi)
    · rcases h.closed m hm i hi with h' | h'
      · exact Or.inl (hS i h')
      · exact Or.inr h'
  · intro p hp
    rw [h.idxs_eq]
    simp only [List.mem_append]
    rw [h.ptrs] at hp
    rcases List.mem_append.1 hp with hp | hp
    · exact ⟨Or.inl (wf.ptrs p hp).1, fun q hq => Or.inl ((wf.ptrs p hp).2 q hq)⟩
    · obtain ⟨a, b⟩ := h.pclosed p hp
      refine ⟨Or.inr a, fun q hq => ?_⟩
      rcases b q hq with h' | h'
      · exact Or.inl (hS q h')
      · exact Or.inr h'

/-- old models keep their lookup -/
theorem Ext.look_old {S g g' new newp} (h : Ext S g g' new newp) {i : String} (hi : i ∈ idxs g) :
    g'.look i = g.look i := by
  unfold Graph.look Graph.find?
  rw [h.models, List.find?_append]
  have : (g.find? i).isSome = true := find?_isSome_iff.2 hi
  unfold Graph.find? at this
  cases hf : List.find? (fun x => x.idx == i) g.models with
  | none => simp [hf] at this
  | some m => simp

/-! ### `process_meta_data` keeps the graph well-formed -/

theorem processTy_WF {g : Graph} {pm : Option (String × String)} {t : Ty} (wf : WF g)
    (ht : ∀ i ∈ ptrsOf t, i ∈ idxs g) (hpm : ∀ i ∈ pmList pm, i ∈ idxs g) :
    WF (processTy g pm t).1 ∧ (∀ i ∈ ptrsOf (processTy g pm t).2, i ∈ idxs (processTy g pm t).1) ∧
    ∀ i ∈ idxs g, i ∈ idxs (processTy g pm t).1 := by
  obtain ⟨new, newp, e, hp⟩ := processTy_ext t g pm wf.bound
  refine ⟨e.wf wf (fun i hi => ?_), fun i hi => ?_, fun i hi => ?_⟩
  · rcases List.mem_append.1 hi with hi | hi
    · exact ht i hi
    · exact hpm i hi
  · rw [e.idxs_eq, List.mem_append]
    rcases hp i hi with h | h
    · exact Or.inl (ht i h)
    · exact Or.inr h
  · rw [e.idxs_eq]; exact List.mem_append_left _ hi


/-- a change of the models that touches neither indices nor fields keeps the graph well-formed -/
theorem WF.map_models {g : Graph} (wf : WF g) (f : Model → Model) (hi : ∀ m, (f m).idx = m.idx)
    (hf : ∀ m, (f m).fields = m.fields) : WF { g with models := g.models.map f } := by
  have hidx : idxs { g with models := g.models.map f } = idxs g := by
    simp [idxs, List.map_map, Function.comp_def, hi]
  refine ⟨by rw [hidx]; exact wf.nodup, ?_, ?_, ?_⟩
  · intro m hm
    obtain ⟨m0, hm0, e⟩ := List.mem_map.1 hm
    obtain ⟨k, hk, e'⟩ := wf.bound m0 hm0
    exact ⟨k, hk, by rw [← e, hi, e']⟩
  · intro m hm i hi'
    obtain ⟨m0, hm0, e⟩ := List.mem_map.1 hm
    rw [hidx]
    rw [← e, hf] at hi'
    exact wf.fields m0 hm0 i hi'
  · intro p hp
    rw [hidx]; exact wf.ptrs p hp

/-- the graph of `processMetaData` before the root model is named -/
theorem processMetaData_fst (g : Graph) (fields : Fields) (name : Option String) :
    (processMetaData g fields name).1 =
      match name with
      | some n => { (processTy g none (.obj fields)).1 with
          models := (processTy g none (.obj fields)).1.models.map
            (fun m => if m.idx == indexOf g.counter then { m with name := some n, nameGen := some false } else m) }
      | none => (processTy g none (.obj fields)).1 := by
  unfold processMetaData
  cases name <;> rfl

theorem processMetaData_snd (g : Graph) (fields : Fields) (name : Option String) :
    (processMetaData g fields name).2 = indexOf g.counter := rfl

/-- **processMetaData_WF**: `process_meta_data` keeps the registry well-formed, provided every pointer that
    already occurs in the metadata (none, for what `generate` returns) is registered. -/
theorem processMetaData_WF {g : Graph} {fields : Fields} {name : Option String} (wf : WF g)
    (hp : ∀ i ∈ ptrsOfFields fields, i ∈ idxs g) : WF (processMetaData g fields name).1 := by
  have h := (processTy_WF (pm := none) (t := .obj fields) wf (by simpa [ptrsOf] using hp) (by simp [pmList])).1
  rw [processMetaData_fst]
  cases name with
  | none => exact h
  | some n =>
    refine h.map_models _ (fun m => ?_) (fun m => ?_) <;> (split <;> rfl)

end J2M.Reg
