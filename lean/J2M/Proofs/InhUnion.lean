/-
  C01 helpers, part 2: `DUnion.__init__` (`mkUnionMembers`) keeps every inhabitant of every member.
-/
import J2M.Proofs.Inh
namespace J2M

/-! ## sorted-set insertion -/

theorem mem_insertUniqX {x a : String} {ys : List String} : a ∈ insertUniq x ys ↔ a = x ∨ a ∈ ys := by
  induction ys with
  | nil => simp [insertUniq]
  | cons y ys ih =>
    unfold insertUniq
    split
    · simp
    · split
      · rename_i h; have : x = y := by simpa using h
        subst this; simp
      · simp only [List.mem_cons, ih]
        constructor
        · rintro (h | h | h) <;> simp [h]
        · rintro (h | h | h) <;> simp [h]

theorem mem_foldl_insertUniqX {a : String} {vs init : List String} :
    a ∈ vs.foldl (fun acc x => insertUniq x acc) init ↔ a ∈ init ∨ a ∈ vs := by
  induction vs generalizing init with
  | nil => simp
  | cons v vs ih =>
    simp only [List.foldl_cons, ih, mem_insertUniqX, List.mem_cons]
    constructor
    · rintro ((h | h) | h) <;> simp [h]
    · rintro (h | h | h) <;> simp [h]

/-! ## flattening nested unions -/

theorem inhX_flatten {ov acc g} {ts : List Ty} {v} (h : InhX ov acc g (.union ts) v) :
    ∃ t ∈ flattenUnion ts, InhX ov acc g t v := by
  induction ts using flattenUnion.induct with
  | case1 => obtain ⟨t, hm, _⟩ := inh_union_iff.1 h; simp at hm
  | case2 us rest ih1 ih2 =>
    obtain ⟨t, hm, ht⟩ := inh_union_iff.1 h
    rw [flattenUnion]
    rcases List.mem_cons.1 hm with e | hm
    · subst e
      obtain ⟨t', hm', ht'⟩ := ih1 ht
      exact ⟨t', List.mem_append_left _ hm', ht'⟩
    · obtain ⟨t', hm', ht'⟩ := ih2 (inh_union_iff.2 ⟨t, hm, ht⟩)
      exact ⟨t', List.mem_append_right _ hm', ht'⟩
  | case3 t0 rest hne ih =>
    obtain ⟨t, hm, ht⟩ := inh_union_iff.1 h
    rw [flattenUnion.eq_3 _ _ hne]
    rcases List.mem_cons.1 hm with e | hm
    · subst e; exact ⟨t, List.mem_cons_self, ht⟩
    · obtain ⟨t', hm', ht'⟩ := ih (inh_union_iff.2 ⟨t, hm, ht⟩)
      exact ⟨t', List.mem_cons_of_mem _ hm', ht'⟩

/-- members of a flattened list are (nested) members of the input; used to transport predicates -/
theorem flattenUnion_forall {P : Ty → Prop} (hU : ∀ us, P (.union us) → ∀ u ∈ us, P u)
    {ts : List Ty} (h : ∀ t ∈ ts, P t) : ∀ t ∈ flattenUnion ts, P t := by
  induction ts using flattenUnion.induct with
  | case1 => simp [flattenUnion]
  | case2 us rest ih1 ih2 =>
    rw [flattenUnion]
    intro t ht
    rcases List.mem_append.1 ht with ht | ht
    · exact ih1 (hU us (h _ List.mem_cons_self)) t ht
    · exact ih2 (fun t ht => h t (List.mem_cons_of_mem _ ht)) t ht
  | case3 t0 rest hne ih =>
    rw [flattenUnion.eq_3 _ _ hne]
    intro t ht
    rcases List.mem_cons.1 ht with e | ht
    · subst e; exact h _ List.mem_cons_self
    · exact ih (fun t ht => h t (List.mem_cons_of_mem _ ht)) t ht

theorem flattenUnion_not_union {ts : List Ty} : ∀ t ∈ flattenUnion ts, t.isUnion = false := by
  induction ts using flattenUnion.induct with
  | case1 => simp [flattenUnion]
  | case2 us rest ih1 ih2 =>
    rw [flattenUnion]; intro t ht
    rcases List.mem_append.1 ht with ht | ht
    · exact ih1 t ht
    · exact ih2 t ht
  | case3 t0 rest hne ih =>
    rw [flattenUnion.eq_3 _ _ hne]; intro t ht
    rcases List.mem_cons.1 ht with e | ht
    · subst e; cases t <;> simp [Ty.isUnion]; exact hne _ rfl
    · exact ih t ht

/-- a list without union members is its own flattening -/
theorem flattenUnion_eq_self {ts : List Ty} (h : ∀ t ∈ ts, t.isUnion = false) : flattenUnion ts = ts := by
  induction ts with
  | nil => simp [flattenUnion]
  | cons t ts ih =>
    have ht := h t List.mem_cons_self
    have := ih (fun t ht => h t (List.mem_cons_of_mem _ ht))
    cases t <;> simp_all [flattenUnion, Ty.isUnion]

/-! ## the de-duplication loop -/

theorem handleType_nonlitX (st : UState) (t : Ty) (h : t.isLit = false) :
    handleType st t =
      { (if st.hashes.contains (hashStr t) then st
          else { st with unique := t :: st.unique, hashes := hashStr t :: st.hashes }) with
        useLit := (if t.isStr then false else st.useLit) && st.useLit } := by
  cases t <;> first | rfl | simp [Ty.isLit] at h

theorem handleType_litX (st : UState) (ov : Bool) (vs : List String) :
    handleType st (.lit ov vs) =
      if !st.useLit then { st with useLit := false }
      else if ov then { st with useLit := false }
      else { st with useLit := st.useLit, lits := vs.foldl (fun acc x => insertUniq x acc) st.lits } := by
  rfl

/-- loop invariant of `DUnion.__init__` after the members `done` have been handled -/
structure UInv (st : UState) (done : List Ty) : Prop where
  hashes_eq : st.hashes = st.unique.map hashStr
  unique_sub : ∀ u ∈ st.unique, u ∈ done
  nonlit : ∀ t ∈ done, t.isLit = false → hashStr t ∈ st.hashes
  lits : st.useLit = true → ∀ vs, Ty.lit false vs ∈ done → ∀ s ∈ vs, s ∈ st.lits
  lits_sub : ∀ s ∈ st.lits, ∃ vs, Ty.lit false vs ∈ done ∧ s ∈ vs
  ovf : ∀ vs, Ty.lit true vs ∈ done → st.useLit = false

theorem UInv.init : UInv ⟨[], [], true, []⟩ [] :=
  ⟨rfl, by simp, by simp, by simp, by simp, by simp⟩

theorem UInv.step {st done} (inv : UInv st done) (t : Ty) : UInv (handleType st t) (t :: done) := by
  by_cases hl : t.isLit = false
  · rw [handleType_nonlitX st t hl]
    refine ⟨?_, ?_, ?_, ?_, ?_, ?_⟩
    · split <;> simp [inv.hashes_eq]
    · intro u hu
      split at hu
      · exact List.mem_cons_of_mem _ (inv.unique_sub u hu)
      · rcases List.mem_cons.1 hu with e | hu
        · simp [e]
        · exact List.mem_cons_of_mem _ (inv.unique_sub u hu)
    · intro t' ht' hl'
      rcases List.mem_cons.1 ht' with e | ht'
      · subst e
        split
        · rename_i hc; simpa using hc
        · simp
      · have := inv.nonlit t' ht' hl'
        split
        · exact this
        · exact List.mem_cons_of_mem _ this
    · intro hu vs hvs s hs
      have hu' : st.useLit = true := by
        simp only [Bool.and_eq_true] at hu; exact hu.2
      have hvs' : Ty.lit false vs ∈ done := by
        rcases List.mem_cons.1 hvs with e | h
        · subst e; simp [Ty.isLit] at hl
        · exact h
      have := inv.lits hu' vs hvs' s hs
      split <;> exact this
    · intro s hs
      have hs' : s ∈ st.lits := by split at hs <;> exact hs
      obtain ⟨vs, hvs, h⟩ := inv.lits_sub s hs'
      exact ⟨vs, List.mem_cons_of_mem _ hvs, h⟩
    · intro vs hvs
      have hvs' : Ty.lit true vs ∈ done := by
        rcases List.mem_cons.1 hvs with e | h
        · subst e; simp [Ty.isLit] at hl
        · exact h
      have := inv.ovf vs hvs'
      simp [this]
  · obtain ⟨ov, vs, rfl⟩ : ∃ ov vs, t = .lit ov vs := by
      cases t <;> simp [Ty.isLit] at hl; exact ⟨_, _, rfl⟩
    have hdone : ∀ t' ∈ Ty.lit ov vs :: done, t'.isLit = false → t' ∈ done := by
      intro t' ht' hl'
      rcases List.mem_cons.1 ht' with e | h
      · subst e; simp [Ty.isLit] at hl'
      · exact h
    have hsub : ∀ s ∈ st.lits, ∃ vs', Ty.lit false vs' ∈ Ty.lit ov vs :: done ∧ s ∈ vs' := by
      intro s hs
      obtain ⟨vs', hvs', h⟩ := inv.lits_sub s hs
      exact ⟨vs', List.mem_cons_of_mem _ hvs', h⟩
    rw [handleType_litX]
    split
    · exact ⟨inv.hashes_eq, fun u hu => List.mem_cons_of_mem _ (inv.unique_sub u hu),
        fun t' ht' hl' => inv.nonlit t' (hdone t' ht' hl') hl', by simp, hsub, by simp⟩
    · split
      · exact ⟨inv.hashes_eq, fun u hu => List.mem_cons_of_mem _ (inv.unique_sub u hu),
          fun t' ht' hl' => inv.nonlit t' (hdone t' ht' hl') hl', by simp, hsub, by simp⟩
      · rename_i hu hov
        have hov' : ov = false := by simpa using hov
        have hu' : st.useLit = true := by simpa using hu
        subst hov'
        refine ⟨inv.hashes_eq, fun u hu => List.mem_cons_of_mem _ (inv.unique_sub u hu),
          fun t' ht' hl' => inv.nonlit t' (hdone t' ht' hl') hl', ?_, ?_, ?_⟩
        · intro hu2 vs' hvs' s hs
          simp only at hu2
          show s ∈ vs.foldl (fun acc x => insertUniq x acc) st.lits
          rw [mem_foldl_insertUniqX]
          rcases List.mem_cons.1 hvs' with e | h
          · simp only [Ty.lit.injEq, true_and] at e; subst e; exact Or.inr hs
          · exact Or.inl (inv.lits hu2 vs' h s hs)
        · intro s hs
          have hs' : s ∈ vs.foldl (fun acc x => insertUniq x acc) st.lits := hs
          rw [mem_foldl_insertUniqX] at hs'
          rcases hs' with h | h
          · obtain ⟨vs', hvs', h'⟩ := inv.lits_sub s h
            exact ⟨vs', List.mem_cons_of_mem _ hvs', h'⟩
          · exact ⟨vs, List.mem_cons_self, h⟩
        · intro vs' hvs'
          rcases List.mem_cons.1 hvs' with e | h
          · simp at e
          · have := inv.ovf vs' h
            rw [this] at hu'; simp at hu'

theorem UInv.foldl {L : List Ty} {st done} (inv : UInv st done) :
    UInv (L.foldl handleType st) (L.reverse ++ done) := by
  induction L generalizing st done with
  | nil => simpa using inv
  | cons t L ih =>
    have := ih (inv.step t)
    simpa using this

/-- the loop state of `mkUnionMembers` -/
def unionState (ts : List Ty) : UState := (flattenUnion ts).foldl handleType ⟨[], [], true, []⟩

theorem unionState_inv (ts : List Ty) : UInv (unionState ts) (flattenUnion ts).reverse := by
  have := UInv.foldl (L := flattenUnion ts) UInv.init
  simpa [unionState] using this

theorem mkLit_cases (c : LitCfg) (vals : List String) :
    mkLit c vals = .lit true [] ∨ mkLit c vals = .lit false vals := by
  unfold mkLit; split <;> simp

/-- the part of `mkUnionMembers` after the loop -/
def finishUnionX (c : LitCfg) (st : UState) : List Ty :=
  let (st, useLit) :=
    if !st.lits.isEmpty && st.useLit then
      match mkLit c st.lits with
      | .lit true _ => (st, false)
      | l => ({ st with unique := l :: st.unique }, true)
    else (st, st.useLit)
  let st := if !useLit then
      (if st.hashes.contains (hashStr .str) then st else { st with unique := .str :: st.unique })
    else st
  st.unique.reverse

theorem mkUnionMembers_eqX (c : LitCfg) (ts : List Ty) :
    mkUnionMembers c ts = finishUnionX c (unionState ts) := rfl

theorem mem_finishUnion {c : LitCfg} {st : UState} {u : Ty} :
    u ∈ finishUnionX c st ↔
      u ∈ st.unique ∨
      (u = .lit false st.lits ∧ st.lits ≠ [] ∧ st.useLit = true ∧ mkLit c st.lits = .lit false st.lits) ∨
      (u = .str ∧ hashStr .str ∉ st.hashes ∧
        ¬ (st.useLit = true ∧ (st.lits = [] ∨ mkLit c st.lits = .lit false st.lits))) := by
  unfold finishUnionX
  by_cases hU : st.useLit = true
  · by_cases hL : st.lits = []
    · simp [hU, hL]
    · have hne : st.lits.isEmpty = false := by simpa using hL
      rcases mkLit_cases c st.lits with hm | hm
      · simp only [hne, hU, hm]
        by_cases hh : hashStr Ty.str ∈ st.hashes <;> simp [hh, hL]
      · simp only [hne, hU, hm]
        simp [hL]
  · have hU' : st.useLit = false := by simpa using hU
    by_cases hh : hashStr Ty.str ∈ st.hashes <;> simp [hU', hh]

/-- the three sources of members of `DUnion(*ts)` -/
theorem mem_mkUnionMembers {c : LitCfg} {ts : List Ty} {u : Ty} :
    u ∈ mkUnionMembers c ts ↔
      u ∈ (unionState ts).unique ∨
      (u = .lit false (unionState ts).lits ∧ (unionState ts).lits ≠ [] ∧ (unionState ts).useLit = true ∧
        mkLit c (unionState ts).lits = .lit false (unionState ts).lits) ∨
      (u = .str ∧ hashStr .str ∉ (unionState ts).hashes ∧
        ¬ ((unionState ts).useLit = true ∧
            ((unionState ts).lits = [] ∨ mkLit c (unionState ts).lits = .lit false (unionState ts).lits))) := by
  rw [mkUnionMembers_eqX]; exact mem_finishUnion

/-! ## soundness of `DUnion(*ts)` -/

/-- "equal hash strings ⇒ same inhabitants" on the members that `DUnion(*ts)` compares.
    `str` is included because the constructor may add it and looks its hash string up among the members. -/
def HashSoundX (ov : Bool) (acc : Accepts) (g : ModelLookup) (ts : List Ty) : Prop :=
  ∀ a b, a ∈ Ty.str :: flattenUnion ts → b ∈ Ty.str :: flattenUnion ts → hashStr a = hashStr b →
    ∀ v, InhX ov acc g a v ↔ InhX ov acc g b v

theorem mkUnion_sound {ov acc g} {c : LitCfg} {ts : List Ty} {t : Ty} {v : Json}
    (hs : HashSoundX ov acc g ts) (ht : t ∈ flattenUnion ts) (hi : InhX ov acc g t v) :
    InhX ov acc g (.union (mkUnionMembers c ts)) v := by
  have inv := unionState_inv ts
  by_cases hl : t.isLit = false
  · -- a member with the same hash string was kept
    have hh := inv.nonlit t (by simpa using ht) hl
    rw [inv.hashes_eq, List.mem_map] at hh
    obtain ⟨u, hu, he⟩ := hh
    have hu' : u ∈ flattenUnion ts := by simpa using inv.unique_sub u hu
    have : InhX ov acc g u v :=
      (hs t u (List.mem_cons_of_mem _ ht) (List.mem_cons_of_mem _ hu') he.symm v).1 hi
    exact InhX.union (mem_mkUnionMembers.2 (Or.inl hu)) this
  · obtain ⟨o, vs, rfl⟩ : ∃ o vs, t = .lit o vs := by
      cases t <;> simp [Ty.isLit] at hl; exact ⟨_, _, rfl⟩
    -- the value is a string: either the folded literal survives and holds it,
    -- or `str` (or a member hashing like `str`) is a member
    obtain ⟨s, rfl, hcase⟩ : ∃ s, v = .str s ∧ ((o = false ∧ s ∈ vs) ∨ o = true) := by
      cases hi with
      | lit h => exact ⟨_, rfl, Or.inl ⟨rfl, h⟩⟩
      | litOv h => exact ⟨_, rfl, Or.inr rfl⟩
    by_cases hgood : (unionState ts).useLit = true ∧
        ((unionState ts).lits = [] ∨ mkLit c (unionState ts).lits = .lit false (unionState ts).lits)
    · obtain ⟨hU, hL⟩ := hgood
      rcases hcase with ⟨rfl, hsv⟩ | rfl
      · have hmem : s ∈ (unionState ts).lits := inv.lits hU vs (by simpa using ht) s hsv
        have hne : (unionState ts).lits ≠ [] := by intro e; rw [e] at hmem; simp at hmem
        rcases hL with hL | hL
        · exact absurd hL hne
        · exact InhX.union (mem_mkUnionMembers.2 (Or.inr (Or.inl ⟨rfl, hne, hU, hL⟩))) (InhX.lit hmem)
      · have := inv.ovf vs (by simpa using ht)
        rw [this] at hU; simp at hU
    · by_cases hh : hashStr Ty.str ∈ (unionState ts).hashes
      · rw [inv.hashes_eq, List.mem_map] at hh
        obtain ⟨u, hu, he⟩ := hh
        have hu' : u ∈ flattenUnion ts := by simpa using inv.unique_sub u hu
        have : InhX ov acc g u (.str s) :=
          (hs .str u List.mem_cons_self (List.mem_cons_of_mem _ hu') he.symm _).1 InhX.str
        exact InhX.union (mem_mkUnionMembers.2 (Or.inl hu)) this
      · exact InhX.union (mem_mkUnionMembers.2 (Or.inr (Or.inr ⟨rfl, hh, hgood⟩))) InhX.str

/-- version for a direct (possibly union-typed) argument of `DUnion(*ts)` -/
theorem mkUnion_sound' {ov acc g} {c : LitCfg} {ts : List Ty} {t : Ty} {v : Json}
    (hs : HashSoundX ov acc g ts) (ht : t ∈ ts) (hi : InhX ov acc g t v) :
    InhX ov acc g (.union (mkUnionMembers c ts)) v := by
  obtain ⟨t', hm, ht'⟩ := inhX_flatten (inh_union_iff.2 ⟨t, ht, hi⟩)
  exact mkUnion_sound hs hm ht'

/-- every member of `DUnion(*ts)` is a flattened argument, `str`, or the folded literal -/
theorem mkUnionMembers_forall {P : Ty → Prop} {c : LitCfg} {ts : List Ty}
    (hflat : ∀ t ∈ flattenUnion ts, P t) (hstr : P .str) (hlit : ∀ vs, vs ≠ [] → P (.lit false vs)) :
    ∀ u ∈ mkUnionMembers c ts, P u := by
  intro u hu
  have inv := unionState_inv ts
  rcases mem_mkUnionMembers.1 hu with h | h | h
  · exact hflat u (by simpa using inv.unique_sub u h)
  · rw [h.1]; exact hlit _ h.2.1
  · rw [h.1]; exact hstr

theorem HashSoundX.of_on {ov acc g} {U : Ty → Prop} (h : HashSoundOn ov acc g U) {ts : List Ty}
    (hstr : U .str) (hts : ∀ t ∈ flattenUnion ts, U t) : HashSoundX ov acc g ts := by
  intro a b ha hb
  have hU : ∀ x ∈ Ty.str :: flattenUnion ts, U x := by
    intro x hx
    rcases List.mem_cons.1 hx with e | hx
    · rw [e]; exact hstr
    · exact hts x hx
  exact h a b (hU a ha) (hU b hb)

end J2M
