/-
  `indentBlock` in an evaluable form.  `String.splitOn` is defined by well-founded recursion and does not reduce in
  the kernel; with a one-character separator it splits the character list (same proof as in `J2M/Proofs/Cli.lean`,
  repeated here so that the two developments stay independent).
-/
import J2M.Render
import Batteries.Data.String.Lemmas
namespace J2M.Rend2
open String

set_option linter.deprecated false in
theorem splitOnAux_char (c : Char) (l m r : List Char) (acc : List String) :
    splitOnAux (ofList (l ++ m ++ r)) (singleton c) ⟨utf8Len l⟩ ⟨utf8Len l + utf8Len m⟩ 0 acc =
      acc.reverse ++ (List.splitOnPPrepend (· == c) r m.reverse).map ofList := by
  unfold splitOnAux
  simp only [List.append_assoc, atEnd_iff, rawEndPos_ofList, utf8Len_append, Pos.Raw.mk_le_mk,
    Nat.add_le_add_iff_left, (by omega : utf8Len m + utf8Len r ≤ utf8Len m ↔ utf8Len r = 0),
    utf8Len_eq_zero, List.reverse_cons]
  split
  · subst r
    simpa using extract_of_valid l m []
  · obtain ⟨x, r, rfl⟩ := r.exists_cons_of_ne_nil ‹_›
    have hg : Pos.Raw.get (ofList (l ++ (m ++ x :: r))) ⟨utf8Len l + utf8Len m⟩ = x := by
      simpa using get_of_valid (l ++ m) (x :: r)
    have hn : Pos.Raw.next (ofList (l ++ (m ++ x :: r))) ⟨utf8Len l + utf8Len m⟩
        = ⟨utf8Len l + utf8Len m + x.utf8Size⟩ := by
      simpa using next_of_valid (l ++ m) x r
    have hgc : Pos.Raw.get (singleton c) 0 = c := by
      rw [singleton_eq_ofList]; simpa using get_of_valid [] [c]
    have hnc : Pos.Raw.next (singleton c) 0 = ⟨c.utf8Size⟩ := by
      rw [singleton_eq_ofList]; simpa using next_of_valid [] c []
    have hec : (singleton c).rawEndPos = ⟨c.utf8Size⟩ := by
      rw [singleton_eq_ofList, rawEndPos_ofList]; simp [utf8Len]
    have hu0 : (⟨utf8Len l + utf8Len m⟩ : Pos.Raw).unoffsetBy 0 = ⟨utf8Len l + utf8Len m⟩ := by
      simp [Pos.Raw.unoffsetBy]
    rw [hg, hn, hgc, hnc, hec, hu0, hn]
    by_cases hx : x = c
    · subst hx
      have hu : (⟨utf8Len l + utf8Len m + x.utf8Size⟩ : Pos.Raw).unoffsetBy ⟨x.utf8Size⟩
          = ⟨utf8Len l + utf8Len m⟩ := by
        simp [Pos.Raw.unoffsetBy]
      have he : Pos.Raw.extract (ofList (l ++ (m ++ x :: r))) ⟨utf8Len l⟩ ⟨utf8Len l + utf8Len m⟩ = ofList m := by
        simpa using extract_of_valid l m (x :: r)
      simp only [beq_self_eq_true, if_true, Pos.Raw.le_refl, hu, he]
      have := splitOnAux_char x (l ++ m ++ [x]) [] r (ofList m :: acc)
      simpa [Nat.add_assoc, List.splitOnPPrepend_cons_eq_if] using this
    · have hb : (x == c) = false := by simpa using hx
      simp only [hb, Bool.false_eq_true, if_false]
      have := splitOnAux_char c l (m ++ [x]) r acc
      simpa [Nat.add_assoc, List.splitOnPPrepend_cons_eq_if, hb] using this
termination_by r.length

theorem splitOn_char (s : String) (c : Char) :
    s.splitOn (singleton c) = (s.toList.splitOn c).map ofList := by
  have h : ((singleton c) == "") = false := by
    rw [singleton_eq_ofList]
    simp [← String.toList_inj]
  unfold splitOn
  simp only [h, Bool.false_eq_true, if_false]
  have := splitOnAux_char c [] [] s.toList []
  simpa [List.splitOn_eq_splitOnP] using this

/-- `indent(s)` on the character list: every line (split at `\n`) gets four spaces -/
def indentBlockL (s : String) : String :=
  "\n".intercalate ((s.toList.splitOn '\n').map (fun l => "    " ++ String.ofList l))

theorem indentBlock_eq : indentBlock = indentBlockL := by
  funext s
  unfold indentBlock indentBlockL
  have : ("\n" : String) = singleton '\n' := rfl
  rw [this, splitOn_char, List.map_map]
  rfl

example : indentBlock "class A:\n    x: int" = "    class A:\n        x: int" := by
  rw [indentBlock_eq]; decide +kernel

end J2M.Rend2
