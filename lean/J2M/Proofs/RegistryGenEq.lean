/-
  Python `==` on registry-stage types (`GoodP K I`), evaluated through the registry lookup itself, is sound
  for inhabitation: `a == b` implies `a` and `b` have the same inhabitants (generalises `pyEq_sound`, which is
  for pointer-free types and the empty lookup).
-/
import J2M.Proofs.RegistryDefs
import J2M.Proofs.RegistryGenHash
import J2M.Proofs.InhEq
namespace J2M.Reg
open J2M

/-- unfolding of `ModelPtr == ModelPtr` -/
theorem pyEq_ptr_eq {so ms g fuel i j} :
    pyEq so ms g (fuel + 1) (.ptr i) (.ptr j) =
      if i == j then some true else
      match g i, g j with
      | some fa, some fb => eqFieldsF (pyEq so ms g fuel) fa fb
      | _, _ => some (i == j) := rfl

/-- a pointer to a known model has the inhabitants of the model's field dict -/
theorem inh_ptr_iff_obj {ov acc g i fs v} (hg : g i = some fs) :
    InhX ov acc g (.ptr i) v ↔ InhX ov acc g (.obj fs) v := by
  constructor
  · intro h
    cases h with
    | ptr hg' a b c => rw [hg] at hg'; cases hg'; exact InhX.obj a b c
  · intro h
    cases h with
    | obj a b c => exact InhX.ptr hg a b c

theorem inh_ptr_congr {ov acc g i j} {fa fb : Fields} (hi : g i = some fa) (hj : g j = some fb)
    (nda : (fa.map (·.1)).Nodup) (ndb : (fb.map (·.1)).Nodup) (hl : fa.length = fb.length)
    (h : ∀ kv ∈ fa, ∃ tb, Fields.get? fb kv.1 = some tb ∧ TyEquiv ov acc g kv.2 tb) :
    ∀ v, InhX ov acc g (.ptr i) v ↔ InhX ov acc g (.ptr j) v := by
  intro v
  rw [inh_ptr_iff_obj hi, inh_ptr_iff_obj hj]
  exact inh_obj_congr nda ndb hl h v

/-- soundness of `==` through a lookup of registry-stage models -/
theorem pyEq_sound_auxP {ov acc so ms} {K I : String → Prop} {L : ModelLookup} (hL : LookGood K I L) :
    ∀ (fuel : Nat) (a b : Ty), GoodP K I a → GoodP K I b →
      pyEq so ms L fuel a b = some true → TyEquiv ov acc L a b := by
  intro fuel
  induction fuel with
  | zero => intro a b _ _ h; simp [pyEq] at h
  | succ fuel ih =>
    intro a b ga gb h
    cases a <;> cases b <;> try (simp [pyEq] at h; done)
    case int.int => exact ⟨rfl, fun _ => Iff.rfl⟩
    case float.float => exact ⟨rfl, fun _ => Iff.rfl⟩
    case bool.bool => exact ⟨rfl, fun _ => Iff.rfl⟩
    case str.str => exact ⟨rfl, fun _ => Iff.rfl⟩
    case null.null => exact ⟨rfl, fun _ => Iff.rfl⟩
    case unknown.unknown => exact ⟨rfl, fun _ => Iff.rfl⟩
    case ser.ser x y =>
      have : x = y := by simpa [pyEq] using h
      subst this; exact ⟨rfl, fun _ => Iff.rfl⟩
    case lit.lit o1 v1 o2 v2 =>
      have e : v1 = v2 := by simpa [pyEq] using h
      subst e
      simp only [goodP_lit] at ga gb
      have : o1 = o2 := by
        cases o1 <;> cases o2 <;> simp_all
      subst this; exact ⟨rfl, fun _ => Iff.rfl⟩
    case list.list x y =>
      have h' : pyEq so ms L fuel x y = some true := by simpa [pyEq] using h
      have := ih x y (by simpa using ga) (by simpa using gb) h'
      refine ⟨rfl, fun v => ?_⟩
      rw [inh_list_iff, inh_list_iff]
      constructor
      · rintro ⟨xs, rfl, hx⟩; exact ⟨xs, rfl, fun e he => (this.2 e).1 (hx e he)⟩
      · rintro ⟨xs, rfl, hx⟩; exact ⟨xs, rfl, fun e he => (this.2 e).2 (hx e he)⟩
    case dict.dict x y =>
      have h' : pyEq so ms L fuel x y = some true := by simpa [pyEq] using h
      have := ih x y (by simpa using ga) (by simpa using gb) h'
      refine ⟨rfl, fun v => ?_⟩
      rw [inh_dict_iff, inh_dict_iff]
      constructor
      · rintro ⟨xs, rfl, hx⟩; exact ⟨xs, rfl, fun e he => (this.2 e.2).1 (hx e he)⟩
      · rintro ⟨xs, rfl, hx⟩; exact ⟨xs, rfl, fun e he => (this.2 e.2).2 (hx e he)⟩
    case opt.opt x y =>
      have h' : pyEq so ms L fuel x y = some true := by simpa [pyEq] using h
      have := ih x y (by simpa using ga) (by simpa using gb) h'
      refine ⟨rfl, fun v => ?_⟩
      rw [inh_opt_iff, inh_opt_iff, this.2 v]
    case union.union xs ys =>
      rw [pyEq_union_eq] at h
      obtain ⟨hl, hp⟩ := eqListF_true h
      refine ⟨rfl, ?_⟩
      apply inh_union_congr (xs' := sortedMembers so ms xs) (ys' := sortedMembers so ms ys)
        (fun t => mem_sortByKey) (fun t => mem_sortByKey) hl
      intro p hp' v
      have hm := List.of_mem_zip hp'
      exact (ih p.1 p.2 (goodP_union.1 ga _ (mem_sortByKey.1 hm.1))
        (goodP_union.1 gb _ (mem_sortByKey.1 hm.2)) (hp p hp')).2 v
    case tuple.tuple xs ys => simp at ga
    case obj.obj fa fb => simp at ga
    case ptr.ptr i j =>
      rw [pyEq_ptr_eq] at h
      by_cases hij : i = j
      · subst hij; exact ⟨rfl, fun _ => Iff.rfl⟩
      · have hb : (i == j) = false := by simpa using hij
        rw [hb] at h
        simp only [Bool.false_eq_true, if_false] at h
        cases hi : L i with
        | none => rw [hi] at h; simp at h
        | some fa =>
          cases hj : L j with
          | none => rw [hi, hj] at h; simp at h
          | some fb =>
            rw [hi, hj] at h
            simp only at h
            obtain ⟨hl, hp⟩ := eqFieldsF_true h
            have gfa := hL i fa hi
            have gfb := hL j fb hj
            refine ⟨rfl, inh_ptr_congr hi hj gfa.1 gfb.1 hl ?_⟩
            intro kv hkv
            obtain ⟨tb, htb, he⟩ := hp kv hkv
            exact ⟨tb, htb, ih kv.2 tb (gfa.2 kv hkv) (gfb.2 _ (Fields.mem_of_get? htb)) he⟩

/-- **`pyEq_soundP`**: on registry-stage types, Python `==` evaluated through a lookup of registry-stage
    models implies "same inhabitants" relative to that lookup (for the strict and for the raw relation). -/
theorem pyEq_soundP {ov acc} {K I : String → Prop} {L : ModelLookup} (e : EqEnv) (he : e.look = L)
    (hL : LookGood K I L) : EqSoundOn ov acc L e (GoodP K I) := by
  intro a b ga gb h v
  unfold EqEnv.eq at h
  rw [he] at h
  split at h
  · rename_i r hr
    simp only [pure, Except.pure, Except.ok.injEq] at h
    subst h
    exact (pyEq_sound_auxP hL e.fuel a b ga gb hr).2 v
  · simp at h

end J2M.Reg
