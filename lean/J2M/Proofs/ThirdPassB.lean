/-
  C08, identity of a further pass at the registry stage — part B.
  * `stable cfg t` — the fixed-point class of `optimize_type` at the registry stage: ABOVE the first union (a chain
    of `List` / `Dict` / `Optional`) only "no `Optional` directly inside `Optional`" is asked; from the first union
    downwards the canonical normal form `C08P.nfc` (member order of `_optimize_union`/`DUnion`, sorted literal sets,
    no `Optional[None]` as an element type).  `List[Optional[None]]` on its own is a fixed point, under a union it
    is not — hence the two levels.
  * `optimize_stable`: `optimize_type` is the identity on `stable` types.
  * `optimize_out_stable`: ONE pass on an `out` type with sorted literal sets yields a `stable` type.
-/
import J2M.Proofs.ThirdPassA
namespace J2M.ThirdPass
open J2M J2M.C08P J2M.TwoPass

/-! ## 1. the classes -/

/-- `nfx` (what `nfc` adds to `nf`), asked only from the first union downwards -/
def nfxT (cfg : GenCfg) : Ty → Bool
  | .list t | .dict t | .opt t => nfxT cfg t
  | t => nfx cfg t

/-- the fixed-point class: a chain of `List`/`Dict`/`Optional` (no `Optional` directly inside `Optional`) over a
    canonical normal form -/
def stable (cfg : GenCfg) : Ty → Bool
  | .list t | .dict t => stable cfg t
  | .opt t => !t.isOpt && stable cfg t
  | t => nfc cfg t

theorem nfx_nfxT (cfg : GenCfg) : ∀ t, nfx cfg t = true → nfxT cfg t = true
  | .list t, h | .dict t, h => by
    simp only [nfx, Bool.and_eq_true] at h
    simp only [nfxT]; exact nfx_nfxT cfg t h.2
  | .opt t, h => by
    simp only [nfx] at h
    simp only [nfxT]; exact nfx_nfxT cfg t h
  | .int, h | .float, h | .bool, h | .str, h | .null, h | .unknown, h | .ser _, h | .lit _ _, h
  | .union _, h | .tuple _, h | .obj _, h | .ptr _, h => h

theorem stable_of_nf_nfxT (cfg : GenCfg) : ∀ t, nf t = true → nfxT cfg t = true → stable cfg t = true
  | .list t, h1, h2 | .dict t, h1, h2 => by
    simp only [nf] at h1
    simp only [nfxT] at h2
    simp only [stable]; exact stable_of_nf_nfxT cfg t h1 h2
  | .opt t, h1, h2 => by
    simp only [nf, Bool.and_eq_true] at h1
    simp only [nfxT] at h2
    simp only [stable, Bool.and_eq_true]; exact ⟨h1.1, stable_of_nf_nfxT cfg t h1.2 h2⟩
  | .int, h1, h2 | .float, h1, h2 | .bool, h1, h2 | .str, h1, h2 | .null, h1, h2 | .unknown, h1, h2
  | .ser _, h1, h2 | .lit _ _, h1, h2 | .union _, h1, h2 | .tuple _, h1, h2 | .obj _, h1, h2 | .ptr _, h1, h2 =>
    nfc_of_nf_nfx cfg _ h1 h2

/-- a canonical normal form is `stable` -/
theorem nfc_stable (cfg : GenCfg) : ∀ t, nfc cfg t = true → stable cfg t = true
  | .list t, h | .dict t, h => by
    simp only [nfc, Bool.and_eq_true] at h
    simp only [stable]; exact nfc_stable cfg t h.2
  | .opt t, h => by
    simp only [nfc, Bool.and_eq_true] at h
    simp only [stable, Bool.and_eq_true]; exact ⟨h.1, nfc_stable cfg t h.2⟩
  | .int, h | .float, h | .bool, h | .str, h | .null, h | .unknown, h | .ser _, h | .lit _ _, h
  | .union _, h | .tuple _, h | .obj _, h | .ptr _, h => h

/-- a `stable` type is a normal form in the sense of `Sem.nf` -/
theorem stable_nf (cfg : GenCfg) : ∀ t, stable cfg t = true → nf t = true
  | .list t, h | .dict t, h => by
    simp only [stable] at h
    simp only [nf]; exact stable_nf cfg t h
  | .opt t, h => by
    simp only [stable, Bool.and_eq_true] at h
    simp only [nf, Bool.and_eq_true]; exact ⟨h.1, stable_nf cfg t h.2⟩
  | .int, h | .float, h | .bool, h | .str, h | .null, h | .unknown, h | .ser _, h | .lit _ _, h
  | .union _, h | .tuple _, h | .obj _, h | .ptr _, h => nfc_nf cfg _ h

/-! ## 2. `optimize_type` is the identity on `stable` types -/

theorem optimize_stable (cfg : GenCfg) (e : EqEnv) : ∀ t, stable cfg t = true → ∀ fuel, 4 * t.size ≤ fuel →
    optimize cfg e fuel t = .ok t
  | .list x, h, fuel, hf => by
    simp only [Ty.size] at hf
    obtain ⟨f, rfl⟩ : ∃ f, fuel = f + 1 := ⟨fuel - 1, by omega⟩
    simp only [stable] at h
    rw [optimize, optimize_stable cfg e x h f (by omega)]; rfl
  | .dict x, h, fuel, hf => by
    simp only [Ty.size] at hf
    obtain ⟨f, rfl⟩ : ∃ f, fuel = f + 1 := ⟨fuel - 1, by omega⟩
    simp only [stable] at h
    rw [optimize, optimize_stable cfg e x h f (by omega)]; rfl
  | .opt x, h, fuel, hf => by
    simp only [Ty.size] at hf
    obtain ⟨f, rfl⟩ : ∃ f, fuel = f + 1 := ⟨fuel - 1, by omega⟩
    simp only [stable, Bool.and_eq_true, Bool.not_eq_true'] at h
    rw [optimize, optimize_stable cfg e x h.2 f (by omega)]
    have := h.1
    cases x <;> first | rfl | simp [Ty.isOpt] at this
  | .int, h, fuel, hf | .float, h, fuel, hf | .bool, h, fuel, hf | .str, h, fuel, hf | .null, h, fuel, hf
  | .unknown, h, fuel, hf | .ser _, h, fuel, hf | .lit _ _, h, fuel, hf | .union _, h, fuel, hf
  | .tuple _, h, fuel, hf | .obj _, h, fuel, hf | .ptr _, h, fuel, hf =>
    optimize_idem_nfc cfg e _ h fuel hf

/-! ## 3. the tail of `_optimize_union`, canonical version, for the registry stage -/

/-- `C08P.finish_nfx`, with the facts about the member list as hypotheses -/
theorem finish_nfx_gen {cfg : GenCfg} {types : List Ty} {t' : Ty} (ok : TysOK cfg.lit types)
    (hunk : (types.filter Ty.isUnknown).length ≤ 1) (hkind : ∀ t ∈ types, t.kindN ≠ 10)
    (hordT : (types.filter (fun t => !t.isLit)).Pairwise RC)
    (hx : ∀ t ∈ types, nfx cfg t = true) (h : finishOpt cfg.lit types = .ok t') :
    nfx cfg t' = true ∧ t'.isOptNull = false := by
  match types, h with
  | [], h => simp [finishOpt] at h
  | [t], h =>
    simp only [finishOpt, pure, Except.pure, Except.ok.injEq] at h
    subst h
    refine ⟨hx _ (by simp), ?_⟩
    cases hh : t.isOptNull with
    | false => rfl
    | true => exact absurd (isOptNull_kind t hh) (hkind t (by simp))
  | a :: b :: rest, h =>
    rw [finishOpt_ge2 _ _ (by simp)] at h
    simp only [Except.ok.injEq] at h
    have hsub1 := dropUnknown_sublist (a :: b :: rest)
    have hsub2 : ((dropUnknown (a :: b :: rest)).filter (fun t => !t.isNull)).Sublist (a :: b :: rest) :=
      (List.filter_sublist).trans hsub1
    have ok' := ok.sublist hsub2
    have hnu : ∀ t ∈ (dropUnknown (a :: b :: rest)).filter (fun t => !t.isNull),
        t.isNull = false ∧ t.isUnknown = false := by
      intro t ht
      rw [List.mem_filter] at ht
      exact ⟨by simpa using ht.2, dropUnknown_none _ hunk t ht.1⟩
    have hord := hordT.sublist (hsub2.filter (fun t => !t.isLit))
    obtain ⟨h1, h2⟩ := union_nfx ok' hnu (fun t ht => hx t (hsub2.subset ht)) hord
    obtain ⟨_, h3⟩ := union_nf ok' hnu
    subst h
    split
    · exact ⟨by simpa [nfx] using h1, isOptNull_opt _ h2⟩
    · refine ⟨h1, ?_⟩
      cases hh : (collapse (mkUnionMembers cfg.lit
          ((dropUnknown (a :: b :: rest)).filter (fun t => !t.isNull)))).isOptNull with
      | false => rfl
      | true =>
        have := isOptNull_kind _ hh
        rw [isOpt_kind] at h3
        simp [this] at h3

theorem cls_of_kind' (t : Ty)
    (h : t.kindN = 0 ∨ t.kindN = 1 ∨ t.kindN = 2 ∨ t.kindN = 4 ∨ t.kindN = 5 ∨ t.kindN = 14) : t.cls = 0 := by
  cases t <;> simp [Ty.kindN, Ty.cls] at h ⊢

theorem types_kind' {c : LitCfg} {O Tl Td Ts : List Ty} (hO : OPre' c O)
    (hl : Seg 8 8 Tl) (hd : Seg 9 9 Td) (hs : Seg 3 6 Ts) :
    ∀ t ∈ O ++ Tl ++ Td ++ Ts, t.kindN ≠ 10 := by
  intro t ht
  simp only [List.mem_append] at ht
  rcases ht with ((h | h) | h) | h
  · have := hO.kind t h; omega
  · have := hl.kind t h; omega
  · have := hd.kind t h; omega
  · have := hs.kind t h; omega

theorem types_order' {c : LitCfg} {O Tl Td Ts : List Ty} (hO : OPre' c O)
    (hl : Seg 8 8 Tl) (hd : Seg 9 9 Td) (hs : Seg 3 6 Ts) :
    ((O ++ Tl ++ Td ++ Ts).filter (fun t => !t.isLit)).Pairwise RC := by
  have hsub : ((O ++ Tl ++ Td ++ Ts).filter (fun t => !t.isLit)).Sublist
      (O.filter (fun t => !t.isLit) ++ [] ++ Tl ++ Td ++ Ts) := by
    simp only [List.filter_append, List.append_nil]
    exact (((List.Sublist.refl _).append List.filter_sublist).append List.filter_sublist).append
      List.filter_sublist
  refine List.Pairwise.sublist hsub ?_
  apply pairwise_assemble
  · intro a ha
    rw [List.mem_filter] at ha
    have hk := hO.kind a ha.1
    have hnl : a.kindN ≠ 7 := by
      have := ha.2; rw [isLit_kind] at this; simpa using this
    exact cls_of_kind' a (by omega)
  · exact ⟨by simp, by simp⟩
  · exact ⟨hl.len, fun a ha => (cls_of_kind a).2.1 (by have := hl.kind a ha; omega)⟩
  · exact ⟨hd.len, fun a ha => (cls_of_kind a).2.2.1 (by have := hd.kind a ha; omega)⟩
  · exact ⟨hs.len, fun a ha => (cls_of_kind a).2.2.2.1 (hs.kind a ha)⟩

/-- a member of the "other" category of an `out` list with sorted literal sets -/
theorem leaf_nfx {cfg : GenCfg} {m : Ty} (hc : isOtherCls m = true) (ho : m.isOpt = false)
    (hu : m.isUnion = false) (hout : out cfg m = true) (hk : rawK cfg m = true) : nfx cfg m = true := by
  cases m with
  | lit o vs =>
    obtain ⟨rfl, _, _⟩ := out_lit hout
    simpa [rawK, nfx] using hk
  | int | float | bool | null | unknown | ptr _ => simp [nfx]
  | str | ser _ | list _ | dict _ | obj _ => simp [isOtherCls, Ty.cls] at hc
  | opt _ => simp [Ty.isOpt] at ho
  | union _ => simp [Ty.isUnion] at hu
  | tuple _ => simp [out] at hout

/-! ## 4. the step on an expanded member list -/

/-- the claim for the element type of a rebuilt list/dict, at fuel `f` -/
def InnerAtX (cfg : GenCfg) (e : EqEnv) (f : Nat) : Prop :=
  ∀ x y, out cfg x = true → rawK cfg x = true → optimize cfg e f (mkUnion cfg.lit [x]) = .ok y →
    nfx cfg y = true ∧ y.isOptNull = false

/-- the claim for an expanded member list, at fuel `f` -/
def BodyAtX (cfg : GenCfg) (e : EqEnv) (f : Nat) : Prop :=
  ∀ E t', OutE cfg E → (∀ t ∈ E, rawK cfg t = true) →
    unionBody cfg e f (E.foldl (splitStep cfg.reg) {}) = .ok t' → nfx cfg t' = true ∧ t'.isOptNull = false

/-- the claim for a type, at fuel `f` -/
def TypeAtX (cfg : GenCfg) (e : EqEnv) (f : Nat) : Prop :=
  ∀ t t', out cfg t = true → rawK cfg t = true → optimize cfg e f t = .ok t' → nfxT cfg t' = true

/-- a rebuilt `List[..]` / `Dict[..]` member: normal form, and canonical by the induction hypothesis -/
theorem rebuilt_ok {cfg : GenCfg} {e : EqEnv} {f : Nat} (ihC : ∀ f', f' < f → InnerAtX cfg e f')
    (wrap : Ty → Ty) (hw : wrap = Ty.list ∨ wrap = Ty.dict) {x b : Ty} (hxo : out cfg x = true)
    (hxk : rawK cfg x = true) (hb : optimize cfg e f (wrap (mkUnion cfg.lit [x])) = .ok b) :
    nf b = true ∧ nfx cfg b = true := by
  cases f with
  | zero => simp [optimize] at hb
  | succ f1 =>
    rcases hw with rfl | rfl
    · rw [optimize] at hb
      simp only [bind, Except.bind] at hb
      split at hb
      · cases hb
      · rename_i z hz
        simp only [pure, Except.pure, Except.ok.injEq] at hb; subst hb
        obtain ⟨a1, a2⟩ := ihC f1 (by omega) x z hxo hxk hz
        exact ⟨by simpa [nf] using (out_all cfg e f1).2.2 x z hxo hz, by simp [nfx, a1, a2]⟩
    · rw [optimize] at hb
      simp only [bind, Except.bind] at hb
      split at hb
      · cases hb
      · rename_i z hz
        simp only [pure, Except.pure, Except.ok.injEq] at hb; subst hb
        obtain ⟨a1, a2⟩ := ihC f1 (by omega) x z hxo hxk hz
        exact ⟨by simpa [nf] using (out_all cfg e f1).2.2 x z hxo hz, by simp [nfx, a1, a2]⟩

theorem body_stepX {cfg : GenCfg} {e : EqEnv} {f : Nat} (ihC : ∀ f', f' < f → InnerAtX cfg e f') :
    BodyAtX cfg e f := by
  intro E t' hE hEk h
  obtain ⟨Sx, To, Tl, Td, Ts, hSx, hTo, hTl, hTd, hTs, hfin⟩ := body_inv hE.plain h
  have hsubO : (stageInt (E.filter isOtherCls)).Sublist E := (stageInt_sublist _).trans List.filter_sublist
  have hcls : ∀ m ∈ stageInt (E.filter isOtherCls), isOtherCls m = true :=
    fun m hm => (List.mem_filter.mp ((stageInt_sublist _).subset hm)).2
  have hToO : To = stageInt (E.filter isOtherCls) := by
    apply mapM_id_of _ _ _ hTo
    intro m hm y hy
    have hmE := hsubO.subset hm
    have hout := hE.mem m hmE
    rcases optimize_other (hcls m hm) (hE.noOpt m hmE) (hE.flat m hmE) (out_not_tuple hout) hy with
      ⟨h1, _⟩ | ⟨_, hb⟩
    · exact h1
    · exfalso
      cases m <;> simp [Ty.isBadLit] at hb
      rename_i o vs
      obtain ⟨rfl, hne, _⟩ := out_lit hout
      rcases hb with hb | hb
      · cases hb
      · exact hne hb
  subst hToO
  have hO : OPre' cfg.lit (stageInt (E.filter isOtherCls)) := by
    refine ⟨?_, ?_, ?_, ?_, ?_, ?_⟩
    · intro m hm
      have hmE := hsubO.subset hm
      have h1 := hcls m hm
      have h2 := hE.noOpt m hmE
      have h3 := hE.flat m hmE
      have h4 := out_not_tuple (hE.mem m hmE)
      have h5 := hE.mem m hmE
      cases m <;> simp_all [isOtherCls, Ty.cls, Ty.kindN, Ty.isOpt, Ty.isUnion, Ty.isTuple, out]
    · intro m hm
      have hmE := hsubO.subset hm
      have h1 := hcls m hm
      have h2 := hE.noOpt m hmE
      have h3 := hE.flat m hmE
      have h5 := hE.mem m hmE
      cases m with
      | lit o vs =>
        obtain ⟨rfl, hne, _⟩ := out_lit h5
        simp [nf, hne]
      | int | float | bool | str | null | unknown | ser _ | ptr _ => simp [nf]
      | list _ | dict _ | obj _ => simp [isOtherCls, Ty.cls] at h1
      | opt _ => simp [Ty.isOpt] at h2
      | union _ => simp [Ty.isUnion] at h3
      | tuple _ => simp [out] at h5
    · exact stageInt_not_both _ (filter_le_one_of_sublist _ List.filter_sublist hE.oneInt)
    · exact filter_le_one_of_sublist _ hsubO hE.oneLit
    · intro o vs hm
      obtain ⟨h1, _, h3⟩ := out_lit (hE.mem _ (hsubO.subset hm))
      exact ⟨h1, h3⟩
    · exact filter_le_one_of_sublist _ hsubO hE.oneUnknown
  -- the rebuilt list
  have keyL : ∀ x ∈ (if (listEs E).isEmpty then [] else [Ty.list (mkUnion cfg.lit (listEs E))]),
      x.kindN = 8 ∧ ∀ b, optimize cfg e f x = .ok b → nf b = true ∧ nfx cfg b = true := by
    intro x hx
    split at hx
    · cases hx
    · simp at hx; subst hx
      refine ⟨by simp [Ty.kindN], fun b hb => ?_⟩
      have hlen : (listEs E).length ≤ 1 := by rw [listEs_length]; exact hE.oneList
      rcases length_le_one_cases _ hlen with h0 | ⟨x, h1⟩
      · rename_i hne; rw [h0] at hne; simp at hne
      · rw [h1] at hb
        have hxE : Ty.list x ∈ E := mem_listEs (by rw [h1]; simp)
        exact rebuilt_ok ihC Ty.list (Or.inl rfl) (by simpa [out] using hE.mem _ hxE)
          (by simpa [rawK] using hEk _ hxE) hb
  have keyD : ∀ x ∈ (if (dictEs E).isEmpty then [] else [Ty.dict (mkUnion cfg.lit (dictEs E))]),
      x.kindN = 9 ∧ ∀ b, optimize cfg e f x = .ok b → nf b = true ∧ nfx cfg b = true := by
    intro x hx
    split at hx
    · cases hx
    · simp at hx; subst hx
      refine ⟨by simp [Ty.kindN], fun b hb => ?_⟩
      have hlen : (dictEs E).length ≤ 1 := by rw [dictEs_length]; exact hE.oneDict
      rcases length_le_one_cases _ hlen with h0 | ⟨x, h1⟩
      · rename_i hne; rw [h0] at hne; simp at hne
      · rw [h1] at hb
        have hxE : Ty.dict x ∈ E := mem_dictEs (by rw [h1]; simp)
        exact rebuilt_ok ihC Ty.dict (Or.inr rfl) (by simpa [out] using hE.mem _ hxE)
          (by simpa [rawK] using hEk _ hxE) hb
  have segL : Seg 8 8 Tl := by
    apply seg_mapM (by omega) (by omega) _ _ hTl
    · split <;> simp
    · intro x hx
      exact ⟨Or.inl (keyL x hx).1, fun b hb => ((keyL x hx).2 b hb).1⟩
  have segD : Seg 9 9 Td := by
    apply seg_mapM (by omega) (by omega) _ _ hTd
    · split <;> simp
    · intro x hx
      exact ⟨Or.inl (keyD x hx).1, fun b hb => ((keyD x hx).2 b hb).1⟩
  have segS : Seg 3 6 Ts := by
    apply seg_mapM (by omega) (by omega) _ _ hTs
    · rcases hSx with rfl | rfl | ⟨k, rfl, _⟩ <;> simp
    · intro x hx
      rcases hSx with rfl | rfl | ⟨k, rfl, _⟩
      · cases hx
      · simp at hx; subst hx
        refine ⟨by simp [Ty.kindN], fun b hb => ?_⟩
        cases f with
        | zero => simp [optimize] at hb
        | succ f1 => simp [optimize, pure, Except.pure] at hb; subst hb; simp [nf]
      · simp at hx; subst hx
        refine ⟨by simp [Ty.kindN], fun b hb => ?_⟩
        cases f with
        | zero => simp [optimize] at hb
        | succ f1 => simp [optimize, pure, Except.pure] at hb; subst hb; simp [nf]
  obtain ⟨ok, hunk⟩ := tysOK_assemble' hO segL segD segS
  have hx : ∀ t ∈ stageInt (E.filter isOtherCls) ++ Tl ++ Td ++ Ts, nfx cfg t = true := by
    intro t ht
    simp only [List.mem_append] at ht
    rcases ht with ((h1 | h1) | h1) | h1
    · have hmE := hsubO.subset h1
      exact leaf_nfx (hcls t h1) (hE.noOpt t hmE) (hE.flat t hmE) (hE.mem t hmE) (hEk t hmE)
    · obtain ⟨m, hm, hmy⟩ := mapM_mem_inv _ _ _ hTl t h1
      exact ((keyL m hm).2 t hmy).2
    · obtain ⟨m, hm, hmy⟩ := mapM_mem_inv _ _ _ hTd t h1
      exact ((keyD m hm).2 t hmy).2
    · obtain ⟨m, hm, hmy⟩ := mapM_mem_inv _ _ _ hTs t h1
      cases f with
      | zero => simp [optimize] at hmy
      | succ f1 =>
        rcases hSx with rfl | rfl | ⟨k, rfl, hk⟩
        · cases hm
        · simp at hm; subst hm
          simp [optimize, pure, Except.pure] at hmy; subst hmy; simp [nfx]
        · simp at hm; subst hm
          simp [optimize, pure, Except.pure] at hmy; subst hmy; simpa [nfx] using hk
  exact finish_nfx_gen ok hunk (types_kind' hO segL segD segS) (types_order' hO segL segD segS) hx hfin

/-! ## 5. the element type of a rebuilt list/dict -/

theorem inner_stepX {cfg : GenCfg} {e : EqEnv} {f : Nat} (ihB : ∀ f', f' < f → BodyAtX cfg e f') :
    InnerAtX cfg e f := by
  intro x y hx hxk h
  cases f with
  | zero => simp [optimize] at h
  | succ f1 =>
  unfold mkUnion at h
  rw [optimize] at h
  cases f1 with
  | zero => simp [optimizeUnion] at h
  | succ f2 =>
  by_cases hopt : x.isOpt = true
  · -- the element type is `Optional[z]`
    cases x <;> simp [Ty.isOpt] at hopt
    rename_i z
    have hz : z.isOpt = false ∧ out cfg z = true := by
      simpa [out] using hx
    have hzk : rawK cfg z = true := by simpa [rawK] using hxk
    rw [mkUM_single_plain _ _ rfl rfl] at h
    by_cases hzu : z.isUnion = true
    · cases z <;> simp [Ty.isUnion] at hzu
      rename_i zs
      obtain ⟨u, _⟩ := out_union hz.2
      rw [optimizeUnion_split, splitMembers_opt_union _ _
        (fun t ht => hidden_false_of (u.flat t ht) (u.noOpt t ht)), fold_cons_null] at h
      refine ihB f2 (by omega) _ _ (OutE.of_union hz.2).cons_null ?_ h
      intro t ht
      rcases List.mem_cons.mp ht with rfl | ht
      · rfl
      · exact rawK_union hzk t ht
    · have hzu' : z.isUnion = false := by simpa using hzu
      rw [optimizeUnion_body _ _ _ _ (by
        intro t ht; simp at ht; subst ht; exact hidden_false_opt hzu')] at h
      rw [List.foldl_cons, List.foldl_nil, splitStep_opt _ _ _ hz.1] at h
      have : splitStep cfg.reg { other := ({} : Split).other ++ [Ty.null] } z =
          [Ty.null, z].foldl (splitStep cfg.reg) {} := rfl
      rw [this] at h
      refine ihB f2 (by omega) _ _ (OutE.single hzu' hz.1 hz.2).cons_null ?_ h
      intro t ht
      simp only [List.mem_cons, List.not_mem_nil, or_false] at ht
      rcases ht with rfl | rfl
      · rfl
      · exact hzk
  · have hopt' : x.isOpt = false := by simpa using hopt
    rw [mkUM_unionMembers] at h
    have hX : OutE cfg x.unionMembers := by
      by_cases hxu : x.isUnion = true
      · cases x <;> simp [Ty.isUnion] at hxu
        exact OutE.of_union hx
      · have hxu' : x.isUnion = false := by simpa using hxu
        have : x.unionMembers = [x] := by cases x <;> simp_all [Ty.unionMembers, Ty.isUnion]
        rw [this]
        exact OutE.single hxu' hopt' hx
    have hU := hX.mkUM
    rw [optimizeUnion_body _ _ _ _ (fun t ht => hidden_false_of (hU.flat t ht) (hU.noOpt t ht))] at h
    exact ihB f2 (by omega) _ _ hU (mkUM_rawK _ (unionMembers_rawK hxk)) h

/-! ## 6. a type -/

theorem type_stepX {cfg : GenCfg} {e : EqEnv} {f : Nat} (ihA : ∀ f', f' < f → TypeAtX cfg e f')
    (ihB : ∀ f', f' < f → BodyAtX cfg e f') : TypeAtX cfg e f := by
  intro t t' ht hk h
  cases f with
  | zero => simp [optimize] at h
  | succ f1 =>
  cases t with
  | int | float | bool | str | null | unknown | ptr _ =>
    simp [optimize, pure, Except.pure] at h; subst h; rfl
  | ser k =>
    simp [optimize, pure, Except.pure] at h; subst h
    have : cfg.reg.types.contains k = true := by simpa [out] using ht
    exact this
  | tuple _ | obj _ => simp [out] at ht
  | lit ov vs =>
    obtain ⟨rfl, hne, _⟩ := out_lit ht
    rw [optimize] at h
    simp only [Bool.false_or, List.isEmpty_iff, hne, ↓reduceIte, pure, Except.pure,
      Except.ok.injEq] at h
    subst h
    have : litStable cfg.lit vs = true := by simpa [rawK] using hk
    exact this
  | list x =>
    rw [optimize] at h
    simp only [bind, Except.bind] at h
    split at h
    · cases h
    · rename_i y hy
      simp only [pure, Except.pure, Except.ok.injEq] at h; subst h
      simp only [nfxT]
      exact ihA f1 (by omega) x y (by simpa [out] using ht) (by simpa [rawK] using hk) hy
  | dict x =>
    rw [optimize] at h
    simp only [bind, Except.bind] at h
    split at h
    · cases h
    · rename_i y hy
      simp only [pure, Except.pure, Except.ok.injEq] at h; subst h
      simp only [nfxT]
      exact ihA f1 (by omega) x y (by simpa [out] using ht) (by simpa [rawK] using hk) hy
  | opt x =>
    rw [optimize] at h
    simp only [bind, Except.bind] at h
    split at h
    · cases h
    · rename_i y hy
      have hxo : out cfg x = true := by
        have : x.isOpt = false ∧ out cfg x = true := by simpa [out] using ht
        exact this.2
      have hy' := ihA f1 (by omega) x y hxo (by simpa [rawK] using hk) hy
      split at h
      · simp only [pure, Except.pure, Except.ok.injEq] at h; subst h; exact hy'
      · simp only [pure, Except.pure, Except.ok.injEq] at h; subst h
        simp only [nfxT]; exact hy'
  | union ms =>
    rw [optimize] at h
    cases f1 with
    | zero => simp [optimizeUnion] at h
    | succ f2 =>
      obtain ⟨u, _⟩ := out_union ht
      rw [optimizeUnion_body _ _ _ _ (fun t ht' => hidden_false_of (u.flat t ht') (u.noOpt t ht'))] at h
      exact nfx_nfxT cfg _ (ihB f2 (by omega) _ _ (OutE.of_union ht) (rawK_union hk) h).1

/-! ## 7. the induction on fuel -/

theorem outX_all (cfg : GenCfg) (e : EqEnv) : ∀ f, TypeAtX cfg e f ∧ BodyAtX cfg e f ∧ InnerAtX cfg e f := by
  intro f
  induction f using Nat.strongRecOn with
  | ind f ih =>
    have hB : BodyAtX cfg e f := body_stepX (fun f' hf' => (ih f' hf').2.2)
    exact ⟨type_stepX (fun f' hf' => (ih f' hf').1) (fun f' hf' => (ih f' hf').2.1), hB,
      inner_stepX (fun f' hf' => (ih f' hf').2.1)⟩

/-- **one pass from `out` (with sorted literal sets) reaches the fixed-point class**: whatever the fuel and the
    comparison environment -/
theorem optimize_out_stable (cfg : GenCfg) (e : EqEnv) (f : Nat) (t t' : Ty) (ht : out cfg t = true)
    (hk : rawK cfg t = true) (h : optimize cfg e f t = .ok t') : stable cfg t' = true :=
  stable_of_nf_nfxT cfg t' (optimize_out_nf cfg e f t t' ht h) ((outX_all cfg e f).1 t t' ht hk h)

/-- a union that one pass returns is a canonical normal form; in particular the result of `_optimize_union` never
    has `Optional[None]` as the element type of a list/dict below it -/
theorem optimize_out_union_nfc (cfg : GenCfg) (e : EqEnv) (f : Nat) (t : Ty) (us : List Ty) (ht : out cfg t = true)
    (hk : rawK cfg t = true) (h : optimize cfg e f t = .ok (.union us)) : nfc cfg (.union us) = true :=
  optimize_out_stable cfg e f t _ ht hk h

end J2M.ThirdPass
