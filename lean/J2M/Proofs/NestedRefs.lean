/-
  Helper development for `Props/C03T.lean` (references of the NESTED layout resolve).

  1. `occL`, `idxPaths`, `defPaths`: the classes a rendered structure defines, each with the path of enclosing classes
     (as indices and as final class names) and the indices of the classes nested directly in it.
  2. the structure built by `compose_models` (`buildNodeE`): the directly nested classes of a class `k` are
     `s.children k` as long as the fuel is not exhausted, and it never is (pigeonhole on the pairwise distinct
     indices of a path).
-/
import J2M.Proofs.Render2Tree
import J2M.Proofs.Render2Layouts
import J2M.Proofs.LayoutRoot
import J2M.Proofs.RSoundRefs
import J2M.Proofs.Names
namespace J2M.NestedRefs
open J2M J2M.Rend J2M.Rend2 J2M.LayoutP J2M.Reg J2M.RSound

/-! ## 1. definition paths -/

/-- the class name written in the `class` statement of model `i` under the final names `F` (`genClass` writes
    `m.name.getD "None"` for the record `modelAt g F i`) -/
def nm (F : NameMap) (i : String) : String := (lookup F i).getD "None"

mutual
/-- the classes of a layout tree: (indices of the enclosing classes from the top-level class down to the class
    itself, indices of the classes nested directly in it) -/
def occN (pfx : List String) : Node → List (List String × List String)
  | .mk idx nested => (pfx ++ [idx], nested.map nodeIdx) :: occL (pfx ++ [idx]) nested
def occL (pfx : List String) : List Node → List (List String × List String)
  | [] => []
  | n :: ns => occN pfx n ++ occL pfx ns
end

/-- the index paths of all classes of a structure, in the order of the `class` statements in the text -/
def idxPaths (roots : List Node) : List (List String) := (occL [] roots).map (·.1)

/-- **defPaths**: the dotted definition path of every class the rendered module defines, as the list of its
    components: `[name]` for a top-level class, `path P ++ [name]` for a class nested in `P` -/
def defPaths (roots : List Node) (F : NameMap) : List (List String) := (idxPaths roots).map (fun q => q.map (nm F))

/-- the same, tagged with the model index of the class -/
def defIdxPaths (roots : List Node) (F : NameMap) : List (String × List String) :=
  (idxPaths roots).map (fun q => (q.getLastD "", q.map (nm F)))

mutual
/-- the indices of a layout tree in the order of the `class` statements (enclosing class first) -/
def preN : Node → List String
  | .mk idx nested => idx :: preL nested
def preL : List Node → List String
  | [] => []
  | n :: ns => preN n ++ preL ns
end

@[simp] theorem occL_nil (pfx : List String) : occL pfx [] = [] := by simp [occL]
@[simp] theorem occL_cons (pfx : List String) (idx : String) (nested rest : List Node) :
    occL pfx (.mk idx nested :: rest) =
      (pfx ++ [idx], nested.map nodeIdx) :: (occL (pfx ++ [idx]) nested ++ occL pfx rest) := by
  simp [occL, occN]

@[simp] theorem preL_nil : preL [] = [] := by simp [preL]
@[simp] theorem preL_cons (idx : String) (nested rest : List Node) :
    preL (.mk idx nested :: rest) = idx :: (preL nested ++ preL rest) := by simp [preL, preN]

mutual
theorem preN_perm : ∀ n : Node, (preN n).Perm (post n)
  | .mk idx nested => by
    simp only [preN, post]
    exact (List.Perm.cons idx (preL_perm nested)).trans (List.perm_append_singleton idx _).symm
theorem preL_perm : ∀ ns : List Node, (preL ns).Perm (postL ns)
  | [] => by simp [preL, postL]
  | n :: ns => by
    simp only [preL, postL]
    exact (preN_perm n).append (preL_perm ns)
end

mutual
/-- the last component of the index path is the class itself -/
theorem occN_last (pfx : List String) : ∀ n : Node, (occN pfx n).map (fun o => o.1.getLastD "") = preN n
  | .mk idx nested => by
    simp only [occN, preN, List.map_cons, List.getLastD_eq_getLast?, List.getLast?_append, List.getLast?_singleton,
      Option.some_or, Option.getD_some]
    rw [← occL_last (pfx ++ [idx]) nested]
    simp [List.getLastD_eq_getLast?]
theorem occL_last (pfx : List String) : ∀ ns : List Node, (occL pfx ns).map (fun o => o.1.getLastD "") = preL ns
  | [] => by simp
  | n :: ns => by
    simp only [occL, preL, List.map_append]
    rw [occN_last pfx n, occL_last pfx ns]
end

theorem defIdxPaths_keys (roots : List Node) (F : NameMap) : (defIdxPaths roots F).map (·.1) = preL roots := by
  unfold defIdxPaths idxPaths
  rw [← occL_last [] roots]
  simp [List.map_map, Function.comp_def]

theorem defIdxPaths_paths (roots : List Node) (F : NameMap) : (defIdxPaths roots F).map (·.2) = defPaths roots F := by
  unfold defIdxPaths defPaths
  simp [List.map_map, Function.comp_def]

mutual
/-- shape of the index paths below a prefix -/
theorem occN_shape (pfx : List String) : ∀ (n : Node) (o : List String × List String), o ∈ occN pfx n →
    ∃ q, o.1 = pfx ++ q ∧ q ≠ [] ∧ (∀ x ∈ q, x ∈ post n) ∧ ((post n).Nodup → q.Nodup)
  | .mk idx nested, o, h => by
    simp only [occN, List.mem_cons] at h
    rcases h with rfl | h
    · exact ⟨[idx], rfl, by simp, by simp [post], fun _ => by simp⟩
    · obtain ⟨q, e, _, hsub, hnd⟩ := occL_shape (pfx ++ [idx]) nested o h
      refine ⟨idx :: q, by rw [e]; simp, by simp, ?_, ?_⟩
      · intro x hx
        simp only [post, List.mem_append, List.mem_singleton]
        rcases List.mem_cons.mp hx with rfl | hx
        · exact Or.inr rfl
        · exact Or.inl (hsub x hx)
      · intro hn
        simp only [post] at hn
        obtain ⟨h1, _, h3⟩ := List.nodup_append.mp hn
        rw [List.nodup_cons]
        exact ⟨fun hmem => h3 idx (hsub idx hmem) idx (by simp) rfl, hnd h1⟩
theorem occL_shape (pfx : List String) : ∀ (ns : List Node) (o : List String × List String), o ∈ occL pfx ns →
    ∃ q, o.1 = pfx ++ q ∧ q ≠ [] ∧ (∀ x ∈ q, x ∈ postL ns) ∧ ((postL ns).Nodup → q.Nodup)
  | [], o, h => by simp at h
  | n :: ns, o, h => by
    simp only [occL, List.mem_append] at h
    rcases h with h | h
    · obtain ⟨q, e, hne, hsub, hnd⟩ := occN_shape pfx n o h
      refine ⟨q, e, hne, fun x hx => ?_, fun hn => ?_⟩
      · simp only [postL, List.mem_append]; exact Or.inl (hsub x hx)
      · simp only [postL] at hn; exact hnd (List.nodup_append.mp hn).1
    · obtain ⟨q, e, hne, hsub, hnd⟩ := occL_shape pfx ns o h
      refine ⟨q, e, hne, fun x hx => ?_, fun hn => ?_⟩
      · simp only [postL, List.mem_append]; exact Or.inr (hsub x hx)
      · simp only [postL] at hn; exact hnd (List.nodup_append.mp hn).2.1
end

mutual
/-- a class nested directly in a class of the structure is a class of the structure, one level deeper -/
theorem occN_child (pfx : List String) : ∀ (n : Node) (q cs : List String), (q, cs) ∈ occN pfx n →
    ∀ k ∈ cs, ∃ cs', (q ++ [k], cs') ∈ occN pfx n
  | .mk idx nested, q, cs, h, k, hk => by
    simp only [occN, List.mem_cons] at h
    rcases h with h | h
    · injection h with e1 e2
      subst e1; subst e2
      obtain ⟨cs', hcs'⟩ := occL_top (pfx ++ [idx]) nested k hk
      exact ⟨cs', by simp only [occN, List.mem_cons]; exact Or.inr hcs'⟩
    · obtain ⟨cs', hcs'⟩ := occL_child (pfx ++ [idx]) nested q cs h k hk
      exact ⟨cs', by simp only [occN, List.mem_cons]; exact Or.inr hcs'⟩
theorem occL_child (pfx : List String) : ∀ (ns : List Node) (q cs : List String), (q, cs) ∈ occL pfx ns →
    ∀ k ∈ cs, ∃ cs', (q ++ [k], cs') ∈ occL pfx ns
  | [], q, cs, h, k, hk => by simp at h
  | n :: ns, q, cs, h, k, hk => by
    simp only [occL, List.mem_append] at h ⊢
    rcases h with h | h
    · obtain ⟨cs', hcs'⟩ := occN_child pfx n q cs h k hk
      exact ⟨cs', Or.inl hcs'⟩
    · obtain ⟨cs', hcs'⟩ := occL_child pfx ns q cs h k hk
      exact ⟨cs', Or.inr hcs'⟩
/-- the nodes of a level are classes of the structure -/
theorem occL_top (pfx : List String) : ∀ (ns : List Node) (k : String), k ∈ ns.map nodeIdx →
    ∃ cs, (pfx ++ [k], cs) ∈ occL pfx ns
  | [], k, h => by simp at h
  | .mk idx nested :: ns, k, h => by
    simp only [List.map_cons, List.mem_cons, nodeIdx] at h
    rcases h with rfl | h
    · exact ⟨nested.map nodeIdx, by simp⟩
    · obtain ⟨cs, hcs⟩ := occL_top pfx ns k h
      exact ⟨cs, by simp only [occL_cons, List.mem_cons, List.mem_append]; exact Or.inr (Or.inr hcs)⟩
end

/-! ## 2. the structure built by `compose_models` -/

theorem nodeIdx_build (s : NestState) (f : Nat) (k : String) : nodeIdx (buildNodeE s f k) = k := by
  cases f <;> simp [buildNodeE, nodeIdx]

theorem map_nodeIdx_build (s : NestState) (f : Nat) (ks : List String) :
    (ks.map (buildNodeE s f)).map nodeIdx = ks := by
  simp [List.map_map, Function.comp_def, nodeIdx_build]

/-- as long as the fuel is not exhausted, the classes nested directly in class `k` are `s.children k` -/
theorem occL_build (s : NestState) : ∀ (f : Nat) (pfx ks : List String) (q cs : List String),
    (q, cs) ∈ occL pfx (ks.map (buildNodeE s f)) → q.length ≤ pfx.length + f → cs = s.children (q.getLastD "") := by
  intro f
  induction f with
  | zero =>
    intro pfx ks q cs h hl
    obtain ⟨q', e, hne, _, _⟩ := occL_shape pfx _ _ h
    simp only at e
    subst e
    cases q' with
    | nil => exact absurd rfl hne
    | cons a t => simp at hl; omega
  | succ f ih =>
    intro pfx ks
    induction ks with
    | nil => intro q cs h; simp at h
    | cons k ks ihk =>
      intro q cs h hl
      simp only [List.map_cons, buildNodeE, occL_cons, List.mem_cons, List.mem_append] at h
      rcases h with h | h | h
      · injection h with e1 e2
        subst e1; subst e2
        rw [map_nodeIdx_build]
        simp [List.getLastD_eq_getLast?]
      · exact ih (pfx ++ [k]) (s.children k) q cs h (by simp; omega)
      · exact ihk q cs h hl

theorem mem_children_placed {s : NestState} {q c : String} (h : c ∈ s.children q) : c ∈ placed s := by
  unfold NestState.children at h
  cases hf : s.nested.find? (·.1 == q) with
  | none => simp [hf] at h
  | some kv =>
    simp only [hf, Option.map_some, Option.getD_some] at h
    unfold placed
    exact List.mem_append_right _ (List.mem_flatMap.mpr ⟨kv, List.mem_of_find?_eq_some hf, h⟩)

/-- with pairwise distinct keys, an entry of the `nested` table is the `children` list of its key -/
theorem children_of_mem {s : NestState} (hk : KeysNodup s) {q : String} {cs : List String} (h : (q, cs) ∈ s.nested) :
    s.children q = cs := by
  unfold NestState.children KeysNodup at *
  generalize s.nested = l at *
  induction l with
  | nil => cases h
  | cons kv rest ih =>
    simp only [List.map_cons, List.nodup_cons] at hk
    rcases List.mem_cons.mp h with e | h'
    · subst e; simp
    · have : kv.1 ≠ q := fun e => hk.1 (e ▸ List.mem_map_of_mem (f := (·.1)) h')
      have hb : (kv.1 == q) = false := by simpa using this
      simp only [List.find?_cons, hb]
      exact ih hk.2 h'

theorem placed_cases {s : NestState} (hk : KeysNodup s) {x : String} (h : x ∈ placed s) :
    x ∈ s.roots ∨ ∃ q, x ∈ s.children q := by
  unfold placed at h
  rcases List.mem_append.mp h with h | h
  · exact Or.inl h
  · obtain ⟨kv, hkv, hx⟩ := List.mem_flatMap.mp h
    exact Or.inr ⟨kv.1, by rw [children_of_mem hk (q := kv.1) (cs := kv.2) hkv]; exact hx⟩

/-- every class of the built structure was placed by `compose_models` -/
theorem postL_build_placed (s : NestState) : ∀ (f : Nat) (ks : List String), (∀ k ∈ ks, k ∈ placed s) →
    ∀ x ∈ postL (ks.map (buildNodeE s f)), x ∈ placed s := by
  intro f
  induction f with
  | zero =>
    intro ks hks x hx
    rw [mem_postL] at hx
    obtain ⟨n, hn, hxn⟩ := hx
    obtain ⟨k, hk, rfl⟩ := List.mem_map.mp hn
    simp only [post_zero, List.mem_singleton] at hxn
    subst hxn; exact hks _ hk
  | succ f ih =>
    intro ks hks x hx
    rw [mem_postL] at hx
    obtain ⟨n, hn, hxn⟩ := hx
    obtain ⟨k, hk, rfl⟩ := List.mem_map.mp hn
    rw [post_succ, List.mem_append, List.mem_singleton] at hxn
    rcases hxn with hxn | rfl
    · exact ih (s.children k) (fun c hc => mem_children_placed hc) x hxn
    · exact hks _ hk

/-! ## 3. what `compose_models` records: invariants of the loop -/

/-- `has_root_pointers` -/
def hasRootPtr (g : Graph) (k : String) : Bool := (filterPointers g k).length != (allPointers g k).length

/-- the model goes to the top level although fields refer to it: it has a root pointer, or several classes use it and
    several parent-less classes are above it -/
def topB (g : Graph) (k : String) : Bool :=
  hasRootPtr g k || (decide ((parentsOf (filterPointers g k)).length > 1) && decide ((extractRoot g k).length > 1))

/-- several classes use it and exactly one parent-less class is above it -/
def sharedB (g : Graph) (k : String) : Bool :=
  decide ((parentsOf (filterPointers g k)).length > 1) && ((extractRoot g k).length == 1)

/-- third branch of `compose_models`: nested in the single parent-less ancestor, with a path injection -/
def Case3 (g : Graph) (k : String) : Prop :=
  (filterPointers g k).isEmpty = false ∧ topB g k = false ∧ sharedB g k = true

/-- last branch of `compose_models` ("Model is using by only one model"): nested in the smallest parent -/
def Case4 (g : Graph) (k : String) : Prop :=
  (filterPointers g k).isEmpty = false ∧ topB g k = false ∧ sharedB g k = false

def rootParent (g : Graph) (k : String) : String := (extractRoot g k).headD ""
def minParent (g : Graph) (k : String) : String := (sortStrings (parentsOf (filterPointers g k))).headD ""

theorem nestStep_cases {g : Graph} {s s' : NestState} {m : Model} (h : nestStep g s m = .ok s') :
    (s'.nested = s.nested ∧ s'.pathInj = s.pathInj) ∨
    (Case3 g m.idx ∧ s' = { (s.setChildren (rootParent g m.idx) (m.idx :: s.children (rootParent g m.idx))) with
        pathInj := (m.idx, rootParent g m.idx) :: s.pathInj.filter (·.1 != m.idx) }) ∨
    (Case4 g m.idx ∧ s' = s.setChildren (minParent g m.idx) (s.children (minParent g m.idx) ++ [m.idx])) := by
  unfold nestStep at h
  simp only at h
  split at h
  · split at h
    · cases h
    · injection h with h; subst h; exact Or.inl ⟨rfl, rfl⟩
  · rename_i hne
    split at h
    · split at h
      · injection h with h; subst h; exact Or.inl ⟨rfl, rfl⟩
      · injection h with h; subst h; exact Or.inl ⟨rfl, rfl⟩
    · rename_i htop
      split at h
      · rename_i hsh
        injection h with h; subst h
        exact Or.inr (Or.inl ⟨⟨by simpa using hne, by simpa [topB, hasRootPtr] using htop, by simpa [sharedB] using hsh⟩, rfl⟩)
      · rename_i hsh
        injection h with h; subst h
        exact Or.inr (Or.inr ⟨⟨by simpa using hne, by simpa [topB, hasRootPtr] using htop, by simpa [sharedB] using hsh⟩, rfl⟩)

theorem case3_not_case4 {g : Graph} {k : String} (h3 : Case3 g k) (h4 : Case4 g k) : False := by
  have := h3.2.2; rw [h4.2.2] at this; cases this

theorem find?_inj_ne (l : List (String × String)) {k k0 p0 : String} (h : k ≠ k0) :
    ((k0, p0) :: l.filter (·.1 != k0)).find? (·.1 == k) = l.find? (·.1 == k) := by
  have hb : (k0 == k) = false := by simpa using Ne.symm h
  simp only [List.find?_cons, hb]
  induction l with
  | nil => rfl
  | cons a rest ih =>
    by_cases ha : a.1 = k0
    · have h1 : (a.1 == k) = false := by simpa [ha] using Ne.symm h
      have h2 : (a.1 != k0) = false := by simp [ha]
      have e1 : (a :: rest).filter (·.1 != k0) = rest.filter (·.1 != k0) := by
        rw [List.filter_cons, h2]; rfl
      have e2 : (a :: rest).find? (·.1 == k) = rest.find? (·.1 == k) := by
        rw [List.find?_cons, h1]
      rw [e1, e2]; exact ih
    · have h2 : (a.1 != k0) = true := by simpa using ha
      simp only [List.filter_cons, h2, if_true, List.find?_cons, ih]

/-- what the loop of `compose_models` maintains: a path is injected exactly for the models placed by the third branch,
    and it names the single parent-less ancestor, in whose `nested` list the model is; every entry of a `nested` list
    either has an injected path to the owner of the list or was put there by the last branch -/
structure NestInv (g : Graph) (s : NestState) : Prop where
  inj : ∀ kp ∈ s.pathInj, Case3 g kp.1 ∧ kp.2 = rootParent g kp.1 ∧ kp.1 ∈ s.children kp.2
  child : ∀ q, ∀ k ∈ s.children q, s.pathInj.find? (·.1 == k) = some (k, q) ∨ (Case4 g k ∧ q = minParent g k)

theorem nestInv_init (g : Graph) : NestInv g {} :=
  ⟨by simp, by simp [NestState.children]⟩

theorem nestStep_inv {g : Graph} {s s' : NestState} {m : Model} (h : nestStep g s m = .ok s') (hi : NestInv g s) :
    NestInv g s' := by
  rcases nestStep_cases h with ⟨e1, e2⟩ | ⟨h3, rfl⟩ | ⟨h4, rfl⟩
  · have ec : ∀ q, s'.children q = s.children q := fun q => by unfold NestState.children; rw [e1]
    exact ⟨fun kp hkp => by rw [e2] at hkp; rw [ec]; exact hi.inj kp hkp,
      fun q k hk => by rw [ec] at hk; rw [e2]; exact hi.child q k hk⟩
  · -- third branch
    have ec : ∀ q, NestState.children { (s.setChildren (rootParent g m.idx) (m.idx :: s.children (rootParent g m.idx))) with
        pathInj := (m.idx, rootParent g m.idx) :: s.pathInj.filter (·.1 != m.idx) } q =
        if q = rootParent g m.idx then m.idx :: s.children (rootParent g m.idx) else s.children q :=
      fun q => children_setChildren s _ q _
    have hmono : ∀ q k, k ∈ s.children q → k ∈ (if q = rootParent g m.idx then m.idx :: s.children (rootParent g m.idx)
        else s.children q) := by
      intro q k hk
      split
      · rename_i e; subst e; exact List.mem_cons_of_mem _ hk
      · exact hk
    constructor
    · intro kp hkp
      simp only [List.mem_cons] at hkp
      rw [ec]
      rcases hkp with rfl | hkp
      · exact ⟨h3, rfl, by simp⟩
      · obtain ⟨a, b, c⟩ := hi.inj kp (List.mem_filter.mp hkp).1
        exact ⟨a, b, hmono _ _ c⟩
    · intro q k hk
      rw [ec] at hk
      show List.find? (·.1 == k) ((m.idx, rootParent g m.idx) :: s.pathInj.filter (·.1 != m.idx)) = some (k, q) ∨ _
      by_cases hk0 : k = m.idx
      · subst hk0
        by_cases hq : q = rootParent g m.idx
        · subst hq; left; simp
        · rw [if_neg hq] at hk
          rcases hi.child q _ hk with hf | hc
          · have hm := List.mem_of_find?_eq_some hf
            exact absurd (hi.inj _ hm).2.1 hq
          · exact absurd hc.1 (fun h4 => case3_not_case4 h3 h4)
      · have hk' : k ∈ s.children q := by
          split at hk
          · rename_i e; subst e
            rcases List.mem_cons.mp hk with e | hk
            · exact absurd e hk0
            · exact hk
          · exact hk
        rw [find?_inj_ne _ hk0]
        exact hi.child q k hk'
  · -- last branch
    have ec : ∀ q, (s.setChildren (minParent g m.idx) (s.children (minParent g m.idx) ++ [m.idx])).children q =
        if q = minParent g m.idx then s.children (minParent g m.idx) ++ [m.idx] else s.children q :=
      fun q => children_setChildren s _ q _
    constructor
    · intro kp hkp
      obtain ⟨a, b, c⟩ := hi.inj kp hkp
      refine ⟨a, b, ?_⟩
      rw [ec]
      split
      · rename_i e; rw [← e]; exact List.mem_append_left _ c
      · exact c
    · intro q k hk
      rw [ec] at hk
      show List.find? (·.1 == k) s.pathInj = some (k, q) ∨ _
      split at hk
      · rename_i e; subst e
        rcases List.mem_append.mp hk with hk | hk
        · exact hi.child _ k hk
        · simp only [List.mem_singleton] at hk; subst hk
          exact Or.inr ⟨h4, rfl⟩
      · exact hi.child q k hk

theorem nestFold_inv {g : Graph} : ∀ (ms : List Model) (s s' : NestState),
    ms.foldlM (nestStep g) s = .ok s' → NestInv g s → NestInv g s' := by
  intro ms
  induction ms with
  | nil => intro s s' h hi; simp [List.foldlM, pure, Except.pure] at h; subst h; exact hi
  | cons m ms ih =>
    intro s s' h hi
    rw [List.foldlM_cons] at h
    cases h1 : nestStep g s m with
    | error e => rw [h1] at h; cases h
    | ok s1 => rw [h1] at h; exact ih s1 s' h (nestStep_inv h1 hi)

theorem composeNestedState_inv {g : Graph} {s : NestState} (h : composeNestedState g = .ok s) : NestInv g s := by
  rw [composeNestedState_eq] at h
  exact nestFold_inv g.models {} s h (nestInv_init g)

/-! ## 4. the final state and the built structure -/

/-- pointer records name registered parents (part of `Reg.WF`) -/
def ParentsRegistered (g : Graph) : Prop := ∀ p ∈ g.ptrs, ∀ q, p.parent = some q → q ∈ g.models.map (·.idx)

/-- nothing in a `nested` list is parent-less -/
theorem child_has_pointers {g : Graph} {s : NestState} (hi : NestInv g s) {q k : String} (hk : k ∈ s.children q) :
    (filterPointers g k).isEmpty = false := by
  rcases hi.child q k hk with hf | hc
  · exact (hi.inj _ (List.mem_of_find?_eq_some hf)).1.1
  · exact hc.1.1

/-- a registered model without parent pointers is a top-level class -/
theorem parentless_root {g : Graph} {s : NestState} (h : composeNestedState g = .ok s) {p : String}
    (hp : p ∈ g.models.map (·.idx)) (hf : filterPointers g p = []) : p ∈ s.roots := by
  obtain ⟨hk, hperm⟩ := composeNested_placed h
  rcases placed_cases hk (hperm.mem_iff.mpr hp) with hr | ⟨q, hq⟩
  · exact hr
  · have := child_has_pointers (composeNestedState_inv h) hq
    rw [hf] at this; cases this

/-- **inj_root**: an injected path `(k, p)` names a top-level class `p` in which `k` is directly nested -/
theorem inj_root {g : Graph} {s : NestState} (h : composeNestedState g = .ok s) (hpr : ParentsRegistered g)
    {k p : String} (hkp : (k, p) ∈ s.pathInj) : p ∈ s.roots ∧ k ∈ s.children p := by
  obtain ⟨h3, e, hc⟩ := (composeNestedState_inv h).inj _ hkp
  refine ⟨?_, hc⟩
  simp only at e
  have hlen : (extractRoot g k).length = 1 := by
    have := h3.2.2
    simp only [sharedB, Bool.and_eq_true, beq_iff_eq] at this
    exact this.2
  have hmem : p ∈ extractRoot g k := by
    rw [e]; unfold rootParent
    cases hx : extractRoot g k with
    | nil => rw [hx] at hlen; cases hlen
    | cons a t => simp
  obtain ⟨t, _, ⟨ptr, hptr, _, hpar⟩, hf⟩ := mem_extractRoot.mp hmem
  exact parentless_root h (hpr ptr hptr p hpar) hf

section built
variable {g : Graph} {s : NestState}

/-- a top-level class of the built structure, with the classes nested directly in it -/
theorem occ_root (s : NestState) (n : Nat) {r : String} (hr : r ∈ s.roots) :
    ([r], s.children r) ∈ occL [] (s.roots.map (buildNodeE s (n + 1))) := by
  obtain ⟨cs, hcs⟩ := occL_top [] (s.roots.map (buildNodeE s (n + 1))) r (by rw [map_nodeIdx_build]; exact hr)
  have := occL_build s (n + 1) [] s.roots _ cs hcs (by simp)
  simp only [List.nil_append, List.getLastD_eq_getLast?, List.getLast?_singleton, Option.getD_some] at this hcs
  rw [this] at hcs; exact hcs

/-- the classes of the built structure are registered models -/
theorem postL_build_registered (h : composeNestedState g = .ok s) (f : Nat) :
    ∀ x ∈ postL (s.roots.map (buildNodeE s f)), x ∈ g.models.map (·.idx) := by
  intro x hx
  obtain ⟨_, hperm⟩ := composeNested_placed h
  apply hperm.mem_iff.mp
  exact postL_build_placed s f s.roots (fun k hk => List.mem_append_left _ hk) x hx

/-- **occ_children**: in the structure built by `compose_models`, when no index occurs twice (which a successful
    `generate_code` guarantees), the classes nested directly in a class `k` are exactly `s.children k`: the fuel of
    `buildNodes` is never exhausted -/
theorem occ_children (h : composeNestedState g = .ok s)
    (hnd : (postL (s.roots.map (buildNodeE s (g.models.length + 1)))).Nodup) {q cs : List String}
    (hq : (q, cs) ∈ occL [] (s.roots.map (buildNodeE s (g.models.length + 1)))) :
    cs = s.children (q.getLastD "") := by
  apply occL_build s _ [] s.roots q cs hq
  obtain ⟨q', e, _, hsub, hn⟩ := occL_shape [] _ _ hq
  simp only [List.nil_append] at e
  subst e
  have h1 : q.length ≤ (g.models.map (·.idx)).length :=
    (hn hnd).length_le_of_subset (fun x hx => postL_build_registered h _ x (hsub x hx))
  simp only [List.length_map] at h1
  simp; omega

end built

/-! ## 5. reference texts and names -/

open NamesP in
/-- `convert_class_name` never returns the empty string -/
theorem convertClassName_nonempty {c : RenderCfg} {o : RenderOracles} {n n' : String}
    (h : convertClassName c o n = .ok n') : n' ≠ "" := by
  unfold convertClassName at h
  obtain ⟨s2, _, h2⟩ := prepareLabel_ok_iff.mp h
  obtain ⟨ch, rest, az, s4, h3, _, h4, hr⟩ := labelTail_ok h2
  rw [hr]; apply blSuffix_ne_empty
  simp at h4; rw [h4]; exact digitFix_ne_empty h3

/-- after a successful rendering every class of the structure has a non-empty name -/
theorem generateCode_named {c : RenderCfg} {o : RenderOracles} {g : Graph} {roots : List Node}
    {inj : List (String × String)} {pre : Option String} {text : String} {F : NameMap}
    (h : generateCode c o g roots inj pre = .ok (text, F)) :
    ∀ i ∈ postL roots, ∃ n, lookup F i = some n ∧ n ≠ "" ∧ nm F i = n := by
  intro i hi
  obtain ⟨_, _, hcv⟩ := generateCode_converted h
  obtain ⟨n0, n, hc, hl⟩ := hcv i hi
  exact ⟨n, hl, convertClassName_nonempty hc, by simp [nm, hl]⟩

theorem isEmpty_false {s : String} (h : s ≠ "") : s.isEmpty = false := by
  cases hs : s.isEmpty with
  | false => rfl
  | true => exact absurd (String.isEmpty_iff.mp hs) h

theorem dot2 (a b : String) : ".".intercalate [a, b] = a ++ "." ++ b := by
  apply String.toList_inj.mp
  simp

theorem dot1 (a : String) : ".".intercalate [a] = a := by
  apply String.toList_inj.mp
  simp

/-- no injected path: the reference is the bare class name -/
theorem ptrRef_none {F : NameMap} {inj : List (String × String)} {i n : String}
    (h : inj.find? (·.1 == i) = none) : ptrRef ⟨F, inj⟩ i n = n := by
  simp only [ptrRef, h]
  by_cases hn : n.isEmpty = true
  · have : n = "" := String.isEmpty_iff.mp hn
    subst this
    rfl
  · have hn : n.isEmpty = false := by simpa using hn
    simp [hn]

/-- injected path: the reference is `Root.Name` -/
theorem ptrRef_some {F : NameMap} {inj : List (String × String)} {i n k r nr : String}
    (h : inj.find? (·.1 == i) = some (k, r)) (hr : lookup F r = some nr) (h1 : nr ≠ "") (h2 : n ≠ "") :
    ptrRef ⟨F, inj⟩ i n = ".".intercalate [nr, n] := by
  simp only [ptrRef, h, name?_eq, hr, Option.getD_some]
  simp [isEmpty_false h1, isEmpty_false h2]

mutual
/-- a type that can be annotated contains no inline field dict: `ptrsOf` and `tyRefs` list the same targets -/
theorem ptrsOf_eq_tyRefs (c : RenderCfg) (e : RefEnv) : ∀ (t : Ty), (tyAnn c e t).isSome = true → ptrsOf t = tyRefs t
  | .int, _ | .float, _ | .bool, _ | .str, _ | .null, _ | .unknown, _ | .ser _, _ | .lit _ _, _ => by
    simp [ptrsOf, tyRefs]
  | .list t, h | .dict t, h | .opt t, h => by
    simp only [tyAnn, Option.isSome_map] at h
    simpa [ptrsOf, tyRefs] using ptrsOf_eq_tyRefs c e t h
  | .union ts, h | .tuple ts, h => by
    simp only [tyAnn] at h
    split at h
    · cases h
    · simp only [Option.isSome_map] at h
      simpa [ptrsOf, tyRefs] using ptrsOfList_eq_tysRefs c e ts h
  | .obj fs, h => by simp [tyAnn] at h
  | .ptr i, _ => by simp [ptrsOf, tyRefs]
theorem ptrsOfList_eq_tysRefs (c : RenderCfg) (e : RefEnv) :
    ∀ (ts : List Ty), (tyAnns c e ts).isSome = true → ptrsOfList ts = tysRefs ts
  | [], _ => by simp [ptrsOfList, tysRefs]
  | t :: ts, h => by
    simp only [tyAnns] at h
    split at h
    · rename_i a as ha has
      simp only [ptrsOfList, tysRefs]
      rw [ptrsOf_eq_tyRefs c e t (by simp [ha]), ptrsOfList_eq_tysRefs c e ts (by simp [has])]
    · cases h
end

/-! ## 6. where the target of a field reference is defined -/

/-- `compose_models` returns the structure built from its final state and the injected paths -/
theorem composeNested_state {g : Graph} {roots : List Node} {inj : List (String × String)}
    (h : composeNested g = .ok (roots, inj)) :
    ∃ s, composeNestedState g = .ok s ∧ roots = s.roots.map (buildNodeE s (g.models.length + 1)) ∧ inj = s.pathInj := by
  rw [composeNested_evaluable] at h
  unfold composeNestedE at h
  cases hs : composeNestedState g with
  | error e => rw [hs] at h; cases h
  | ok s =>
    rw [hs] at h
    have := Except.ok.inj h
    injection this with e1 e2
    exact ⟨s, rfl, e1.symm, e2.symm⟩

/-- the model is used by several classes, has no root pointer, and no class above it is parent-less (every chain of
    referrers runs into a cycle): the last branch of `compose_models` nests it in ONE of its users without
    injecting a path -/
def SharedNoRoot (g : Graph) (i : String) : Prop :=
  hasRootPtr g i = false ∧ (parentsOf (filterPointers g i)).length > 1 ∧ extractRoot g i = []

theorem sortStrings_singleton (x : String) : sortStrings [x] = [x] := by simp [sortStrings, insertSorted]

/-- **target_cases**: where `compose_models` puts a registered model `i` that a field of model `m` refers to -/
theorem target_cases {g : Graph} {s : NestState} (h : composeNestedState g = .ok s) (hpr : ParentsRegistered g)
    {i m : String} (hi : i ∈ g.models.map (·.idx)) (hup : Up g i m) :
    (∃ rt, s.pathInj.find? (·.1 == i) = some (i, rt) ∧ rt ∈ s.roots ∧ i ∈ s.children rt) ∨
    (s.pathInj.find? (·.1 == i) = none ∧ (i ∈ s.roots ∨ i ∈ s.children m ∨ SharedNoRoot g i)) := by
  cases hf : s.pathInj.find? (·.1 == i) with
  | some kp =>
    left
    obtain ⟨k, rt⟩ := kp
    have hk : k = i := by simpa using List.find?_some hf
    subst hk
    obtain ⟨a, b⟩ := inj_root h hpr (List.mem_of_find?_eq_some hf)
    exact ⟨rt, rfl, a, b⟩
  | none =>
    right
    refine ⟨rfl, ?_⟩
    obtain ⟨hk, hperm⟩ := composeNested_placed h
    rcases placed_cases hk (hperm.mem_iff.mpr hi) with hr | ⟨q, hq⟩
    · exact Or.inl hr
    · right
      rcases (composeNestedState_inv h).child q i hq with hf' | ⟨h4, hqm⟩
      · rw [hf] at hf'; cases hf'
      · have hmem : m ∈ parentsOf (filterPointers g i) := by
          rw [mem_parentsOf]
          obtain ⟨p, hp, ht, hpp⟩ := hup
          exact ⟨p, mem_filterPointers.mpr ⟨hp, ht, by simp [hpp]⟩, hpp⟩
        by_cases hlen : (parentsOf (filterPointers g i)).length > 1
        · right
          obtain ⟨_, htop, hsh⟩ := h4
          simp only [topB, Bool.or_eq_false_iff, Bool.and_eq_false_iff, decide_eq_false_iff_not] at htop
          simp only [sharedB, Bool.and_eq_false_iff, decide_eq_false_iff_not, beq_eq_false_iff_ne] at hsh
          refine ⟨htop.1, hlen, ?_⟩
          have h1 : ¬ (extractRoot g i).length > 1 := by rcases htop.2 with h | h; exact absurd hlen h; exact h
          have h2 : (extractRoot g i).length ≠ 1 := by rcases hsh with h | h; exact absurd hlen h; exact h
          exact List.length_eq_zero_iff.mp (by omega)
        · left
          have : parentsOf (filterPointers g i) = [m] := by
            cases hx : parentsOf (filterPointers g i) with
            | nil => rw [hx] at hmem; cases hmem
            | cons a t =>
              rw [hx] at hmem hlen
              cases t with
              | nil => simp at hmem; rw [hmem]
              | cons b t' => simp at hlen
          have hq' : q = m := by rw [hqm]; unfold minParent; rw [this, sortStrings_singleton]; rfl
          rw [← hq']; exact hq

/-- the same in the built structure, for the class of `m` at index path `q` -/
theorem resolve_cases {g : Graph} {s : NestState} (h : composeNestedState g = .ok s) (hpr : ParentsRegistered g)
    (hnd : (postL (s.roots.map (buildNodeE s (g.models.length + 1)))).Nodup)
    {q : List String} (hq : q ∈ idxPaths (s.roots.map (buildNodeE s (g.models.length + 1))))
    {i : String} (hi : i ∈ g.models.map (·.idx)) (hup : Up g i (q.getLastD "")) :
    (∃ rt, s.pathInj.find? (·.1 == i) = some (i, rt) ∧
        [rt] ∈ idxPaths (s.roots.map (buildNodeE s (g.models.length + 1))) ∧
        [rt, i] ∈ idxPaths (s.roots.map (buildNodeE s (g.models.length + 1)))) ∨
    (s.pathInj.find? (·.1 == i) = none ∧
      ([i] ∈ idxPaths (s.roots.map (buildNodeE s (g.models.length + 1))) ∨
       q ++ [i] ∈ idxPaths (s.roots.map (buildNodeE s (g.models.length + 1))) ∨ SharedNoRoot g i)) := by
  have hroot : ∀ r ∈ s.roots, ∀ k ∈ s.children r,
      [r] ∈ idxPaths (s.roots.map (buildNodeE s (g.models.length + 1))) ∧
      [r, k] ∈ idxPaths (s.roots.map (buildNodeE s (g.models.length + 1))) := by
    intro r hr k hk
    have h1 := occ_root s g.models.length hr
    obtain ⟨cs', h2⟩ := occL_child [] _ _ _ h1 k hk
    exact ⟨List.mem_map.mpr ⟨_, h1, rfl⟩, List.mem_map.mpr ⟨_, h2, rfl⟩⟩
  rcases target_cases h hpr hi hup with ⟨rt, hf, hr, hc⟩ | ⟨hf, hr | hc | hsn⟩
  · exact Or.inl ⟨rt, hf, hroot rt hr i hc⟩
  · right
    refine ⟨hf, Or.inl ?_⟩
    exact List.mem_map.mpr ⟨_, occ_root s g.models.length hr, rfl⟩
  · right
    refine ⟨hf, Or.inr (Or.inl ?_)⟩
    obtain ⟨o, ho, rfl⟩ := List.mem_map.mp hq
    obtain ⟨q, cs⟩ := o
    have hcs := occ_children h hnd ho
    simp only at hc hcs
    obtain ⟨cs', h2⟩ := occL_child [] _ _ _ ho i (by rw [hcs]; exact hc)
    exact List.mem_map.mpr ⟨_, h2, rfl⟩
  · exact Or.inr ⟨hf, Or.inr (Or.inr hsn)⟩

/-- index paths give definition paths -/
theorem defPaths_of_idxPath {roots : List Node} {q : List String} (F : NameMap) (h : q ∈ idxPaths roots) :
    q.map (nm F) ∈ defPaths roots F ∧ (q.getLastD "", q.map (nm F)) ∈ defIdxPaths roots F :=
  ⟨List.mem_map.mpr ⟨q, h, rfl⟩, List.mem_map.mpr ⟨q, h, rfl⟩⟩

theorem idxPath_mem_postL {roots : List Node} {q : List String} (h : q ∈ idxPaths roots) : ∀ x ∈ q, x ∈ postL roots := by
  obtain ⟨o, ho, rfl⟩ := List.mem_map.mp h
  obtain ⟨q', e, _, hsub, _⟩ := occL_shape [] _ _ ho
  simp only [List.nil_append] at e
  rw [e]; exact hsub

/-- the index paths list every class of the structure once -/
theorem idxPaths_last (roots : List Node) : (idxPaths roots).map (fun q => q.getLastD "") = preL roots := by
  unfold idxPaths
  rw [← occL_last [] roots]
  simp [List.map_map, Function.comp_def]

theorem mem_idxPaths_of_mem {roots : List Node} {i : String} (h : i ∈ postL roots) :
    ∃ q ∈ idxPaths roots, q.getLastD "" = i := by
  have : i ∈ preL roots := (preL_perm roots).mem_iff.mpr h
  rw [← idxPaths_last] at this
  obtain ⟨q, hq, e⟩ := List.mem_map.mp this
  exact ⟨q, hq, e⟩

theorem pair_unique {α β : Type} {l : List (α × β)} (hnd : (l.map (·.1)).Nodup) {a : α} {b b' : β}
    (h : (a, b) ∈ l) (h' : (a, b') ∈ l) : b = b' := by
  induction l with
  | nil => cases h
  | cons x rest ih =>
    simp only [List.map_cons, List.nodup_cons] at hnd
    rcases List.mem_cons.mp h with e | h1
    · rcases List.mem_cons.mp h' with e' | h2
      · rw [← e] at e'; injection e' with _ e2; exact e2.symm
      · exact absurd (List.mem_map.mpr ⟨_, h2, by rw [← e]⟩) hnd.1
    · rcases List.mem_cons.mp h' with e' | h2
      · exact absurd (List.mem_map.mpr ⟨_, h1, by rw [← e']⟩) hnd.1
      · exact ih hnd.2 h1 h2

/-! ## 7. the text of a rendering whose class names are stable under the conversion -/

/-- if `convert_class_name` leaves the prepared names alone, the rendering ends with the prepared names and every
    class of the text is rendered with them — for EVERY structure (no readiness condition) -/
theorem generateCode_text_stable {c : RenderCfg} {o : RenderOracles} {g : Graph} {roots : List Node}
    {inj : List (String × String)} {pre : Option String} {text : String} {F N0 : NameMap}
    (hnd : (g.models.map (·.idx)).Nodup)
    (h : generateCode c o g roots inj pre = .ok (text, F))
    (hN0 : prepareNames c o (names0 g) roots = .ok N0) (hs : StableOn c o N0 (postL roots)) :
    F = N0 ∧ ∃ rs, nodesText c o g inj F roots = .ok rs ∧ text = moduleText pre rs := by
  rw [generateCode_ok] at h
  obtain ⟨N0', imps1, gens, rs, h0, h1, h2, h3⟩ := h
  cases hN0.symm.trans h0
  have hk0 : N0.map (·.1) = g.models.map (·.idx) := by rw [PrepNames.prepareNames_same_keys h0, names0_keys]
  have e : F = N0 := PrepNames.convAll_stable (hk0 ▸ hnd) hs (renderLevel_names _ _ _ _ _ _ _ _ _ _ h1)
  subst e
  refine ⟨rfl, ?_⟩
  obtain ⟨_, _, cv, _⟩ := renderLevel_frame c o g inj _ _ _ _ _ _ h1
  have hfix : FixedOn c o F (postL roots) :=
    fixedOn_of_stable (hk0 ▸ hnd) (fun i hi => by obtain ⟨_, n, _, hn⟩ := cv i hi; exact ⟨n, hn⟩) hs
  rw [renderLevel_fixed c o g inj F _ _ hfix] at h1
  have hp : renderPure c o g inj F (g.models.length + 2) roots = .ok (imps1, gens) := by
    cases hr : renderPure c o g inj F (g.models.length + 2) roots with
    | error e => rw [hr] at h1; cases h1
    | ok r =>
      rw [hr] at h1
      simp only [Except.map] at h1
      have := Except.ok.inj h1
      injection this with _ e2
      injection e2 with e2 e3
      rw [← e2, ← e3]
  obtain ⟨rs', t, m, p⟩ := renderPure_nodesText c o g inj F _ _ _ _ _ hp h2
  exact ⟨rs', t, by rw [h3, finishText_perm pre imps1 rs rs' m p]⟩

end J2M.NestedRefs
