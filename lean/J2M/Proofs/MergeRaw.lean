/-
  The shape of `detect` output (C02.3): no `.opt` anywhere, `.unknown` only as the direct argument of
  `.list` / `.dict` (and then only for an empty container).
-/
import J2M.Proofs.MergeDetect
import J2M.Proofs.MergeUnion
namespace J2M

mutual
/-- `.unknown` occurs only as the direct argument of `.list` / `.dict` -/
def Ty.unknownOnlyUnderContainer : Ty → Bool
  | .unknown => false
  | .list t | .dict t => t.isUnknown || t.unknownOnlyUnderContainer
  | .opt t => t.unknownOnlyUnderContainer
  | .union ts | .tuple ts => Ty.uocList ts
  | .obj fs => Ty.uocFields fs
  | _ => true
def Ty.uocList : List Ty → Bool
  | [] => true
  | t :: ts => t.unknownOnlyUnderContainer && Ty.uocList ts
def Ty.uocFields : List (String × Ty) → Bool
  | [] => true
  | (_, t) :: fs => t.unknownOnlyUnderContainer && Ty.uocFields fs
end

mutual
/-- `.opt` occurs nowhere -/
def Ty.noOpt : Ty → Bool
  | .opt _ => false
  | .list t | .dict t => t.noOpt
  | .union ts | .tuple ts => Ty.noOptList ts
  | .obj fs => Ty.noOptFields fs
  | _ => true
def Ty.noOptList : List Ty → Bool
  | [] => true
  | t :: ts => t.noOpt && Ty.noOptList ts
def Ty.noOptFields : List (String × Ty) → Bool
  | [] => true
  | (_, t) :: fs => t.noOpt && Ty.noOptFields fs
end

theorem uocList_iff {ts : List Ty} : Ty.uocList ts = true ↔ ∀ t ∈ ts, t.unknownOnlyUnderContainer = true := by
  induction ts with
  | nil => simp [Ty.uocList]
  | cons t ts ih => simp [Ty.uocList, ih]

theorem uocFields_iff {fs : List (String × Ty)} :
    Ty.uocFields fs = true ↔ ∀ kv ∈ fs, kv.2.unknownOnlyUnderContainer = true := by
  induction fs with
  | nil => simp [Ty.uocFields]
  | cons kv fs ih => obtain ⟨k, t⟩ := kv; simp [Ty.uocFields, ih]

theorem noOptList_iff {ts : List Ty} : Ty.noOptList ts = true ↔ ∀ t ∈ ts, t.noOpt = true := by
  induction ts with
  | nil => simp [Ty.noOptList]
  | cons t ts ih => simp [Ty.noOptList, ih]

theorem noOptFields_iff {fs : List (String × Ty)} :
    Ty.noOptFields fs = true ↔ ∀ kv ∈ fs, kv.2.noOpt = true := by
  induction fs with
  | nil => simp [Ty.noOptFields]
  | cons kv fs ih => obtain ⟨k, t⟩ := kv; simp [Ty.noOptFields, ih]

/-- what `detect` produces: both predicates at once -/
def Ty.raw (t : Ty) : Prop := t.unknownOnlyUnderContainer = true ∧ t.noOpt = true

theorem raw_not_unknown {t : Ty} (h : t.raw) : t.isUnknown = false := by
  cases t <;> simp [Ty.raw, Ty.unknownOnlyUnderContainer] at h <;> rfl

theorem raw_wrap_list {t : Ty} (h : t.raw) : (Ty.list t).raw := by
  simp [Ty.raw, Ty.unknownOnlyUnderContainer, Ty.noOpt, h.1, h.2]

theorem raw_wrap_dict {t : Ty} (h : t.raw) : (Ty.dict t).raw := by
  simp [Ty.raw, Ty.unknownOnlyUnderContainer, Ty.noOpt, h.1, h.2]

theorem raw_union {ts : List Ty} (h : ∀ t ∈ ts, t.raw) : (Ty.union ts).raw := by
  simp only [Ty.raw, Ty.unknownOnlyUnderContainer, Ty.noOpt, uocList_iff, noOptList_iff]
  exact ⟨fun t ht => (h t ht).1, fun t ht => (h t ht).2⟩

theorem raw_of_union {ts : List Ty} (h : (Ty.union ts).raw) : ∀ t ∈ ts, t.raw := by
  simp only [Ty.raw, Ty.unknownOnlyUnderContainer, Ty.noOpt, uocList_iff, noOptList_iff] at h
  exact fun t ht => ⟨h.1 t ht, h.2 t ht⟩

theorem raw_obj {fs : Fields} (h : ∀ kv ∈ fs, kv.2.raw) : (Ty.obj fs).raw := by
  simp only [Ty.raw, Ty.unknownOnlyUnderContainer, Ty.noOpt, uocFields_iff, noOptFields_iff]
  exact ⟨fun t ht => (h t ht).1, fun t ht => (h t ht).2⟩

theorem raw_of_obj {fs : Fields} (h : (Ty.obj fs).raw) : ∀ kv ∈ fs, kv.2.raw := by
  simp only [Ty.raw, Ty.unknownOnlyUnderContainer, Ty.noOpt, uocFields_iff, noOptFields_iff] at h
  exact fun t ht => ⟨h.1 t ht, h.2 t ht⟩

theorem raw_flatten {ts : List Ty} (h : ∀ t ∈ ts, t.raw) : ∀ t ∈ flattenUnion ts, t.raw := by
  induction ts using flattenUnion.induct with
  | case1 => simp [flattenUnion]
  | case2 ms rest ih1 ih2 =>
    intro t ht
    rw [flattenUnion] at ht
    rcases List.mem_append.1 ht with h1 | h1
    · exact ih1 (raw_of_union (h _ (List.mem_cons_self ..))) t h1
    · exact ih2 (fun t ht => h t (List.mem_cons_of_mem _ ht)) t h1
  | case3 t0 rest hnu ih =>
    intro t ht
    rw [flattenUnion.eq_3 _ _ hnu] at ht
    rcases List.mem_cons.1 ht with h1 | h1
    · subst h1; exact h _ (List.mem_cons_self ..)
    · exact ih (fun t ht => h t (List.mem_cons_of_mem _ ht)) t h1

theorem raw_mkUnionMembers {c : LitCfg} {ts : List Ty} (h : ∀ t ∈ ts, t.raw) :
    ∀ u ∈ mkUnionMembers c ts, u.raw := by
  intro u hu
  rcases mkUnion_members_subset c ts u hu with ⟨h1, _⟩ | ⟨vs, h1, _⟩ | ⟨h1, _⟩
  · exact raw_flatten h u h1
  · subst h1; simp [Ty.raw, Ty.unknownOnlyUnderContainer, Ty.noOpt]
  · subst h1; simp [Ty.raw, Ty.unknownOnlyUnderContainer, Ty.noOpt]

/-- the element type chosen by `wrapElems` for raw, non-empty `ts` is raw (in particular not `unknown`) -/
theorem wrapElems_raw {c : LitCfg} {wrap : Ty → Ty} {ts : List Ty} (h : ∀ t ∈ ts, t.raw) (hne : ts ≠ []) :
    ∃ T, wrapElems c wrap ts = wrap T ∧ T.raw := by
  unfold wrapElems
  split
  · rename_i t; exact ⟨t, rfl, h t (List.mem_cons_self ..)⟩
  · have hm := raw_mkUnionMembers (c := c) h
    split
    · rename_i u he; exact ⟨u, rfl, hm u (by rw [he]; exact List.mem_cons_self ..)⟩
    · exact ⟨_, rfl, raw_union hm⟩

theorem mkLit_raw (c : LitCfg) (vs : List String) : (mkLit c vs).raw := by
  unfold mkLit; split <;> simp [Ty.raw, Ty.unknownOnlyUnderContainer, Ty.noOpt]

theorem forall₂_mem_right {α β} {R : α → β → Prop} {l₁ : List α} {l₂ : List β}
    (h : List.Forall₂ R l₁ l₂) {b : β} (hb : b ∈ l₂) : ∃ a ∈ l₁, R a b := by
  induction h with
  | nil => simp at hb
  | cons hr _ ih =>
    rcases List.mem_cons.1 hb with h | h
    · subst h; exact ⟨_, List.mem_cons_self .., hr⟩
    · obtain ⟨a, ha, hr⟩ := ih h; exact ⟨a, List.mem_cons_of_mem _ ha, hr⟩

theorem forall₂_mem_left {α β} {R : α → β → Prop} {l₁ : List α} {l₂ : List β}
    (h : List.Forall₂ R l₁ l₂) {a : α} (ha : a ∈ l₁) : ∃ b ∈ l₂, R a b := by
  induction h with
  | nil => simp at ha
  | cons hr _ ih =>
    rcases List.mem_cons.1 ha with h | h
    · subst h; exact ⟨_, List.mem_cons_self .., hr⟩
    · obtain ⟨b, hb, hr⟩ := ih h; exact ⟨b, List.mem_cons_of_mem _ hb, hr⟩

theorem forall₂_ne_nil {α β} {R : α → β → Prop} {a : α} {l₁ : List α} {l₂ : List β}
    (h : List.Forall₂ R (a :: l₁) l₂) : l₂ ≠ [] := by
  cases h; simp

theorem detectList_cons_ok {cfg o x xs ts} (h : detectList cfg o (x :: xs) = .ok ts) :
    ∃ t ts', detect cfg o true x = .ok t ∧ detectList cfg o xs = .ok ts' ∧ ts = t :: ts' := by
  rw [detectList, Except.bind_ok_iff] at h
  obtain ⟨t, h1, h⟩ := h
  rw [Except.bind_ok_iff] at h
  obtain ⟨ts', h2, h⟩ := h
  rw [Except.pure_ok_iff] at h
  exact ⟨t, ts', h1, h2, h.symm⟩

theorem detectVals_cons_ok {cfg o k x xs ts} (h : detectVals cfg o ((k, x) :: xs) = .ok ts) :
    ∃ t ts', detect cfg o true x = .ok t ∧ detectVals cfg o xs = .ok ts' ∧ ts = t :: ts' := by
  rw [detectVals, Except.bind_ok_iff] at h
  obtain ⟨t, h1, h⟩ := h
  rw [Except.bind_ok_iff] at h
  obtain ⟨ts', h2, h⟩ := h
  rw [Except.pure_ok_iff] at h
  exact ⟨t, ts', h1, h2, h.symm⟩

theorem convertFields_cons_ok {cfg o k x xs fs} (h : convertFields cfg o ((k, x) :: xs) = .ok fs) :
    ∃ t fs', detect cfg o (!cfg.dictFields.contains k) x = .ok t ∧ convertFields cfg o xs = .ok fs' ∧
      fs = (k, t) :: fs' := by
  rw [convertFields, Except.bind_ok_iff] at h
  obtain ⟨t, h1, h⟩ := h
  rw [Except.bind_ok_iff] at h
  obtain ⟨ts', h2, h⟩ := h
  rw [Except.pure_ok_iff] at h
  exact ⟨t, ts', h1, h2, h.symm⟩

/-- **C02.3 (core)**: everything `detect` returns is raw -/
theorem detect_raw (cfg : GenCfg) (o : GenOracles) :
    ∀ (cd : Bool) (v : Json) (t : Ty), detect cfg o cd v = .ok t → t.raw := by
  intro cd v
  induction cd, v using detect.induct cfg
    (motive_2 := fun kvs => ∀ ts, detectVals cfg o kvs = .ok ts → ∀ t ∈ ts, t.raw)
    (motive_3 := fun kvs => ∀ fs, convertFields cfg o kvs = .ok fs → ∀ kv ∈ fs, kv.2.raw)
    (motive_4 := fun xs => ∀ ts, detectList cfg o xs = .ok ts → ∀ t ∈ ts, t.raw) with
  | case1 cd b => intro t h; simp [detect, pure, Except.pure] at h; subst h; simp [Ty.raw, Ty.unknownOnlyUnderContainer, Ty.noOpt]
  | case2 cd i => intro t h; simp [detect, pure, Except.pure] at h; subst h; simp [Ty.raw, Ty.unknownOnlyUnderContainer, Ty.noOpt]
  | case3 cd x => intro t h; simp [detect, pure, Except.pure] at h; subst h; simp [Ty.raw, Ty.unknownOnlyUnderContainer, Ty.noOpt]
  | case4 cd => intro t h; simp [detect, pure, Except.pure] at h; subst h; simp [Ty.raw, Ty.unknownOnlyUnderContainer, Ty.noOpt]
  | case5 cd => intro t h; simp [detect, pure, Except.pure] at h; subst h; simp [Ty.raw, Ty.unknownOnlyUnderContainer, Ty.noOpt, Ty.isUnknown]
  | case6 cd x xs ih =>
    intro t h
    obtain ⟨ts, h1, h2⟩ := detect_arr_cons h
    obtain ⟨T, hw, hT⟩ := wrapElems_raw (c := cfg.lit) (wrap := .list) (ih ts h1)
      (forall₂_ne_nil (detectList_ok h1))
    rw [h2, hw]; exact raw_wrap_list hT
  | case7 cd => intro t h; simp [detect, pure, Except.pure] at h; subst h; simp [Ty.raw, Ty.unknownOnlyUnderContainer, Ty.noOpt, Ty.isUnknown]
  | case8 cd kv kvs ih3 ih2 =>
    intro t h
    obtain ⟨rx, _, hcase⟩ := detect_obj_cons h
    rcases hcase with ⟨_, _, fs, hfs, ht⟩ | ⟨_, ts, hts, ht⟩
    · subst ht; exact raw_obj (ih3 fs hfs)
    · obtain ⟨T, hw, hT⟩ := wrapElems_raw (c := cfg.lit) (wrap := .dict) (ih2 ts hts)
        (forall₂_ne_nil (detectVals_ok hts))
      rw [ht, hw]; exact raw_wrap_dict hT
  | case9 cd s =>
    intro t h
    rw [detect, Except.bind_ok_iff] at h
    obtain ⟨r, _, h⟩ := h
    cases r with
    | none => rw [Except.pure_ok_iff] at h; subst h; exact mkLit_raw ..
    | some k => rw [Except.pure_ok_iff] at h; subst h; simp [Ty.raw, Ty.unknownOnlyUnderContainer, Ty.noOpt]
  | case10 => rename_i ts h t ht; simp [detectList, pure, Except.pure] at h; subst h; simp at ht
  | case11 x xs ih1 ih4 =>
    rename_i ts h t ht
    obtain ⟨t0, ts0, h1, h2, rfl⟩ := detectList_cons_ok h
    rcases List.mem_cons.1 ht with h3 | h3
    · subst h3; exact ih1 _ h1
    · exact ih4 ts0 h2 t h3
  | case12 => rename_i ts h t ht; simp [detectVals, pure, Except.pure] at h; subst h; simp at ht
  | case13 k x xs ih1 ih2 =>
    rename_i ts h t ht
    obtain ⟨t0, ts0, h1, h2, rfl⟩ := detectVals_cons_ok h
    rcases List.mem_cons.1 ht with h3 | h3
    · subst h3; exact ih1 _ h1
    · exact ih2 ts0 h2 t h3
  | case14 => rename_i fs h kv hkv; simp [convertFields, pure, Except.pure] at h; subst h; simp at hkv
  | case15 k x xs ih1 ih3 =>
    rename_i fs h kv hkv
    obtain ⟨t0, fs0, h1, h2, rfl⟩ := convertFields_cons_ok h
    rcases List.mem_cons.1 hkv with h3 | h3
    · subst h3; exact ih1 _ h1
    · exact ih3 fs0 h2 kv h3

theorem convertFields_raw {cfg o kvs fs} (h : convertFields cfg o kvs = .ok fs) : ∀ kv ∈ fs, kv.2.raw := by
  intro kv hkv
  obtain ⟨a, _, _, hd⟩ := forall₂_mem_right (convertFields_ok h) hkv
  exact detect_raw cfg o _ _ _ hd

/-- a detected `List[Unknown]` comes from the empty list and nothing else -/
theorem detect_list_unknown_iff {cfg o cd v t} (h : detect cfg o cd v = .ok (.list t)) :
    t.isUnknown = true ↔ v = .arr [] := by
  cases v with
  | arr xs =>
    cases xs with
    | nil => simp [detect, pure, Except.pure] at h; subst h; simp [Ty.isUnknown]
    | cons x xs =>
      obtain ⟨ts, h1, h2⟩ := detect_arr_cons h
      obtain ⟨T, hw, hT⟩ := wrapElems_raw (c := cfg.lit) (wrap := .list)
        (fun t ht => by
          obtain ⟨a, _, hd⟩ := forall₂_mem_right (detectList_ok h1) ht
          exact detect_raw cfg o _ _ _ hd)
        (forall₂_ne_nil (detectList_ok h1))
      rw [hw] at h2; cases h2
      simp [raw_not_unknown hT]
  | obj kvs =>
    cases kvs with
    | nil => simp [detect, pure, Except.pure] at h
    | cons kv kvs =>
      obtain ⟨rx, _, hcase⟩ := detect_obj_cons h
      rcases hcase with ⟨_, _, fs, _, ht⟩ | ⟨_, ts, _, ht⟩
      · cases ht
      · obtain ⟨T, hT⟩ := wrapElems_cases cfg.lit .dict ts
        rw [hT] at ht; cases ht
  | str s =>
    rw [detect, Except.bind_ok_iff] at h
    obtain ⟨r, _, h⟩ := h
    cases r with
    | none => rw [Except.pure_ok_iff] at h; unfold mkLit at h; split at h <;> cases h
    | some k => rw [Except.pure_ok_iff] at h; cases h
  | null => simp [detect, pure, Except.pure] at h
  | bool b => simp [detect, pure, Except.pure] at h
  | int i => simp [detect, pure, Except.pure] at h
  | float x => simp [detect, pure, Except.pure] at h

/-- a detected `Dict[str, Unknown]` comes from the empty object and nothing else -/
theorem detect_dict_unknown_iff {cfg o cd v t} (h : detect cfg o cd v = .ok (.dict t)) :
    t.isUnknown = true ↔ v = .obj [] := by
  cases v with
  | arr xs =>
    cases xs with
    | nil => simp [detect, pure, Except.pure] at h
    | cons x xs =>
      obtain ⟨ts, h1, h2⟩ := detect_arr_cons h
      obtain ⟨T, hT⟩ := wrapElems_cases cfg.lit .list ts
      rw [hT] at h2; cases h2
  | obj kvs =>
    cases kvs with
    | nil => simp [detect, pure, Except.pure] at h; subst h; simp [Ty.isUnknown]
    | cons kv kvs =>
      obtain ⟨rx, _, hcase⟩ := detect_obj_cons h
      rcases hcase with ⟨_, _, fs, _, ht⟩ | ⟨_, ts, hts, ht⟩
      · cases ht
      · obtain ⟨T, hw, hT⟩ := wrapElems_raw (c := cfg.lit) (wrap := .dict)
          (fun t ht => by
            obtain ⟨a, _, hd⟩ := forall₂_mem_right (detectVals_ok hts) ht
            exact detect_raw cfg o _ _ _ hd)
          (forall₂_ne_nil (detectVals_ok hts))
        rw [hw] at ht; cases ht
        simp [raw_not_unknown hT]
  | str s =>
    rw [detect, Except.bind_ok_iff] at h
    obtain ⟨r, _, h⟩ := h
    cases r with
    | none => rw [Except.pure_ok_iff] at h; unfold mkLit at h; split at h <;> cases h
    | some k => rw [Except.pure_ok_iff] at h; cases h
  | null => simp [detect, pure, Except.pure] at h
  | bool b => simp [detect, pure, Except.pure] at h
  | int i => simp [detect, pure, Except.pure] at h
  | float x => simp [detect, pure, Except.pure] at h

end J2M
