/-
  C02 tightness, part 2: `merge_field_sets` of witnessed field sets is witnessed.
  Per key, over the objects among `vs`:
    * the merged type is a `DUnion` of the per-set types (→ `mkUnion_wit`) and is witnessed by the values at the key;
    * a `DOptional` is put only around a key that some object lacks (a key that is new in a later set, or missing
      from the current set), and `null` members are licensed by an observed `null`.
  Hypothesis on the incoming sets: no `DOptional` at the top of a field type (what `generate` and
  `_optimize_union` pass at the generator stage: `_convert` output).
-/
import J2M.Proofs.Tight
namespace J2M.Tight
open J2M J2M.C02T

/-- the invariant of one merged field: below a top-level `DOptional` (licensed by a missing key or a `null`)
    the type is witnessed, with no licence, by the values at the key -/
def FW (acc : Accepts) (vs : List Json) (k : String) (t : Ty) : Prop :=
  match t with
  | .opt x => (LacksKey k vs ∨ Json.null ∈ fieldVals k vs) ∧ Wit acc False False x (fieldVals k vs)
  | t => Wit acc False False t (fieldVals k vs)

theorem FW.of_wit {acc : Accepts} {vs : List Json} {k : String} {t : Ty}
    (h : Wit acc False False t (fieldVals k vs)) : FW acc vs k t := by
  cases t with
  | opt x =>
    simp only [FW]
    simp only [Wit] at h
    exact ⟨h.1.elim False.elim .inr, h.2⟩
  | _ => exact h

theorem FW.toWit {acc : Accepts} {vs : List Json} {k : String} {t : Ty} (h : FW acc vs k t) :
    Wit acc (LacksKey k vs) False t (fieldVals k vs) := by
  cases t with
  | opt x =>
    simp only [FW] at h
    simp only [Wit]
    exact ⟨h.1, Wit.mono x False.elim id (fun _ h => h) h.2⟩
  | _ => exact Wit.mono _ False.elim id (fun _ h => h) h

theorem FW.nonopt {acc : Accepts} {vs : List Json} {k : String} {t : Ty} (h : FW acc vs k t)
    (ho : t.isOpt = false) : Wit acc False False t (fieldVals k vs) := by
  cases t with
  | opt x => simp [Ty.isOpt] at ho
  | _ => exact h

theorem FW.wrap {acc : Accepts} {vs : List Json} {k : String} {t : Ty} (h : FW acc vs k t)
    (ho : t.isOpt = false) (hl : LacksKey k vs) : FW acc vs k (.opt t) :=
  ⟨.inl hl, h.nonopt ho⟩

theorem unionMembers_wit {acc : Accepts} {vs : List Json} {t : Ty} (h : Wit acc False False t vs) :
    t.unionMembers ≠ [] ∧ ∀ m ∈ t.unionMembers, Wit acc False False m vs := by
  cases t with
  | union ts => exact wit_union.1 h
  | _ => simp [Ty.unionMembers]; exact h

/-- `DUnion(*new.members, *old.members)` collapsed, as `mergeOne` builds it -/
theorem merged_wit {acc : Accepts} {c : LitCfg} {vs : List Json} {a b : Ty}
    (ha : Wit acc False False a vs) (hb : Wit acc False False b vs) :
    Wit acc False False (J2M.collapse (mkUnionMembers c (a.unionMembers ++ b.unionMembers))) vs := by
  obtain ⟨a1, a2⟩ := unionMembers_wit ha
  obtain ⟨_, b2⟩ := unionMembers_wit hb
  have hne : a.unionMembers ++ b.unionMembers ≠ [] := by
    intro e; exact a1 (List.append_eq_nil_iff.1 e).1
  obtain ⟨h1, h2⟩ := mkUnion_wit (c := c) hne (fun t ht => by
    rcases List.mem_append.1 ht with h | h
    · exact a2 t h
    · exact b2 t h)
  exact collapse_wit h1 h2

theorem mergeOne_FW {acc : Accepts} {vs : List Json} {c e first fs fs' name field}
    (h : mergeOne c e first fs name field = .ok fs')
    (hfs : ∀ kv ∈ fs, FW acc vs kv.1 kv.2)
    (hf : Wit acc False False field (fieldVals name vs)) (hno : field.isOpt = false)
    (hlack : first = false → name ∉ fs.keys → LacksKey name vs) :
    ∀ kv ∈ fs', FW acc vs kv.1 kv.2 := by
  have hset : ∀ v, FW acc vs name v → ∀ kv ∈ fs.set name v, FW acc vs kv.1 kv.2 := by
    intro v hv kv hkv
    rcases Fields.mem_set hkv with h1 | h1
    · subst h1; exact hv
    · exact hfs kv h1
  rcases mergeOne_cases h with ⟨hg, h2⟩ | ⟨orig, hg, h2 | ⟨oi, ho, h2⟩ | ⟨ho, h2⟩ | ⟨_, ⟨fi, hfi, _⟩, _⟩⟩
  · subst h2
    apply hset
    cases first
    · simp only [hno, Bool.or_self, Bool.false_eq_true, ↓reduceIte]
      exact (FW.of_wit hf).wrap hno (hlack rfl (Fields.get?_eq_none.1 hg))
    · simpa using FW.of_wit hf
  · subst h2; exact hfs
  · subst h2; subst ho
    apply hset
    have := hfs _ (Fields.get?_mem hg)
    simp only [FW] at this ⊢
    exact ⟨this.1, merged_wit hf this.2⟩
  · subst h2
    apply hset
    exact FW.of_wit (merged_wit hf ((hfs _ (Fields.get?_mem hg)).nonopt ho))
  · subst hfi; simp [Ty.isOpt] at hno

/-- what a field set must satisfy: some object among `vs` has only keys of the set (the object it was
    converted from), no `DOptional` at the top of a field, every field type witnessed by the values at its key -/
def SetOK (acc : Accepts) (vs : List Json) (fs : Fields) : Prop :=
  HasObjWithin fs.keys vs ∧
  ∀ kv ∈ fs, kv.2.isOpt = false ∧ Wit acc False False kv.2 (fieldVals kv.1 vs)

theorem lacks_of_within {vs : List Json} {ks : List String} {k : String} (h : HasObjWithin ks vs)
    (hk : k ∉ ks) : LacksKey k vs := by
  obtain ⟨kvs, hm, hsub⟩ := h
  exact ⟨kvs, hm, fun hk' => hk (hsub k hk')⟩

theorem mergeItems_FW {acc : Accepts} {vs : List Json} {c e first} :
    ∀ {mdl fs r}, mergeItems c e first fs mdl = .ok r →
      (∀ kv ∈ fs, FW acc vs kv.1 kv.2) →
      (∀ kv ∈ mdl, kv.2.isOpt = false ∧ Wit acc False False kv.2 (fieldVals kv.1 vs)) →
      (first = false → ∀ name, name ∉ fs.keys → LacksKey name vs) →
      ∀ kv ∈ r, FW acc vs kv.1 kv.2 := by
  intro mdl
  induction mdl with
  | nil => intro fs r h hfs _ _; rw [mergeItems_nil, Except.ok.injEq] at h; subst h; exact hfs
  | cons kv mdl ih =>
    intro fs r h hfs hm hl
    obtain ⟨fs', h1, h2⟩ := mergeItems_cons.1 h
    have hkv := hm kv (List.mem_cons_self ..)
    refine ih h2 (mergeOne_FW h1 hfs hkv.2 hkv.1 (fun hf hn => hl hf _ hn))
      (fun kv' h' => hm kv' (List.mem_cons_of_mem _ h')) ?_
    intro hf name hn
    apply hl hf
    intro hmem
    apply hn
    rw [mergeOne_keys h1, mem_dstep]
    exact .inl hmem

theorem mergeStep_FW {acc : Accepts} {vs : List Json} {c e first fields mdl r}
    (h : mergeStep c e first fields mdl = .ok r)
    (hfs : ∀ kv ∈ fields, FW acc vs kv.1 kv.2) (hm : SetOK acc vs mdl)
    (hl : first = false → ∀ name, name ∉ fields.keys → LacksKey name vs) :
    (∀ kv ∈ r, FW acc vs kv.1 kv.2) ∧ ∀ name, name ∉ r.keys → LacksKey name vs := by
  obtain ⟨fs1, h1, h2⟩ := mergeStep_eq.1 h
  have hk : r.keys = mdl.keys.foldl dstep fields.keys := mergeStep_keys h
  refine ⟨?_, ?_⟩
  · subst h2
    intro kv hkv
    obtain ⟨kv0, h0, rfl⟩ := List.mem_map.1 hkv
    have := mergeItems_FW h1 hfs hm.2 hl kv0 h0
    unfold wrapMissing
    split
    · rename_i hc
      simp only [Bool.and_eq_true, Bool.not_eq_true'] at hc
      refine this.wrap hc.2 (lacks_of_within hm.1 ?_)
      intro hmem
      have := Fields.has_iff.2 hmem
      rw [this] at hc; simp at hc
    · exact this
  · intro name hn
    apply lacks_of_within hm.1
    intro hmem
    apply hn
    rw [hk, mem_foldl_dstep]
    exact .inr hmem

theorem go_FW {acc : Accepts} {vs : List Json} {c e} :
    ∀ {sets first fields r}, mergeFieldSets.go c e first fields sets = .ok r →
      (∀ kv ∈ fields, FW acc vs kv.1 kv.2) → (∀ fs ∈ sets, SetOK acc vs fs) →
      (first = false → ∀ name, name ∉ fields.keys → LacksKey name vs) →
      ∀ kv ∈ r, FW acc vs kv.1 kv.2 := by
  intro sets
  induction sets with
  | nil =>
    intro first fields r h hfs _ _
    simp [mergeFieldSets.go, pure, Except.pure] at h; subst h; exact hfs
  | cons mdl ms ih =>
    intro first fields r h hfs hs hl
    rw [mergeFieldSets.go, Except.bind_ok_iff] at h
    obtain ⟨f1, h1, h2⟩ := h
    obtain ⟨a1, a2⟩ := mergeStep_FW h1 hfs (hs mdl (List.mem_cons_self ..)) hl
    exact ih h2 a1 (fun m' h' => hs m' (List.mem_cons_of_mem _ h')) (fun _ => a2)

/-- **`mergeFieldSets_wit`**: the merge of witnessed field sets is a witnessed model -/
theorem mergeFieldSets_wit {acc : Accepts} {a u : Prop} {vs : List Json} {c e sets r}
    (h : mergeFieldSets c e sets = .ok r) (hne : sets ≠ []) (hs : ∀ fs ∈ sets, SetOK acc vs fs) :
    Wit acc a u (.obj r) vs := by
  rw [wit_obj]
  constructor
  · obtain ⟨fs0, rest, rfl⟩ := List.exists_cons_of_ne_nil hne
    refine (hs fs0 (List.mem_cons_self ..)).1.mono (fun _ h => h) ?_
    intro k hk
    have := mergeFieldSets_keys h
    unfold Fields.keys at this
    rw [this, mem_dedupStr, List.mem_flatMap]
    exact ⟨fs0, List.mem_cons_self .., hk⟩
  · intro kv hkv
    unfold mergeFieldSets at h
    exact (go_FW h (by intro kv hkv; simp at hkv) hs (by simp) kv hkv).toWit

/-- a witnessed inline object whose fields carry no `DOptional` is an admissible field set -/
theorem setOK_of_wit {acc : Accepts} {a u : Prop} {vs : List Json} {fs : Fields}
    (h : Wit acc a u (.obj fs) vs) (hno : ∀ kv ∈ fs, kv.2.isOpt = false) : SetOK acc vs fs := by
  rw [wit_obj] at h
  exact ⟨h.1, fun kv hkv => ⟨hno kv hkv, (h.2 kv hkv).drop_flags' (hno kv hkv)⟩⟩

end J2M.Tight
