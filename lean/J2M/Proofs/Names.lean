/-
  Helper lemmas about naming: sorting (`sortStrings`, `sortUniq`), `distinctWords`, `prepareLabel`,
  `indexOf`, `fixNameDuplicates`.
-/
import J2M.Names
import J2M.Registry
import J2M.Extracted
namespace J2M
namespace NamesP

/-- decidable equality of results (for the `decide` examples) -/
instance exceptDecEq {ε α} [DecidableEq ε] [DecidableEq α] : DecidableEq (Except ε α)
  | .ok a, .ok b => if h : a = b then isTrue (by rw [h]) else isFalse (fun e => h (Except.ok.inj e))
  | .error a, .error b => if h : a = b then isTrue (by rw [h]) else isFalse (fun e => h (Except.error.inj e))
  | .ok _, .error _ => isFalse (fun e => by cases e)
  | .error _, .ok _ => isFalse (fun e => by cases e)

/-! ## `String` order facts -/

theorem str_le_of_lt {a b : String} (h : a < b) : a ≤ b :=
  String.not_lt.mp (String.lt_asymm h)

theorem str_le_of_not_lt {a b : String} (h : ¬ a < b) : b ≤ a := String.not_lt.mp h

theorem str_lt_of_le_of_ne {a b : String} (h : a ≤ b) (hne : a ≠ b) : a < b := by
  rcases Classical.em (a < b) with h1 | h1
  · exact h1
  · exact absurd (String.le_antisymm h (String.not_lt.mp h1)) hne

theorem str_lt_of_lt_of_le {a b c : String} (h1 : a < b) (h2 : b ≤ c) : a < c := by
  rcases Classical.em (b = c) with h | h
  · exact h ▸ h1
  · exact String.lt_trans h1 (str_lt_of_le_of_ne h2 h)

theorem str_lt_of_le_of_lt {a b c : String} (h1 : a ≤ b) (h2 : b < c) : a < c := by
  rcases Classical.em (a = b) with h | h
  · exact h ▸ h2
  · exact String.lt_trans (str_lt_of_le_of_ne h1 h) h2

/-! ## `insertSorted` / `sortStrings` -/

abbrev Sorted (l : List String) : Prop := l.Pairwise (· ≤ ·)
abbrev StrictSorted (l : List String) : Prop := l.Pairwise (· < ·)

theorem insertSorted_perm (x : String) (l : List String) : (insertSorted x l).Perm (x :: l) := by
  induction l with
  | nil => simp [insertSorted]
  | cons y ys ih =>
    simp only [insertSorted]
    split
    · exact List.Perm.refl _
    · exact (List.Perm.cons y ih).trans (List.Perm.swap x y ys)

theorem mem_insertSorted {x a : String} {l : List String} : a ∈ insertSorted x l ↔ a = x ∨ a ∈ l := by
  rw [(insertSorted_perm x l).mem_iff]; simp

theorem insertSorted_sorted (x : String) {l : List String} (h : Sorted l) : Sorted (insertSorted x l) := by
  induction l with
  | nil => simp [insertSorted]
  | cons y ys ih =>
    simp only [insertSorted]
    have hp := List.pairwise_cons.mp h
    split
    · rename_i hlt
      refine List.pairwise_cons.mpr ⟨?_, h⟩
      intro a ha
      rcases List.mem_cons.mp ha with rfl | ha
      · exact str_le_of_lt hlt
      · exact String.le_trans (str_le_of_lt hlt) (hp.1 a ha)
    · rename_i hnlt
      refine List.pairwise_cons.mpr ⟨?_, ih hp.2⟩
      intro a ha
      rcases mem_insertSorted.mp ha with rfl | ha
      · exact str_le_of_not_lt hnlt
      · exact hp.1 a ha

theorem foldl_insertSorted_perm (xs acc : List String) :
    (xs.foldl (fun acc x => insertSorted x acc) acc).Perm (xs ++ acc) := by
  induction xs generalizing acc with
  | nil => simp
  | cons x xs ih =>
    simp only [List.foldl_cons]
    refine (ih _).trans ?_
    refine (List.Perm.append_left xs (insertSorted_perm x acc)).trans ?_
    simp [List.perm_middle]

theorem foldl_insertSorted_sorted (xs : List String) {acc : List String} (h : Sorted acc) :
    Sorted (xs.foldl (fun acc x => insertSorted x acc) acc) := by
  induction xs generalizing acc with
  | nil => simpa
  | cons x xs ih => exact ih (insertSorted_sorted x h)

theorem sortStrings_perm_self (xs : List String) : (sortStrings xs).Perm xs := by
  simpa [sortStrings] using foldl_insertSorted_perm xs []

theorem sortStrings_sorted (xs : List String) : Sorted (sortStrings xs) :=
  foldl_insertSorted_sorted xs List.Pairwise.nil

theorem mem_sortStrings {a : String} {xs : List String} : a ∈ sortStrings xs ↔ a ∈ xs :=
  (sortStrings_perm_self xs).mem_iff

theorem sortStrings_length (xs : List String) : (sortStrings xs).length = xs.length :=
  (sortStrings_perm_self xs).length_eq

theorem sorted_perm_eq {a b : List String} (ha : Sorted a) (hb : Sorted b) (h : a.Perm b) : a = b :=
  List.Perm.eq_of_pairwise (fun _ _ _ _ h1 h2 => String.le_antisymm h1 h2) ha hb h

/-- sorting does not depend on the order of the input -/
theorem sortStrings_perm {a b : List String} (h : a.Perm b) : sortStrings a = sortStrings b :=
  sorted_perm_eq (sortStrings_sorted a) (sortStrings_sorted b)
    ((sortStrings_perm_self a).trans (h.trans (sortStrings_perm_self b).symm))

/-- a sorted list is a fixed point of `sortStrings` -/
theorem sortStrings_of_sorted {a : List String} (h : Sorted a) : sortStrings a = a :=
  sorted_perm_eq (sortStrings_sorted a) h (sortStrings_perm_self a)

theorem sortStrings_idem (a : List String) : sortStrings (sortStrings a) = sortStrings a :=
  sortStrings_of_sorted (sortStrings_sorted a)

/-- the head of the sorted list is a minimum of the input -/
theorem sortStrings_head_le {xs : List String} {h : String} {t : List String}
    (e : sortStrings xs = h :: t) : h ∈ xs ∧ ∀ x ∈ xs, h ≤ x := by
  have hs := sortStrings_sorted xs
  rw [e] at hs
  have hp := List.pairwise_cons.mp hs
  refine ⟨mem_sortStrings.mp (e ▸ List.mem_cons_self), ?_⟩
  intro x hx
  have : x ∈ h :: t := e ▸ mem_sortStrings.mpr hx
  rcases List.mem_cons.mp this with rfl | hx
  · exact String.le_refl _
  · exact hp.1 x hx

/-! ## `insertUniq` / `sortUniq` -/

theorem mem_insertUniq {x a : String} {l : List String} : a ∈ insertUniq x l ↔ a = x ∨ a ∈ l := by
  induction l with
  | nil => simp [insertUniq]
  | cons y ys ih =>
    simp only [insertUniq]
    split
    · simp
    · split
      · rename_i h; have : x = y := by simpa using h
        subst this; simp
      · simp [ih]; grind

theorem insertUniq_strict (x : String) {l : List String} (h : StrictSorted l) :
    StrictSorted (insertUniq x l) := by
  induction l with
  | nil => simp [insertUniq]
  | cons y ys ih =>
    simp only [insertUniq]
    have hp := List.pairwise_cons.mp h
    split
    · rename_i hlt
      refine List.pairwise_cons.mpr ⟨?_, h⟩
      intro a ha
      rcases List.mem_cons.mp ha with rfl | ha
      · exact hlt
      · exact String.lt_trans hlt (hp.1 a ha)
    · rename_i hnlt
      split
      · exact h
      · rename_i hne
        have hne : x ≠ y := by simpa using hne
        refine List.pairwise_cons.mpr ⟨?_, ih hp.2⟩
        intro a ha
        rcases mem_insertUniq.mp ha with rfl | ha
        · exact str_lt_of_le_of_ne (str_le_of_not_lt hnlt) (Ne.symm hne)
        · exact hp.1 a ha

theorem foldl_insertUniq_mem (xs : List String) (acc : List String) (a : String) :
    a ∈ xs.foldl (fun acc x => insertUniq x acc) acc ↔ a ∈ xs ∨ a ∈ acc := by
  induction xs generalizing acc with
  | nil => simp
  | cons x xs ih => simp only [List.foldl_cons, ih, mem_insertUniq, List.mem_cons]; grind

theorem foldl_insertUniq_strict (xs : List String) {acc : List String} (h : StrictSorted acc) :
    StrictSorted (xs.foldl (fun acc x => insertUniq x acc) acc) := by
  induction xs generalizing acc with
  | nil => simpa
  | cons x xs ih => exact ih (insertUniq_strict x h)

theorem mem_sortUniq {a : String} {xs : List String} : a ∈ sortUniq xs ↔ a ∈ xs := by
  simp [sortUniq, foldl_insertUniq_mem]

theorem sortUniq_strict (xs : List String) : StrictSorted (sortUniq xs) :=
  foldl_insertUniq_strict xs List.Pairwise.nil

theorem strict_nodup {l : List String} (h : StrictSorted l) : l.Nodup :=
  h.imp (fun {a b} hab => fun (e : a = b) => String.lt_irrefl a (by rw [← e] at hab; exact hab))

theorem strict_sorted {l : List String} (h : StrictSorted l) : Sorted l := h.imp str_le_of_lt

theorem sortUniq_nodup (xs : List String) : (sortUniq xs).Nodup := strict_nodup (sortUniq_strict xs)

/-- two strictly sorted lists with the same elements are equal -/
theorem strict_ext {a b : List String} (ha : StrictSorted a) (hb : StrictSorted b)
    (h : ∀ x, x ∈ a ↔ x ∈ b) : a = b :=
  sorted_perm_eq (strict_sorted ha) (strict_sorted hb)
    ((List.perm_ext_iff_of_nodup (strict_nodup ha) (strict_nodup hb)).mpr h)

/-- `sortUniq` depends only on the *set* of its input (in particular not on its order) -/
theorem sortUniq_ext {a b : List String} (h : ∀ x, x ∈ a ↔ x ∈ b) : sortUniq a = sortUniq b :=
  strict_ext (sortUniq_strict a) (sortUniq_strict b) (fun x => by simp [mem_sortUniq, h])

theorem sortUniq_perm {a b : List String} (h : a.Perm b) : sortUniq a = sortUniq b :=
  sortUniq_ext (fun _ => h.mem_iff)

/-- on duplicate-free input `sortStrings` depends only on the set of elements -/
theorem sortStrings_ext_of_nodup {a b : List String} (ha : a.Nodup) (hb : b.Nodup)
    (h : ∀ x, x ∈ a ↔ x ∈ b) : sortStrings a = sortStrings b :=
  sortStrings_perm ((List.perm_ext_iff_of_nodup ha hb).mpr h)


/-! ## the substring order `strIn` -/

theorem isInfix_iff (a b : List Char) : isInfix a b = true ↔ a <:+: b := by
  induction b with
  | nil => simp [isInfix, List.infix_nil]
  | cons c bs ih =>
    rw [isInfix, Bool.or_eq_true, List.infix_cons_iff, List.isPrefixOf_iff_prefix, ih]

/-- `Sub v w`: `v in w` in Python (contiguous substring) -/
def Sub (v w : String) : Prop := strIn v w = true

instance (v w : String) : Decidable (Sub v w) := by unfold Sub; infer_instance

theorem sub_iff {v w : String} : Sub v w ↔ v.toList <:+: w.toList := by
  unfold Sub strIn; exact isInfix_iff _ _

theorem sub_refl (v : String) : Sub v v := sub_iff.mpr (List.infix_refl _)
theorem sub_trans {a b c : String} (h1 : Sub a b) (h2 : Sub b c) : Sub a c :=
  sub_iff.mpr ((sub_iff.mp h1).trans (sub_iff.mp h2))
theorem sub_length_le {a b : String} (h : Sub a b) : a.length ≤ b.length := by
  have := (sub_iff.mp h).length_le; simpa [String.length_toList] using this
theorem sub_eq_of_length {a b : String} (h : Sub a b) (hl : a.length = b.length) : a = b :=
  String.toList_inj.mp ((sub_iff.mp h).eq_of_length (by simpa [String.length_toList] using hl))
theorem sub_antisymm {a b : String} (h1 : Sub a b) (h2 : Sub b a) : a = b :=
  sub_eq_of_length h1 (Nat.le_antisymm (sub_length_le h1) (sub_length_le h2))
theorem sub_empty (w : String) : Sub "" w := sub_iff.mpr (by simp)
theorem sub_length_lt {a b : String} (h : Sub a b) (hne : a ≠ b) : a.length < b.length := by
  have := sub_length_le h
  rcases Nat.lt_or_ge a.length b.length with h1 | h1
  · exact h1
  · exact absurd (sub_eq_of_length h (Nat.le_antisymm this h1)) hne

/-- `w` is a ⊑-minimal element of `P` -/
def Minimal (P : List String) (w : String) : Prop := w ∈ P ∧ ∀ v ∈ P, Sub v w → v = w

/-- below every element of a list there is a minimal one (substring order is well-founded) -/
theorem exists_minimal_below (P : List String) : ∀ (n : Nat) (v : String), v.length ≤ n → v ∈ P →
    ∃ m, Minimal P m ∧ Sub m v := by
  intro n
  induction n with
  | zero =>
    intro v hl hv
    refine ⟨v, ⟨hv, ?_⟩, sub_refl v⟩
    intro u _ hu
    exact sub_eq_of_length hu (by have := sub_length_le hu; omega)
  | succ n ih =>
    intro v hl hv
    rcases Classical.em (∀ u ∈ P, Sub u v → u = v) with h | h
    · exact ⟨v, ⟨hv, h⟩, sub_refl v⟩
    · have ⟨u, hu⟩ := Classical.not_forall.mp h
      have ⟨huP, hu2⟩ := Classical.not_imp.mp hu
      have ⟨husub, hune⟩ := Classical.not_imp.mp hu2
      have hlt := sub_length_lt husub hune
      have ⟨m, hm, hmu⟩ := ih u (by omega) huP
      exact ⟨m, hm, sub_trans hmu husub⟩

/-! ## the inner loop -/

def dwStep (name : String) (st : List String × Bool) (other : String) : List String × Bool :=
  if !st.1.contains other then st
  else if strIn name other then
    ((if st.1.contains name then st.1 else st.1 ++ [name]).erase other, false)
  else if strIn other name then (st.1, false)
  else st

theorem dwInner_eq (name : String) (F : List String) : dwInner name F = F.foldl (dwStep name) (F, true) := rfl

theorem dwFold_spec (name : String) : ∀ (rest cur : List String) (flag : Bool),
    rest.Nodup → (∀ o ∈ rest, o ∈ cur) → name ∉ rest → cur.Nodup →
    let r := rest.foldl (dwStep name) (cur, flag)
    r.1.Nodup ∧
    (∀ w, w ∈ r.1 ↔ (w ∈ cur ∧ ¬ (w ∈ rest ∧ Sub name w)) ∨ (w = name ∧ ∃ o ∈ rest, Sub name o)) ∧
    (r.2 = true ↔ flag = true ∧ ∀ o ∈ rest, ¬ Sub name o ∧ ¬ Sub o name) := by
  intro rest
  induction rest with
  | nil => intro cur flag _ _ _ hc; simp [hc]
  | cons o rest ih =>
    intro cur flag hnd hsub hname hc
    have hnd' := List.nodup_cons.mp hnd
    have ho : o ∈ cur := hsub o List.mem_cons_self
    have hno : name ≠ o := fun e => hname (e ▸ List.mem_cons_self)
    have hnr : name ∉ rest := fun e => hname (List.mem_cons_of_mem _ e)
    simp only [List.foldl_cons]
    by_cases h1 : Sub name o
    · -- name ⊑ o
      have hstep : dwStep name (cur, flag) o =
          ((if cur.contains name then cur else cur ++ [name]).erase o, false) := by
        unfold dwStep; simp [ho]; intro h; exact absurd h1 (by simp [Sub, h])
      rw [hstep]
      let cur0 := if cur.contains name then cur else cur ++ [name]
      have hc0 : cur0.Nodup := by
        show (if cur.contains name then cur else cur ++ [name]).Nodup
        split
        · exact hc
        · rename_i hh
          have : name ∉ cur := by simpa using hh
          rw [List.nodup_append]; refine ⟨hc, by simp, ?_⟩
          intro a ha b hb; simp at hb; subst hb; intro e; exact this (e ▸ ha)
      have hm0 : ∀ w, w ∈ cur0 ↔ w ∈ cur ∨ w = name := by
        intro w
        show w ∈ (if cur.contains name then cur else cur ++ [name]) ↔ _
        split
        · rename_i hh; have : name ∈ cur := by simpa using hh
          constructor
          · exact Or.inl
          · rintro (h | h); exact h; exact h ▸ this
        · simp
      have hc1 : (cur0.erase o).Nodup := hc0.erase o
      have hm1 : ∀ w, w ∈ cur0.erase o ↔ w ≠ o ∧ (w ∈ cur ∨ w = name) := by
        intro w; rw [hc0.mem_erase_iff, hm0]
      have hsub1 : ∀ x ∈ rest, x ∈ cur0.erase o := by
        intro x hx; rw [hm1]
        exact ⟨fun e => hnd'.1 (e ▸ hx), Or.inl (hsub x (List.mem_cons_of_mem _ hx))⟩
      have := ih (cur0.erase o) false hnd'.2 hsub1 hnr hc1
      obtain ⟨r1, r2, r3⟩ := this
      refine ⟨r1, ?_, ?_⟩
      · intro w; rw [r2 w, hm1]
        simp only [List.mem_cons]
        constructor
        · rintro (⟨⟨hwo, hw | hw⟩, hn⟩ | ⟨hw, x, hx, hxs⟩)
          · left; refine ⟨hw, ?_⟩; rintro ⟨hh | hh, hs⟩
            · exact hwo hh
            · exact hn ⟨hh, hs⟩
          · right; exact ⟨hw, o, Or.inl rfl, h1⟩
          · right; exact ⟨hw, x, Or.inr hx, hxs⟩
        · rintro (⟨hw, hn⟩ | ⟨hw, _⟩)
          · by_cases hwo : w = o
            · exact absurd ⟨Or.inl hwo, hwo ▸ h1⟩ hn
            · left; exact ⟨⟨hwo, Or.inl hw⟩, fun ⟨a, b⟩ => hn ⟨Or.inr a, b⟩⟩
          · subst hw
            left
            refine ⟨⟨hno, Or.inr rfl⟩, fun ⟨a, _⟩ => hnr a⟩
      · rw [r3]; simp only [List.mem_cons]
        constructor
        · intro h; exact absurd h.1 (by simp)
        · intro h; exact absurd h1 (h.2 o (Or.inl rfl)).1
    · by_cases h2 : Sub o name
      · have hstep : dwStep name (cur, flag) o = (cur, false) := by
          unfold dwStep; simp [ho]
          have : strIn name o = false := by simpa [Sub] using h1
          simp [this]; intro h; exact absurd h2 (by simp [Sub, h])
        rw [hstep]
        obtain ⟨r1, r2, r3⟩ := ih cur false hnd'.2 (fun x hx => hsub x (List.mem_cons_of_mem _ hx)) hnr hc
        refine ⟨r1, ?_, ?_⟩
        · intro w; rw [r2 w]; simp only [List.mem_cons]
          constructor
          · rintro (⟨hw, hn⟩ | ⟨hw, x, hx, hxs⟩)
            · left; refine ⟨hw, ?_⟩; rintro ⟨hh | hh, hs⟩
              · exact h1 (hh ▸ hs)
              · exact hn ⟨hh, hs⟩
            · right; exact ⟨hw, x, Or.inr hx, hxs⟩
          · rintro (⟨hw, hn⟩ | ⟨hw, x, hx | hx, hxs⟩)
            · left; exact ⟨hw, fun ⟨a, b⟩ => hn ⟨Or.inr a, b⟩⟩
            · exact absurd (hx ▸ hxs) h1
            · right; exact ⟨hw, x, hx, hxs⟩
        · rw [r3]; simp only [List.mem_cons]
          constructor
          · intro h; exact absurd h.1 (by simp)
          · intro h; exact absurd h2 (h.2 o (Or.inl rfl)).2
      · have hstep : dwStep name (cur, flag) o = (cur, flag) := by
          unfold dwStep; simp [ho]
          have a : strIn name o = false := by simpa [Sub] using h1
          have b : strIn o name = false := by simpa [Sub] using h2
          simp [a, b]
        rw [hstep]
        obtain ⟨r1, r2, r3⟩ := ih cur flag hnd'.2 (fun x hx => hsub x (List.mem_cons_of_mem _ hx)) hnr hc
        refine ⟨r1, ?_, ?_⟩
        · intro w; rw [r2 w]; simp only [List.mem_cons]
          constructor
          · rintro (⟨hw, hn⟩ | ⟨hw, x, hx, hxs⟩)
            · left; refine ⟨hw, ?_⟩; rintro ⟨hh | hh, hs⟩
              · exact h1 (hh ▸ hs)
              · exact hn ⟨hh, hs⟩
            · right; exact ⟨hw, x, Or.inr hx, hxs⟩
          · rintro (⟨hw, hn⟩ | ⟨hw, x, hx | hx, hxs⟩)
            · left; exact ⟨hw, fun ⟨a, b⟩ => hn ⟨Or.inr a, b⟩⟩
            · exact absurd (hx ▸ hxs) h1
            · right; exact ⟨hw, x, hx, hxs⟩
        · rw [r3]; simp only [List.mem_cons]
          constructor
          · rintro ⟨hf, h⟩; refine ⟨hf, ?_⟩
            rintro x (hx | hx)
            · subst hx; exact ⟨h1, h2⟩
            · exact h x hx
          · rintro ⟨hf, h⟩; exact ⟨hf, fun x hx => h x (Or.inr hx)⟩


/-! ## the outer loop -/

def dwOuter (F : List String) (name : String) : List String :=
  let r := dwInner name F
  if r.2 then r.1 ++ [name] else r.1

theorem distinctWords_eq (words : List String) : distinctWords words = words.eraseDups.foldl dwOuter [] := rfl

def DwInv (P F : List String) : Prop := F.Nodup ∧ ∀ w, w ∈ F ↔ Minimal P w

theorem minimal_restrict {P : List String} {n w : String} (h : Minimal (P ++ [n]) w) (hw : w ∈ P) :
    Minimal P w := ⟨hw, fun v hv hs => h.2 v (List.mem_append_left _ hv) hs⟩

theorem minimal_extend {P : List String} {n w : String} (h : Minimal P w) (hn : ¬ Sub n w) :
    Minimal (P ++ [n]) w := by
  refine ⟨List.mem_append_left _ h.1, ?_⟩
  intro v hv hs
  rcases List.mem_append.mp hv with hv | hv
  · exact h.2 v hv hs
  · simp at hv; subst hv; exact absurd hs hn

theorem minimal_not_above {P : List String} {n w : String} (h : Minimal (P ++ [n]) w) (hne : w ≠ n) :
    ¬ Sub n w := fun hs => hne (h.2 n (by simp) hs).symm

theorem minimal_new {P F : List String} {n : String} (hI : DwInv P F) :
    Minimal (P ++ [n]) n ↔ ∀ m ∈ F, Sub m n → m = n := by
  constructor
  · intro h m hm hs
    exact h.2 m (List.mem_append_left _ ((hI.2 m).mp hm).1) hs
  · intro h
    refine ⟨by simp, ?_⟩
    intro v hv hs
    rcases List.mem_append.mp hv with hv | hv
    · obtain ⟨m, hm, hmv⟩ := exists_minimal_below P v.length v (Nat.le_refl _) hv
      have hmn := h m ((hI.2 m).mpr hm) (sub_trans hmv hs)
      subst hmn
      exact sub_antisymm hs hmv
    · simpa using hv

theorem dwOuter_inv {P F : List String} {n : String} (hI : DwInv P F) (hn : n ∉ P) :
    DwInv (P ++ [n]) (dwOuter F n) := by
  have hnF : n ∉ F := fun h => hn ((hI.2 n).mp h).1
  obtain ⟨r1, r2, r3⟩ := dwFold_spec n F F true hI.1 (fun _ h => h) hnF hI.1
  rw [← dwInner_eq] at r1 r2 r3
  simp only [true_and] at r3
  have hmemF : ∀ w, w ∈ F → w ≠ n := fun w hw e => hnF (e ▸ hw)
  -- membership in the new list, in terms of `F`
  have key : ∀ w, Minimal (P ++ [n]) w ↔ (w ∈ F ∧ ¬ Sub n w) ∨ (w = n ∧ ∀ m ∈ F, ¬ Sub m n) := by
    intro w
    constructor
    · intro h
      by_cases hw : w = n
      · subst hw; right; refine ⟨rfl, fun m hm hs => ?_⟩
        exact hmemF m hm ((minimal_new hI).mp h m hm hs)
      · left
        have hwP : w ∈ P := by
          rcases List.mem_append.mp h.1 with h | h
          · exact h
          · exact absurd (by simpa using h) hw
        exact ⟨(hI.2 w).mpr (minimal_restrict h hwP), minimal_not_above h hw⟩
    · rintro (⟨hw, hs⟩ | ⟨hw, hs⟩)
      · exact minimal_extend ((hI.2 w).mp hw) hs
      · subst hw; exact (minimal_new hI).mpr (fun m hm h => absurd h (hs m hm))
  unfold dwOuter
  by_cases hflag : (dwInner n F).2 = true
  · have hall := r3.mp hflag
    simp only [hflag, if_true]
    refine ⟨?_, ?_⟩
    · rw [List.nodup_append]; refine ⟨r1, by simp, ?_⟩
      intro a ha b hb; simp at hb; subst hb
      rcases (r2 a).mp ha with ⟨h, _⟩ | ⟨_, o, ho, hs⟩
      · exact hmemF a h
      · exact absurd hs (hall o ho).1
    · intro w; rw [key w, List.mem_append, r2 w]; simp only [List.mem_singleton]
      constructor
      · rintro ((⟨hw, hh⟩ | ⟨_, o, ho, hs⟩) | hw)
        · left; exact ⟨hw, fun hs => hh ⟨hw, hs⟩⟩
        · exact absurd hs (hall o ho).1
        · right; exact ⟨hw, fun m hm => (hall m hm).2⟩
      · rintro (⟨hw, hs⟩ | ⟨hw, _⟩)
        · left; left; exact ⟨hw, fun h => hs h.2⟩
        · right; exact hw
  · have hex : ¬ ∀ o ∈ F, ¬ Sub n o ∧ ¬ Sub o n := fun h => hflag (r3.mpr h)
    have hf : (dwInner n F).2 = false := by simpa using hflag
    simp only [hf, Bool.false_eq_true, if_false]
    refine ⟨r1, ?_⟩
    intro w; rw [key w, r2 w]
    constructor
    · rintro (⟨hw, hh⟩ | ⟨hw, o, ho, hs⟩)
      · left; exact ⟨hw, fun hs => hh ⟨hw, hs⟩⟩
      · right; refine ⟨hw, fun m hm hmn => ?_⟩
        -- m ⊑ n ⊑ o, both in F (minimal): m = o, hence n = o ∈ F
        have hmo : m = o := ((hI.2 o).mp ho).2 m ((hI.2 m).mp hm).1 (sub_trans hmn hs)
        subst hmo
        exact hmemF m hm (sub_antisymm hmn hs)
    · rintro (⟨hw, hs⟩ | ⟨hw, hs⟩)
      · left; exact ⟨hw, fun h => hs h.2⟩
      · right; refine ⟨hw, ?_⟩
        -- some o ∈ F is comparable with n, and none is below n
        apply Classical.byContradiction
        intro hno
        apply hex
        intro o ho
        exact ⟨fun h => hno ⟨o, ho, h⟩, hs o ho⟩

theorem dwFold_inv : ∀ (R P F : List String), DwInv P F → (P ++ R).Nodup →
    DwInv (P ++ R) (R.foldl dwOuter F) := by
  intro R
  induction R with
  | nil => intro P F h _; simpa using h
  | cons n R ih =>
    intro P F h hnd
    have hn : n ∉ P := by
      intro hh
      have := (List.nodup_append.mp hnd).2.2 n hh n List.mem_cons_self
      exact this rfl
    have := ih (P ++ [n]) (dwOuter F n) (dwOuter_inv h hn) (by simpa using hnd)
    simpa using this

theorem nodup_eraseDups_aux : ∀ (n : Nat) (l : List String), l.length ≤ n → l.eraseDups.Nodup := by
  intro n
  induction n with
  | zero => intro l hl; have : l = [] := List.length_eq_zero_iff.mp (by omega); subst this; simp
  | succ n ih =>
    intro l hl
    cases l with
    | nil => simp
    | cons a as =>
      rw [List.eraseDups_cons, List.nodup_cons]
      refine ⟨?_, ih _ ?_⟩
      · rw [List.mem_eraseDups]; simp
      · have := List.length_filter_le (fun b => !b == a) as
        simp at hl; omega

theorem nodup_eraseDups (l : List String) : l.eraseDups.Nodup := nodup_eraseDups_aux l.length l (Nat.le_refl _)

theorem minimal_congr {P Q : List String} (h : ∀ x, x ∈ P ↔ x ∈ Q) (w : String) :
    Minimal P w ↔ Minimal Q w := by
  unfold Minimal
  rw [h w]
  constructor
  · rintro ⟨a, b⟩; exact ⟨a, fun v hv => b v ((h v).mpr hv)⟩
  · rintro ⟨a, b⟩; exact ⟨a, fun v hv => b v ((h v).mp hv)⟩

/-- `distinct_words` returns exactly the ⊑-minimal words of its input (as a duplicate-free list) -/
theorem distinctWords_minimal (words : List String) (w : String) :
    w ∈ distinctWords words ↔ Minimal words w := by
  have := dwFold_inv words.eraseDups [] [] ⟨List.nodup_nil, by simp [Minimal]⟩
    (by simpa using nodup_eraseDups words)
  rw [distinctWords_eq, this.2 w]
  exact minimal_congr (fun x => by simp [List.mem_eraseDups]) w

theorem distinctWords_nodup (words : List String) : (distinctWords words).Nodup := by
  have := dwFold_inv words.eraseDups [] [] ⟨List.nodup_nil, by simp [Minimal]⟩
    (by simpa using nodup_eraseDups words)
  rw [distinctWords_eq]; exact this.1

/-- the result of `distinct_words` as a set depends only on the set of input words -/
theorem distinctWords_ext {a b : List String} (h : ∀ x, x ∈ a ↔ x ∈ b) (w : String) :
    w ∈ distinctWords a ↔ w ∈ distinctWords b := by
  rw [distinctWords_minimal, distinctWords_minimal]; exact minimal_congr h w

theorem sort_distinctWords_ext {a b : List String} (h : ∀ x, x ∈ a ↔ x ∈ b) :
    sortStrings (distinctWords a) = sortStrings (distinctWords b) :=
  sortStrings_ext_of_nodup (distinctWords_nodup a) (distinctWords_nodup b) (distinctWords_ext h)


/-! ## `prepareLabel` -/

/-- the `'a' <= s[0].lower() <= 'z'` test -/
def azOf (o : LabelOracles) (c : Char) : Option Bool :=
  if c.toNat < 128 then some (decide ('a' ≤ c.toLower ∧ c.toLower ≤ 'z')) else o.lowerAz c

/-- leading ASCII digit → word + `_` -/
def digitFix (az : Bool) (c : Char) (rest : List Char) (s : String) : String :=
  if !az && decide ('0' ≤ c ∧ c ≤ '9') then onesTable.getD (c.toNat - 48) "" ++ "_" ++ String.ofList rest else s

/-- the blacklist suffix -/
def blSuffix (bl : List String) (s : String) : String := if bl.contains s then s ++ "_" else s

/-- the pure tail of `prepare_label` after `re.sub` -/
def labelTail (o : LabelOracles) (bl : List String) (snake : Bool) (s2 : String) : Except PyErr String :=
  match s2.toList with
  | [] => .error .indexError
  | c :: rest =>
    match azOf o c with
    | none => .error (.oracleMiss "lowerAz")
    | some az =>
      let s3 := digitFix az c rest s2
      if snake then
        match o.underscore s3 with
        | none => .error (.oracleMiss ("underscore " ++ s3))
        | some s4 => .ok (blSuffix bl s4)
      else .ok (blSuffix bl s3)

def labelHead (o : LabelOracles) (cu : Bool) (s : String) : Except PyErr String :=
  match (if cu then o.unidecode s else some s) with
  | none => .error (.oracleMiss ("unidecode " ++ s))
  | some s1 =>
    match o.stripW s1 with
    | none => .error (.oracleMiss ("stripW " ++ s1))
    | some s2 => .ok s2

theorem prepareLabel_eq (o : LabelOracles) (bl : List String) (cu snake : Bool) (s : String) :
    prepareLabel o bl cu snake s = (labelHead o cu s >>= labelTail o bl snake) := by
  unfold prepareLabel labelHead
  cases cu
  · simp only [Bool.false_eq_true, if_false, pure_bind]
    cases h2 : o.stripW s
    · simp [orc, bind, Except.bind]
    · rename_i s2
      simp only [orc, bind, Except.bind, labelTail]
      cases h3 : s2.toList
      · simp
      · rename_i c rest
        simp only [azOf]
        by_cases hc : c.toNat < 128
        · simp only [hc, if_true, pure, Except.pure, digitFix, blSuffix]
          cases snake
          · simp
          · simp only [if_true]
            cases o.underscore _ <;> simp
        · simp only [hc, if_false]
          cases o.lowerAz c
          · simp
          · simp only [pure, Except.pure, digitFix, blSuffix]
            cases snake
            · simp
            · simp only [if_true]
              cases o.underscore _ <;> simp
  · simp only [if_true]
    cases h1 : o.unidecode s
    · simp [orc, bind, Except.bind]
    · rename_i s1
      cases h2 : o.stripW s1
      · simp [orc, bind, Except.bind, h2]
      · rename_i s2
        simp only [orc, bind, Except.bind, labelTail, h2]
        cases h3 : s2.toList
        · simp
        · rename_i c rest
          simp only [azOf]
          by_cases hc : c.toNat < 128
          · simp only [hc, if_true, pure, Except.pure, digitFix, blSuffix]
            cases snake
            · simp
            · simp only [if_true]
              cases o.underscore _ <;> simp
          · simp only [hc, if_false]
            cases o.lowerAz c
            · simp
            · simp only [pure, Except.pure, digitFix, blSuffix]
              cases snake
              · simp
              · simp only [if_true]
                cases o.underscore _ <;> simp


theorem prepareLabel_ok_iff {o : LabelOracles} {bl : List String} {cu snake : Bool} {s r : String} :
    prepareLabel o bl cu snake s = .ok r ↔ ∃ s2, labelHead o cu s = .ok s2 ∧ labelTail o bl snake s2 = .ok r := by
  rw [prepareLabel_eq]
  cases labelHead o cu s <;> simp [bind, Except.bind]

theorem labelHead_ok_iff {o : LabelOracles} {cu : Bool} {s s2 : String} :
    labelHead o cu s = .ok s2 ↔ ∃ s1, (if cu then o.unidecode s else some s) = some s1 ∧ o.stripW s1 = some s2 := by
  unfold labelHead
  cases (if cu then o.unidecode s else some s)
  · simp
  · rename_i s1; simp only [Option.some.injEq, exists_eq_left']
    cases o.stripW s1 <;> simp

theorem labelHead_not_indexError {o : LabelOracles} {cu : Bool} {s : String} :
    labelHead o cu s ≠ .error .indexError := by
  unfold labelHead
  cases (if cu then o.unidecode s else some s)
  · simp
  · rename_i s1; simp only; cases o.stripW s1 <;> simp

theorem toList_eq_nil_iff {s : String} : s.toList = [] ↔ s = "" := by
  rw [← String.toList_inj]; rfl

theorem labelTail_indexError_iff {o : LabelOracles} {bl : List String} {snake : Bool} {s2 : String} :
    labelTail o bl snake s2 = .error .indexError ↔ s2 = "" := by
  unfold labelTail
  cases h : s2.toList
  · simp [toList_eq_nil_iff.mp h]
  · rename_i c rest
    have hne : s2 ≠ "" := fun e => by rw [toList_eq_nil_iff.mpr e] at h; cases h
    simp only [hne, iff_false]
    cases azOf o c
    · simp
    · simp only
      cases snake
      · simp
      · simp only [if_true]; cases o.underscore _ <;> simp

/-- `prepare_label` raises `IndexError` exactly when nothing is left after `re.sub(r"\W", "", ·)` -/
theorem prepareLabel_indexError_iff {o : LabelOracles} {bl : List String} {cu snake : Bool} {s : String} :
    prepareLabel o bl cu snake s = .error .indexError ↔ labelHead o cu s = .ok "" := by
  rw [prepareLabel_eq]
  cases h : labelHead o cu s
  · rename_i e
    simp only [bind, Except.bind]
    constructor
    · intro h'; injection h' with h'; exact absurd (h' ▸ h) labelHead_not_indexError
    · intro h'; cases h'
  · rename_i s2
    simp only [bind, Except.bind, labelTail_indexError_iff]
    constructor
    · intro e; rw [e]
    · intro e; injection e

/-- what a successful tail run looks like -/
theorem labelTail_ok {o : LabelOracles} {bl : List String} {snake : Bool} {s2 r : String}
    (h : labelTail o bl snake s2 = .ok r) :
    ∃ c rest az s4, s2.toList = c :: rest ∧ azOf o c = some az ∧
      (if snake then o.underscore (digitFix az c rest s2) = some s4 else s4 = digitFix az c rest s2) ∧
      r = blSuffix bl s4 := by
  unfold labelTail at h
  cases h3 : s2.toList
  · simp [h3] at h
  · rename_i c rest
    simp only [h3] at h
    cases haz : azOf o c
    · simp [haz] at h
    · rename_i az
      simp only [haz] at h
      cases snake
      · simp only [Bool.false_eq_true, if_false] at h
        injection h with h
        exact ⟨c, rest, az, _, rfl, haz, by simp, h.symm⟩
      · simp only [if_true] at h
        cases hu : o.underscore (digitFix az c rest s2)
        · simp [hu] at h
        · rename_i s4
          simp only [hu] at h
          injection h with h
          exact ⟨c, rest, az, s4, rfl, haz, by simpa using hu, h.symm⟩

theorem blSuffix_not_mem {bl : List String} (hbl : ∀ w ∈ bl, w ++ "_" ∉ bl) (s : String) :
    blSuffix bl s ∉ bl := by
  unfold blSuffix
  by_cases h : s ∈ bl
  · simp only [List.contains_eq_mem, h, decide_true, if_true]; exact hbl s h
  · simp [h]

theorem blSuffix_of_not_mem {bl : List String} {s : String} (h : s ∉ bl) : blSuffix bl s = s := by
  simp [blSuffix, h]

theorem append_ne_empty_right (a : String) {b : String} (hb : b ≠ "") : a ++ b ≠ "" := by
  intro e
  have := congrArg String.toList e
  rw [String.toList_append] at this
  simp at this
  exact hb this.2

theorem append_ne_empty_left {a : String} (b : String) (ha : a ≠ "") : a ++ b ≠ "" := by
  intro e
  have := congrArg String.toList e
  rw [String.toList_append] at this
  simp at this
  exact ha this.1

theorem blSuffix_ne_empty {bl : List String} {s : String} (h : s ≠ "") : blSuffix bl s ≠ "" := by
  unfold blSuffix; split
  · exact append_ne_empty_left _ h
  · exact h

theorem digitFix_ne_empty {az : Bool} {c : Char} {rest : List Char} {s2 : String}
    (h : s2.toList = c :: rest) : digitFix az c rest s2 ≠ "" := by
  unfold digitFix; split
  · exact append_ne_empty_left _ (append_ne_empty_right _ (by decide))
  · intro e; rw [toList_eq_nil_iff.mpr e] at h; cases h

/-- `inflection.underscore` does not return the empty string for a non-empty argument -/
def UnderscoreNonempty (o : LabelOracles) : Prop := ∀ s t, o.underscore s = some t → s ≠ "" → t ≠ ""


theorem prepareLabel_not_blacklisted' {o : LabelOracles} {bl : List String} {cu snake : Bool} {s r : String}
    (hbl : ∀ w ∈ bl, w ++ "_" ∉ bl) (h : prepareLabel o bl cu snake s = .ok r) : r ∉ bl := by
  obtain ⟨s2, _, h2⟩ := prepareLabel_ok_iff.mp h
  obtain ⟨c, rest, az, s4, _, _, _, hr⟩ := labelTail_ok h2
  rw [hr]; exact blSuffix_not_mem hbl s4

theorem prepareLabel_nonempty' {o : LabelOracles} {bl : List String} {cu snake : Bool} {s r : String}
    (hu : UnderscoreNonempty o) (h : prepareLabel o bl cu snake s = .ok r) : r ≠ "" := by
  obtain ⟨s2, _, h2⟩ := prepareLabel_ok_iff.mp h
  obtain ⟨c, rest, az, s4, h3, _, h4, hr⟩ := labelTail_ok h2
  rw [hr]; apply blSuffix_ne_empty
  cases snake
  · simp at h4; rw [h4]; exact digitFix_ne_empty h3
  · simp at h4; exact hu _ _ h4 (digitFix_ne_empty h3)

/-- the head character is a digit that gets spelled out -/
def DigitHead (az : Bool) (c : Char) : Bool := !az && decide ('0' ≤ c ∧ c ≤ '9')

/-- a string on which the tail of `prepare_label` does nothing -/
theorem labelTail_fix {o : LabelOracles} {bl : List String} {snake : Bool} {r : String} {c : Char}
    {rest : List Char} {az : Bool}
    (h3 : r.toList = c :: rest) (haz : azOf o c = some az) (hd : DigitHead az c = false)
    (hs : snake = true → o.underscore r = some r) (hbl : r ∉ bl) :
    labelTail o bl snake r = .ok r := by
  unfold labelTail
  simp only [h3, haz]
  have : digitFix az c rest r = r := by
    unfold digitFix; unfold DigitHead at hd; rw [hd]; simp
  simp only [this]
  cases snake
  · simp [blSuffix_of_not_mem hbl]
  · simp [hs rfl, blSuffix_of_not_mem hbl]

theorem blSuffix_toList (bl : List String) (s : String) :
    ∃ t, (blSuffix bl s).toList = s.toList ++ t := by
  unfold blSuffix; split
  · exact ⟨"_".toList, by rw [String.toList_append]⟩
  · exact ⟨[], by simp⟩

theorem digit_cases {c : Char} (h : '0' ≤ c ∧ c ≤ '9') : ∃ n, n < 10 ∧ c.toNat = 48 + n := by
  have h1 : 48 ≤ c.toNat := by
    have := h.1; rw [Char.le_def, UInt32.le_iff_toNat_le] at this; exact this
  have h2 : c.toNat ≤ 57 := by
    have := h.2; rw [Char.le_def, UInt32.le_iff_toNat_le] at this; exact this
  exact ⟨c.toNat - 48, by omega, by omega⟩

/-- the spelled-out digit starts with a character that is not rewritten again -/
theorem digit_word_head (o : LabelOracles) {c : Char} (h : '0' ≤ c ∧ c ≤ '9') (rest : List Char) :
    ∃ c' rest' az', (onesTable.getD (c.toNat - 48) "" ++ "_" ++ String.ofList rest).toList = c' :: rest' ∧
      azOf o c' = some az' ∧ DigitHead az' c' = false := by
  obtain ⟨n, hn, hc⟩ := digit_cases h
  rw [hc]
  simp only [Nat.add_sub_cancel_left, String.toList_append]
  have : n = 0 ∨ n = 1 ∨ n = 2 ∨ n = 3 ∨ n = 4 ∨ n = 5 ∨ n = 6 ∨ n = 7 ∨ n = 8 ∨ n = 9 := by omega
  rcases this with rfl | rfl | rfl | rfl | rfl | rfl | rfl | rfl | rfl | rfl
  · exact ⟨'_', _, false, rfl, by unfold azOf; rw [if_pos (by decide)]; decide, by decide⟩
  · exact ⟨'o', _, true, rfl, by unfold azOf; rw [if_pos (by decide)]; decide, by decide⟩
  · exact ⟨'t', _, true, rfl, by unfold azOf; rw [if_pos (by decide)]; decide, by decide⟩
  · exact ⟨'t', _, true, rfl, by unfold azOf; rw [if_pos (by decide)]; decide, by decide⟩
  · exact ⟨'f', _, true, rfl, by unfold azOf; rw [if_pos (by decide)]; decide, by decide⟩
  · exact ⟨'f', _, true, rfl, by unfold azOf; rw [if_pos (by decide)]; decide, by decide⟩
  · exact ⟨'s', _, true, rfl, by unfold azOf; rw [if_pos (by decide)]; decide, by decide⟩
  · exact ⟨'s', _, true, rfl, by unfold azOf; rw [if_pos (by decide)]; decide, by decide⟩
  · exact ⟨'e', _, true, rfl, by unfold azOf; rw [if_pos (by decide)]; decide, by decide⟩
  · exact ⟨'n', _, true, rfl, by unfold azOf; rw [if_pos (by decide)]; decide, by decide⟩


theorem labelHead_fix {o : LabelOracles} {cu : Bool} {r : String}
    (hU : cu = true → o.unidecode r = some r) (hS : o.stripW r = some r) : labelHead o cu r = .ok r := by
  rw [labelHead_ok_iff]
  refine ⟨r, ?_, hS⟩
  cases cu
  · simp
  · simp [hU rfl]

/-- class-name mode (`to_snake_case = False`): a label is a fixed point of `prepare_label`, provided the
    two regular-expression/transliteration oracles leave it alone -/
theorem label_idempotent' {o : LabelOracles} {bl : List String} {cu : Bool} {s r : String}
    (hbl : ∀ w ∈ bl, w ++ "_" ∉ bl) (h : prepareLabel o bl cu false s = .ok r)
    (hU : cu = true → o.unidecode r = some r) (hS : o.stripW r = some r) :
    prepareLabel o bl cu false r = .ok r := by
  have hnb := prepareLabel_not_blacklisted' hbl h
  obtain ⟨s2, _, h2⟩ := prepareLabel_ok_iff.mp h
  obtain ⟨c, rest, az, s4, h3, haz, h4, hr⟩ := labelTail_ok h2
  simp only [Bool.false_eq_true, if_false] at h4
  rw [prepareLabel_ok_iff]
  refine ⟨r, labelHead_fix hU hS, ?_⟩
  obtain ⟨t, ht⟩ := blSuffix_toList bl s4
  rw [← hr] at ht
  cases hd : DigitHead az c
  · have : s4 = s2 := by rw [h4]; unfold digitFix; unfold DigitHead at hd; rw [hd]; simp
    rw [this, h3] at ht
    exact labelTail_fix (c := c) (rest := rest ++ t) (az := az) (by simpa using ht) haz hd (by simp) hnb
  · have hdig : '0' ≤ c ∧ c ≤ '9' := by
      unfold DigitHead at hd; simp at hd; exact hd.2
    have : s4 = onesTable.getD (c.toNat - 48) "" ++ "_" ++ String.ofList rest := by
      rw [h4]; unfold digitFix; unfold DigitHead at hd; rw [hd]; simp
    obtain ⟨c', rest', az', e1, e2, e3⟩ := digit_word_head o hdig rest
    rw [this, e1] at ht
    exact labelTail_fix (c := c') (rest := rest' ++ t) (az := az') (by simpa using ht) e2 e3 (by simp) hnb


/-! ## `Index` -/

theorem nat_toString_inj {m n : Nat} (h : toString m = toString n) : m = n := by
  rw [Nat.toString_eq_repr, Nat.toString_eq_repr] at h
  have := congrArg String.toList h
  rw [Nat.toList_repr, Nat.toList_repr] at this
  have h2 := congrArg (fun l => Nat.ofDigitChars 10 l 0) this
  simpa [Nat.ofDigitChars_ten_toDigits] using h2

theorem toNat_ofNat_valid {n : Nat} (h : n.isValidChar) : (Char.ofNat n).toNat = n := by
  unfold Char.ofNat
  rw [dif_pos h]
  simp [Char.ofNatAux, Char.toNat]

theorem letter_inj {a b : Nat} (ha : a < 26) (hb : b < 26) (h : Char.ofNat (65 + a) = Char.ofNat (65 + b)) :
    a = b := by
  have := congrArg Char.toNat h
  have va : (65 + a).isValidChar := by left; omega
  have vb : (65 + b).isValidChar := by left; omega
  rw [toNat_ofNat_valid va, toNat_ofNat_valid vb] at this
  omega

theorem indexOf_toList (n : Nat) :
    (indexOf n).toList = (toString (n / 26 + 1)).toList ++ [Char.ofNat (65 + n % 26)] := by
  unfold indexOf; rw [String.toList_append]; simp

/-- registry indices `1A, 1B, …, 1Z, 2A, …` are pairwise distinct -/
theorem indexOf_injective' {a b : Nat} (h : indexOf a = indexOf b) : a = b := by
  have := congrArg String.toList h
  rw [indexOf_toList, indexOf_toList] at this
  have ⟨h1, h2⟩ := List.append_inj' this rfl
  have e1 := nat_toString_inj (String.toList_inj.mp h1)
  have e2 := letter_inj (Nat.mod_lt _ (by omega)) (Nat.mod_lt _ (by omega)) (by simpa using h2)
  have := Nat.div_add_mod a 26
  have := Nat.div_add_mod b 26
  omega


theorem indexOf_no_underscore (n : Nat) : '_' ∉ (indexOf n).toList := by
  rw [indexOf_toList, Nat.toString_eq_repr, Nat.toList_repr]
  intro h
  rcases List.mem_append.mp h with h | h
  · exact Nat.underscore_not_in_toDigits h
  · simp at h
    have hlt := Nat.mod_lt n (show 26 > 0 by omega)
    have hv : (65 + n % 26).isValidChar := by left; omega
    have := congrArg Char.toNat h
    rw [toNat_ofNat_valid hv] at this
    have h2 : ('_' : Char).toNat = 95 := by decide
    omega

/-! ## `fix_name_duplicates` -/

/-- what `fix_name_duplicates` does when every model has a non-empty name: the first occurrence of a name
    keeps it, each later one gets `_<index>` appended -/
def fixSpec (seen : List String) : List Model → List Model
  | [] => []
  | m :: ms =>
    let n := m.name.getD ""
    (if seen.contains n then { m with name := some (n ++ "_" ++ m.idx), nameGen := some true } else m)
      :: fixSpec (n :: seen) ms

/-- every model carries a non-empty name (true after the first loop of `generate_names`, unless the caller
    supplied an empty model name) -/
def Named (ms : List Model) : Prop := ∀ m ∈ ms, ∃ n, m.name = some n ∧ n ≠ ""

def ctrGet (counter : List (String × Nat)) (k : String) : Nat := ((counter.find? (·.1 == k)).map (·.2)).getD 0

def fixStep (st : List Model × List (String × Nat)) (m : Model) : List Model × List (String × Nat) :=
    let key := match m.name with | some n => if n.isEmpty then m.idx else n | none => m.idx
    let cnt := ((st.2.find? (·.1 == key)).map (·.2)).getD 0 + 1
    let counter := (key, cnt) :: st.2.filter (·.1 != key)
    let cntName : Nat := match m.name with
      | some n => ((counter.find? (·.1 == n)).map (·.2)).getD 0
      | none => 0
    let m' := if cntName > 1 then { m with name := some ((m.name.getD "") ++ "_" ++ m.idx), nameGen := some true } else m
    (st.1 ++ [m'], counter)

theorem fixNameDuplicates_eq (ms : List Model) : fixNameDuplicates ms = (ms.foldl fixStep ([], [])).1 := rfl

theorem ctrGet_cons_filter (counter : List (String × Nat)) (key k : String) (v : Nat) :
    ctrGet ((key, v) :: counter.filter (·.1 != key)) k = if k = key then v else ctrGet counter k := by
  unfold ctrGet
  by_cases h : k = key
  · subst h; simp
  · have h' : (key == k) = false := by simp [Ne.symm h]
    simp only [List.find?_cons, h', h, if_false]
    congr 2
    induction counter with
    | nil => simp
    | cons kv rest ih =>
      simp only [List.filter_cons]
      by_cases h1 : kv.1 = key
      · have : (kv.1 == k) = false := by simp [h1, Ne.symm h]
        simp [h1, h', ih]
      · simp only [bne_iff_ne, ne_eq, h1, not_false_eq_true, if_true, List.find?_cons]
        split
        · rfl
        · exact ih

theorem fixStep_named {st : List Model × List (String × Nat)} {m : Model} {seen : List String} {n : String}
    (hn : m.name = some n) (hne : n ≠ "") (hinv : ∀ k, ctrGet st.2 k = seen.count k) :
    fixStep st m = (st.1 ++ [if seen.contains n then { m with name := some (n ++ "_" ++ m.idx), nameGen := some true } else m],
                    (n, seen.count n + 1) :: st.2.filter (·.1 != n)) ∧
    ∀ k, ctrGet ((n, seen.count n + 1) :: st.2.filter (·.1 != n)) k = (n :: seen).count k := by
  have hemp : n.isEmpty = false := by
    cases h : n.isEmpty
    · rfl
    · exact absurd (String.isEmpty_iff.mp h) hne
  constructor
  · unfold fixStep
    simp only [hn, hemp, Bool.false_eq_true, if_false, Option.getD_some]
    have h1 : ((st.2.find? (·.1 == n)).map (·.2)).getD 0 = seen.count n := hinv n
    rw [h1]
    have h2 := ctrGet_cons_filter st.2 n n (seen.count n + 1)
    unfold ctrGet at h2
    simp only [if_true] at h2
    rw [h2]
    by_cases hs : n ∈ seen
    · have : seen.count n > 0 := List.count_pos_iff.mpr hs
      simp [hs, this]
    · have : seen.count n = 0 := List.count_eq_zero.mpr hs
      simp [hs, this]
  · intro k
    rw [ctrGet_cons_filter, hinv k, List.count_cons]
    by_cases h : k = n
    · subst h; simp
    · have : (n == k) = false := by simp [Ne.symm h]
      simp [h, this]

theorem fixFold_spec : ∀ (ms : List Model) (st : List Model × List (String × Nat)) (seen : List String),
    Named ms → (∀ k, ctrGet st.2 k = seen.count k) →
    (ms.foldl fixStep st).1 = st.1 ++ fixSpec seen ms := by
  intro ms
  induction ms with
  | nil => intro st seen _ _; simp [fixSpec]
  | cons m ms ih =>
    intro st seen hN hinv
    obtain ⟨n, hn, hne⟩ := hN m List.mem_cons_self
    obtain ⟨e, hinv'⟩ := fixStep_named hn hne hinv
    simp only [List.foldl_cons, e]
    rw [ih _ (n :: seen) (fun x hx => hN x (List.mem_cons_of_mem _ hx)) hinv']
    simp [fixSpec, hn]

/-- "first occurrence of a name keeps it; later ones get `_<index>` appended" -/
theorem fixNameDuplicates_spec {ms : List Model} (h : Named ms) : fixNameDuplicates ms = fixSpec [] ms := by
  rw [fixNameDuplicates_eq, fixFold_spec ms ([], []) [] h (by intro k; simp [ctrGet])]
  simp


/-- registry indices are pairwise distinct -/
def IdxDistinct (ms : List Model) : Prop := (ms.map (·.idx)).Nodup
/-- registry indices contain no underscore (true for `Index` values, `indexOf_no_underscore`) -/
def IdxNoUnderscore (ms : List Model) : Prop := ∀ m ∈ ms, '_' ∉ m.idx.toList
/-- no model is already called `<name>_<index>` of a model of the registry -/
def NoSuffixClash (ms : List Model) : Prop :=
  ∀ m ∈ ms, ∀ m' ∈ ms, m.name ≠ some (m'.name.getD "" ++ "_" ++ m'.idx)

theorem split_last {c : Char} : ∀ (l1 l2 r1 r2 : List Char), c ∉ l1 → c ∉ l2 →
    l1 ++ c :: r1 = l2 ++ c :: r2 → l1 = l2 := by
  intro l1
  induction l1 with
  | nil =>
    intro l2 r1 r2 _ h2 e
    cases l2 with
    | nil => rfl
    | cons x l2 => simp at e; exact absurd (e.1 ▸ List.mem_cons_self) h2
  | cons a l1 ih =>
    intro l2 r1 r2 h1 h2 e
    cases l2 with
    | nil => simp at e; exact absurd (e.1 ▸ List.mem_cons_self) h1
    | cons x l2 =>
      simp at e
      rw [e.1, ih l2 r1 r2 (fun h => h1 (List.mem_cons_of_mem _ h)) (fun h => h2 (List.mem_cons_of_mem _ h)) e.2]

theorem suffix_inj {a b x y : String} (hx : '_' ∉ x.toList) (hy : '_' ∉ y.toList)
    (h : a ++ "_" ++ x = b ++ "_" ++ y) : x = y := by
  have := congrArg (fun s => s.toList.reverse) h
  simp only [String.toList_append, List.reverse_append] at this
  have e : ("_" : String).toList.reverse = ['_'] := by decide
  rw [e] at this
  have := split_last x.toList.reverse y.toList.reverse _ _ (by simpa using hx) (by simpa using hy)
    (by simpa using this)
  exact String.toList_inj.mp (List.reverse_inj.mp this)

theorem fixSpec_name_mem : ∀ (ms : List Model) (seen : List String) (o : Option String),
    o ∈ (fixSpec seen ms).map (·.name) →
    ∃ m' ∈ ms, (o = m'.name ∧ m'.name.getD "" ∉ seen) ∨ o = some (m'.name.getD "" ++ "_" ++ m'.idx) := by
  intro ms
  induction ms with
  | nil => intro seen o h; simp [fixSpec] at h
  | cons m ms ih =>
    intro seen o h
    simp only [fixSpec, List.map_cons, List.mem_cons] at h
    rcases h with h | h
    · refine ⟨m, List.mem_cons_self, ?_⟩
      by_cases hs : m.name.getD "" ∈ seen
      · right; simpa [hs] using h
      · left; exact ⟨by simpa [hs] using h, hs⟩
    · obtain ⟨m', hm', hh⟩ := ih _ o h
      refine ⟨m', List.mem_cons_of_mem _ hm', ?_⟩
      rcases hh with ⟨h1, h2⟩ | h1
      · left; exact ⟨h1, fun hs => h2 (List.mem_cons_of_mem _ hs)⟩
      · right; exact h1

theorem fixSpec_nodup : ∀ (ms : List Model) (seen : List String),
    Named ms → IdxDistinct ms → IdxNoUnderscore ms → NoSuffixClash ms →
    ((fixSpec seen ms).map (·.name)).Nodup := by
  intro ms
  induction ms with
  | nil => intro seen _ _ _ _; simp [fixSpec]
  | cons m ms ih =>
    intro seen hN hD hU hC
    have hN' : Named ms := fun x hx => hN x (List.mem_cons_of_mem _ hx)
    have hD' : IdxDistinct ms := by
      unfold IdxDistinct at hD ⊢; simp only [List.map_cons, List.nodup_cons] at hD; exact hD.2
    have hU' : IdxNoUnderscore ms := fun x hx => hU x (List.mem_cons_of_mem _ hx)
    have hC' : NoSuffixClash ms :=
      fun x hx y hy => hC x (List.mem_cons_of_mem _ hx) y (List.mem_cons_of_mem _ hy)
    obtain ⟨n, hn, hne⟩ := hN m List.mem_cons_self
    simp only [fixSpec, List.map_cons, List.nodup_cons]
    refine ⟨?_, ih _ hN' hD' hU' hC'⟩
    intro hmem
    obtain ⟨m', hm', hh⟩ := fixSpec_name_mem ms _ _ hmem
    have hm'L : m' ∈ m :: ms := List.mem_cons_of_mem _ hm'
    simp only [hn, Option.getD_some] at hh
    by_cases hs : n ∈ seen
    · simp only [List.contains_eq_mem, hs, decide_true, if_true] at hh
      rcases hh with ⟨h1, _⟩ | h1
      · -- renamed `m` against a kept later model
        exact hC m' hm'L m List.mem_cons_self (by rw [← h1, hn]; rfl)
      · -- both renamed: indices would coincide
        have e := suffix_inj (hU m List.mem_cons_self) (hU m' hm'L) (Option.some.inj h1)
        unfold IdxDistinct at hD
        simp only [List.map_cons, List.nodup_cons] at hD
        exact hD.1 (e ▸ List.mem_map_of_mem (f := (·.idx)) hm')
    · simp only [List.contains_eq_mem, hs, decide_false, Bool.false_eq_true, if_false] at hh
      rcases hh with ⟨h1, h2⟩ | h1
      · -- two kept models with the same name: the later one would have been renamed
        apply h2
        rw [← h1, hn]; exact List.mem_cons_self
      · exact hC m List.mem_cons_self m' hm'L h1

/-- after `fix_name_duplicates` the class names are pairwise distinct -/
theorem fixNameDuplicates_distinct' {ms : List Model}
    (hN : Named ms) (hD : IdxDistinct ms) (hU : IdxNoUnderscore ms) (hC : NoSuffixClash ms) :
    ((fixNameDuplicates ms).map (·.name)).Nodup := by
  rw [fixNameDuplicates_spec hN]; exact fixSpec_nodup ms [] hN hD hU hC


/-! ## order-free corollaries -/

/-- the first element of the sorted list (the minimum) depends only on the set of elements -/
theorem sortStrings_head_ext {a b : List String} (h : ∀ x, x ∈ a ↔ x ∈ b) :
    (sortStrings a).headD "" = (sortStrings b).headD "" := by
  cases ea : sortStrings a with
  | nil =>
    have ha : a = [] := List.length_eq_zero_iff.mp (by rw [← sortStrings_length, ea]; rfl)
    have hb : b = [] := by
      cases b with
      | nil => rfl
      | cons y ys => have := (h y).mpr List.mem_cons_self; rw [ha] at this; cases this
    rw [hb]; rfl
  | cons x xs =>
    cases eb : sortStrings b with
    | nil =>
      have hb : b = [] := List.length_eq_zero_iff.mp (by rw [← sortStrings_length, eb]; rfl)
      have := (h x).mp (sortStrings_head_le ea).1
      rw [hb] at this; cases this
    | cons y ys =>
      obtain ⟨hx, hxm⟩ := sortStrings_head_le ea
      obtain ⟨hy, hym⟩ := sortStrings_head_le eb
      simp only [List.headD_cons]
      exact String.le_antisymm (hxm y ((h y).mpr hy)) (hym x ((h x).mp hx))

theorem mapM_orc {α β} (c : String) (φ : α → Option β) (l : List α) :
    l.mapM (fun x => orc c (φ x)) =
      if l.all (fun x => (φ x).isSome) then .ok (l.filterMap φ) else .error (.oracleMiss c) := by
  induction l with
  | nil => simp [pure, Except.pure]
  | cons x xs ih =>
    rw [List.mapM_cons, ih]
    cases hx : φ x with
    | none => simp [orc, bind, Except.bind, hx]
    | some y =>
      simp only [orc, bind, Except.bind, List.all_cons, hx, Option.isSome_some, Bool.true_and,
        List.filterMap_cons]
      cases xs.all (fun x => (φ x).isSome) <;> simp [pure, Except.pure]

theorem mapM_orc_perm {α β} (c : String) (φ : α → Option β) {l₁ l₂ : List α} (h : l₁.Perm l₂) :
    (∃ r₁ r₂, l₁.mapM (fun x => orc c (φ x)) = .ok r₁ ∧ l₂.mapM (fun x => orc c (φ x)) = .ok r₂ ∧ r₁.Perm r₂) ∨
    (l₁.mapM (fun x => orc c (φ x)) = .error (.oracleMiss c) ∧ l₂.mapM (fun x => orc c (φ x)) = .error (.oracleMiss c)) := by
  rw [mapM_orc, mapM_orc]
  have hall : l₁.all (fun x => (φ x).isSome) = l₂.all (fun x => (φ x).isSome) := by
    rw [Bool.eq_iff_iff, List.all_eq_true, List.all_eq_true]
    exact ⟨fun H x hx => H x (h.mem_iff.mpr hx), fun H x hx => H x (h.mem_iff.mp hx)⟩
  rw [hall]
  cases l₂.all (fun x => (φ x).isSome)
  · right; simp
  · left; exact ⟨_, _, by simp, by simp, h.filterMap φ⟩

/-- `ModelMeta.generate_name` does not depend on the iteration order of the `pointers` set -/
theorem generateName_perm' (no : NameOracles) {g₁ g₂ : Graph} (h : g₁.ptrs.Perm g₂.ptrs) (m : Model) :
    generateName no g₁ m = generateName no g₂ m := by
  unfold generateName
  have hf : ((g₁.ptrs.filter (fun p => p.target == m.idx && p.parent.isSome)).filterMap (·.field)).Perm
      ((g₂.ptrs.filter (fun p => p.target == m.idx && p.parent.isSome)).filterMap (·.field)) :=
    (h.filter _).filterMap _
  rcases mapM_orc_perm "singUnder" no.singUnder hf with ⟨r₁, r₂, e₁, e₂, hp⟩ | ⟨e₁, e₂⟩
  · simp only [e₁, e₂, bind, Except.bind]
    rw [sort_distinctWords_ext (fun x => hp.mem_iff)]
  · simp only [e₁, e₂, bind, Except.bind]


/-! ## executable blacklist checks (for `decide +kernel` over `Extracted`) -/

/-- the UTF-8 bytes of a string as numbers (cheap to compare in the kernel) -/
def bytesN (s : String) : List Nat := s.toByteArray.data.toList.map UInt8.toNat

theorem bytesN_inj {a b : String} (h : bytesN a = bytesN b) : a = b := by
  unfold bytesN at h
  have h1 := (List.map_inj_right (fun x y => UInt8.toNat_inj.mp)).mp h
  exact String.toByteArray_inj.mp (ByteArray.ext (Array.toList_inj.mp h1))

theorem bytesN_append_us (w : String) : bytesN (w ++ "_") = bytesN w ++ [95] := by
  unfold bytesN
  rw [String.toByteArray_append, ByteArray.data_append]
  have : ("_" : String).toByteArray.data = #[95] := by decide +kernel
  rw [this]; simp

theorem mem_of_bytesN_mem {k : String} {bl : List String} (h : bytesN k ∈ bl.map bytesN) : k ∈ bl := by
  obtain ⟨x, hx, e⟩ := List.mem_map.mp h
  exact bytesN_inj e ▸ hx

def blSuffixCheck (bl : List String) : Bool :=
  let B := bl.map bytesN
  let C := B.filter (fun w => w.getLast? == some 95)
  B.all (fun w => !C.contains (w ++ [95]))

def subsetCheck (ks bl : List String) : Bool :=
  let B := bl.map bytesN
  ks.all (fun k => B.contains (bytesN k))

theorem blSuffix_of_check {bl : List String} (h : blSuffixCheck bl = true) : ∀ w ∈ bl, w ++ "_" ∉ bl := by
  intro w hw hmem
  have := List.all_eq_true.mp h _ (List.mem_map_of_mem (f := bytesN) hw)
  simp only [Bool.not_eq_eq_eq_not, Bool.not_true, List.contains_eq_mem, List.mem_filter,
    decide_eq_false_iff_not, not_and] at this
  apply this
  · rw [← bytesN_append_us]; exact List.mem_map_of_mem hmem
  · simp

theorem subset_of_check {ks bl : List String} (h : subsetCheck ks bl = true) : ∀ k ∈ ks, k ∈ bl := by
  intro k hk
  have := List.all_eq_true.mp h k hk
  exact mem_of_bytesN_mem (by simpa using this)

end NamesP
end J2M
