/-
  Helper lemmas about naming: sorting (`sortStrings`, `sortUniq`), `distinctWords`, `prepareLabel`,
  `indexOf`, `fixNameDuplicates`.
-/
import J2M.Names
import J2M.Registry
import J2M.Extracted
namespace J2M
namespace NamesP

/-! ## `String` order facts -/

theorem str_le_of_lt {a b : String} (h : a < b) : a ≤ b :=
  String.not_lt.mp (String.lt_asymm h)

theorem str_le_of_not_lt {a b : String} (h : ¬ a < b) : b ≤ a := String.not_lt.mp h

theorem str_lt_of_le_of_ne {a b : String} (h : a ≤ b) (hne : a ≠ b) : a < b := by
  rcases Classical.em (a < b) with h1 | h1
  · exact h1
  · exact absurd (String.le_antisymm h (String.not_lt.mp h1)) hne

theorem str_lt_of_lt_of_le {a b c : String} (h1 : a < b) (h2 : b ≤ c) : a < c := by
  rcases Classical.em (b = c) with h | h
  · exact h ▸ h1
  · exact String.lt_trans h1 (str_lt_of_le_of_ne h2 h)

theorem str_lt_of_le_of_lt {a b c : String} (h1 : a ≤ b) (h2 : b < c) : a < c := by
  rcases Classical.em (a = b) with h | h
  · exact h ▸ h2
  · exact String.lt_trans (str_lt_of_le_of_ne h1 h) h2

/-! ## `insertSorted` / `sortStrings` -/

abbrev Sorted (l : List String) : Prop := l.Pairwise (· ≤ ·)
abbrev StrictSorted (l : List String) : Prop := l.Pairwise (· < ·)

theorem insertSorted_perm (x : String) (l : List String) : (insertSorted x l).Perm (x :: l) := by
  induction l with
  | nil => simp [insertSorted]
  | cons y ys ih =>
    simp only [insertSorted]
    split
    · exact List.Perm.refl _
    · exact (List.Perm.cons y ih).trans (List.Perm.swap x y ys)

theorem mem_insertSorted {x a : String} {l : List String} : a ∈ insertSorted x l ↔ a = x ∨ a ∈ l := by
  rw [(insertSorted_perm x l).mem_iff]; simp

theorem insertSorted_sorted (x : String) {l : List String} (h : Sorted l) : Sorted (insertSorted x l) := by
  induction l with
  | nil => simp [insertSorted]
  | cons y ys ih =>
    simp only [insertSorted]
    have hp := List.pairwise_cons.mp h
    split
    · rename_i hlt
      refine List.pairwise_cons.mpr ⟨?_, h⟩
      intro a ha
      rcases List.mem_cons.mp ha with rfl | ha
      · exact str_le_of_lt hlt
      · exact String.le_trans (str_le_of_lt hlt) (hp.1 a ha)
    · rename_i hnlt
      refine List.pairwise_cons.mpr ⟨?_, ih hp.2⟩
      intro a ha
      rcases mem_insertSorted.mp ha with rfl | ha
      · exact str_le_of_not_lt hnlt
      · exact hp.1 a ha

theorem foldl_insertSorted_perm (xs acc : List String) :
    (xs.foldl (fun acc x => insertSorted x acc) acc).Perm (xs ++ acc) := by
  induction xs generalizing acc with
  | nil => simp
  | cons x xs ih =>
    simp only [List.foldl_cons]
    refine (ih _).trans ?_
    refine (List.Perm.append_left xs (insertSorted_perm x acc)).trans ?_
    simp [List.perm_middle]

theorem foldl_insertSorted_sorted (xs : List String) {acc : List String} (h : Sorted acc) :
    Sorted (xs.foldl (fun acc x => insertSorted x acc) acc) := by
  induction xs generalizing acc with
  | nil => simpa
  | cons x xs ih => exact ih (insertSorted_sorted x h)

theorem sortStrings_perm_self (xs : List String) : (sortStrings xs).Perm xs := by
  simpa [sortStrings] using foldl_insertSorted_perm xs []

theorem sortStrings_sorted (xs : List String) : Sorted (sortStrings xs) :=
  foldl_insertSorted_sorted xs List.Pairwise.nil

theorem mem_sortStrings {a : String} {xs : List String} : a ∈ sortStrings xs ↔ a ∈ xs :=
  (sortStrings_perm_self xs).mem_iff

theorem sortStrings_length (xs : List String) : (sortStrings xs).length = xs.length :=
  (sortStrings_perm_self xs).length_eq

theorem sorted_perm_eq {a b : List String} (ha : Sorted a) (hb : Sorted b) (h : a.Perm b) : a = b :=
  List.Perm.eq_of_pairwise (fun _ _ _ _ h1 h2 => String.le_antisymm h1 h2) ha hb h

/-- sorting does not depend on the order of the input -/
theorem sortStrings_perm {a b : List String} (h : a.Perm b) : sortStrings a = sortStrings b :=
  sorted_perm_eq (sortStrings_sorted a) (sortStrings_sorted b)
    ((sortStrings_perm_self a).trans (h.trans (sortStrings_perm_self b).symm))

/-- a sorted list is a fixed point of `sortStrings` -/
theorem sortStrings_of_sorted {a : List String} (h : Sorted a) : sortStrings a = a :=
  sorted_perm_eq (sortStrings_sorted a) h (sortStrings_perm_self a)

theorem sortStrings_idem (a : List String) : sortStrings (sortStrings a) = sortStrings a :=
  sortStrings_of_sorted (sortStrings_sorted a)

/-- the head of the sorted list is a minimum of the input -/
theorem sortStrings_head_le {xs : List String} {h : String} {t : List String}
    (e : sortStrings xs = h :: t) : h ∈ xs ∧ ∀ x ∈ xs, h ≤ x := by
  have hs := sortStrings_sorted xs
  rw [e] at hs
  have hp := List.pairwise_cons.mp hs
  refine ⟨mem_sortStrings.mp (e ▸ List.mem_cons_self), ?_⟩
  intro x hx
  have : x ∈ h :: t := e ▸ mem_sortStrings.mpr hx
  rcases List.mem_cons.mp this with rfl | hx
  · exact String.le_refl _
  · exact hp.1 x hx

/-! ## `insertUniq` / `sortUniq` -/

theorem mem_insertUniq {x a : String} {l : List String} : a ∈ insertUniq x l ↔ a = x ∨ a ∈ l := by
  induction l with
  | nil => simp [insertUniq]
  | cons y ys ih =>
    simp only [insertUniq]
    split
    · simp
    · split
      · rename_i h; have : x = y := by simpa using h
        subst this; simp
      · simp [ih]; grind

theorem insertUniq_strict (x : String) {l : List String} (h : StrictSorted l) :
    StrictSorted (insertUniq x l) := by
  induction l with
  | nil => simp [insertUniq]
  | cons y ys ih =>
    simp only [insertUniq]
    have hp := List.pairwise_cons.mp h
    split
    · rename_i hlt
      refine List.pairwise_cons.mpr ⟨?_, h⟩
      intro a ha
      rcases List.mem_cons.mp ha with rfl | ha
      · exact hlt
      · exact String.lt_trans hlt (hp.1 a ha)
    · rename_i hnlt
      split
      · exact h
      · rename_i hne
        have hne : x ≠ y := by simpa using hne
        refine List.pairwise_cons.mpr ⟨?_, ih hp.2⟩
        intro a ha
        rcases mem_insertUniq.mp ha with rfl | ha
        · exact str_lt_of_le_of_ne (str_le_of_not_lt hnlt) (Ne.symm hne)
        · exact hp.1 a ha

theorem foldl_insertUniq_mem (xs : List String) (acc : List String) (a : String) :
    a ∈ xs.foldl (fun acc x => insertUniq x acc) acc ↔ a ∈ xs ∨ a ∈ acc := by
  induction xs generalizing acc with
  | nil => simp
  | cons x xs ih => simp only [List.foldl_cons, ih, mem_insertUniq, List.mem_cons]; grind

theorem foldl_insertUniq_strict (xs : List String) {acc : List String} (h : StrictSorted acc) :
    StrictSorted (xs.foldl (fun acc x => insertUniq x acc) acc) := by
  induction xs generalizing acc with
  | nil => simpa
  | cons x xs ih => exact ih (insertUniq_strict x h)

theorem mem_sortUniq {a : String} {xs : List String} : a ∈ sortUniq xs ↔ a ∈ xs := by
  simp [sortUniq, foldl_insertUniq_mem]

theorem sortUniq_strict (xs : List String) : StrictSorted (sortUniq xs) :=
  foldl_insertUniq_strict xs List.Pairwise.nil

theorem strict_nodup {l : List String} (h : StrictSorted l) : l.Nodup :=
  h.imp (fun {a b} hab => fun (e : a = b) => String.lt_irrefl a (by rw [← e] at hab; exact hab))

theorem strict_sorted {l : List String} (h : StrictSorted l) : Sorted l := h.imp str_le_of_lt

theorem sortUniq_nodup (xs : List String) : (sortUniq xs).Nodup := strict_nodup (sortUniq_strict xs)

/-- two strictly sorted lists with the same elements are equal -/
theorem strict_ext {a b : List String} (ha : StrictSorted a) (hb : StrictSorted b)
    (h : ∀ x, x ∈ a ↔ x ∈ b) : a = b :=
  sorted_perm_eq (strict_sorted ha) (strict_sorted hb)
    ((List.perm_ext_iff_of_nodup (strict_nodup ha) (strict_nodup hb)).mpr h)

/-- `sortUniq` depends only on the *set* of its input (in particular not on its order) -/
theorem sortUniq_ext {a b : List String} (h : ∀ x, x ∈ a ↔ x ∈ b) : sortUniq a = sortUniq b :=
  strict_ext (sortUniq_strict a) (sortUniq_strict b) (fun x => by simp [mem_sortUniq, h])

theorem sortUniq_perm {a b : List String} (h : a.Perm b) : sortUniq a = sortUniq b :=
  sortUniq_ext (fun _ => h.mem_iff)

/-- on duplicate-free input `sortStrings` depends only on the set of elements -/
theorem sortStrings_ext_of_nodup {a b : List String} (ha : a.Nodup) (hb : b.Nodup)
    (h : ∀ x, x ∈ a ↔ x ∈ b) : sortStrings a = sortStrings b :=
  sortStrings_perm ((List.perm_ext_iff_of_nodup ha hb).mpr h)


/-! ## the substring order `strIn` -/

theorem isInfix_iff (a b : List Char) : isInfix a b = true ↔ a <:+: b := by
  induction b with
  | nil => simp [isInfix, List.infix_nil]
  | cons c bs ih =>
    rw [isInfix, Bool.or_eq_true, List.infix_cons_iff, List.isPrefixOf_iff_prefix, ih]

/-- `Sub v w`: `v in w` in Python (contiguous substring) -/
def Sub (v w : String) : Prop := strIn v w = true

instance (v w : String) : Decidable (Sub v w) := by unfold Sub; infer_instance

theorem sub_iff {v w : String} : Sub v w ↔ v.toList <:+: w.toList := by
  unfold Sub strIn; exact isInfix_iff _ _

theorem sub_refl (v : String) : Sub v v := sub_iff.mpr (List.infix_refl _)
theorem sub_trans {a b c : String} (h1 : Sub a b) (h2 : Sub b c) : Sub a c :=
  sub_iff.mpr ((sub_iff.mp h1).trans (sub_iff.mp h2))
theorem sub_length_le {a b : String} (h : Sub a b) : a.length ≤ b.length := by
  have := (sub_iff.mp h).length_le; simpa [String.length_toList] using this
theorem sub_eq_of_length {a b : String} (h : Sub a b) (hl : a.length = b.length) : a = b :=
  String.toList_inj.mp ((sub_iff.mp h).eq_of_length (by simpa [String.length_toList] using hl))
theorem sub_antisymm {a b : String} (h1 : Sub a b) (h2 : Sub b a) : a = b :=
  sub_eq_of_length h1 (Nat.le_antisymm (sub_length_le h1) (sub_length_le h2))
theorem sub_empty (w : String) : Sub "" w := sub_iff.mpr (by simp)
theorem sub_length_lt {a b : String} (h : Sub a b) (hne : a ≠ b) : a.length < b.length := by
  have := sub_length_le h
  rcases Nat.lt_or_ge a.length b.length with h1 | h1
  · exact h1
  · exact absurd (sub_eq_of_length h (Nat.le_antisymm this h1)) hne

/-- `w` is a ⊑-minimal element of `P` -/
def Minimal (P : List String) (w : String) : Prop := w ∈ P ∧ ∀ v ∈ P, Sub v w → v = w

/-- below every element of a list there is a minimal one (substring order is well-founded) -/
theorem exists_minimal_below (P : List String) : ∀ (n : Nat) (v : String), v.length ≤ n → v ∈ P →
    ∃ m, Minimal P m ∧ Sub m v := by
  intro n
  induction n with
  | zero =>
    intro v hl hv
    refine ⟨v, ⟨hv, ?_⟩, sub_refl v⟩
    intro u _ hu
    exact sub_eq_of_length hu (by have := sub_length_le hu; omega)
  | succ n ih =>
    intro v hl hv
    rcases Classical.em (∀ u ∈ P, Sub u v → u = v) with h | h
    · exact ⟨v, ⟨hv, h⟩, sub_refl v⟩
    · have ⟨u, hu⟩ := Classical.not_forall.mp h
      have ⟨huP, hu2⟩ := Classical.not_imp.mp hu
      have ⟨husub, hune⟩ := Classical.not_imp.mp hu2
      have hlt := sub_length_lt husub hune
      have ⟨m, hm, hmu⟩ := ih u (by omega) huP
      exact ⟨m, hm, sub_trans hmu husub⟩

/-! ## the inner loop -/

def dwStep (name : String) (st : List String × Bool) (other : String) : List String × Bool :=
  if !st.1.contains other then st
  else if strIn name other then
    ((if st.1.contains name then st.1 else st.1 ++ [name]).erase other, false)
  else if strIn other name then (st.1, false)
  else st

theorem dwInner_eq (name : String) (F : List String) : dwInner name F = F.foldl (dwStep name) (F, true) := rfl

theorem dwFold_spec (name : String) : ∀ (rest cur : List String) (flag : Bool),
    rest.Nodup → (∀ o ∈ rest, o ∈ cur) → name ∉ rest → cur.Nodup →
    let r := rest.foldl (dwStep name) (cur, flag)
    r.1.Nodup ∧
    (∀ w, w ∈ r.1 ↔ (w ∈ cur ∧ ¬ (w ∈ rest ∧ Sub name w)) ∨ (w = name ∧ ∃ o ∈ rest, Sub name o)) ∧
    (r.2 = true ↔ flag = true ∧ ∀ o ∈ rest, ¬ Sub name o ∧ ¬ Sub o name) := by
  intro rest
  induction rest with
  | nil => intro cur flag _ _ _ hc; simp [hc]
  | cons o rest ih =>
    intro cur flag hnd hsub hname hc
    have hnd' := List.nodup_cons.mp hnd
    have ho : o ∈ cur := hsub o List.mem_cons_self
    have hno : name ≠ o := fun e => hname (e ▸ List.mem_cons_self)
    have hnr : name ∉ rest := fun e => hname (List.mem_cons_of_mem _ e)
    simp only [List.foldl_cons]
    by_cases h1 : Sub name o
    · -- name ⊑ o
      have hstep : dwStep name (cur, flag) o =
          ((if cur.contains name then cur else cur ++ [name]).erase o, false) := by
        unfold dwStep; simp [ho]; intro h; exact absurd h1 (by simp [Sub, h])
      rw [hstep]
      let cur0 := if cur.contains name then cur else cur ++ [name]
      have hc0 : cur0.Nodup := by
        show (if cur.contains name then cur else cur ++ [name]).Nodup
        split
        · exact hc
        · rename_i hh
          have : name ∉ cur := by simpa using hh
          rw [List.nodup_append]; refine ⟨hc, by simp, ?_⟩
          intro a ha b hb; simp at hb; subst hb; intro e; exact this (e ▸ ha)
      have hm0 : ∀ w, w ∈ cur0 ↔ w ∈ cur ∨ w = name := by
        intro w
        show w ∈ (if cur.contains name then cur else cur ++ [name]) ↔ _
        split
        · rename_i hh; have : name ∈ cur := by simpa using hh
          constructor
          · exact Or.inl
          · rintro (h | h); exact h; exact h ▸ this
        · simp
      have hc1 : (cur0.erase o).Nodup := hc0.erase o
      have hm1 : ∀ w, w ∈ cur0.erase o ↔ w ≠ o ∧ (w ∈ cur ∨ w = name) := by
        intro w; rw [hc0.mem_erase_iff, hm0]
      have hsub1 : ∀ x ∈ rest, x ∈ cur0.erase o := by
        intro x hx; rw [hm1]
        exact ⟨fun e => hnd'.1 (e ▸ hx), Or.inl (hsub x (List.mem_cons_of_mem _ hx))⟩
      have := ih (cur0.erase o) false hnd'.2 hsub1 hnr hc1
      obtain ⟨r1, r2, r3⟩ := this
      refine ⟨r1, ?_, ?_⟩
      · intro w; rw [r2 w, hm1]
        simp only [List.mem_cons]
        constructor
        · rintro (⟨⟨hwo, hw | hw⟩, hn⟩ | ⟨hw, x, hx, hxs⟩)
          · left; refine ⟨hw, ?_⟩; rintro ⟨hh | hh, hs⟩
            · exact hwo hh
            · exact hn ⟨hh, hs⟩
          · right; exact ⟨hw, o, Or.inl rfl, h1⟩
          · right; exact ⟨hw, x, Or.inr hx, hxs⟩
        · rintro (⟨hw, hn⟩ | ⟨hw, _⟩)
          · by_cases hwo : w = o
            · exact absurd ⟨Or.inl hwo, hwo ▸ h1⟩ hn
            · left; exact ⟨⟨hwo, Or.inl hw⟩, fun ⟨a, b⟩ => hn ⟨Or.inr a, b⟩⟩
          · subst hw
            left
            refine ⟨⟨hno, Or.inr rfl⟩, fun ⟨a, _⟩ => hnr a⟩
      · rw [r3]; simp only [List.mem_cons]
        constructor
        · intro h; exact absurd h.1 (by simp)
        · intro h; exact absurd h1 (h.2 o (Or.inl rfl)).1
    · by_cases h2 : Sub o name
      · have hstep : dwStep name (cur, flag) o = (cur, false) := by
          unfold dwStep; simp [ho]
          have : strIn name o = false := by simpa [Sub] using h1
          simp [this]; intro h; exact absurd h2 (by simp [Sub, h])
        rw [hstep]
        obtain ⟨r1, r2, r3⟩ := ih cur false hnd'.2 (fun x hx => hsub x (List.mem_cons_of_mem _ hx)) hnr hc
        refine ⟨r1, ?_, ?_⟩
        · intro w; rw [r2 w]; simp only [List.mem_cons]
          constructor
          · rintro (⟨hw, hn⟩ | ⟨hw, x, hx, hxs⟩)
            · left; refine ⟨hw, ?_⟩; rintro ⟨hh | hh, hs⟩
              · exact h1 (hh ▸ hs)
              · exact hn ⟨hh, hs⟩
            · right; exact ⟨hw, x, Or.inr hx, hxs⟩
          · rintro (⟨hw, hn⟩ | ⟨hw, x, hx | hx, hxs⟩)
            · left; exact ⟨hw, fun ⟨a, b⟩ => hn ⟨Or.inr a, b⟩⟩
            · exact absurd (hx ▸ hxs) h1
            · right; exact ⟨hw, x, hx, hxs⟩
        · rw [r3]; simp only [List.mem_cons]
          constructor
          · intro h; exact absurd h.1 (by simp)
          · intro h; exact absurd h2 (h.2 o (Or.inl rfl)).2
      · have hstep : dwStep name (cur, flag) o = (cur, flag) := by
          unfold dwStep; simp [ho]
          have a : strIn name o = false := by simpa [Sub] using h1
          have b : strIn o name = false := by simpa [Sub] using h2
          simp [a, b]
        rw [hstep]
        obtain ⟨r1, r2, r3⟩ := ih cur flag hnd'.2 (fun x hx => hsub x (List.mem_cons_of_mem _ hx)) hnr hc
        refine ⟨r1, ?_, ?_⟩
        · intro w; rw [r2 w]; simp only [List.mem_cons]
          constructor
          · rintro (⟨hw, hn⟩ | ⟨hw, x, hx, hxs⟩)
            · left; refine ⟨hw, ?_⟩; rintro ⟨hh | hh, hs⟩
              · exact h1 (hh ▸ hs)
              · exact hn ⟨hh, hs⟩
            · right; exact ⟨hw, x, Or.inr hx, hxs⟩
          · rintro (⟨hw, hn⟩ | ⟨hw, x, hx | hx, hxs⟩)
            · left; exact ⟨hw, fun ⟨a, b⟩ => hn ⟨Or.inr a, b⟩⟩
            · exact absurd (hx ▸ hxs) h1
            · right; exact ⟨hw, x, hx, hxs⟩
        · rw [r3]; simp only [List.mem_cons]
          constructor
          · rintro ⟨hf, h⟩; refine ⟨hf, ?_⟩
            rintro x (hx | hx)
            · subst hx; exact ⟨h1, h2⟩
            · exact h x hx
          · rintro ⟨hf, h⟩; exact ⟨hf, fun x hx => h x (Or.inr hx)⟩


/-! ## the outer loop -/

def dwOuter (F : List String) (name : String) : List String :=
  let r := dwInner name F
  if r.2 then r.1 ++ [name] else r.1

theorem distinctWords_eq (words : List String) : distinctWords words = words.eraseDups.foldl dwOuter [] := rfl

def DwInv (P F : List String) : Prop := F.Nodup ∧ ∀ w, w ∈ F ↔ Minimal P w

theorem minimal_restrict {P : List String} {n w : String} (h : Minimal (P ++ [n]) w) (hw : w ∈ P) :
    Minimal P w := ⟨hw, fun v hv hs => h.2 v (List.mem_append_left _ hv) hs⟩

theorem minimal_extend {P : List String} {n w : String} (h : Minimal P w) (hn : ¬ Sub n w) :
    Minimal (P ++ [n]) w := by
  refine ⟨List.mem_append_left _ h.1, ?_⟩
  intro v hv hs
  rcases List.mem_append.mp hv with hv | hv
  · exact h.2 v hv hs
  · simp at hv; subst hv; exact absurd hs hn

theorem minimal_not_above {P : List String} {n w : String} (h : Minimal (P ++ [n]) w) (hne : w ≠ n) :
    ¬ Sub n w := fun hs => hne (h.2 n (by simp) hs).symm

theorem minimal_new {P F : List String} {n : String} (hI : DwInv P F) :
    Minimal (P ++ [n]) n ↔ ∀ m ∈ F, Sub m n → m = n := by
  constructor
  · intro h m hm hs
    exact h.2 m (List.mem_append_left _ ((hI.2 m).mp hm).1) hs
  · intro h
    refine ⟨by simp, ?_⟩
    intro v hv hs
    rcases List.mem_append.mp hv with hv | hv
    · obtain ⟨m, hm, hmv⟩ := exists_minimal_below P v.length v (Nat.le_refl _) hv
      have hmn := h m ((hI.2 m).mpr hm) (sub_trans hmv hs)
      subst hmn
      exact sub_antisymm hs hmv
    · simpa using hv

theorem dwOuter_inv {P F : List String} {n : String} (hI : DwInv P F) (hn : n ∉ P) :
    DwInv (P ++ [n]) (dwOuter F n) := by
  have hnF : n ∉ F := fun h => hn ((hI.2 n).mp h).1
  obtain ⟨r1, r2, r3⟩ := dwFold_spec n F F true hI.1 (fun _ h => h) hnF hI.1
  rw [← dwInner_eq] at r1 r2 r3
  simp only [true_and] at r3
  have hmemF : ∀ w, w ∈ F → w ≠ n := fun w hw e => hnF (e ▸ hw)
  -- membership in the new list, in terms of `F`
  have key : ∀ w, Minimal (P ++ [n]) w ↔ (w ∈ F ∧ ¬ Sub n w) ∨ (w = n ∧ ∀ m ∈ F, ¬ Sub m n) := by
    intro w
    constructor
    · intro h
      by_cases hw : w = n
      · subst hw; right; refine ⟨rfl, fun m hm hs => ?_⟩
        exact hmemF m hm ((minimal_new hI).mp h m hm hs)
      · left
        have hwP : w ∈ P := by
          rcases List.mem_append.mp h.1 with h | h
          · exact h
          · exact absurd (by simpa using h) hw
        exact ⟨(hI.2 w).mpr (minimal_restrict h hwP), minimal_not_above h hw⟩
    · rintro (⟨hw, hs⟩ | ⟨hw, hs⟩)
      · exact minimal_extend ((hI.2 w).mp hw) hs
      · subst hw; exact (minimal_new hI).mpr (fun m hm h => absurd h (hs m hm))
  unfold dwOuter
  by_cases hflag : (dwInner n F).2 = true
  · have hall := r3.mp hflag
    simp only [hflag, if_true]
    refine ⟨?_, ?_⟩
    · rw [List.nodup_append]; refine ⟨r1, by simp, ?_⟩
      intro a ha b hb; simp at hb; subst hb
      rcases (r2 a).mp ha with ⟨h, _⟩ | ⟨_, o, ho, hs⟩
      · exact hmemF a h
      · exact absurd hs (hall o ho).1
    · intro w; rw [key w, List.mem_append, r2 w]; simp only [List.mem_singleton]
      constructor
      · rintro ((⟨hw, hh⟩ | ⟨_, o, ho, hs⟩) | hw)
        · left; exact ⟨hw, fun hs => hh ⟨hw, hs⟩⟩
        · exact absurd hs (hall o ho).1
        · right; exact ⟨hw, fun m hm => (hall m hm).2⟩
      · rintro (⟨hw, hs⟩ | ⟨hw, _⟩)
        · left; left; exact ⟨hw, fun h => hs h.2⟩
        · right; exact hw
  · have hex : ¬ ∀ o ∈ F, ¬ Sub n o ∧ ¬ Sub o n := fun h => hflag (r3.mpr h)
    have hf : (dwInner n F).2 = false := by simpa using hflag
    simp only [hf, Bool.false_eq_true, if_false]
    refine ⟨r1, ?_⟩
    intro w; rw [key w, r2 w]
    constructor
    · rintro (⟨hw, hh⟩ | ⟨hw, o, ho, hs⟩)
      · left; exact ⟨hw, fun hs => hh ⟨hw, hs⟩⟩
      · right; refine ⟨hw, fun m hm hmn => ?_⟩
        -- m ⊑ n ⊑ o, both in F (minimal): m = o, hence n = o ∈ F
        have hmo : m = o := ((hI.2 o).mp ho).2 m ((hI.2 m).mp hm).1 (sub_trans hmn hs)
        subst hmo
        exact hmemF m hm (sub_antisymm hmn hs)
    · rintro (⟨hw, hs⟩ | ⟨hw, hs⟩)
      · left; exact ⟨hw, fun h => hs h.2⟩
      · right; refine ⟨hw, ?_⟩
        -- some o ∈ F is comparable with n, and none is below n
        apply Classical.byContradiction
        intro hno
        apply hex
        intro o ho
        exact ⟨fun h => hno ⟨o, ho, h⟩, hs o ho⟩

theorem dwFold_inv : ∀ (R P F : List String), DwInv P F → (P ++ R).Nodup →
    DwInv (P ++ R) (R.foldl dwOuter F) := by
  intro R
  induction R with
  | nil => intro P F h _; simpa using h
  | cons n R ih =>
    intro P F h hnd
    have hn : n ∉ P := by
      intro hh
      have := (List.nodup_append.mp hnd).2.2 n hh n List.mem_cons_self
      exact this rfl
    have := ih (P ++ [n]) (dwOuter F n) (dwOuter_inv h hn) (by simpa using hnd)
    simpa using this

theorem nodup_eraseDups_aux : ∀ (n : Nat) (l : List String), l.length ≤ n → l.eraseDups.Nodup := by
  intro n
  induction n with
  | zero => intro l hl; have : l = [] := List.length_eq_zero_iff.mp (by omega); subst this; simp
  | succ n ih =>
    intro l hl
    cases l with
    | nil => simp
    | cons a as =>
      rw [List.eraseDups_cons, List.nodup_cons]
      refine ⟨?_, ih _ ?_⟩
      · rw [List.mem_eraseDups]; simp
      · have := List.length_filter_le (fun b => !b == a) as
        simp at hl; omega

theorem nodup_eraseDups (l : List String) : l.eraseDups.Nodup := nodup_eraseDups_aux l.length l (Nat.le_refl _)

theorem minimal_congr {P Q : List String} (h : ∀ x, x ∈ P ↔ x ∈ Q) (w : String) :
    Minimal P w ↔ Minimal Q w := by
  unfold Minimal
  rw [h w]
  constructor
  · rintro ⟨a, b⟩; exact ⟨a, fun v hv => b v ((h v).mpr hv)⟩
  · rintro ⟨a, b⟩; exact ⟨a, fun v hv => b v ((h v).mp hv)⟩

/-- `distinct_words` returns exactly the ⊑-minimal words of its input (as a duplicate-free list) -/
theorem distinctWords_minimal (words : List String) (w : String) :
    w ∈ distinctWords words ↔ Minimal words w := by
  have := dwFold_inv words.eraseDups [] [] ⟨List.nodup_nil, by simp [Minimal]⟩
    (by simpa using nodup_eraseDups words)
  rw [distinctWords_eq, this.2 w]
  exact minimal_congr (fun x => by simp [List.mem_eraseDups]) w

theorem distinctWords_nodup (words : List String) : (distinctWords words).Nodup := by
  have := dwFold_inv words.eraseDups [] [] ⟨List.nodup_nil, by simp [Minimal]⟩
    (by simpa using nodup_eraseDups words)
  rw [distinctWords_eq]; exact this.1

/-- the result of `distinct_words` as a set depends only on the set of input words -/
theorem distinctWords_ext {a b : List String} (h : ∀ x, x ∈ a ↔ x ∈ b) (w : String) :
    w ∈ distinctWords a ↔ w ∈ distinctWords b := by
  rw [distinctWords_minimal, distinctWords_minimal]; exact minimal_congr h w

theorem sort_distinctWords_ext {a b : List String} (h : ∀ x, x ∈ a ↔ x ∈ b) :
    sortStrings (distinctWords a) = sortStrings (distinctWords b) :=
  sortStrings_ext_of_nodup (distinctWords_nodup a) (distinctWords_nodup b) (distinctWords_ext h)

end NamesP
end J2M
