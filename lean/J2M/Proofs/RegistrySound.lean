/-
  Registry-level development, part 5 (C01): inhabitation through pointer substitution and model replacement —
  the simulation theorem, one `_merge` + `optimize_type` step, the final pass, the fold over the groups.
-/
import J2M.Proofs.RegistryModels
import J2M.Proofs.RegistryGenMerge
import J2M.Proofs.RegistryGenMergeS
import J2M.Proofs.RegistryGenOpt
namespace J2M.Reg
open J2M

/-! ## sizes of JSON values -/

theorem Json.size_pos (v : Json) : 0 < Json.size v := by
  cases v <;> simp [Json.size] <;> omega

theorem Json.size_lt_arr {xs : List Json} {x : Json} (h : x ∈ xs) : Json.size x < Json.size (.arr xs) := by
  have : Json.size x ≤ Json.sizeList xs := by
    induction xs with
    | nil => simp at h
    | cons a xs ih =>
      rcases List.mem_cons.1 h with e | h
      · subst e; simp [Json.sizeList]
      · have := ih h; simp [Json.sizeList]; omega
  simp [Json.size]; omega

theorem Json.size_lt_obj {kvs : List (String × Json)} {kv : String × Json} (h : kv ∈ kvs) :
    Json.size kv.2 < Json.size (.obj kvs) := by
  have : Json.size kv.2 ≤ Json.sizeKvs kvs := by
    induction kvs with
    | nil => simp at h
    | cons a kvs ih =>
      obtain ⟨k, w⟩ := a
      rcases List.mem_cons.1 h with e | h
      · subst e; simp [Json.sizeKvs]
      · have := ih h; simp [Json.sizeKvs]; omega
  simp [Json.size]; omega

/-! ## field dicts under a pointer substitution -/

theorem mem_substFields {σ : String → String} {fs : Fields} {ft : String × Ty} :
    ft ∈ substFields σ fs ↔ ∃ f ∈ fs, ft = (f.1, substTy σ f.2) := by
  rw [substFields_eq_map, List.mem_map]
  constructor
  · rintro ⟨f, hf, rfl⟩; exact ⟨f, hf, rfl⟩
  · rintro ⟨f, hf, rfl⟩; exact ⟨f, hf, rfl⟩

theorem subst_unionMembers (σ : String → String) (t : Ty) :
    (substTy σ t).unionMembers = t.unionMembers.map (substTy σ) := by
  cases t <;> simp [substTy, Ty.unionMembers, substList_eq_map]

theorem subst_optLike (σ : String → String) (t : Ty) : (substTy σ t).optLike = t.optLike := by
  unfold Ty.optLike
  rw [subst_unionMembers, List.any_map]
  congr 1
  funext u
  exact subst_isOpt σ u

theorem subst_isUnion (σ : String → String) (t : Ty) : (substTy σ t).isUnion = t.isUnion := by
  cases t <;> simp [substTy, Ty.isUnion]

theorem subst_optLikeS (σ : String → String) (t : Ty) : (substTy σ t).optLikeS = t.optLikeS := by
  cases t with
  | union ts =>
    have h1 : (ts.map (substTy σ)).any Ty.isOpt = ts.any Ty.isOpt := by
      rw [List.any_map]; congr 1; funext u; exact subst_isOpt σ u
    have h2 : (ts.map (substTy σ)).all (fun u => !u.isUnion) = ts.all (fun u => !u.isUnion) := by
      rw [List.all_map]; congr 1; funext u; simp [subst_isUnion]
    simp only [substTy, substList_eq_map, Ty.optLikeS, Ty.isOpt, Bool.false_or, h1, h2, List.length_map]
  | _ => simp [substTy, Ty.optLikeS, Ty.isOpt]

/-- transport of "object lies in field dict" along a substitution, given the transport of the field values -/
theorem inhFields_subst {acc : Accepts} {L₁ L₂ : ModelLookup} {σ : String → String} {fs : Fields}
    {kvs : List (String × Json)} (h : InhFields acc L₁ fs kvs)
    (ih : ∀ kv ∈ kvs, ∀ t, Inh acc L₁ t kv.2 → Inh acc L₂ (substTy σ t) kv.2) :
    InhFields acc L₂ (substFields σ fs) kvs := by
  obtain ⟨h1, h2, h3⟩ := h
  refine ⟨?_, ?_, ?_⟩
  · intro kv hkv
    rw [substFields_get?, Option.isSome_map]
    exact h1 kv hkv
  · intro kv hkv t' ht'
    rw [substFields_get?] at ht'
    cases hg : Fields.get? fs kv.1 with
    | none => simp [hg] at ht'
    | some t =>
      simp only [hg, Option.map_some, Option.some.injEq] at ht'
      subst ht'
      exact ih kv hkv t (h2 kv hkv t hg)
  · intro ft hft hno
    obtain ⟨f, hf, rfl⟩ := mem_substFields.1 hft
    simp only [subst_isOpt] at hno
    exact h3 f hf hno

/-- the same for the lax reading -/
theorem inhFieldsLX_subst {acc : Accepts} {L₁ L₂ : ModelLookup} {σ : String → String} {fs : Fields}
    {kvs : List (String × Json)} (h : InhFieldsLX false acc L₁ fs kvs)
    (ih : ∀ kv ∈ kvs, ∀ t, Inh acc L₁ t kv.2 → Inh acc L₂ (substTy σ t) kv.2) :
    InhFieldsLX false acc L₂ (substFields σ fs) kvs := by
  obtain ⟨h1, h2, h3⟩ := h
  refine ⟨?_, ?_, ?_⟩
  · intro kv hkv
    rw [substFields_get?, Option.isSome_map]
    exact h1 kv hkv
  · intro kv hkv t' ht'
    rw [substFields_get?] at ht'
    cases hg : Fields.get? fs kv.1 with
    | none => simp [hg] at ht'
    | some t =>
      simp only [hg, Option.map_some, Option.some.injEq] at ht'
      subst ht'
      exact inhX_false_iff.2 (ih kv hkv t (inhX_false_iff.1 (h2 kv hkv t hg)))
  · intro ft hft hno
    obtain ⟨f, hf, rfl⟩ := mem_substFields.1 hft
    simp only [subst_optLike] at hno
    exact h3 f hf hno

/-- the same for the refined lax reading -/
theorem inhFieldsLXS_subst {acc : Accepts} {L₁ L₂ : ModelLookup} {σ : String → String} {fs : Fields}
    {kvs : List (String × Json)} (h : InhFieldsLXS false acc L₁ fs kvs)
    (ih : ∀ kv ∈ kvs, ∀ t, Inh acc L₁ t kv.2 → Inh acc L₂ (substTy σ t) kv.2) :
    InhFieldsLXS false acc L₂ (substFields σ fs) kvs := by
  obtain ⟨h1, h2, h3⟩ := h
  refine ⟨?_, ?_, ?_⟩
  · intro kv hkv
    rw [substFields_get?, Option.isSome_map]
    exact h1 kv hkv
  · intro kv hkv t' ht'
    rw [substFields_get?] at ht'
    cases hg : Fields.get? fs kv.1 with
    | none => simp [hg] at ht'
    | some t =>
      simp only [hg, Option.map_some, Option.some.injEq] at ht'
      subst ht'
      exact inhX_false_iff.2 (ih kv hkv t (inhX_false_iff.1 (h2 kv hkv t hg)))
  · intro ft hft hno
    obtain ⟨f, hf, rfl⟩ := mem_substFields.1 hft
    simp only [subst_optLikeS] at hno
    exact h3 f hf hno

/-! ## the simulation theorem -/

/-- **retarget_sound, general form.**  `σ` renames model indices.  Suppose every model `i` of the first lookup is
    *covered* by model `σ i` of the second: an object lying in `i`'s field dict lies in `σ i`'s field dict —
    where, to prove this for an object, one may already use the conclusion for the (smaller) field values.
    Then every inhabitant of every type `t` (first lookup) inhabits `substTy σ t` (second lookup).
    The induction is on the size of the JSON value, so cyclic model graphs are no obstacle. -/
theorem sim_sound {acc : Accepts} {L₁ L₂ : ModelLookup} {σ : String → String}
    (H : ∀ i fs kvs, L₁ i = some fs → InhFields acc L₁ fs kvs →
          (∀ kv ∈ kvs, ∀ t, Inh acc L₁ t kv.2 → Inh acc L₂ (substTy σ t) kv.2) →
          ∃ fs₂, L₂ (σ i) = some fs₂ ∧ InhFields acc L₂ fs₂ kvs) :
    ∀ t v, Inh acc L₁ t v → Inh acc L₂ (substTy σ t) v := by
  have key : ∀ n v, Json.size v ≤ n → ∀ t, Inh acc L₁ t v → Inh acc L₂ (substTy σ t) v := by
    intro n
    induction n with
    | zero => intro v hv; have := Json.size_pos v; omega
    | succ n IH =>
      intro v hv t h
      induction h with
      | int => exact Inh.int
      | floatF => exact Inh.floatF
      | floatI => exact Inh.floatI
      | bool => exact Inh.bool
      | str => exact Inh.str
      | null => exact Inh.null
      | ser h => exact Inh.ser h
      | lit h => exact Inh.lit h
      | list _ ih =>
        exact Inh.list (fun x hx => ih x hx (by have := Json.size_lt_arr hx; omega))
      | dict _ ih =>
        exact Inh.dict (fun kv hkv => ih kv hkv (by have := Json.size_lt_obj hkv; omega))
      | optNull => exact Inh.optNull
      | optSome _ ih => exact Inh.optSome (ih hv)
      | @union ts t v hm _ ih =>
        refine Inh.union (t := substTy σ t) ?_ (ih hv)
        rw [substList_eq_map]; exact List.mem_map_of_mem hm
      | @obj fs kvs a b c ih =>
        have := inhFields_subst (σ := σ) (L₂ := L₂) ⟨a, b, c⟩
          (fun kv hkv t ht => IH kv.2 (by have := Json.size_lt_obj hkv; omega) t ht)
        exact Inh.obj this.1 this.2.1 this.2.2
      | @ptr i fs kvs hg a b c ih =>
        obtain ⟨fs₂, h₂, i₂⟩ := H i fs kvs hg ⟨a, b, c⟩
          (fun kv hkv t ht => IH kv.2 (by have := Json.size_lt_obj hkv; omega) t ht)
        exact Inh.ptr h₂ i₂.1 i₂.2.1 i₂.2.2
  intro t v h
  exact key (Json.size v) v (Nat.le_refl _) t h


/-! ## registries of registry-stage field dicts -/

/-- "is a value of `Index`" -/
def IsIdx (i : String) : Prop := ∃ k, i = indexOf k

theorem upper_isAlphanum {c : Char} (h : 65 ≤ c.toNat ∧ c.toNat ≤ 90) : c.isAlphanum = true := by
  simp only [Char.isAlphanum, Char.isAlpha, Char.isUpper, Bool.or_eq_true, decide_eq_true_eq]
  left; left
  obtain ⟨h1, h2⟩ := h
  constructor
  · show (65 : UInt32) ≤ c.val
    rw [UInt32.le_iff_toNat_le]; exact h1
  · show c.val ≤ (90 : UInt32)
    rw [UInt32.le_iff_toNat_le]; exact h2

theorem isIdx_alnum : IdxAlnum IsIdx := by
  rintro i ⟨k, rfl⟩
  rw [NamesP.indexOf_toList, Nat.toString_eq_repr, Nat.toList_repr, List.all_append, Bool.and_eq_true]
  constructor
  · rw [List.all_eq_true]
    intro c hc
    have := Nat.isDigit_of_mem_toDigits (by omega) (by omega) hc
    simp [Char.isAlphanum, this]
  · have hlt := Nat.mod_lt k (show 26 > 0 by omega)
    have hv : (65 + k % 26).isValidChar := by left; omega
    simp only [List.all_cons, List.all_nil, Bool.and_true]
    apply upper_isAlphanum
    rw [NamesP.toNat_ofNat_valid hv]
    omega


/-- every registered model is a registry-stage field dict -/
def GraphGood (K : String → Prop) (g : Graph) : Prop := ∀ m ∈ g.models, GoodPF K IsIdx m.fields

theorem GraphGood.lookGood {K : String → Prop} {g : Graph} (gg : GraphGood K g) : LookGood K IsIdx g.look := by
  intro i fs h
  obtain ⟨m, hm, _, rfl⟩ := look_eq_some h
  exact gg m hm

mutual
theorem goodP_subst {K I : String → Prop} {σ : String → String} (hσ : ∀ i, I i → I (σ i)) :
    ∀ t : Ty, GoodP K I t → GoodP K I (substTy σ t)
  | .ptr i, h => by simpa [substTy] using hσ i (by simpa using h)
  | .list t, h => by simpa [substTy] using goodP_subst hσ t (by simpa using h)
  | .dict t, h => by simpa [substTy] using goodP_subst hσ t (by simpa using h)
  | .opt t, h => by simpa [substTy] using goodP_subst hσ t (by simpa using h)
  | .union ts, h => by
    simp only [substTy, GoodP] at h ⊢
    exact goodPList_subst hσ ts h
  | .tuple _, h => by simp at h
  | .obj _, h => by simp at h
  | .int, _ | .float, _ | .bool, _ | .str, _ | .null, _ | .unknown, _ => by simp [substTy]
  | .ser _, h | .lit _ _, h => by simpa [substTy] using h
theorem goodPList_subst {K I : String → Prop} {σ : String → String} (hσ : ∀ i, I i → I (σ i)) :
    ∀ ts : List Ty, GoodPList K I ts → GoodPList K I (substList σ ts)
  | [], _ => by simp [substList, GoodPList]
  | t :: ts, h => by
    simp only [substList, GoodPList] at h ⊢
    exact ⟨goodP_subst hσ t h.1, goodPList_subst hσ ts h.2⟩
end

theorem goodPF_subst {K I : String → Prop} {σ : String → String} (hσ : ∀ i, I i → I (σ i)) {fs : Fields}
    (h : GoodPF K I fs) : GoodPF K I (substFields σ fs) := by
  refine ⟨by rw [substFields_keys]; exact h.1, ?_⟩
  intro ft hft
  obtain ⟨f, hf, rfl⟩ := mem_substFields.1 hft
  exact goodP_subst hσ f.2 (h.2 f hf)

theorem isIdx_σOf (members : List String) (k : Nat) : ∀ i, IsIdx i → IsIdx (σOf members (indexOf k) i) := by
  intro i hi
  unfold σOf
  split
  · exact ⟨k, rfl⟩
  · exact hi

/-! ## one step of `merge_models`: `_merge` a group, then `optimize_type` the merged model -/

/-- **mergeGroup_sound** (with the `optimize_type(model_meta)` call that follows `_merge` in `merge_models`).
    Every value that inhabited a type before the step inhabits the retargeted type after it: members are
    covered by the optimised merged model, everything else keeps its (retargeted) field dict. -/
theorem mergeStep_sound {acc : Accepts} {K : String → Prop} {cfg : GenCfg} {so : StrOracle} {g g1 g2 : Graph}
    {members : List String} {idx : String}
    (hMS : MergeSoundPS false acc K IsIdx) (hOS : OptSoundPWeak false acc K IsIdx cfg)
    (wf : WF g) (gg : GraphGood K g)
    (h1 : mergeGroup cfg so g members = .ok (g1, idx)) (h2 : optimizeModel cfg so g1 idx = .ok g2) :
    GraphGood K g2 ∧ ∀ t v, Inh acc g.look t v → Inh acc g2.look (substTy (σOf members idx) t) v := by
  obtain ⟨F, nm, ng, hF, hidx, rfl⟩ := mergeGroup_eq h1
  subst hidx
  -- the merged field dict covers the members (laxly), in the old registry
  obtain ⟨hFgood, hcov1⟩ := hMS g.look (g.eqEnv so) cfg.lit _ F rfl gg.lookGood
    (fun m hm => by
      obtain ⟨m0, hm0, rfl⟩ := List.mem_map.1 hm
      exact gg m0 (memberModels_sub m0 hm0).1) hF
  have hF'good : GoodPF K IsIdx (substFields (σOf members (indexOf g.counter)) F) :=
    goodPF_subst (isIdx_σOf members g.counter) hFgood
  -- the `optimize_type` call
  have hlook1 := look_merged_idx (members := members) (F := F) (nm := nm) (ng := ng) wf.bound
  rcases optimizeModel_eq h2 with ⟨hnone, _⟩ | ⟨m, fs', hm, ho, _, rfl⟩
  · unfold Graph.look at hlook1; rw [hnone] at hlook1; cases hlook1
  have hmf : m.fields = substFields (σOf members (indexOf g.counter)) F := by
    unfold Graph.look at hlook1; rw [hm] at hlook1; simpa using hlook1
  rw [hmf] at ho
  obtain ⟨F', hF', hF'g, _, _, hcov2⟩ := hOS ((mergedGraph g members (indexOf g.counter) F nm ng).setFields (indexOf g.counter) fs').look ((mergedGraph g members (indexOf g.counter) F nm ng).eqEnv so) _ _ _ hF'good ho
  have : fs' = F' := by injection hF'
  subst this
  have hlook2 : ((mergedGraph g members (indexOf g.counter) F nm ng).setFields (indexOf g.counter) fs').look (indexOf g.counter) = some fs' := by
    rw [look_setFields, if_pos rfl, hlook1]; rfl
  constructor
  · -- the new registry holds registry-stage field dicts only
    intro m' hm'
    rw [setFields_models] at hm'
    rcases mem_setF hm' with ⟨hm', hne⟩ | ⟨m0, _, _, rfl⟩
    · simp only [mergedGraph, List.mem_append, List.mem_map, List.mem_filter, List.mem_singleton] at hm'
      rcases hm' with ⟨m0, ⟨hm0, _⟩, rfl⟩ | rfl
      · exact goodPF_subst (isIdx_σOf members g.counter) (gg m0 hm0)
      · exact absurd rfl hne
    · exact hF'g
  · apply sim_sound
    intro i fs kvs hL hin IH
    have hi : i ∈ idxs g := look_isSome_iff.1 (by rw [hL]; rfl)
    by_cases hc : members.contains i = true
    · -- a member: covered by the optimised merged model
      have hσ : σOf members (indexOf g.counter) i = indexOf g.counter := by unfold σOf; rw [if_pos hc]
      rw [hσ]
      refine ⟨fs', hlook2, ?_⟩
      have hfs : fs ∈ (memberModels g members).map (·.fields) := by
        unfold Graph.look at hL
        cases hf : g.find? i with
        | none => rw [hf] at hL; cases hL
        | some m0 =>
          rw [hf] at hL
          simp only [Option.map_some, Option.some.injEq] at hL
          exact List.mem_map.2 ⟨m0, List.mem_filterMap.2 ⟨i, by simpa using hc, hf⟩, hL⟩
      have lax1 := hcov1 fs hfs kvs (inhFieldsX_false_iff.2 hin).toLaxS
      have lax2 := inhFieldsLXS_subst (σ := σOf members (indexOf g.counter))
        (L₂ := ((mergedGraph g members (indexOf g.counter) F nm ng).setFields (indexOf g.counter) fs').look) lax1 IH
      exact inhFieldsX_false_iff.1 (hcov2 kvs lax2)
    · -- not a member: keeps its (retargeted) field dict
      have hc' : members.contains i = false := by simpa using hc
      have hσ : σOf members (indexOf g.counter) i = i := by unfold σOf; rw [if_neg hc]
      rw [hσ]
      have hne : i ≠ indexOf g.counter := fun e => wf.bound.fresh (Nat.le_refl _) (e ▸ hi)
      refine ⟨substFields (σOf members (indexOf g.counter)) fs, ?_, inhFields_subst hin IH⟩
      rw [look_setFields, if_neg hne, look_merged_nonmember hc' hi, hL]; rfl


/-! ## `optimize_type` on one registered model -/

/-- **`optimize_type(model_meta)` is sound through the registry**: the optimised field dict of model `i` holds
    every object the old one held; every other model is untouched; hence every inhabitant of every type
    (pointers included) is kept. -/
theorem optimizeModel_sound {acc : Accepts} {K : String → Prop} {cfg : GenCfg} {so : StrOracle} {g g' : Graph}
    {i : String} (hOS : OptSoundPWeak false acc K IsIdx cfg) (gg : GraphGood K g)
    (h : optimizeModel cfg so g i = .ok g') :
    GraphGood K g' ∧ ∀ t v, Inh acc g.look t v → Inh acc g'.look t v := by
  rcases optimizeModel_eq h with ⟨_, rfl⟩ | ⟨m, fs', hm, ho, _, rfl⟩
  · exact ⟨gg, fun _ _ h => h⟩
  obtain ⟨hmem, hmi⟩ := find?_eq_some hm
  obtain ⟨F', hF', hF'g, _, _, hcov⟩ := hOS (g.setFields i fs').look (g.eqEnv so) _ _ _ (gg m hmem) ho
  have : fs' = F' := by injection hF'
  subst this
  constructor
  · intro m' hm'
    rw [setFields_models] at hm'
    rcases mem_setF hm' with ⟨hm', _⟩ | ⟨m0, _, _, rfl⟩
    · exact gg m' hm'
    · exact hF'g
  · intro t v hin
    have := sim_sound (acc := acc) (L₁ := g.look) (L₂ := (g.setFields i fs').look) (σ := id) ?_ t v hin
    · rwa [subst_id] at this
    intro j fs kvs hL hin IH
    have tr := inhFields_subst (σ := id) (L₂ := (g.setFields i fs').look) hin IH
    rw [substFields_id] at tr
    simp only [id]
    rw [look_setFields]
    by_cases hji : j = i
    · subst hji
      rw [if_pos rfl, hL]
      refine ⟨fs', rfl, ?_⟩
      have hfs : fs = m.fields := by
        unfold Graph.look at hL; rw [hm] at hL; simpa using hL.symm
      subst hfs
      exact inhFieldsX_false_iff.1 (hcov kvs (inhFieldsX_false_iff.2 tr).toLaxS)
    · rw [if_neg hji]
      exact ⟨fs, hL, tr⟩

/-- the final `for model_meta in self.models: generator.optimize_type(model_meta)` pass -/
theorem finalPass_sound {acc : Accepts} {K : String → Prop} {cfg : GenCfg} {so : StrOracle}
    (hOS : OptSoundPWeak false acc K IsIdx cfg) :
    ∀ (is : List String) (g g' : Graph), GraphGood K g →
      is.foldlM (fun g i => optimizeModel cfg so g i) g = .ok g' →
      GraphGood K g' ∧ ∀ t v, Inh acc g.look t v → Inh acc g'.look t v
  | [], g, g', gg, h => by
    simp only [List.foldlM_nil, pure, Except.pure, Except.ok.injEq] at h
    subst h; exact ⟨gg, fun _ _ h => h⟩
  | i :: is, g, g', gg, h => by
    rw [List.foldlM_cons] at h
    simp only [bind, Except.bind] at h
    split at h
    · simp at h
    · rename_i g1 hg1
      obtain ⟨gg1, s1⟩ := optimizeModel_sound (acc := acc) hOS gg hg1
      obtain ⟨gg', s'⟩ := finalPass_sound hOS is g1 g' gg1 h
      exact ⟨gg', fun t v hin => s' t v (s1 t v hin)⟩

/-! ## the fold over the groups -/

/-- the index map of a replacement list: the maps of the single `_merge` calls, composed in order -/
def σFold (repl : List (String × List String)) : String → String :=
  repl.foldl (fun σ p => σOf p.2 p.1 ∘ σ) id

theorem σFold_append (repl : List (String × List String)) (p : String × List String) :
    σFold (repl ++ [p]) = σOf p.2 p.1 ∘ σFold repl := by
  simp [σFold, List.foldl_append]

theorem groupsFold_sound {acc : Accepts} {K : String → Prop} {cfg : GenCfg} {so : StrOracle} {g : Graph}
    (hMS : MergeSoundPS false acc K IsIdx) (hOS : OptSoundPWeak false acc K IsIdx cfg) :
    ∀ (Ms : List (List String)) (st st' : Graph × List (String × List String)),
      WF st.1 → GraphGood K st.1 →
      (∀ t v, Inh acc g.look t v → Inh acc st.1.look (substTy (σFold st.2) t) v) →
      Ms.foldlM (groupStepM cfg so) st = .ok st' →
      WF st'.1 ∧ GraphGood K st'.1 ∧
      ∀ t v, Inh acc g.look t v → Inh acc st'.1.look (substTy (σFold st'.2) t) v
  | [], st, st', wf, gg, hs, h => by
    simp only [List.foldlM_nil, pure, Except.pure, Except.ok.injEq] at h
    subst h; exact ⟨wf, gg, hs⟩
  | M :: Ms, st, st', wf, gg, hs, h => by
    rw [List.foldlM_cons] at h
    simp only [bind, Except.bind] at h
    split at h
    · simp at h
    · rename_i st1 hst1
      obtain ⟨g1, idx, h1, h2, hrepl⟩ := groupStepM_ok hst1
      obtain ⟨gg1, s1⟩ := mergeStep_sound (acc := acc) hMS hOS wf gg h1 h2
      have wf1 := (mergeStep_spec wf h1 h2).1
      refine groupsFold_sound hMS hOS Ms st1 st' wf1 gg1 ?_ h
      intro t v hin
      have := s1 _ v (hs t v hin)
      rw [subst_comp] at this
      rw [hrepl, σFold_append]
      exact this

/-- **mergeModels_sound.**  For a well-formed registry of registry-stage field dicts: every value that inhabits a
    type before `merge_models` inhabits the retargeted type afterwards (`σFold repl` sends each merged member to
    the index of its merged model, see `σFold_member`/`σFold_nonmember`). -/
theorem mergeModels_sound_core {acc : Accepts} {K : String → Prop} {cfg : GenCfg} {so : StrOracle}
    {cmps : List Cmp} {g g' : Graph} {repl : List (String × List String)}
    (hMS : MergeSoundPS false acc K IsIdx) (hOS : OptSoundPWeak false acc K IsIdx cfg)
    (wf : WF g) (gg : GraphGood K g) (h : mergeModels cfg so cmps g = .ok (g', repl)) :
    GraphGood K g' ∧ ∀ t v, Inh acc g.look t v → Inh acc g'.look (substTy (σFold repl) t) v := by
  obtain ⟨tbl, groups, gm, _, _, hfold, hfinal⟩ := mergeModels_eq h
  rw [groupStep_eq, ← List.foldlM_map] at hfold
  obtain ⟨_, ggm, sm⟩ := groupsFold_sound (acc := acc) (g := g) hMS hOS _ (g, []) (gm, repl) wf gg
    (fun t v hin => by simpa [σFold, subst_id] using hin) hfold
  obtain ⟨gg', s'⟩ := finalPass_sound (acc := acc) hOS _ gm g' ggm hfinal
  exact ⟨gg', fun t v hin => s' _ v (sm t v hin)⟩


/-! ## what `σFold repl` does -/

theorem σFold_from (σ0 : String → String) (repl : List (String × List String)) (i : String) :
    repl.foldl (fun σ p => σOf p.2 p.1 ∘ σ) σ0 i = σFold repl (σ0 i) := by
  induction repl generalizing σ0 i with
  | nil => rfl
  | cons p ps ih =>
    rw [List.foldl_cons, ih]
    show _ = List.foldl (fun σ p => σOf p.2 p.1 ∘ σ) id (p :: ps) (σ0 i)
    rw [List.foldl_cons, ih (σOf p.2 p.1 ∘ id)]
    rfl

theorem σFold_cons (p : String × List String) (ps : List (String × List String)) (i : String) :
    σFold (p :: ps) i = σFold ps (σOf p.2 p.1 i) := by
  unfold σFold
  rw [List.foldl_cons, σFold_from]
  rfl

/-- an index in no member list is left alone -/
theorem σFold_nonmember {repl : List (String × List String)} {i : String}
    (h : ∀ p ∈ repl, p.2.contains i = false) : σFold repl i = i := by
  induction repl with
  | nil => rfl
  | cons p ps ih =>
    rw [σFold_cons]
    have : σOf p.2 p.1 i = i := by unfold σOf; rw [h p (by simp)]; rfl
    rw [this]
    exact ih (fun q hq => h q (List.mem_cons_of_mem _ hq))

/-- a member goes to the index of its merged model, provided the member lists are pairwise disjoint and no new
    index is itself a member of a later group -/
theorem σFold_member {repl : List (String × List String)}
    (hdisj : repl.Pairwise (fun p q => ∀ i ∈ q.2, p.2.contains i = false))
    (hfresh : ∀ p ∈ repl, ∀ q ∈ repl, q.2.contains p.1 = false)
    {p : String × List String} (hp : p ∈ repl) {i : String} (hi : i ∈ p.2) : σFold repl i = p.1 := by
  induction repl with
  | nil => simp at hp
  | cons q qs ih =>
    rw [σFold_cons]
    rw [List.pairwise_cons] at hdisj
    rcases List.mem_cons.1 hp with rfl | hp'
    · have : σOf p.2 p.1 i = p.1 := by
        unfold σOf; rw [if_pos (by simpa using hi)]
      rw [this]
      exact σFold_nonmember (fun r hr => hfresh p (by simp) r (List.mem_cons_of_mem _ hr))
    · have : σOf q.2 q.1 i = i := by
        unfold σOf; rw [hdisj.1 p hp' i hi]; rfl
      rw [this]
      exact ih hdisj.2 (fun a ha b hb => hfresh a (List.mem_cons_of_mem _ ha) b (List.mem_cons_of_mem _ hb)) hp'

/-- for the replacement list `merge_models` returns -/
theorem mergeModels_σ {cfg : GenCfg} {so : StrOracle} {cmps : List Cmp} {g g' : Graph}
    {repl : List (String × List String)} (wf : WF g) (h : mergeModels cfg so cmps g = .ok (g', repl)) :
    (∀ p ∈ repl, ∀ i ∈ p.2, σFold repl i = p.1) ∧
    (∀ i, (∀ p ∈ repl, p.2.contains i = false) → σFold repl i = i) := by
  obtain ⟨tbl, groups, _, hgroups, hrepl, _⟩ := mergeModels_struct wf h
  obtain ⟨hreg, hpw⟩ := groups_members wf (simOfTbl_symm tbl) hgroups
  have hsnd : repl.map (·.2) = groups.map (memsOf (idxs g)) := by
    rw [hrepl, List.map_map]
    have : ((fun x : String × List String => x.2) ∘ fun Mk : List String × Nat => (newIdx g Mk.2, Mk.1)) =
        fun Mk => Mk.1 := rfl
    rw [this]
    exact List.zipIdx_map_fst _ _
  refine ⟨fun p hp i hi => σFold_member ?_ ?_ hp hi, fun i hi => σFold_nonmember hi⟩
  · have : (repl.map (·.2)).Pairwise (fun A B => ∀ i ∈ B, A.contains i = false) := by rw [hsnd]; exact hpw
    rw [List.pairwise_map] at this
    exact this
  · intro p hp q hq
    have hq2 : q.2 ∈ groups.map (memsOf (idxs g)) := by rw [← hsnd]; exact List.mem_map_of_mem hq
    have hp1 : ∃ k, p.1 = newIdx g k := by
      rw [hrepl] at hp
      obtain ⟨Mk, _, rfl⟩ := List.mem_map.1 hp
      exact ⟨Mk.2, rfl⟩
    obtain ⟨k, hk⟩ := hp1
    cases hc : q.2.contains p.1 with
    | false => rfl
    | true =>
      have := hreg q.2 hq2 p.1 (by simpa using hc)
      rw [hk] at this
      exact absurd this (newIdx_not_mem wf k)

end J2M.Reg
