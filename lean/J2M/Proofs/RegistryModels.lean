/-
  Registry-level development, part 3: `merge_models` — the fold over the groups and the final
  `optimize_type` pass: structure of the resulting registry.
-/
import J2M.Proofs.RegistryMerge
import J2M.Props.C05
import J2M.Proofs.RegistryCmp
namespace J2M.Reg
open J2M

/-- the similarity function `merge_models` hands to the grouping loop, from the table -/
def simOfTbl (tbl : List (List Bool)) : Nat → Nat → Bool := fun a b =>
  (tbl.getD (min a b) []).getD (max a b) false

/-- the member indices of a group of registry positions -/
def memsOf (ix : List String) (grp : List Nat) : List String := grp.map (fun p => ix.getD p "")

/-- one iteration of `for group in groups` -/
def groupStep (cfg : GenCfg) (so : StrOracle) (ix : List String) (st : Graph × List (String × List String))
    (grp : List Nat) : Except PyErr (Graph × List (String × List String)) := do
  let members := memsOf ix grp
  let (g', idx) ← mergeGroup cfg so st.1 members
  let g' ← optimizeModel cfg so g' idx
  pure (g', st.2 ++ [(idx, members)])

/-- `merge_models`, unfolded into its four stages -/
theorem mergeModels_eq {cfg : GenCfg} {so : StrOracle} {cmps : List Cmp} {g g' : Graph}
    {repl : List (String × List String)} (h : mergeModels cfg so cmps g = .ok (g', repl)) :
    ∃ tbl groups gm, simTable cmps g = .ok tbl ∧
      Closure.mergeGroups (simOfTbl tbl) g.models.length = some groups ∧
      groups.foldlM (groupStep cfg so (idxs g)) (g, []) = .ok (gm, repl) ∧
      (idxs gm).foldlM (fun g i => optimizeModel cfg so g i) gm = .ok g' := by
  unfold mergeModels at h
  simp only [bind, Except.bind] at h
  split at h
  · simp at h
  · rename_i tbl htbl
    split at h
    · simp at h
    · rename_i groups hgroups
      split at h
      · simp at h
      · rename_i st hst
        obtain ⟨gm, repl'⟩ := st
        split at h
        · simp at h
        · rename_i gf hgf
          simp only [pure, Except.pure, Except.ok.injEq, Prod.mk.injEq] at h
          obtain ⟨rfl, rfl⟩ := h
          exact ⟨tbl, groups, gm, htbl, hgroups, hst, hgf⟩


/-! ## the fold over the groups -/

/-- one iteration, on the member index list -/
def groupStepM (cfg : GenCfg) (so : StrOracle) (st : Graph × List (String × List String))
    (members : List String) : Except PyErr (Graph × List (String × List String)) := do
  let (g', idx) ← mergeGroup cfg so st.1 members
  let g' ← optimizeModel cfg so g' idx
  pure (g', st.2 ++ [(idx, members)])

theorem groupStep_eq (cfg : GenCfg) (so : StrOracle) (ix : List String) :
    groupStep cfg so ix = fun st grp => groupStepM cfg so st (memsOf ix grp) := rfl

theorem groupStepM_ok {cfg : GenCfg} {so : StrOracle} {st st' : Graph × List (String × List String)}
    {members : List String} (h : groupStepM cfg so st members = .ok st') :
    ∃ g1 idx, mergeGroup cfg so st.1 members = .ok (g1, idx) ∧ optimizeModel cfg so g1 idx = .ok st'.1 ∧
      st'.2 = st.2 ++ [(idx, members)] := by
  unfold groupStepM at h
  simp only [bind, Except.bind] at h
  split at h
  · simp at h
  · rename_i r hr
    obtain ⟨g1, idx⟩ := r
    split at h
    · simp at h
    · rename_i g2 hg2
      simp only [pure, Except.pure, Except.ok.injEq] at h
      subst h
      exact ⟨g1, idx, hr, hg2, rfl⟩

/-- the `k`-th index handed out after the registry `g` was built -/
def newIdx (g : Graph) (k : Nat) : String := indexOf (g.counter + k)

theorem newIdx_not_mem {g : Graph} (wf : WF g) (k : Nat) : newIdx g k ∉ idxs g :=
  wf.bound.fresh (Nat.le_add_right _ _)

theorem memberKeys_eq (g : Graph) (members : List String) :
    memberKeys g members = members.flatMap (fun i => (keysOf g i).getD []) := by
  unfold memberKeys memberModels
  induction members with
  | nil => rfl
  | cons i ms ih =>
    rw [List.filterMap_cons, List.flatMap_cons, ← ih]
    unfold keysOf Graph.look
    cases g.find? i with
    | none => simp
    | some m => simp

theorem memberKeys_congr {g g' : Graph} {members : List String}
    (h : ∀ i ∈ members, keysOf g' i = keysOf g i) : memberKeys g' members = memberKeys g members := by
  rw [memberKeys_eq, memberKeys_eq]
  induction members with
  | nil => rfl
  | cons i ms ih =>
    rw [List.flatMap_cons, List.flatMap_cons, h i (by simp), ih (fun j hj => h j (List.mem_cons_of_mem _ hj))]

/-- state of the registry after the groups `done` (as member index lists) have been merged -/
structure FoldInv (g : Graph) (done : List (List String)) (st : Graph × List (String × List String)) : Prop where
  wf : WF st.1
  counter : st.1.counter = g.counter + done.length
  repl : st.2 = done.zipIdx.map (fun Mk => (newIdx g Mk.2, Mk.1))
  idxs : idxs st.1 = (idxs g).filter (fun i => !done.any (·.contains i)) ++ (List.range done.length).map (newIdx g)
  oldKeys : ∀ j ∈ Reg.idxs g, (∀ M ∈ done, M.contains j = false) → keysOf st.1 j = keysOf g j
  newKeys : ∀ k (hk : k < done.length), keysOf st.1 (newIdx g k) = some (dedupStr (memberKeys g done[k]))

theorem FoldInv.init {g : Graph} (wf : WF g) : FoldInv g [] (g, []) :=
  ⟨wf, by simp, by simp, by simp; exact (List.filter_eq_self.2 (fun _ _ => rfl)).symm, fun _ _ _ => rfl, by simp⟩

theorem FoldInv.step {cfg : GenCfg} {so : StrOracle} {g : Graph} {done : List (List String)}
    {st st' : Graph × List (String × List String)} {M : List String}
    (wfg : WF g) (inv : FoldInv g done st) (hM : ∀ i ∈ M, i ∈ Reg.idxs g)
    (hdisj : ∀ D ∈ done, ∀ i ∈ M, D.contains i = false)
    (h : groupStepM cfg so st M = .ok st') : FoldInv g (done ++ [M]) st' := by
  obtain ⟨g1, idx, h1, h2, hrepl⟩ := groupStepM_ok h
  obtain ⟨wf', hidx, _, hc, hi, hold, hnew⟩ := mergeStep_spec inv.wf h1 h2
  have hidx' : idx = newIdx g done.length := by rw [hidx, inv.counter]; rfl
  have hnewM : ∀ k, M.contains (newIdx g k) = false := by
    intro k
    cases hc : M.contains (newIdx g k) with
    | false => rfl
    | true => exact absurd (hM _ (by simpa using hc)) (newIdx_not_mem wfg k)
  -- members of `M` are still registered, with their original keys
  have hMreg : ∀ i ∈ M, keysOf st.1 i = keysOf g i :=
    fun i hi' => inv.oldKeys i (hM i hi') (fun D hD => hdisj D hD i hi')
  refine ⟨wf', by rw [hc, inv.counter]; simp; omega, ?_, ?_, ?_, ?_⟩
  · rw [hrepl, inv.repl, List.zipIdx_append, List.map_append, hidx']
    simp
  · rw [hi, inv.idxs, List.filter_append, List.filter_filter, List.length_append, List.length_singleton,
      List.range_succ, List.map_append, hidx', List.append_assoc]
    congr 1
    · apply List.filter_congr
      intro i _
      rw [List.any_append]
      simp [Bool.and_comm]
    · congr 1
      rw [List.filter_eq_self]
      intro a ha
      obtain ⟨k, _, rfl⟩ := List.mem_map.1 ha
      simpa using hnewM k
  · intro j hj hno
    have hjM : M.contains j = false := hno M (by simp)
    have hjd : ∀ D ∈ done, D.contains j = false := fun D hD => hno D (by simp [hD])
    have hj1 : j ∈ Reg.idxs st.1 := by
      rw [inv.idxs]
      apply List.mem_append_left
      rw [List.mem_filter]
      refine ⟨hj, ?_⟩
      simp only [Bool.not_eq_true', List.any_eq_false]
      intro D hD
      simpa using hjd D hD
    rw [hold j hj1 hjM, inv.oldKeys j hj hjd]
  · intro k hk
    rw [List.length_append, List.length_singleton] at hk
    by_cases hk' : k < done.length
    · have hk1 : newIdx g k ∈ Reg.idxs st.1 := by
        rw [inv.idxs]
        exact List.mem_append_right _ (List.mem_map.2 ⟨k, by simpa using hk', rfl⟩)
      rw [hold _ hk1 (hnewM k), inv.newKeys k hk']
      simp [List.getElem_append_left hk']
    · have : k = done.length := by omega
      subst this
      rw [← hidx', hnew, memberKeys_congr hMreg]
      simp

/-- the whole loop -/
theorem FoldInv.fold {cfg : GenCfg} {so : StrOracle} {g : Graph} (wfg : WF g) :
    ∀ (Ms done : List (List String)) (st st' : Graph × List (String × List String)),
      FoldInv g done st → (∀ M ∈ Ms, ∀ i ∈ M, i ∈ Reg.idxs g) →
      (∀ M ∈ Ms, ∀ D ∈ done, ∀ i ∈ M, D.contains i = false) →
      (Ms.Pairwise (fun A B => ∀ i ∈ B, A.contains i = false)) →
      Ms.foldlM (groupStepM cfg so) st = .ok st' → FoldInv g (done ++ Ms) st'
  | [], done, st, st', inv, _, _, _, h => by
    simp only [List.foldlM_nil, pure, Except.pure, Except.ok.injEq] at h
    subst h; simpa using inv
  | M :: Ms, done, st, st', inv, hreg, hdisj, hpw, h => by
    rw [List.foldlM_cons] at h
    simp only [bind, Except.bind] at h
    split at h
    · simp at h
    · rename_i st1 hst1
      have inv1 := inv.step wfg (hreg M (by simp)) (hdisj M (by simp)) hst1
      rw [List.pairwise_cons] at hpw
      have := FoldInv.fold wfg Ms (done ++ [M]) st1 st' inv1
        (fun M' hM' => hreg M' (List.mem_cons_of_mem _ hM'))
        (by
          intro M' hM' D hD i hi
          rcases List.mem_append.1 hD with hD | hD
          · exact hdisj M' (List.mem_cons_of_mem _ hM') D hD i hi
          · simp only [List.mem_singleton] at hD
            subst hD
            exact hpw.1 M' hM' i hi)
        hpw.2 h
      simpa using this


/-! ## the final `for model_meta in self.models: generator.optimize_type(model_meta)` pass -/

theorem finalPass_spec {cfg : GenCfg} {so : StrOracle} :
    ∀ (is : List String) (g g' : Graph), WF g →
      is.foldlM (fun g i => optimizeModel cfg so g i) g = .ok g' →
      WF g' ∧ idxs g' = idxs g ∧ g'.counter = g.counter ∧ ∀ j, keysOf g' j = keysOf g j
  | [], g, g', wf, h => by
    simp only [List.foldlM_nil, pure, Except.pure, Except.ok.injEq] at h
    subst h; exact ⟨wf, rfl, rfl, fun _ => rfl⟩
  | i :: is, g, g', wf, h => by
    rw [List.foldlM_cons] at h
    simp only [bind, Except.bind] at h
    split at h
    · simp at h
    · rename_i g1 hg1
      obtain ⟨wf1, hi1, hc1⟩ := optimizeModel_WF wf hg1
      obtain ⟨wf', hi', hc', hk'⟩ := finalPass_spec is g1 g' wf1 h
      exact ⟨wf', by rw [hi', hi1], by rw [hc', hc1], fun j => by rw [hk' j, optimizeModel_keys hg1 j]⟩

/-! ## registry positions and indices -/

theorem simOfTbl_symm (tbl : List (List Bool)) : C05.Symmetric (simOfTbl tbl) := by
  intro a b; unfold simOfTbl; rw [Nat.min_comm, Nat.max_comm]

theorem nodup_getElem_inj {α} : ∀ {l : List α}, l.Nodup → ∀ {p q : Nat} (hp : p < l.length) (hq : q < l.length),
    l[p] = l[q] → p = q
  | [], _, p, _, hp, _, _ => by simp at hp
  | a :: l, nd, p, q, hp, hq, h => by
    rw [List.nodup_cons] at nd
    cases p with
    | zero =>
      cases q with
      | zero => rfl
      | succ q =>
        simp at h
        exact absurd (h ▸ List.getElem_mem _) nd.1
    | succ p =>
      cases q with
      | zero =>
        simp at h
        exact absurd (h ▸ List.getElem_mem _) nd.1
      | succ q =>
        simp at h
        rw [nodup_getElem_inj nd.2 _ _ h]

theorem getD_eq_getElem {ix : List String} {p : Nat} (hp : p < ix.length) : ix.getD p "" = ix[p] := by
  simp [List.getD, hp]

theorem getD_mem {ix : List String} {p : Nat} (hp : p < ix.length) : ix.getD p "" ∈ ix := by
  rw [getD_eq_getElem hp]; exact List.getElem_mem hp

theorem getD_inj {ix : List String} (nd : ix.Nodup) {p q : Nat} (hp : p < ix.length) (hq : q < ix.length)
    (h : ix.getD p "" = ix.getD q "") : p = q := by
  rw [getD_eq_getElem hp, getD_eq_getElem hq] at h
  exact nodup_getElem_inj nd hp hq h

theorem mem_memsOf {ix : List String} (nd : ix.Nodup) {grp : List Nat} (hg : ∀ x ∈ grp, x < ix.length)
    {p : Nat} (hp : p < ix.length) : ix.getD p "" ∈ memsOf ix grp ↔ p ∈ grp := by
  unfold memsOf
  rw [List.mem_map]
  constructor
  · rintro ⟨q, hq, e⟩
    rw [getD_inj nd hp (hg q hq) e.symm]; exact hq
  · intro h; exact ⟨p, h, rfl⟩

theorem memsOf_sub {ix : List String} {grp : List Nat} (hg : ∀ x ∈ grp, x < ix.length) :
    ∀ i ∈ memsOf ix grp, i ∈ ix := by
  intro i hi
  obtain ⟨q, hq, rfl⟩ := List.mem_map.1 hi
  exact getD_mem (hg q hq)

theorem memsOf_disjoint {ix : List String} (nd : ix.Nodup) {A B : List Nat} (hA : ∀ x ∈ A, x < ix.length)
    (hB : ∀ x ∈ B, x < ix.length) (h : Closure.gOverlap A B = false) :
    ∀ i ∈ memsOf ix B, (memsOf ix A).contains i = false := by
  intro i hi
  obtain ⟨q, hq, rfl⟩ := List.mem_map.1 hi
  cases hc : (memsOf ix A).contains (ix.getD q "") with
  | false => rfl
  | true =>
    have : q ∈ A := (mem_memsOf nd hA (hB q hq)).1 (by simpa using hc)
    have : Closure.gOverlap A B = true := by
      unfold Closure.gOverlap
      rw [List.any_eq_true]
      exact ⟨q, this, by simpa using hq⟩
    rw [h] at this; cases this

/-- the member lists of the groups: registered, pairwise disjoint -/
theorem groups_members {g : Graph} (wf : WF g) {sim : Nat → Nat → Bool} (hsym : C05.Symmetric sim)
    {groups : List (List Nat)} (hg : Closure.mergeGroups sim g.models.length = some groups) :
    (∀ M ∈ groups.map (memsOf (idxs g)), ∀ i ∈ M, i ∈ idxs g) ∧
    (groups.map (memsOf (idxs g))).Pairwise (fun A B => ∀ i ∈ B, A.contains i = false) := by
  obtain ⟨hno, hok, _, _⟩ := C05.closure_components hsym hg
  have hlen : (idxs g).length = g.models.length := by simp [idxs]
  have hlt : ∀ grp ∈ groups, ∀ x ∈ grp, x < (idxs g).length :=
    fun grp hgrp x hx => by rw [hlen]; exact (hok grp hgrp).2.1 x hx
  constructor
  · intro M hM i hi
    obtain ⟨grp, hgrp, rfl⟩ := List.mem_map.1 hM
    exact memsOf_sub (hlt grp hgrp) i hi
  · rw [List.pairwise_iff_getElem]
    intro i j hi hj hij
    simp only [List.length_map] at hi hj
    simp only [List.getElem_map]
    exact memsOf_disjoint wf.nodup (hlt _ (List.getElem_mem hi)) (hlt _ (List.getElem_mem hj))
      (hno i j hi hj (by omega))


/-! ## `merge_models`: the resulting registry -/

/-- membership in some member list -/
def inSome (Ms : List (List String)) (i : String) : Bool := Ms.any (·.contains i)

theorem inSome_false_iff {Ms : List (List String)} {i : String} :
    inSome Ms i = false ↔ ∀ M ∈ Ms, M.contains i = false := by
  unfold inSome; rw [List.any_eq_false]; simp

theorem mergeModels_struct {cfg : GenCfg} {so : StrOracle} {cmps : List Cmp} {g g' : Graph}
    {repl : List (String × List String)} (wf : WF g) (h : mergeModels cfg so cmps g = .ok (g', repl)) :
    ∃ tbl groups, simTable cmps g = .ok tbl ∧
      Closure.mergeGroups (simOfTbl tbl) g.models.length = some groups ∧
      repl = (groups.map (memsOf (idxs g))).zipIdx.map (fun Mk => (newIdx g Mk.2, Mk.1)) ∧
      idxs g' = (idxs g).filter (fun i => !inSome (groups.map (memsOf (idxs g))) i) ++
                  (List.range groups.length).map (newIdx g) ∧
      (∀ j ∈ idxs g, inSome (groups.map (memsOf (idxs g))) j = false → keysOf g' j = keysOf g j) ∧
      (∀ k (hk : k < groups.length),
        keysOf g' (newIdx g k) = some (dedupStr (memberKeys g (memsOf (idxs g) groups[k])))) ∧
      WF g' ∧ g'.counter = g.counter + groups.length := by
  obtain ⟨tbl, groups, gm, htbl, hgroups, hfold, hfinal⟩ := mergeModels_eq h
  obtain ⟨hreg, hpw⟩ := groups_members wf (simOfTbl_symm tbl) hgroups
  rw [groupStep_eq, ← List.foldlM_map] at hfold
  have inv := FoldInv.fold wf (groups.map (memsOf (idxs g))) [] (g, []) (gm, repl) (FoldInv.init wf) hreg
    (by simp) hpw hfold
  simp only [List.nil_append] at inv
  obtain ⟨wf', hi', hc', hk'⟩ := finalPass_spec _ gm g' inv.wf hfinal
  refine ⟨tbl, groups, htbl, hgroups, inv.repl, ?_, ?_, ?_, wf', ?_⟩
  · rw [hi', inv.idxs]; simp [inSome]
  · intro j hj hno
    rw [hk' j]
    exact inv.oldKeys j hj (inSome_false_iff.1 hno)
  · intro k hk
    rw [hk']
    have := inv.newKeys k (by simpa using hk)
    simpa using this
  · rw [hc', inv.counter]; simp


/-! ## C05: merged together iff connected by a chain of similar pairs -/

/-- the pair relation of C05 on registry positions: at least one configured comparator says yes on the two
    models' key lists (as they are when `merge_models` starts), and none before it raised -/
def SimEdge (cmps : List Cmp) (g : Graph) (x y : Nat) : Prop :=
  x < g.models.length ∧ y < g.models.length ∧ x ≠ y ∧ modelsCmp cmps (keysAt g x) (keysAt g y) = .ok true

/-- chains of similar pairs -/
inductive Chain (cmps : List Cmp) (g : Graph) : Nat → Nat → Prop
  | refl (a : Nat) : Chain cmps g a a
  | step {a b c : Nat} : Chain cmps g a b → SimEdge cmps g b c → Chain cmps g a c

theorem simOfTbl_true_iff {cmps : List Cmp} {g : Graph} {tbl : List (List Bool)} (h : simTable cmps g = .ok tbl)
    {x y : Nat} (hx : x < g.models.length) (hy : y < g.models.length) (hxy : x ≠ y) :
    simOfTbl tbl x y = true ↔ modelsCmp cmps (keysAt g x) (keysAt g y) = .ok true := by
  unfold simOfTbl
  rcases Nat.lt_or_gt_of_ne hxy with h' | h'
  · rw [Nat.min_eq_left (Nat.le_of_lt h'), Nat.max_eq_right (Nat.le_of_lt h'), simTable_spec h h' hy]
    simp
  · rw [Nat.min_eq_right (Nat.le_of_lt h'), Nat.max_eq_left (Nat.le_of_lt h'), modelsCmp_symmetric,
      simTable_spec h h' hx]
    simp

theorem edge_iff_simEdge {cmps : List Cmp} {g : Graph} {tbl : List (List Bool)} (h : simTable cmps g = .ok tbl)
    {x y : Nat} : Closure.Edge (simOfTbl tbl) g.models.length x y ↔ SimEdge cmps g x y := by
  unfold Closure.Edge SimEdge
  constructor
  · rintro ⟨a, b, c, d⟩; exact ⟨a, b, c, (simOfTbl_true_iff h a b c).1 d⟩
  · rintro ⟨a, b, c, d⟩; exact ⟨a, b, c, (simOfTbl_true_iff h a b c).2 d⟩

theorem reach_iff_chain {cmps : List Cmp} {g : Graph} {tbl : List (List Bool)} (h : simTable cmps g = .ok tbl)
    {a b : Nat} : Closure.Reach (simOfTbl tbl) g.models.length a b ↔ Chain cmps g a b := by
  constructor
  · intro hr
    induction hr with
    | refl => exact Chain.refl _
    | step _ e ih => exact Chain.step ih ((edge_iff_simEdge h).1 e)
  · intro hc
    induction hc with
    | refl => exact Closure.Reach.refl _
    | step _ e ih => exact Closure.Reach.step ih ((edge_iff_simEdge h).2 e)

/-- **C05_merge_iff** on registry positions: two different models are members of one replacement entry iff
    they are connected by a chain of similar pairs -/
theorem mergeModels_merge_iff {cfg : GenCfg} {so : StrOracle} {cmps : List Cmp} {g g' : Graph}
    {repl : List (String × List String)} (wf : WF g) (h : mergeModels cfg so cmps g = .ok (g', repl))
    {a b : Nat} (ha : a < g.models.length) (hb : b < g.models.length) (hab : a ≠ b) :
    (∃ p ∈ repl, (idxs g).getD a "" ∈ p.2 ∧ (idxs g).getD b "" ∈ p.2) ↔ Chain cmps g a b := by
  obtain ⟨tbl, groups, htbl, hgroups, hrepl, _⟩ := mergeModels_struct wf h
  obtain ⟨_, hok, hreach, _⟩ := C05.closure_components (simOfTbl_symm tbl) hgroups
  have hlen : (idxs g).length = g.models.length := by simp [idxs]
  rw [← reach_iff_chain htbl, ← hreach a b hab]
  have hlt : ∀ grp ∈ groups, ∀ x ∈ grp, x < (idxs g).length :=
    fun grp hgrp x hx => by rw [hlen]; exact (hok grp hgrp).2.1 x hx
  constructor
  · rintro ⟨p, hp, h1, h2⟩
    rw [hrepl] at hp
    obtain ⟨Mk, hMk, rfl⟩ := List.mem_map.1 hp
    have hM : Mk.1 ∈ groups.map (memsOf (idxs g)) := List.fst_mem_of_mem_zipIdx hMk
    obtain ⟨grp, hgrp, e⟩ := List.mem_map.1 hM
    simp only at h1 h2
    rw [← e] at h1 h2
    exact ⟨grp, hgrp, (mem_memsOf wf.nodup (hlt grp hgrp) (by rw [hlen]; exact ha)).1 h1,
      (mem_memsOf wf.nodup (hlt grp hgrp) (by rw [hlen]; exact hb)).1 h2⟩
  · rintro ⟨grp, hgrp, h1, h2⟩
    obtain ⟨k, hk, e⟩ := List.getElem_of_mem hgrp
    refine ⟨(newIdx g k, memsOf (idxs g) grp), ?_, ?_, ?_⟩
    · rw [hrepl, List.mem_map]
      refine ⟨(memsOf (idxs g) grp, k), ?_, rfl⟩
      rw [List.mem_zipIdx_iff_getElem?]
      simp [hk, e]
    · exact (mem_memsOf wf.nodup (hlt grp hgrp) (by rw [hlen]; exact ha)).2 h1
    · exact (mem_memsOf wf.nodup (hlt grp hgrp) (by rw [hlen]; exact hb)).2 h2

end J2M.Reg
