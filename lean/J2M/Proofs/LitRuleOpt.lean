/-
  Helper lemmas for C10R, part 4: `optimize_type` on the merged field type, and `generate` end to end.
-/
import J2M.Proofs.LitRuleGen
import J2M.Proofs.SplitWorklist
namespace J2M.LitRule
open J2M J2M.Strings

open J2M.SplitW (splitStep)

/-- the member lists of this file (pseudo-types, then possibly `str` or a literal) hide no union -/
theorem hidden_sers (ks : List String) (tl : List Ty) (htl : ∀ t ∈ tl, SplitW.hidden t = false) :
    ∀ t ∈ ks.map Ty.ser ++ tl, SplitW.hidden t = false := by
  intro t ht
  rcases List.mem_append.mp ht with h | h
  · obtain ⟨k, _, rfl⟩ := List.mem_map.mp h; rfl
  · exact htl t h

/-- the worklist split is the plain fold on such lists -/
theorem splitMembers_eq (reg : StrRegistry) (ks : List String) (tl : List Ty)
    (htl : ∀ t ∈ tl, SplitW.hidden t = false) :
    splitMembers reg (ks.map .ser ++ tl) = (ks.map Ty.ser ++ tl).foldl (splitStep reg) {} :=
  SplitW.splitMembers_eq_foldl (hidden_sers ks tl htl)

theorem splitStep_ser (reg : StrRegistry) (s : Split) (k : String) (h : k ∈ reg.types) :
    splitStep reg s (.ser k) = { s with strTypes := s.strTypes ++ [.ser k] } := by
  simp [splitStep, h]

theorem splitStep_lit (reg : StrRegistry) (s : Split) (o : Bool) (vs : List String) :
    splitStep reg s (.lit o vs) = { s with other := s.other ++ [.lit o vs] } := rfl

theorem splitStep_str (reg : StrRegistry) (s : Split) :
    splitStep reg s .str = { s with strTypes := s.strTypes ++ [.str] } := rfl

theorem foldl_splitStep_sers (reg : StrRegistry) : ∀ (ks : List String) (s : Split), (∀ k ∈ ks, k ∈ reg.types) →
    (ks.map Ty.ser).foldl (splitStep reg) s = { s with strTypes := s.strTypes ++ ks.map .ser } := by
  intro ks
  induction ks with
  | nil => intro s _; simp
  | cons k ks ih =>
    intro s h
    rw [List.map_cons, List.foldl_cons, splitStep_ser reg s k (h k (by simp)),
      ih _ (fun k' hk' => h k' (by simp [hk']))]
    simp

theorem split_sers (reg : StrRegistry) (ks : List String) (h : ∀ k ∈ ks, k ∈ reg.types) :
    splitMembers reg (ks.map .ser) = { strTypes := ks.map .ser } := by
  have := splitMembers_eq reg ks [] (by simp)
  rw [List.append_nil] at this
  rw [this, foldl_splitStep_sers reg ks _ h]; rfl

theorem split_sers_str (reg : StrRegistry) (ks : List String) (h : ∀ k ∈ ks, k ∈ reg.types) :
    splitMembers reg (ks.map .ser ++ [.str]) = { strTypes := ks.map .ser ++ [.str] } := by
  rw [splitMembers_eq reg ks [.str] (by simp [SplitW.hidden]), List.foldl_append, foldl_splitStep_sers reg ks _ h]; rfl

theorem split_sers_lit (reg : StrRegistry) (ks : List String) (h : ∀ k ∈ ks, k ∈ reg.types) (o : Bool)
    (vs : List String) :
    splitMembers reg (ks.map .ser ++ [.lit o vs]) = { strTypes := ks.map .ser, other := [.lit o vs] } := by
  rw [splitMembers_eq reg ks [.lit o vs] (by simp [SplitW.hidden]), List.foldl_append, foldl_splitStep_sers reg ks _ h]; rfl

theorem optimize_str (cfg : GenCfg) (e : EqEnv) (m : Nat) : optimize cfg e (m + 1) .str = .ok .str := by
  simp [optimize]; rfl

theorem optimizeUnion_str (cfg : GenCfg) (e : EqEnv) (m : Nat) (ks : List String)
    (h : ∀ k ∈ ks, k ∈ cfg.reg.types) :
    optimizeUnion cfg e (m + 2) (ks.map .ser ++ [.str]) = .ok .str := by
  rw [optimizeUnion, split_sers_str cfg.reg ks h]
  simp [Ty.isStr, optimize_str, bind, Except.bind, pure, Except.pure]

theorem optimize_ser (cfg : GenCfg) (e : EqEnv) (m : Nat) (k : String) :
    optimize cfg e (m + 1) (.ser k) = .ok (.ser k) := by
  simp [optimize]; rfl

theorem optimize_lit_ok (cfg : GenCfg) (e : EqEnv) (m : Nat) (V : List String) (hV : V ≠ []) :
    optimize cfg e (m + 1) (.lit false V) = .ok (.lit false V) := by
  simp [optimize, hV]; rfl

theorem optimize_lit_ov (cfg : GenCfg) (e : EqEnv) (m : Nat) (V : List String) :
    optimize cfg e (m + 1) (.lit true V) = .ok .str := by
  simp [optimize]; rfl

theorem any_isStr_sers (ks : List String) : (ks.map Ty.ser).any Ty.isStr = false := by
  simp [List.any_map, Ty.isStr, Function.comp_def]

theorem resolve_nodup' (reg : StrRegistry) (ks : List String) (hnd : ks.Nodup) :
    resolve reg ks (ks.length + 2) = .ok (survivors reg ks) := by
  rw [resolve_eq, dedupStr_of_nodup hnd]

theorem optimizeUnion_sers (cfg : GenCfg) (e : EqEnv) (m : Nat) (ks : List String)
    (h : ∀ k ∈ ks, k ∈ cfg.reg.types) (hnd : ks.Nodup) (hne : ks ≠ []) :
    optimizeUnion cfg e (m + 2) (ks.map .ser) =
      match survivors cfg.reg ks with
      | [] => .error .stopIteration
      | [k] => .ok (.ser k)
      | _ => .ok .str := by
  rw [optimizeUnion, split_sers cfg.reg ks h]
  simp only [any_isStr_sers, hne, List.filterMap_map, Function.comp_def, resolve_nodup' _ _ hnd, bind, Except.bind,
    pure, Except.pure, List.any_nil, Bool.false_and, List.isEmpty_nil, if_true, Bool.false_eq_true, if_false,
    List.isEmpty_map, List.isEmpty_iff, List.nil_append, List.filterMap_some]
  rcases hR : survivors cfg.reg ks with _ | ⟨a, _ | ⟨b, r⟩⟩
  · rfl
  · simp [optimize_ser, pure, Except.pure, bind, Except.bind]
  · simp [optimize_str, pure, Except.pure, bind, Except.bind]

theorem mk_lit_ser (c : LitCfg) (V : List String) (k : String) (hk : k ≠ "str") (hs : V.Pairwise (· < ·))
    (hV : V ≠ []) (hov : ¬ Overflows c V) :
    mkUnionMembers c [.lit false V, .ser k] = [.ser k, .lit false V] := by
  have hG : ∀ t ∈ [Ty.lit false V, Ty.ser k], isSerLit t = true := by
    intro t ht; simp at ht; rcases ht with rfl | rfl <;> rfl
  have hkl : kindsL [Ty.lit false V, Ty.ser k] = [k] := rfl
  rw [mk_members_nostr c _ hG (by rw [hkl]; simpa using fun e => hk e.symm), hkl]
  have hd : dedupStr [k] = [k] := dedupStr_of_nodup (by simp)
  have hu : useFinal [Ty.lit false V, Ty.ser k] = true := by simp [useFinal, isKiller]
  have hv : unionVals [Ty.lit false V, Ty.ser k] = V := by
    rw [unionVals_eq _ V (by intro s; simp), sortUniq_of_sorted hs]
  simp [hd, litOrStr, hu, hv, goodTail_ok hV hov]

theorem mk_lit_str (c : LitCfg) (V : List String) :
    mkUnionMembers c [.lit false V, .str] = [.str] := by
  have hG : ∀ t ∈ [Ty.lit false V], isSerLit t = true := by
    intro t ht; simp at ht; subst ht; rfl
  have hkl : kindsL [Ty.lit false V] = [] := rfl
  have := mk_members_str c [Ty.lit false V] hG (by rw [hkl]; simp)
  rw [hkl] at this
  exact this

theorem optimizeUnion_sers_lit (cfg : GenCfg) (e : EqEnv) (m : Nat) (ks : List String)
    (h : ∀ k ∈ ks, k ∈ cfg.reg.types) (hnd : ks.Nodup) (hne : ks ≠ []) (hstr : "str" ∉ ks)
    (V : List String) (hs : V.Pairwise (· < ·)) (hV : V ≠ []) (hov : ¬ Overflows cfg.lit V) :
    optimizeUnion cfg e (m + 2) (ks.map .ser ++ [.lit false V]) =
      match survivors cfg.reg ks with
      | [] => .error .stopIteration
      | [k] => .ok (.union [.ser k, .lit false V])
      | _ => .ok .str := by
  rw [optimizeUnion, split_sers_lit cfg.reg ks h]
  simp only [any_isStr_sers, hne, List.filterMap_map, Function.comp_def, resolve_nodup' _ _ hnd, bind, Except.bind,
    pure, Except.pure, List.any_nil, List.any_cons, Ty.isInt, Ty.isFloat, Bool.false_and, Bool.or_false,
    List.isEmpty_nil, if_true, Bool.false_eq_true, if_false,
    List.isEmpty_map, List.isEmpty_iff, List.filterMap_some]
  rcases hR : survivors cfg.reg ks with _ | ⟨a, _ | ⟨b, r⟩⟩
  · rfl
  · have ha : a ≠ "str" := by
      intro e
      have : a ∈ survivors cfg.reg ks := by rw [hR]; simp
      exact hstr (e ▸ (mem_survivors.1 this).1)
    simp [optimize_ser, optimize_lit_ok _ _ _ _ hV, pure, Except.pure, bind, Except.bind, Ty.isUnknown, Ty.isNull,
      mk_lit_ser cfg.lit V a ha hs hV hov]
  · simp [optimize_str, optimize_lit_ok _ _ _ _ hV, pure, Except.pure, bind, Except.bind, Ty.isUnknown, Ty.isNull,
      mk_lit_str]


/-! ## the optimised field type -/

/-- three-way case distinction on a list: empty, one element, several -/
def shape3 {α : Type} (a : α) (b : String → α) (c : α) : List String → α
  | [] => a
  | [k] => b k
  | _ => c

/-- the field type `generate` assigns, from the plain strings `P`, whether no pseudo-type was seen, and the
    resolved kinds `R` -/
def expectedR (c : LitCfg) (P : List String) (noK : Bool) (R : List String) : Except PyErr Ty :=
  if noK = true then (if Overflows c (sortUniq P) then .ok .str else .ok (.lit false (sortUniq P)))
  else if P ≠ [] ∧ Overflows c (sortUniq P) then .ok .str
  else shape3 (.error .stopIteration)
    (fun k => if P = [] then .ok (.ser k) else .ok (.union [.ser k, .lit false (sortUniq P)]))
    (.ok .str) R

theorem collapse_two {M : List Ty} (h : 2 ≤ M.length) : collapse M = .union M := by
  match M, h with
  | _ :: _ :: _, _ => rfl

theorem optimize_union (cfg : GenCfg) (e : EqEnv) (m : Nat) (M : List Ty) :
    optimize cfg e (m + 1) (.union M) = optimizeUnion cfg e m M := by
  rw [optimize]

theorem survivors_singleton (reg : StrRegistry) (k : String) : survivors reg [k] = [k] := by
  have : replacedIn reg [k] = [] := by simp [replacedIn]
  exact survivors_eq_self this

theorem optimize_state (cfg : GenCfg) (e : EqEnv) (m : Nat) (ks P : List String) (hnd : ks.Nodup)
    (hreg : ∀ k ∈ ks, k ∈ cfg.reg.types) (hstr : "str" ∉ ks) (hne : P ≠ [] ∨ ks ≠ []) :
    optimize cfg e (m + 3) (collapse (members cfg.lit ks P)) =
      expectedR cfg.lit P ks.isEmpty (survivors cfg.reg ks) := by
  have hVs := sorted_sortUniq P
  cases ks with
  | nil =>
    have hP : P ≠ [] := by rcases hne with h | h; exact h; exact absurd rfl h
    have hV : sortUniq P ≠ [] := fun e => hP (sortUniq_eq_nil.1 e)
    simp only [members, List.map_nil, List.nil_append, List.isEmpty_nil, expectedR, if_true]
    unfold tailOf
    split
    · rename_i hc
      rw [if_pos (allOv_overflows hc.2.1 hc.2.2)]
      exact optimize_lit_ov cfg e (m + 2) []
    · by_cases hov : Overflows cfg.lit (sortUniq P)
      · rw [goodTail_ov hV hov, if_pos hov]; exact optimize_str cfg e (m + 2)
      · rw [goodTail_ok hV hov, if_neg hov]; exact optimize_lit_ok cfg e (m + 2) _ hV
  | cons k ks' =>
    have hkne : (k :: ks') ≠ [] := by simp
    simp only [members, List.isEmpty_cons, tailOf_false, expectedR, Bool.false_eq_true, if_false]
    by_cases hP : P = []
    · subst hP
      have : sortUniq ([] : List String) = [] := rfl
      rw [this, goodTail_nil, List.append_nil]
      simp only [ne_eq, not_true_eq_false, false_and, if_false, if_true]
      cases ks' with
      | nil =>
        rw [survivors_singleton]
        exact optimize_ser cfg e (m + 2) k
      | cons k2 r =>
        rw [collapse_two (by simp), optimize_union, optimizeUnion_sers cfg e m _ hreg hnd hkne]
        rcases survivors cfg.reg (k :: k2 :: r) with _ | ⟨a, _ | ⟨b, r'⟩⟩ <;> rfl
    · have hV : sortUniq P ≠ [] := fun e => hP (sortUniq_eq_nil.1 e)
      by_cases hov : Overflows cfg.lit (sortUniq P)
      · rw [goodTail_ov hV hov, if_pos ⟨hP, hov⟩, collapse_two (by simp), optimize_union]
        exact optimizeUnion_str cfg e m _ hreg
      · rw [goodTail_ok hV hov, if_neg (fun h => hov h.2), collapse_two (by simp), optimize_union,
          optimizeUnion_sers_lit cfg e m _ hreg hnd hkne hstr _ hVs hV hov]
        rcases survivors cfg.reg (k :: ks') with _ | ⟨a, _ | ⟨b, r'⟩⟩ <;> simp [shape3, hP]

/-- the three-way shape of a duplicate-free list depends on its members only -/
theorem shape_congr {R1 R2 : List String} (h1 : R1.Nodup) (h2 : R2.Nodup) (h : ∀ x, x ∈ R1 ↔ x ∈ R2)
    {α : Type} (a : α) (b : String → α) (c : α) : shape3 a b c R1 = shape3 a b c R2 := by
  rcases R1 with _ | ⟨x, _ | ⟨y, r⟩⟩ <;> rcases R2 with _ | ⟨x', _ | ⟨y', r'⟩⟩
  · rfl
  · exact absurd ((h x').2 (by simp)) (by simp)
  · exact absurd ((h x').2 (by simp)) (by simp)
  · exact absurd ((h x).1 (by simp)) (by simp)
  · have : x = x' := by simpa using (h x).1 (by simp)
    subst this; rfl
  · have e1 : x' = x := by simpa using (h x').2 (by simp)
    have e2 : y' = x := by simpa using (h y').2 (by simp)
    simp [e1, e2] at h2
  · exact absurd ((h x).1 (by simp)) (by simp)
  · have e1 : x = x' := by simpa using (h x).1 (by simp)
    have e2 : y = x' := by simpa using (h y).1 (by simp)
    simp [e1, e2] at h1
  · rfl

/-- `resolve` on the observed kinds -/
def resolved (reg : StrRegistry) (K : List String) : List String := survivors reg (dedupStr K)

theorem resolve_resolved (reg : StrRegistry) (K : List String) :
    resolve reg K (K.length + 2) = .ok (resolved reg K) := resolve_eq reg K K.length

theorem expectedR_congr (c : LitCfg) (reg : StrRegistry) (P ks K : List String) (hnd : ks.Nodup)
    (hmem : ∀ k, k ∈ ks ↔ k ∈ K) :
    expectedR c P ks.isEmpty (survivors reg ks) = expectedR c P K.isEmpty (resolved reg K) := by
  have he : ks.isEmpty = K.isEmpty := by
    cases ks with
    | nil =>
      cases K with
      | nil => rfl
      | cons x K => exact absurd ((hmem x).2 (by simp)) (by simp)
    | cons x ks =>
      cases K with
      | nil => exact absurd ((hmem x).1 (by simp)) (by simp)
      | cons y K => rfl
  unfold expectedR
  rw [he]
  have := shape_congr (R1 := survivors reg ks) (R2 := survivors reg (dedupStr K))
    (nodup_survivors hnd) (nodup_survivors (nodup_dedupStr K))
    (fun x => by
      rw [mem_survivors, mem_survivors]
      simp only [mem_dedupStr, hmem])
    (Except.error PyErr.stopIteration)
    (fun k => if P = [] then Except.ok (Ty.ser k) else Except.ok (Ty.union [Ty.ser k, Ty.lit false (sortUniq P)]))
    (Except.ok Ty.str)
  unfold resolved
  rw [this]

/-! ## `generate` -/

/-- the comparison environment `generate` uses -/
def genEqEnv (o : GenOracles) : EqEnv := ⟨o.str, fun i => "Model#" ++ i, fun _ => none, 1000000⟩

theorem generate_eq (cfg : GenCfg) (o : GenOracles) (smp : List Json) :
    generate cfg o smp = (do
      let sets ← smp.mapM (convert cfg o)
      let fields ← mergeFieldSets cfg.lit (genEqEnv o) sets
      optimize cfg (genEqEnv o) (Ty.fuelFor (.obj fields)) (.obj fields)) := rfl

theorem optimize_obj_single (cfg : GenCfg) (e : EqEnv) (m : Nat) (f : String) (T : Ty) :
    optimize cfg e (m + 1) (.obj [(f, T)]) = (optimize cfg e m T).map (fun v => .obj [(f, v)]) := by
  rw [optimize]
  cases h : optimize cfg e m T <;> simp [List.mapM_cons, h, bind, Except.bind, pure, Except.pure, Except.map]

theorem fuelFor_single (f : String) (T : Ty) : ∃ m, Ty.fuelFor (.obj [(f, T)]) = m + 4 :=
  ⟨10 * (1 + (T.size + 0)) + 6, by simp [Ty.fuelFor, Ty.size, Ty.sizeFields]⟩

/-- **the generator on one string-valued field**, for every non-empty list of sample strings -/
theorem generate_samples (cfg : GenCfg) (o : GenOracles) (f : String) (l : List String) (hne : l ≠ [])
    (htot : ∀ s ∈ l, TotalOn cfg.reg o.accepts s) (hstr : "str" ∉ cfg.reg.types) :
    generate cfg o (samples f l) =
      (expectedR cfg.lit (plainStrs cfg.reg o.accepts l) (kindsOf cfg.reg o.accepts l).isEmpty
        (resolved cfg.reg (kindsOf cfg.reg o.accepts l))).map (fun T => .obj [(f, T)]) := by
  obtain ⟨T, hm, ks, hnd, hmem, rfl⟩ :=
    merge_samples cfg (genEqEnv o) 999999 rfl o.accepts f hstr l hne htot
  obtain ⟨m, hfuel⟩ := fuelFor_single f (collapse (members cfg.lit ks (plainStrs cfg.reg o.accepts l)))
  rw [generate_eq, mapM_convert_samples cfg o f l htot]
  simp only [bind, Except.bind]
  rw [hm]
  simp only [hfuel]
  rw [optimize_obj_single, optimize_state cfg _ m ks _ hnd
    (fun k hk => kindsOf_registered ((hmem k).1 hk))
    (fun h => hstr (kindsOf_registered ((hmem _).1 h)))
    (by
      rcases observed_ne htot hne with h | h
      · exact .inl h
      · right
        obtain ⟨k, hk⟩ := List.exists_mem_of_ne_nil _ h
        exact List.ne_nil_of_mem ((hmem k).2 hk)),
    expectedR_congr cfg.lit cfg.reg _ ks _ hnd hmem]

end J2M.LitRule
