/-
  Helper development for C13S: `process_meta_data` registers exactly one model per inline field dict (`.obj` node).

  * `objCount t`  — number of `.obj` constructors of `t` (nested ones included)
  * `hasObj t`    — `t` contains an `.obj` constructor
  * `objKeys t`   — the key lists of the `.obj` nodes of `t`, in pre-order (a dict before the dicts of its fields,
                    fields left to right) — the order in which `process_meta_data` registers them
-/
import J2M.Proofs.Registry
namespace J2M.RSound
open J2M J2M.Reg

mutual
/-- number of inline field dicts (`.obj` nodes) in a type, nested ones included -/
def objCount : Ty → Nat
  | .obj fs => 1 + objCountFields fs
  | .list t | .dict t | .opt t => objCount t
  | .union ts | .tuple ts => objCountList ts
  | _ => 0
def objCountList : List Ty → Nat
  | [] => 0
  | t :: ts => objCount t + objCountList ts
def objCountFields : List (String × Ty) → Nat
  | [] => 0
  | (_, t) :: fs => objCount t + objCountFields fs
end

mutual
/-- the type contains an inline field dict -/
def hasObj : Ty → Bool
  | .obj _ => true
  | .list t | .dict t | .opt t => hasObj t
  | .union ts | .tuple ts => hasObjList ts
  | _ => false
def hasObjList : List Ty → Bool
  | [] => false
  | t :: ts => hasObj t || hasObjList ts
end

def hasObjFields : List (String × Ty) → Bool
  | [] => false
  | (_, t) :: fs => hasObj t || hasObjFields fs

mutual
/-- key lists of the `.obj` nodes, pre-order -/
def objKeys : Ty → List (List String)
  | .obj fs => fs.map (·.1) :: objKeysFields fs
  | .list t | .dict t | .opt t => objKeys t
  | .union ts | .tuple ts => objKeysList ts
  | _ => []
def objKeysList : List Ty → List (List String)
  | [] => []
  | t :: ts => objKeys t ++ objKeysList ts
def objKeysFields : List (String × Ty) → List (List String)
  | [] => []
  | (_, t) :: fs => objKeys t ++ objKeysFields fs
end

mutual
theorem objKeys_length : ∀ t : Ty, (objKeys t).length = objCount t
  | .obj fs => by simp [objKeys, objCount, objKeysFields_length fs]; omega
  | .list t | .dict t | .opt t => by simp [objKeys, objCount, objKeys_length t]
  | .union ts | .tuple ts => by simp [objKeys, objCount, objKeysList_length ts]
  | .int | .float | .bool | .str | .null | .unknown | .ser _ | .lit _ _ | .ptr _ => by simp [objKeys, objCount]
theorem objKeysList_length : ∀ ts : List Ty, (objKeysList ts).length = objCountList ts
  | [] => rfl
  | t :: ts => by simp [objKeysList, objCountList, objKeys_length t, objKeysList_length ts]
theorem objKeysFields_length : ∀ fs : List (String × Ty), (objKeysFields fs).length = objCountFields fs
  | [] => rfl
  | (_, t) :: fs => by simp [objKeysFields, objCountFields, objKeys_length t, objKeysFields_length fs]
end

mutual
theorem hasObj_iff : ∀ t : Ty, hasObj t = false ↔ objCount t = 0
  | .obj fs => by simp [hasObj, objCount]
  | .list t | .dict t | .opt t => by simp [hasObj, objCount, hasObj_iff t]
  | .union ts | .tuple ts => by simp [hasObj, objCount, hasObjList_iff ts]
  | .int | .float | .bool | .str | .null | .unknown | .ser _ | .lit _ _ | .ptr _ => by simp [hasObj, objCount]
theorem hasObjList_iff : ∀ ts : List Ty, hasObjList ts = false ↔ objCountList ts = 0
  | [] => by simp [hasObjList, objCountList]
  | t :: ts => by simp [hasObjList, objCountList, hasObj_iff t, hasObjList_iff ts]
end

/-! ## counting, for every graph -/

@[simp] theorem setFields_length (g : Graph) (i : String) (fs : Fields) :
    (g.setFields i fs).models.length = g.models.length := by
  simp [Graph.setFields]

mutual
theorem processTy_count : ∀ (t : Ty) (g : Graph) (pm : Option (String × String)),
    (processTy g pm t).1.models.length = g.models.length + objCount t ∧
    (processTy g pm t).1.counter = g.counter + objCount t ∧
    hasObj (processTy g pm t).2 = false
  | .obj fs, g, pm => by
    rw [processTy_obj]
    obtain ⟨h1, h2, _⟩ := processFields_count fs (regNew g pm fs) (indexOf g.counter)
    refine ⟨?_, ?_, rfl⟩
    · simp only [setFields_length, h1, objCount]; simp [regNew]; omega
    · simp only [setFields_counter, h2, objCount]; simp [regNew]; omega
  | .list t, g, pm => by simpa [processTy, objCount, hasObj] using processTy_count t g pm
  | .dict t, g, pm => by simpa [processTy, objCount, hasObj] using processTy_count t g pm
  | .opt t, g, pm => by simpa [processTy, objCount, hasObj] using processTy_count t g pm
  | .union ts, g, pm => by simpa [processTy, objCount, hasObj] using processList_count ts g pm
  | .tuple ts, g, pm => by simpa [processTy, objCount, hasObj] using processList_count ts g pm
  | .int, g, pm | .float, g, pm | .bool, g, pm | .str, g, pm | .null, g, pm | .unknown, g, pm
  | .ser _, g, pm | .lit _ _, g, pm | .ptr _, g, pm => by simp [processTy, objCount, hasObj]
theorem processList_count : ∀ (ts : List Ty) (g : Graph) (pm : Option (String × String)),
    (processList g pm ts).1.models.length = g.models.length + objCountList ts ∧
    (processList g pm ts).1.counter = g.counter + objCountList ts ∧
    hasObjList (processList g pm ts).2 = false
  | [], g, pm => by simp [processList, objCountList, hasObjList]
  | t :: ts, g, pm => by
    obtain ⟨a1, a2, a3⟩ := processTy_count t g pm
    obtain ⟨b1, b2, b3⟩ := processList_count ts (processTy g pm t).1 pm
    simp only [processList, objCountList, hasObjList, a3, b3, b1, b2, a1, a2]
    refine ⟨by omega, by omega, rfl⟩
theorem processFields_count : ∀ (fs : List (String × Ty)) (g : Graph) (idx : String),
    (processFields g idx fs).1.models.length = g.models.length + objCountFields fs ∧
    (processFields g idx fs).1.counter = g.counter + objCountFields fs ∧
    hasObjFields (processFields g idx fs).2 = false
  | [], g, idx => by simp [processFields, objCountFields, hasObjFields]
  | (k, t) :: fs, g, idx => by
    obtain ⟨a1, a2, a3⟩ := processTy_count t g (some (idx, k))
    obtain ⟨b1, b2, b3⟩ := processFields_count fs (processTy g (some (idx, k)) t).1 idx
    simp only [processFields, objCountFields, hasObjFields, a3, b3, b1, b2, a1, a2]
    refine ⟨by omega, by omega, rfl⟩
end

/-! ## which models: indices and key lists, for graphs whose indices come from the counter -/

/-- the indices handed out by `n` calls of `Index` starting at counter value `k` -/
def newIdxs (k n : Nat) : List String := (List.range n).map (fun j => indexOf (k + j))

theorem newIdxs_zero (k : Nat) : newIdxs k 0 = [] := rfl

theorem newIdxs_add (k a b : Nat) : newIdxs k (a + b) = newIdxs k a ++ newIdxs (k + a) b := by
  unfold newIdxs
  rw [List.range_add, List.map_append, List.map_map]
  congr 1
  apply List.map_congr_left
  intro j _
  simp [Nat.add_assoc]

theorem newIdxs_succ (k n : Nat) : newIdxs k (1 + n) = indexOf k :: newIdxs (k + 1) n := by
  rw [newIdxs_add]
  simp [newIdxs]

theorem mem_newIdxs {k n : Nat} {i : String} : i ∈ newIdxs k n ↔ ∃ j, j < n ∧ i = indexOf (k + j) := by
  simp [newIdxs, eq_comm]

theorem newIdxs_nodup (k n : Nat) : (newIdxs k n).Nodup := by
  unfold newIdxs
  refine List.Pairwise.map _ (fun a b hab e => hab ?_) List.nodup_range
  have := indexOf_inj e
  omega

/-- the models `new` are registered with the `n` indices from counter value `k` on and carry the key lists `ks` -/
structure NewModels (k : Nat) (new : List Model) (n : Nat) (ks : List (List String)) : Prop where
  idx : new.map (·.idx) = newIdxs k n
  keys : new.map (fun m => m.fields.map (·.1)) = ks

theorem NewModels.nil (k : Nat) : NewModels k [] 0 [] := ⟨rfl, rfl⟩

theorem NewModels.append {k a b : Nat} {n1 n2 : List Model} {k1 k2 : List (List String)}
    (h1 : NewModels k n1 a k1) (h2 : NewModels (k + a) n2 b k2) : NewModels k (n1 ++ n2) (a + b) (k1 ++ k2) :=
  ⟨by rw [List.map_append, h1.idx, h2.idx, newIdxs_add], by rw [List.map_append, h1.keys, h2.keys]⟩

theorem regNew_bounded {g : Graph} (hb : Bounded g) (pm : Option (String × String)) (fs : Fields) :
    Bounded (regNew g pm fs) := (Ext.regNew g pm fs).bounded hb

mutual
theorem processTy_new : ∀ (t : Ty) (g : Graph) (pm : Option (String × String)), Bounded g →
    ∃ new, (processTy g pm t).1.models = g.models ++ new ∧ Bounded (processTy g pm t).1 ∧
      NewModels g.counter new (objCount t) (objKeys t)
  | .obj fs, g, pm, hb => by
    rw [processTy_obj]
    have hb1 := regNew_bounded hb pm fs
    obtain ⟨new2, hm, hb2, hn, hk⟩ := processFields_new fs (regNew g pm fs) (indexOf g.counter) hb1
    have hc : (regNew g pm fs).counter = g.counter + 1 := rfl
    rw [hc] at hn
    have hfresh2 : indexOf g.counter ∉ new2.map (·.idx) := by
      rw [hn.idx, mem_newIdxs]
      rintro ⟨j, _, e⟩
      have := indexOf_inj e
      omega
    have hfresh : indexOf g.counter ∉ g.models.map (·.idx) := hb.fresh (Nat.le_refl _)
    refine ⟨{ idx := indexOf g.counter, fields := (processFields (regNew g pm fs) (indexOf g.counter) fs).2 } :: new2,
      ?_, ?_, ?_⟩
    · rw [setFields_models, hm]
      show setF _ _ (g.models ++ [_] ++ new2) = _
      rw [setF_append, setF_append, setF_of_not_mem hfresh, setF_of_not_mem hfresh2]
      simp [setF]
    · intro m hm'
      rw [setFields_models] at hm'
      rcases mem_setF hm' with ⟨h, _⟩ | ⟨m0, h, _, rfl⟩
      · simpa using hb2 m h
      · simpa using hb2 m0 h
    · refine ⟨?_, ?_⟩
      · simp only [List.map_cons, objCount, newIdxs_succ, hn.idx]
      · simp only [List.map_cons, objKeys, hn.keys, hk]
  | .list t, g, pm, hb => by simpa [processTy, objCount, objKeys] using processTy_new t g pm hb
  | .dict t, g, pm, hb => by simpa [processTy, objCount, objKeys] using processTy_new t g pm hb
  | .opt t, g, pm, hb => by simpa [processTy, objCount, objKeys] using processTy_new t g pm hb
  | .union ts, g, pm, hb => by simpa [processTy, objCount, objKeys] using processList_new ts g pm hb
  | .tuple ts, g, pm, hb => by simpa [processTy, objCount, objKeys] using processList_new ts g pm hb
  | .int, g, pm, hb | .float, g, pm, hb | .bool, g, pm, hb | .str, g, pm, hb | .null, g, pm, hb
  | .unknown, g, pm, hb | .ser _, g, pm, hb | .lit _ _, g, pm, hb | .ptr _, g, pm, hb =>
    ⟨[], by simp [processTy], by simpa [processTy] using hb, by simpa [objCount, objKeys] using NewModels.nil _⟩
theorem processList_new : ∀ (ts : List Ty) (g : Graph) (pm : Option (String × String)), Bounded g →
    ∃ new, (processList g pm ts).1.models = g.models ++ new ∧ Bounded (processList g pm ts).1 ∧
      NewModels g.counter new (objCountList ts) (objKeysList ts)
  | [], g, pm, hb => ⟨[], by simp [processList], by simpa [processList] using hb,
      by simpa [objCountList, objKeysList] using NewModels.nil _⟩
  | t :: ts, g, pm, hb => by
    obtain ⟨n1, m1, b1, s1⟩ := processTy_new t g pm hb
    obtain ⟨n2, m2, b2, s2⟩ := processList_new ts (processTy g pm t).1 pm b1
    rw [(processTy_count t g pm).2.1] at s2
    refine ⟨n1 ++ n2, ?_, ?_, ?_⟩
    · simp only [processList, m2, m1, List.append_assoc]
    · simpa [processList] using b2
    · simpa [objCountList, objKeysList] using s1.append s2
theorem processFields_new : ∀ (fs : List (String × Ty)) (g : Graph) (idx : String), Bounded g →
    ∃ new, (processFields g idx fs).1.models = g.models ++ new ∧ Bounded (processFields g idx fs).1 ∧
      NewModels g.counter new (objCountFields fs) (objKeysFields fs) ∧
      (processFields g idx fs).2.map (·.1) = fs.map (·.1)
  | [], g, idx, hb => ⟨[], by simp [processFields], by simpa [processFields] using hb,
      by simpa [objCountFields, objKeysFields] using NewModels.nil _, by simp [processFields]⟩
  | (k, t) :: fs, g, idx, hb => by
    obtain ⟨n1, m1, b1, s1⟩ := processTy_new t g (some (idx, k)) hb
    obtain ⟨n2, m2, b2, s2, k2⟩ := processFields_new fs (processTy g (some (idx, k)) t).1 idx b1
    rw [(processTy_count t g (some (idx, k))).2.1] at s2
    refine ⟨n1 ++ n2, ?_, ?_, ?_, ?_⟩
    · simp only [processFields, m2, m1, List.append_assoc]
    · simpa [processFields] using b2
    · simpa [objCountFields, objKeysFields] using s1.append s2
    · simp [processFields, k2]
end

end J2M.RSound
