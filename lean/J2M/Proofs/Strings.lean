/-
  Helper developments for C09 / C10, split by topic:
  * `StringsLex`      — `json.dumps` tokens read back by the Python string-literal reader (`pyLexStr`)
  * `StringsLit`      — overflow rule, `insertUniq`, the sorted union of literal value lists
  * `StringsUnion`    — loop invariant and explicit result of `DUnion.__init__`'s literal folding
  * `StringsReg`      — `detectStr`, `dedupStr`, `resolve`, replacement chains
  * `StringsInt`      — `int(str(i)) = i`
  * `StringsKinds`    — `Ty.kinds`, `removeByName`, kinds of detected types
  * `StringsOptimize` — `optimize` / `generate` never introduce a kind
-/
import J2M.Proofs.StringsLex
import J2M.Proofs.StringsLit
import J2M.Proofs.StringsUnion
import J2M.Proofs.StringsReg
import J2M.Proofs.StringsInt
import J2M.Proofs.StringsKinds
import J2M.Proofs.StringsOptimize
